(* C08 — pruning afterwards equals computing with the stricter parameters.
   On the faithful model (and on the unchanged implementation) this is FALSE for min_delta:
   post-hoc pruning measures a leaf against parent.height (the smallest own minimum among the
   parent's children), compute measures it against the value of the joining pixel. *)
From Coq Require Import ZArith List Bool Lia.
From Dendro Require Import Base Tree Grid Criteria Compute Prune PruneGhost.
Import ListNotations.
Open Scope Z_scope.

(* the property as stated, for the built-in parameters on a grid *)
Definition C08_statement : Prop :=
  forall shape per vals minv d0 n0 d1 n1,
    d0 <= d1 -> fst n0 * snd n1 <= fst n1 * snd n0 ->
    fst (c08_view shape (AdjGrid per) vals minv d0 n0 d1 n1) = true.

(* refuted: data [3,1,2], min_value 0, compute(min_delta=0) then prune(min_delta=1)
   collapses to one leaf, compute(min_delta=1) keeps a branch with two leaves *)
Theorem C08_refuted : ~ C08_statement.
Proof.
  intros H.
  specialize (H [3] [false] [Some 3; Some 1; Some 2] (Some 0) 0 (0, 1) 1 (0, 1)).
  assert (E : fst (c08_view [3] (AdjGrid [false]) [Some 3; Some 1; Some 2] (Some 0) 0 (0, 1) 1 (0, 1)) = false)
    by (vm_compute; reflexivity).
  rewrite H in E; [discriminate | lia | cbn; lia].
Qed.
Print Assumptions C08_refuted.

(* even pruning with the very parameters the dendrogram was computed with changes it *)
Theorem C08_refuted_same_parameters :
  fst (c08_view [3] (AdjGrid [false]) [Some 3; Some 1; Some 2] (Some 0) 1 (0, 1) 1 (0, 1)) = false.
Proof. vm_compute. reflexivity. Qed.

(* the repaired variant (post-hoc min_delta against the attach value) agrees on the witnesses;
   its general statement is open (not proved): *)
Definition C08_repaired_statement : Prop :=
  forall shape per vals minv d0 n0 d1 n1,
    Forall (fun n => 0 < n) shape -> d0 <= d1 -> fst n0 * snd n1 <= fst n1 * snd n0 ->
    snd (c08_view shape (AdjGrid per) vals minv d0 n0 d1 n1) = true.

Theorem C08_repaired_on_witnesses :
  snd (c08_view [3] (AdjGrid [false]) [Some 3; Some 1; Some 2] (Some 0) 0 (0, 1) 1 (0, 1)) = true /\
  snd (c08_view [3] (AdjGrid [false]) [Some 3; Some 1; Some 2] (Some 0) 1 (0, 1) 1 (0, 1)) = true.
Proof. split; vm_compute; reflexivity. Qed.
Print Assumptions C08_repaired_on_witnesses.

(* min_npix alone (min_delta = 0 in both runs): believed to hold; open (not proved) *)
Definition C08_npix_statement : Prop :=
  forall shape per vals minv n0 n1,
    Forall (fun n => 0 < n) shape -> fst n0 * snd n1 <= fst n1 * snd n0 ->
    fst (c08_view shape (AdjGrid per) vals minv 0 n0 0 n1) = true.

(* What does hold in general (proved, any criteria lists, any adjacency): the result of
   pruning is stable under every later prune with criteria that are no stricter - so the
   dendrogram obtained post hoc with the stricter parameters is, like the one computed with
   them, a fixpoint of pruning with any laxer ones. *)
From Dendro Require Import PruneMono.
Theorem C08_pruned_result_is_stable_under_laxer_parameters :
  forall shape a vals minv cs_lax cs_strict cs_later,
    weaker cs_later cs_strict ->
    prune_struct cs_later (prune_struct cs_strict (compute shape a vals minv cs_lax)) =
    prune_struct cs_strict (compute shape a vals minv cs_lax).
Proof. intros. apply prune_absorbs. assumption. Qed.
Print Assumptions C08_pruned_result_is_stable_under_laxer_parameters.

(* With min_delta = 0 the same-parameter case DOES hold, and is proved for every adjacency,
   every input and every criteria list without a positive min_delta (min_npix, min_peak,
   min_sum, contains_seeds): prune() with the very criteria a dendrogram was computed with
   changes nothing.  (With min_delta > 0 it is false: C08_refuted_same_parameters, K1.)
   This discharges, for such criteria, the hypotheses that C07_noop_after_compute leaves to
   the caller. *)
From Dendro Require Import PruneSame.
Theorem C08_same_criteria_without_min_delta_change_nothing :
  forall shape per vals minv cs,
    Forall (fun n => 0 < n) shape -> nodelta cs = true ->
    prune_struct cs (compute shape (AdjGrid per) vals minv cs) = compute shape (AdjGrid per) vals minv cs.
Proof. exact grid_prune_same. Qed.
Print Assumptions C08_same_criteria_without_min_delta_change_nothing.

Theorem C08_same_criteria_without_min_delta_user_adjacency :
  forall shape tb vals minv cs,
    (forall a b, In b (nbrs_custom tb a) -> In a (nbrs_custom tb b)) -> nodelta cs = true ->
    prune_struct cs (compute shape (AdjCustom tb) vals minv cs) = compute shape (AdjCustom tb) vals minv cs.
Proof. exact custom_prune_same. Qed.
Print Assumptions C08_same_criteria_without_min_delta_user_adjacency.

(* non-vacuity: min_npix = 2 removes two of the five structures the lax run has *)
Example C08_same_criteria_premises_hold :
  let v := [Some 5; Some 4; Some 1; Some 6; Some 5; Some 1; Some 2] in
  nodelta [MinDelta 0; MinNpix 2 1] = true /\
  length (fnodes (compute [7] (AdjGrid [false]) v None [MinDelta 0; MinNpix 0 1])) = 5%nat /\
  length (fnodes (compute [7] (AdjGrid [false]) v None [MinDelta 0; MinNpix 2 1])) = 3%nat.
Proof. vm_compute. repeat split. Qed.

(* ... and when the later parameters are no stricter than those of the computation (min_delta 0
   in the prune call, min_npix no larger, the same other criteria; the computation may have used
   any min_delta), "the stricter parameters" are the computation's own and C08 holds: the pruned
   dendrogram IS the computed one (PruneLaxer.v).  Through Dendrogram.prune() itself a min_delta
   argument of 0 means "inherit the recorded value", so with d0 > 0 this situation is one of the
   model's prune_struct only; the call-level statement for d0 = 0 is
   C07_prune_without_arguments_after_compute. *)
From Dendro Require Import PruneLaxer.
Theorem C08_holds_when_the_later_parameters_are_no_stricter :
  forall shape per vals minv d0 n0 m0 n m user,
    Forall (fun k => 0 < k) shape -> 0 < m -> 0 < m0 -> n * m0 <= n0 * m -> nodelta user = true ->
    prune_struct (MinDelta 0 :: MinNpix n m :: user)
                 (compute shape (AdjGrid per) vals minv (MinDelta d0 :: MinNpix n0 m0 :: user))
    = compute shape (AdjGrid per) vals minv (MinDelta d0 :: MinNpix n0 m0 :: user).
Proof.
  intros. apply grid_prune_laxer; [assumption |]. apply laxer_after_builtin; try assumption. reflexivity.
Qed.
Print Assumptions C08_holds_when_the_later_parameters_are_no_stricter.
