(* C01 — every above-threshold pixel is labelled exactly once; nothing else is.
   Statements only; each is closed by `exact <lemma>` so it cannot be weakened
   quietly.  `order` stands for the processing order, `run` for the loop of
   Dendrogram.compute, `make_trunk` for _make_trunk, `compute` for the whole. *)
From Coq Require Import ZArith List Bool Permutation.
From Dendro Require Import Base Tree Grid Criteria Compute ComputeInv ComputeThm Concrete.
Import ListNotations.
Open Scope Z_scope.

(* a pixel is kept iff it is a number strictly above min_value (NaN = None never) *)
Theorem C01_kept_iff_above_threshold :
  forall vals minv p v,
    In (p, v) (kept vals minv) <->
    exists i, nth_error vals i = Some (Some v) /\ p = Z.of_nat i /\ above minv v = true.
Proof. exact kept_spec. Qed.
Print Assumptions C01_kept_iff_above_threshold.

(* the default threshold excludes no number *)
Theorem C01_default_threshold_keeps_every_number : forall v, above None v = true.
Proof. exact default_threshold_keeps_all. Qed.
Print Assumptions C01_default_threshold_keeps_every_number.

(* the model's processing order is a duplicate-free arrangement of the kept pixels *)
Theorem C01_order_is_the_kept_pixels :
  forall vals minv,
    Permutation (order_of (kept vals minv)) (kept vals minv) /\
    NoDup (map fst (order_of (kept vals minv))).
Proof. intros vals minv. split; [apply order_of_perm | apply order_of_NoDup]. Qed.
Print Assumptions C01_order_is_the_kept_pixels.

(* every processed pixel lies in exactly one own-pixel list, exactly once
   (for ANY adjacency, ANY criterion oracle, ANY order) *)
Theorem C01_exactly_once :
  forall adj indep order, Permutation (fpv (run adj indep order)) order.
Proof. exact run_pixels. Qed.
Print Assumptions C01_exactly_once.

(* after the final test: no pixel is listed twice *)
Theorem C01_trunk_pixels_distinct :
  forall adj indep order,
    NoDup (map fst order) -> sorted_desc order ->
    (forall a b, In a (map fst order) -> In b (map fst order) -> In b (adj a) -> In a (adj b)) ->
    NoDup (fregion (make_trunk indep (run adj indep order))).
Proof. exact trunk_NoDup. Qed.
Print Assumptions C01_trunk_pixels_distinct.

(* a pixel is assigned iff it is kept and its connected component did not end as a
   single parentless leaf failing the criteria (which is then dropped as a whole) *)
Theorem C01_assigned_iff :
  forall adj indep order,
    NoDup (map fst order) -> sorted_desc order ->
    (forall a b, In a (map fst order) -> In b (map fst order) -> In b (adj a) -> In a (adj b)) ->
    forall p,
      In p (fregion (make_trunk indep (run adj indep order))) <->
      In p (map fst order) /\
      ~ exists r, In r (run adj indep order) /\ In p (region r) /\ dropped indep r.
Proof. exact assigned_iff. Qed.
Print Assumptions C01_assigned_iff.

(* ... where the roots before the final test are exactly the connected components *)
Theorem C01_roots_are_components :
  forall adj indep order,
    NoDup (map fst order) -> sorted_desc order ->
    (forall a b, In a (map fst order) -> In b (map fst order) -> In b (adj a) -> In a (adj b)) ->
    forall r x y, In r (run adj indep order) -> In x (region r) ->
      (In y (region r) <-> conn adj (map fst order) x y).
Proof. exact root_is_component. Qed.
Print Assumptions C01_roots_are_components.

(* label map / structure_at: the owner of an own pixel is that structure, and
   unassigned pixels have label -1; relabelling does not move pixels *)
Theorem C01_label_of_own_pixel :
  forall f u p, NoDup (fregion f) -> In u (fnodes f) -> In p (opix u) -> owner f p = tid u.
Proof. exact owner_of_own_pixel. Qed.
Print Assumptions C01_label_of_own_pixel.

Theorem C01_label_unassigned : forall f p, ~ In p (fregion f) -> owner f p = -1.
Proof. exact owner_unassigned. Qed.
Print Assumptions C01_label_unassigned.

Theorem C01_relabel_keeps_pixels : forall f, fregion (relabel_forest f) = fregion f.
Proof. exact relabel_forest_fregion. Qed.
Print Assumptions C01_relabel_keeps_pixels.

(* the same, with every hypothesis discharged, for the concrete computation on an
   n-dimensional grid (default or periodic adjacency, built-in criteria lists): the
   assigned pixels of `compute` are exactly the numbers strictly above min_value whose
   component was not dropped, and none is listed twice *)
Theorem C01_compute_assigned_iff :
  forall shape per vals minv cs, Forall (fun n => 0 < n) shape ->
  forall p,
    In p (fregion (compute shape (AdjGrid per) vals minv cs)) <->
    (exists v i, nth_error vals i = Some (Some v) /\ p = Z.of_nat i /\ above minv v = true) /\
    ~ exists r, In r (run (nbrs shape per) (indep_of cs) (order_of (kept vals minv))) /\
                In p (region r) /\ dropped (indep_of cs) r.
Proof. exact grid_assigned_iff. Qed.
Print Assumptions C01_compute_assigned_iff.

Theorem C01_compute_pixels_distinct :
  forall shape per vals minv cs, Forall (fun n => 0 < n) shape ->
    NoDup (fregion (compute shape (AdjGrid per) vals minv cs)).
Proof. exact grid_pixels_distinct. Qed.
Print Assumptions C01_compute_pixels_distinct.

(* with the built-in parameters only, a connected component is kept iff it spans at least
   min_delta and has at least min_npix pixels: an order-independent characterisation of the
   "isolated leaf failing the criteria" exception *)
Theorem C01_builtin_characterisation :
  forall adj d n den, 0 < den ->
  forall order,
    NoDup (map fst order) -> sorted_desc order ->
    (forall a b, In a (map fst order) -> In b (map fst order) -> In b (adj a) -> In a (adj b)) ->
    forall r, In r (run adj (indep_of [MinDelta d; MinNpix n den]) order) ->
      (~ dropped (indep_of [MinDelta d; MinNpix n den]) r <-> region_passes d n den r).
Proof. exact builtin_kept_iff_region_passes. Qed.
Print Assumptions C01_builtin_characterisation.

(* non-vacuity: a concrete input meeting the hypotheses, with a dropped leaf *)
Example C01_example :
  let vals := [Some 5; Some 1; None; Some 3; Some 4] in
  label_map 5 (compute [5] (AdjGrid [false]) vals (Some 1) [MinDelta 0; MinNpix 2 1]) = [-1; -1; -1; 0; 0].
Proof. vm_compute. reflexivity. Qed.

(* saturated (+inf) pixels: the model is over Z; embedding +inf as one finite number M far above
   every finite value and the threshold keeps the threshold test and every comparison of two
   pixel values (ExtVal.v; the correspondence check runs the implementation on data with +inf
   against the model on the embedded data) *)
From Dendro Require Import ExtVal.
Theorem C01_saturated_pixels_threshold :
  forall B M, 2 * B < M -> forall t x, - B <= t <= B -> bounded B x -> ext_above t x = (t <? emb M x).
Proof. exact emb_above. Qed.
Theorem C01_saturated_pixels_order :
  forall B M, 2 * B < M -> forall x y, bounded B x -> bounded B y ->
    ext_ltb x y = (emb M x <? emb M y) /\ ext_eqb x y = (emb M x =? emb M y).
Proof. intros B M H x y Hx Hy. split; [exact (emb_ltb B M H x y Hx Hy) | exact (emb_eqb B M H x y Hx Hy)]. Qed.
Print Assumptions C01_saturated_pixels_order.

(* K10: an INTEGER threshold is converted to a double before float64 data are compared with it
   (Rounding.v): a pixel strictly above the threshold can be left out - refuted with the witness
   2^53+4 against the threshold 2^53+3; a threshold that is a double is compared exactly *)
From Dendro Require Import Rounding.
Theorem C01_integer_threshold_refuted :
  exists d t, to_double d = d /\ t < d /\ numpy_double_gt_int d t = false.
Proof. exact integer_threshold_refuted. Qed.
Theorem C01_double_threshold_exact : forall d t, to_double t = t -> numpy_double_gt_int d t = (t <? d).
Proof. exact double_threshold_exact. Qed.
Print Assumptions C01_integer_threshold_refuted.
