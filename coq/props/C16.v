(* C16 — hierarchy invariant under axis relabelling and order-preserving value maps. *)
From Coq Require Import ZArith List Bool Permutation.
From Dendro Require Import Base Tree Grid GridLemmas Criteria Compute ComputeInv ComputeThm Symmetry.
Import ListNotations.
Open Scope Z_scope.

(* a strictly increasing value map, with criteria that transform along, commutes with the
   whole construction loop: the same structures with the same identifiers, parents, child
   order and pixels (values mapped) - for every adjacency, every order, ties included *)
Theorem C16_value_map :
  forall (f : Z -> Z), (forall a b, a < b -> f a < f b) ->
  forall indep indep',
    (forall o v, o <> [] -> indep' (map (pvmap f) o) (Some (f v)) = indep o (Some v)) ->
  forall adj order,
    run adj indep' (map (pvmap f) order) = map (tmap f) (run adj indep order).
Proof. exact run_value_map. Qed.
Print Assumptions C16_value_map.

(* the built-in criteria transform along with v -> a*v + b (a > 0) when min_delta becomes
   a*min_delta (and min_peak a*p + b); min_npix and seeds do not look at values *)
Theorem C16_affine_criteria :
  forall a b cs o v, 0 < a -> o <> [] -> ~ (exists s, In (MinSum s) cs) ->
    indep_of (map (crit_affine a b) cs) (map (pvmap (fun x => a * x + b)) o) (Some (a * v + b))
    = indep_of cs o (Some v).
Proof. exact affine_criteria. Qed.
Print Assumptions C16_affine_criteria.

(* without pruning parameters ANY strictly increasing map does (no criterion looks at values) *)
Theorem C16_any_increasing_map_without_pruning :
  forall (f : Z -> Z), (forall a b, a < b -> f a < f b) ->
  forall adj order,
    run adj (fun _ _ => true) (map (pvmap f) order) = map (tmap f) (run adj (fun _ _ => true) order).
Proof. intros f Hf adj order. apply (run_value_map f Hf). reflexivity. Qed.
Print Assumptions C16_any_increasing_map_without_pruning.

(* arbitrary inputs (ties): the parentless regions are the connected components of the kept
   pixels, whatever the order, the tie-breaking and the criteria *)
Theorem C16_regions_do_not_depend_on_the_order :
  forall adj indep1 indep2 order1 order2,
    NoDup (map fst order1) -> sorted_desc order1 ->
    NoDup (map fst order2) -> sorted_desc order2 ->
    (forall p, In p (map fst order1) <-> In p (map fst order2)) ->
    (forall a b, In a (map fst order1) -> In b (map fst order1) -> In b (adj a) -> In a (adj b)) ->
    forall r1 x, In r1 (run adj indep1 order1) -> In x (region r1) ->
      exists r2, In r2 (run adj indep2 order2) /\ In x (region r2) /\
                 forall y, In y (region r1) <-> In y (region r2).
Proof. exact roots_order_independent. Qed.
Print Assumptions C16_regions_do_not_depend_on_the_order.

(* ... and with the built-in parameters, whether such a region is kept depends only on the
   region: it spans at least min_delta and has at least min_npix pixels *)
Theorem C16_kept_regions_do_not_depend_on_the_order :
  forall adj d n den, 0 < den ->
  forall order,
    NoDup (map fst order) -> sorted_desc order ->
    (forall a b, In a (map fst order) -> In b (map fst order) -> In b (adj a) -> In a (adj b)) ->
    forall r, In r (run adj (indep_of [MinDelta d; MinNpix n den]) order) ->
      (~ dropped (indep_of [MinDelta d; MinNpix n den]) r <-> region_passes d n den r).
Proof. exact builtin_kept_iff_region_passes. Qed.
Print Assumptions C16_kept_regions_do_not_depend_on_the_order.

(* axis permutations, flips, added unit axes and padding are graph isomorphisms /
   embeddings of the grid adjacency, which is symmetric in every dimension *)
Theorem C16_grid_adjacency_symmetric :
  forall shape per p q, Forall (fun n => 0 < n) shape ->
    In q (nbrs shape per p) -> In p (nbrs shape per q).
Proof. exact nbrs_sym. Qed.
Print Assumptions C16_grid_adjacency_symmetric.

(* ------------------------------------------------------------------------------------------
   Relabelling the pixels.  tsim g t t' : t' is the structure t on the pixels mapped by g -
   the same own pixels with the same values, children that correspond one to one;
   identifiers, the order of own pixels and the order of children are not compared (they are
   naming: the final identifiers go by smallest pixel index, which a relabelling changes). *)
From Dendro Require Import PixelMap GridIso AxisPerm GridSym.

Theorem C16_tsim_means_same_pixels :
  forall g t t', tsim g t t' ->
    Permutation (map (gpv g) (town t)) (town t') /\ rsim g (tkids t) (tkids t') /\
    is_leaf t' = is_leaf t /\ vmax t' = vmax t /\
    (forall x, In x (region t') <-> exists q, In q (region t) /\ x = g q).
Proof.
  intros g t t' H. split; [exact (tsim_own g t t' H)|]. split; [exact (tsim_kids g t t' H)|].
  split; [exact (tsim_leaf g t t' H)|]. split; [exact (tsim_vmax g t t' H)|]. intros x. exact (tsim_region_In g t t' x H).
Qed.
Print Assumptions C16_tsim_means_same_pixels.

(* every isomorphism of the adjacency graph on the processed pixels commutes with the whole
   construction loop, for every processing order, when the criteria of the two runs agree on
   corresponding own lists of processed pixels (criteria that do not look at positions do;
   contains_seeds does with the seeds mapped along, see below) *)
Theorem C16_graph_isomorphism :
  forall (g : Z -> Z) (dom : Z -> Prop) indep indep',
    (forall o o' v, own_in_dom dom o -> Permutation (map (gpv g) o) o' -> indep' o' v = indep o v) ->
  forall adj adj',
    (forall p q, dom p -> dom q -> (In (g q) (adj' (g p)) <-> In q (adj p))) ->
  forall order, (forall pv, In pv order -> dom (fst pv)) ->
    rsim g (run adj indep order) (run adj' indep' (map (gpv g) order)).
Proof. exact run_pixel_map. Qed.
Print Assumptions C16_graph_isomorphism.

(* min_delta, min_npix, min_peak, min_sum are such criteria *)
Theorem C16_builtin_criteria_ignore_positions :
  forall g cs o o' v, (forall l, ~ In (Seeds l) cs) ->
    Permutation (map (gpv g) o) o' -> indep_of cs o' v = indep_of cs o v.
Proof. exact builtin_indep_rel. Qed.
Print Assumptions C16_builtin_criteria_ignore_positions.

(* contains_seeds with the seed positions mapped along (g injective on the processed pixels and
   the seeds) answers alike on corresponding own lists *)
Theorem C16_seeds_mapped_along :
  forall g (dom : Z -> Prop) cs o o' v,
    (forall a b, dom a -> dom b -> g a = g b -> a = b) ->
    (forall l, In (Seeds l) cs -> forall s, In s l -> dom s) ->
    (forall pv, In pv o -> dom (fst pv)) ->
    Permutation (map (gpv g) o) o' ->
    indep_of (map (map_crit g) cs) o' v = indep_of cs o v.
Proof. exact mapped_indep_rel. Qed.
Print Assumptions C16_seeds_mapped_along.

(* Dendrogram.compute on two grids related by an isomorphism g, the second array carrying
   the same above-threshold values at the mapped pixels and nothing else above the threshold
   (padding below threshold or NaN): pairwise distinct values => the same hierarchy *)
Theorem C16_relabelled_hierarchy :
  forall shape shape' per per' g, giso shape per shape' per' g ->
  forall vals vals' minv cs,
    (forall pv, In pv (kept vals minv) -> inrange shape (fst pv)) ->
    carried g (kept vals minv) (kept vals' minv) ->
    (forall l, ~ In (Seeds l) cs) ->
    NoDup (map snd (kept vals minv)) ->
    rsim g (compute shape (AdjGrid per) vals minv cs) (compute shape' (AdjGrid per') vals' minv cs).
Proof. exact compute_relabelled. Qed.
Print Assumptions C16_relabelled_hierarchy.

(* ... and with contains_seeds among the criteria, the seeds mapped along with the pixels *)
Theorem C16_relabelled_hierarchy_with_seeds :
  forall shape shape' per per' g, giso shape per shape' per' g ->
  forall vals vals' minv cs,
    (forall pv, In pv (kept vals minv) -> inrange shape (fst pv)) ->
    carried g (kept vals minv) (kept vals' minv) ->
    (forall l, In (Seeds l) cs -> forall s, In s l -> inrange shape s) ->
    NoDup (map snd (kept vals minv)) ->
    rsim g (compute shape (AdjGrid per) vals minv cs)
           (compute shape' (AdjGrid per') vals' minv (map (map_crit g) cs)).
Proof. exact compute_relabelled_seeds. Qed.
Print Assumptions C16_relabelled_hierarchy_with_seeds.

(* arbitrary values (ties): the parentless regions still correspond *)
Theorem C16_relabelled_trunk_regions_with_ties :
  forall shape shape' per per' g, giso shape per shape' per' g ->
  forall vals vals' minv cs,
    (forall pv, In pv (kept vals minv) -> inrange shape (fst pv)) ->
    carried g (kept vals minv) (kept vals' minv) ->
    (forall l, ~ In (Seeds l) cs) ->
    allpos shape' ->
    forall r' x', In r' (run (nbrs shape' per') (indep_of cs) (order_of (kept vals' minv))) -> In x' (region r') ->
    exists r, In r (run (nbrs shape per) (indep_of cs) (order_of (kept vals minv))) /\
              forall y', In y' (region r') <-> exists y, In y (region r) /\ y' = g y.
Proof. exact roots_relabelled. Qed.
Print Assumptions C16_relabelled_trunk_regions_with_ties.

(* the relabellings of the property ARE isomorphisms, in any number of dimensions and along
   ANY axis a (axis_ok: the two shapes agree except at axis a; 0 = outermost):
   flipping an axis (periodic or not) *)
Theorem C16_flip_any_axis :
  forall a shape per n b, 0 < n -> axis_ok a shape shape per per n n b b ->
    giso shape per shape per (axis_map a shape shape (flip n)).
Proof. intros a shape per n b Hn H. exact (giso_axis_map a shape shape per per n n b b (flip n) (sigma_ok_flip n b Hn) H). Qed.
(* padding a (non-periodic) axis with w cells before and w' after *)
Theorem C16_padding_any_axis :
  forall a shape shape' per n w w', 0 < n -> 0 <= w -> 0 <= w' ->
    axis_ok a shape shape' per per n (n + w + w') false false ->
    giso shape per shape' per (axis_map a shape shape' (pad w)).
Proof.
  intros a shape shape' per n w w' Hn Hw Hw' H.
  exact (giso_axis_map a shape shape' per per n (n + w + w') false false (pad w) (sigma_ok_pad n w w' Hn Hw Hw') H).
Qed.
(* a new axis of length one at any position: flat indices do not change *)
Theorem C16_unit_axis_any_position :
  forall a shape per, allpos shape -> length per = length shape ->
    giso shape per (inserted a 1 shape) (inserted a false per) (fun p => p).
Proof. exact giso_unit_at. Qed.
(* exchanging any two neighbouring axes a, a+1 (every axis permutation is a product of these) *)
Theorem C16_exchange_neighbouring_axes :
  forall a shape per, allpos shape -> (S a < length shape)%nat -> length per = length shape ->
    giso shape per (swapped a shape) (swapped a per) (swap_at a shape).
Proof. exact giso_swap_at. Qed.
(* ANY permutation of the axes (numpy transpose): axes = (length, periodic?) pairs; the
   permutation is reached by exchanges of neighbours ks, and the composed relabelling
   swaps_map ks is an isomorphism (AxisPerm.v; tied to numpy's transpose by the relabel tie) *)
Theorem C16_any_axis_permutation :
  forall axes axes' : list (Z * bool), Permutation axes axes' -> allpos (map fst axes) ->
  exists ks, Forall (fun k => (S k < length axes)%nat) ks /\ swaps ks axes = axes' /\
    giso (map fst axes) (map snd axes) (map fst axes') (map snd axes') (swaps_map ks (map fst axes)).
Proof. exact giso_axis_permutation. Qed.
Theorem C16_sequence_of_exchanges :
  forall ks shape per, allpos shape -> length per = length shape ->
    Forall (fun k => (S k < length shape)%nat) ks ->
    giso shape per (swaps ks shape) (swaps ks per) (swaps_map ks shape).
Proof. exact giso_swaps. Qed.
Print Assumptions C16_any_axis_permutation.
(* isomorphisms compose *)
Theorem C16_isomorphisms_compose :
  forall s0 p0 s1 p1 s2 p2 g1 g2,
    giso s0 p0 s1 p1 g1 -> giso s1 p1 s2 p2 g2 -> giso s0 p0 s2 p2 (fun p => g2 (g1 p)).
Proof. exact giso_compose. Qed.
Print Assumptions C16_flip_any_axis.
Print Assumptions C16_padding_any_axis.
Print Assumptions C16_unit_axis_any_position.
Print Assumptions C16_exchange_neighbouring_axes.

(* non-vacuity: flipping the middle axis of a 2 x 3 x 2 array *)
Example C16_flip_example :
  giso [2; 3; 2] [false; false; false] [2; 3; 2] [false; false; false] (axis_map 1 [2; 3; 2] [2; 3; 2] (flip 3)) /\
  map (axis_map 1 [2; 3; 2] [2; 3; 2] (flip 3)) [0; 1; 2; 3; 4; 5; 6; 7; 8; 9; 10; 11] = [4; 5; 2; 3; 0; 1; 10; 11; 8; 9; 6; 7].
Proof.
  split; [|vm_compute; reflexivity]. apply C16_flip_any_axis with (b := false); [reflexivity|].
  cbn. repeat split; try reflexivity. repeat constructor.
Qed.

(* adjacency in decomposed form: the statement all of the above rest on *)
Theorem C16_adjacency_decomposed :
  forall n r b pr c p' d q',
    allpos r -> 0 <= c < n -> 0 <= d < n -> 0 <= p' < size r -> 0 <= q' < size r ->
    (In (d * size r + q') (nbrs (n :: r) (b :: pr) (c * size r + p'))
     <-> (q' = p' /\ adj1 n b c d) \/ (d = c /\ In q' (nbrs r pr p'))).
Proof. exact nbrs_decomp. Qed.
Print Assumptions C16_adjacency_decomposed.

(* ------------------------------------------------------------------------------------------
   Arbitrary values (ties included), no pruning: the NUMBER OF LEAVES is preserved - the
   leaves of the two dendrograms correspond one to one, a leaf's top pixels (its peak
   plateau) going to the top pixels of its partner.  Through C05: leaves <-> regional maxima,
   which are a notion of the valued adjacency graph alone (LeafIso.v). *)
From Dendro Require Import RegMax LeafIso.

Theorem C16_leaves_correspond_with_ties :
  forall shape shape' per per' g, giso shape per shape' per' g -> allpos shape -> allpos shape' ->
  forall vals vals' minv,
    (forall pv, In pv (kept vals minv) -> inrange shape (fst pv)) ->
    carried g (kept vals minv) (kept vals' minv) ->
    (forall t, In t (fnodes (run (nbrs shape per) np (order_of (kept vals minv)))) -> is_leaf t = true ->
       exists t', In t' (fnodes (run (nbrs shape' per') np (order_of (kept vals' minv)))) /\ is_leaf t' = true /\
                  forall z, topof t z -> topof t' (gpv g z)) /\
    (forall t', In t' (fnodes (run (nbrs shape' per') np (order_of (kept vals' minv)))) -> is_leaf t' = true ->
       exists t, In t (fnodes (run (nbrs shape per) np (order_of (kept vals minv)))) /\ is_leaf t = true /\
                 forall z, topof t z -> topof t' (gpv g z)).
Proof.
  intros shape shape' per per' g Hiso Hp Hp' vals vals' minv Hr Hc. split.
  - exact (grid_leaf_image shape shape' per per' g Hiso Hp Hp' vals vals' minv Hr Hc).
  - exact (grid_leaf_preimage shape shape' per per' g Hiso Hp Hp' vals vals' minv Hr Hc).
Qed.
Print Assumptions C16_leaves_correspond_with_ties.

(* ... one to one: a leaf has one image, and two leaves with the same image are equal (any
   adjacency graphs, any two sorted processing orders) *)
Theorem C16_leaf_correspondence_is_one_to_one :
  forall g adj adj' order order',
    NoDup (map fst order) -> NoDup (map fst order') -> sorted_desc order -> sorted_desc order' ->
    (forall a b, In a (map fst order) -> In b (map fst order) -> In b (adj a) -> In a (adj b)) ->
    (forall a b, In a (map fst order') -> In b (map fst order') -> In b (adj' a) -> In a (adj' b)) ->
    Permutation order' (map (gpv g) order) ->
    (forall p q, In p (map fst order) -> In q (map fst order) -> (In (g q) (adj' (g p)) <-> In q (adj p))) ->
    (forall p q, In p (map fst order) -> In q (map fst order) -> g p = g q -> p = q) ->
    (forall t t1' t2' z, In t (fnodes (run adj np order)) -> topof t z ->
       In t1' (fnodes (run adj' np order')) -> In t2' (fnodes (run adj' np order')) ->
       topof t1' (gpv g z) -> topof t2' (gpv g z) -> t1' = t2') /\
    (forall t1 t2 t' z1 z2, In t1 (fnodes (run adj np order)) -> In t2 (fnodes (run adj np order)) ->
       topof t1 z1 -> topof t2 z2 -> In t' (fnodes (run adj' np order')) ->
       topof t' (gpv g z1) -> topof t' (gpv g z2) -> t1 = t2).
Proof.
  intros g adj adj' order order' N N' S S' Y Y' P I J. split.
  - exact (leaf_image_unique g adj adj' order order' N' S' Y').
  - exact (leaf_preimage_unique g adj adj' order order' N N' S S' Y Y' P I J).
Qed.
Print Assumptions C16_leaf_correspondence_is_one_to_one.

(* ... hence the NUMBER of leaves of Dendrogram.compute itself (no pruning parameters, ties
   included) is the same on the two grids (LeafCount.v: counting lemma over the one-to-one
   correspondence; leaves f = the structures of f without children) *)
From Dendro Require Import LeafCount.
Theorem C16_number_of_leaves_is_invariant :
  forall shape shape' per per' g, giso shape per shape' per' g -> allpos shape -> allpos shape' ->
  forall vals vals' minv,
    (forall pv, In pv (kept vals minv) -> inrange shape (fst pv)) ->
    carried g (kept vals minv) (kept vals' minv) ->
    length (leaves (compute shape (AdjGrid per) vals minv [])) =
    length (leaves (compute shape' (AdjGrid per') vals' minv [])).
Proof. exact compute_leaf_count_iso. Qed.
Print Assumptions C16_number_of_leaves_is_invariant.

(* ------------------------------------------------------------------------------------------
   "With distinct values and no pruning, raising min_value only removes the pixels at or below
   the new threshold from every structure and drops the structures left empty."
   grown E u u' : u' has the identifier and the children of u and its own pixels are those of u
   followed by pixels of E.  Grow E f f' : every structure of f has its grown partner in f', and
   every structure of f' is such a partner or owns pixels of E only. *)
From Dendro Require Import Raise.

Theorem C16_raising_the_threshold :
  forall adj vals (m : option Z) (t : Z),
    (forall v, above (Some t) v = true -> above m v = true) ->
    NoDup (map snd (kept vals m)) ->
    (forall a b, In a (map fst (kept vals m)) -> In b (map fst (kept vals m)) -> In b (adj a) -> In a (adj b)) ->
    let lo := filter (fun pv => negb (t <? snd pv)) (order_of (kept vals m)) in
    Grow lo (run adj np (order_of (kept vals (Some t)))) (run adj np (order_of (kept vals m))) /\
    (forall pv, In pv lo -> snd pv <= t).
Proof. exact compute_raise. Qed.
Print Assumptions C16_raising_the_threshold.

(* the pixels above the higher threshold are a prefix of the processing order *)
Theorem C16_higher_threshold_is_a_prefix :
  forall vals (m : option Z) (t : Z),
    (forall v, above (Some t) v = true -> above m v = true) ->
    NoDup (map snd (kept vals m)) ->
    order_of (kept vals (Some t)) = filter (fun pv => t <? snd pv) (order_of (kept vals m)).
Proof. exact order_of_raise. Qed.
Print Assumptions C16_higher_threshold_is_a_prefix.
