(* C16 — hierarchy invariant under axis relabelling and order-preserving value maps. *)
From Coq Require Import ZArith List Bool Permutation.
From Dendro Require Import Base Tree Grid GridLemmas Criteria Compute ComputeInv ComputeThm Symmetry.
Import ListNotations.
Open Scope Z_scope.

(* a strictly increasing value map, with criteria that transform along, commutes with the
   whole construction loop: the same structures with the same identifiers, parents, child
   order and pixels (values mapped) - for every adjacency, every order, ties included *)
Theorem C16_value_map :
  forall (f : Z -> Z), (forall a b, a < b -> f a < f b) ->
  forall indep indep',
    (forall o v, o <> [] -> indep' (map (pvmap f) o) (Some (f v)) = indep o (Some v)) ->
  forall adj order,
    run adj indep' (map (pvmap f) order) = map (tmap f) (run adj indep order).
Proof. exact run_value_map. Qed.
Print Assumptions C16_value_map.

(* the built-in criteria transform along with v -> a*v + b (a > 0) when min_delta becomes
   a*min_delta (and min_peak a*p + b); min_npix and seeds do not look at values *)
Theorem C16_affine_criteria :
  forall a b cs o v, 0 < a -> o <> [] -> ~ (exists s, In (MinSum s) cs) ->
    indep_of (map (crit_affine a b) cs) (map (pvmap (fun x => a * x + b)) o) (Some (a * v + b))
    = indep_of cs o (Some v).
Proof. exact affine_criteria. Qed.
Print Assumptions C16_affine_criteria.

(* without pruning parameters ANY strictly increasing map does (no criterion looks at values) *)
Theorem C16_any_increasing_map_without_pruning :
  forall (f : Z -> Z), (forall a b, a < b -> f a < f b) ->
  forall adj order,
    run adj (fun _ _ => true) (map (pvmap f) order) = map (tmap f) (run adj (fun _ _ => true) order).
Proof. intros f Hf adj order. apply (run_value_map f Hf). reflexivity. Qed.
Print Assumptions C16_any_increasing_map_without_pruning.

(* arbitrary inputs (ties): the parentless regions are the connected components of the kept
   pixels, whatever the order, the tie-breaking and the criteria *)
Theorem C16_regions_do_not_depend_on_the_order :
  forall adj indep1 indep2 order1 order2,
    NoDup (map fst order1) -> sorted_desc order1 ->
    NoDup (map fst order2) -> sorted_desc order2 ->
    (forall p, In p (map fst order1) <-> In p (map fst order2)) ->
    (forall a b, In a (map fst order1) -> In b (map fst order1) -> In b (adj a) -> In a (adj b)) ->
    forall r1 x, In r1 (run adj indep1 order1) -> In x (region r1) ->
      exists r2, In r2 (run adj indep2 order2) /\ In x (region r2) /\
                 forall y, In y (region r1) <-> In y (region r2).
Proof. exact roots_order_independent. Qed.
Print Assumptions C16_regions_do_not_depend_on_the_order.

(* ... and with the built-in parameters, whether such a region is kept depends only on the
   region: it spans at least min_delta and has at least min_npix pixels *)
Theorem C16_kept_regions_do_not_depend_on_the_order :
  forall adj d n den, 0 < den ->
  forall order,
    NoDup (map fst order) -> sorted_desc order ->
    (forall a b, In a (map fst order) -> In b (map fst order) -> In b (adj a) -> In a (adj b)) ->
    forall r, In r (run adj (indep_of [MinDelta d; MinNpix n den]) order) ->
      (~ dropped (indep_of [MinDelta d; MinNpix n den]) r <-> region_passes d n den r).
Proof. exact builtin_kept_iff_region_passes. Qed.
Print Assumptions C16_kept_regions_do_not_depend_on_the_order.

(* axis permutations, flips, added unit axes and padding are graph isomorphisms /
   embeddings of the grid adjacency, which is symmetric in every dimension *)
Theorem C16_grid_adjacency_symmetric :
  forall shape per p q, Forall (fun n => 0 < n) shape ->
    In q (nbrs shape per p) -> In p (nbrs shape per q).
Proof. exact nbrs_sym. Qed.
Print Assumptions C16_grid_adjacency_symmetric.
