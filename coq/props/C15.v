(* C15 — compute is a pure, deterministic function of values and parameters.
   In the model `compute` is a Coq function of (shape, adjacency, values, threshold,
   criteria) and nothing else; the correspondence check is what ties every dtype, memory
   layout, call history and repetition of /repo to that one function.  Proved here: the
   processing order - the only place where equal values could make the result depend on
   anything else - is determined by the values; fixed-width integer arithmetic. *)
From Coq Require Import ZArith List Bool Permutation.
From Dendro Require Import Base Tree Criteria Compute ComputeInv ComputeThm Dtype.
Import ListNotations.
Open Scope Z_scope.

(* the order is a function of the values: non-increasing ... *)
Theorem C15_order_sorted : forall k, sorted_desc (order_of k).
Proof. exact order_of_sorted. Qed.
(* ... a permutation of the kept pixels ... *)
Theorem C15_order_permutation : forall k, Permutation (order_of k) k.
Proof. exact order_of_perm. Qed.
(* ... and among pixels of equal value exactly the reverse of the C order *)
Theorem C15_order_tie_break :
  forall k v, filter (fun pv => snd pv =? v) (order_of k) = rev (filter (fun pv => snd pv =? v) k).
Proof. exact order_tie_break. Qed.
Print Assumptions C15_order_tie_break.

(* with distinct values no tie-break is needed at all *)
Theorem C15_order_unique_without_ties :
  forall l1 l2 : list (Z * Z),
    sorted_desc l1 -> sorted_desc l2 -> Permutation l1 l2 -> NoDup (map snd l1) -> l1 = l2.
Proof. exact sorted_perm_unique. Qed.
Print Assumptions C15_order_unique_without_ties.

(* values representable in a dtype are read back exactly, so decisions taken on Python
   scalars are decisions on the integers themselves, whatever the dtype *)
Theorem C15_item_exact :
  forall bits signed x, 0 < bits -> in_range bits signed x -> wrap bits signed x = x.
Proof. exact item_exact. Qed.
Print Assumptions C15_item_exact.

(* the legacy expression (vmax - value in the array's dtype) was dtype dependent ... *)
Theorem C15_legacy_int8_refuted :
  in_range 8 true 100 /\ in_range 8 true (-100) /\
  legacy_delta_ok 8 true 100 (-100) 150 = false /\ delta_ok 100 (-100) 150 = true.
Proof. exact legacy_int8_refuted. Qed.
(* ... exactly when the difference overflows *)
Theorem C15_legacy_agrees_without_overflow :
  forall bits signed vmax v delta, 0 < bits -> in_range bits signed (vmax - v) ->
    legacy_delta_ok bits signed vmax v delta = delta_ok vmax v delta.
Proof. exact legacy_agrees_when_no_overflow. Qed.
Print Assumptions C15_legacy_agrees_without_overflow.
