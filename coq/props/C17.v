(* C17 — periodic axes wrap, and only they do. *)
From Coq Require Import ZArith List Bool Permutation.
From Dendro Require Import Base Tree Grid GridLemmas Criteria Compute ComputeInv ComputeThm Concrete.
Import ListNotations.
Open Scope Z_scope.

(* what one axis contributes: +-1 in that coordinate while it stays inside the array; the
   two ends are linked iff the axis is declared periodic *)
Theorem C17_axis_neighbours :
  forall p n s per q,
    In q (nb_axis p n s per) <->
    (coord p s n + 1 < n /\ q = p + s) \/
    (coord p s n + 1 >= n /\ per = true /\ q = p - (n - 1) * s) \/
    (0 <= coord p s n - 1 /\ q = p - s) \/
    (coord p s n - 1 < 0 /\ per = true /\ q = p + (n - 1) * s).
Proof. exact nb_axis_spec. Qed.
Print Assumptions C17_axis_neighbours.

(* moving along an axis changes exactly that coordinate *)
Theorem C17_coordinate_shift :
  forall p s n k, 0 < s -> 0 < n -> 0 <= coord p s n + k < n ->
    coord (p + k * s) s n = coord p s n + k.
Proof. exact coord_shift. Qed.
Print Assumptions C17_coordinate_shift.

(* wrap-around adjacency is symmetric for every subset of periodic axes, every dimension and
   every axis length >= 1 (lengths 1 and 2 included) ... *)
Theorem C17_periodic_adjacency_symmetric :
  forall shape per p q, Forall (fun n => 0 < n) shape ->
    In q (nbrs shape per p) -> In p (nbrs shape per q).
Proof. exact nbrs_sym. Qed.
Print Assumptions C17_periodic_adjacency_symmetric.

(* ... so all hierarchy guarantees hold verbatim with wrap-around adjacency *)
Theorem C17_assigned_iff :
  forall shape per vals minv cs, Forall (fun n => 0 < n) shape ->
  forall p,
    In p (fregion (compute shape (AdjGrid per) vals minv cs)) <->
    (exists v i, nth_error vals i = Some (Some v) /\ p = Z.of_nat i /\ above minv v = true) /\
    ~ exists r, In r (run (nbrs shape per) (indep_of cs) (order_of (kept vals minv))) /\
                In p (region r) /\ dropped (indep_of cs) r.
Proof. exact grid_assigned_iff. Qed.
Theorem C17_connected :
  forall shape per vals minv cs, Forall (fun n => 0 < n) shape ->
  forall u, In u (fnodes (compute shape (AdjGrid per) vals minv cs)) ->
            connected (nbrs shape per) (region u).
Proof. exact grid_connected. Qed.
Theorem C17_contour :
  forall shape per vals minv cs, Forall (fun n => 0 < n) shape ->
  forall u x q vq y vy,
    In u (fnodes (compute shape (AdjGrid per) vals minv cs)) -> In x (region u) ->
    In (q, vq) (kept vals minv) -> In q (nbrs shape per x) -> ~ In q (region u) ->
    In (y, vy) (regionv u) -> vq <= vy.
Proof. exact grid_contour. Qed.
Print Assumptions C17_contour.

(* ties: the regions are the connected components under the wrap-around adjacency whatever
   the order - hence the same after a cyclic shift, which is an automorphism of that graph *)
Theorem C17_regions_do_not_depend_on_the_order :
  forall adj indep1 indep2 order1 order2,
    NoDup (map fst order1) -> sorted_desc order1 ->
    NoDup (map fst order2) -> sorted_desc order2 ->
    (forall p, In p (map fst order1) <-> In p (map fst order2)) ->
    (forall a b, In a (map fst order1) -> In b (map fst order1) -> In b (adj a) -> In a (adj b)) ->
    forall r1 x, In r1 (run adj indep1 order1) -> In x (region r1) ->
      exists r2, In r2 (run adj indep2 order2) /\ In x (region r2) /\
                 forall y, In y (region r1) <-> In y (region r2).
Proof. exact roots_order_independent. Qed.
Print Assumptions C17_regions_do_not_depend_on_the_order.

(* non-vacuity: a 1-D periodic axis joins the two ends into one structure *)
Example C17_example :
  label_map 5 (compute [5] (AdjGrid [true]) [Some 5; Some 1; None; Some 1; Some 4] (Some 0) [MinDelta 0; MinNpix 0 1])
  = [0; 0; -1; 0; 0] /\
  label_map 5 (compute [5] (AdjGrid [false]) [Some 5; Some 1; None; Some 1; Some 4] (Some 0) [MinDelta 0; MinNpix 0 1])
  = [0; 0; -1; 1; 1].
Proof. split; vm_compute; reflexivity. Qed.

(* ------------------------------------------------------------------------------------------
   Cyclic shifts.  Shifting by one along the outermost, periodic axis is an automorphism of
   the wrap-around adjacency, in any number of dimensions, whatever the other axes are ... *)
From Coq Require Import Lia.
From Dendro Require Import PixelMap GridIso GridSym.

Theorem C17_cyclic_shift_is_automorphism :
  forall n r pr, allpos r -> 0 < n ->
    giso (n :: r) (true :: pr) (n :: r) (true :: pr) (ghead (size r) (size r) (rot1 n) (fun p => p)).
Proof. exact giso_rot1. Qed.
Print Assumptions C17_cyclic_shift_is_automorphism.

(* ... and so is a shift by ANY amount k along ANY periodic axis a (axis_ok: axis a has length
   n and is periodic; the other axes are arbitrary) *)
Theorem C17_shift_any_axis_any_amount :
  forall k a shape per n, 0 < n -> axis_ok a shape shape per per n n true true ->
    giso shape per shape per (axis_map a shape shape (iter_map k (rot1 n))).
Proof.
  intros k a shape per n Hn H.
  exact (giso_axis_map a shape shape per per n n true true (iter_map k (rot1 n))
           (sigma_ok_iter k n true (rot1 n) (sigma_ok_rot1 n Hn)) H).
Qed.
Print Assumptions C17_shift_any_axis_any_amount.

(* the one-dimensional adjacency that decides it: on a non-periodic axis of length > 2 the
   two ends are not adjacent, on a periodic axis they are *)
Theorem C17_ends_adjacent_iff_periodic :
  forall n b, 2 < n -> (adj1 n b (n - 1) 0 <-> b = true).
Proof. intros n b Hn. unfold adj1. split; [intros H | intros ->]; intuition lia. Qed.

(* distinct values: the hierarchy of the shifted data is the shifted hierarchy *)
Theorem C17_shifted_hierarchy :
  forall k a shape per n vals vals' minv cs,
    0 < n -> axis_ok a shape shape per per n n true true ->
    let g := axis_map a shape shape (iter_map k (rot1 n)) in
    (forall pv, In pv (kept vals minv) -> inrange shape (fst pv)) ->
    carried g (kept vals minv) (kept vals' minv) ->
    (forall l, ~ In (Seeds l) cs) ->
    NoDup (map snd (kept vals minv)) ->
    rsim g (compute shape (AdjGrid per) vals minv cs) (compute shape (AdjGrid per) vals' minv cs).
Proof.
  intros k a shape per n vals vals' minv cs Hn H g. apply compute_relabelled.
  apply C17_shift_any_axis_any_amount; assumption.
Qed.
Print Assumptions C17_shifted_hierarchy.

(* ties: the same trunk regions (hence the same assigned pixels) on the shifted pixels *)
Theorem C17_shifted_trunk_regions_with_ties :
  forall k a shape per n vals vals' minv cs,
    0 < n -> axis_ok a shape shape per per n n true true ->
    let g := axis_map a shape shape (iter_map k (rot1 n)) in
    (forall pv, In pv (kept vals minv) -> inrange shape (fst pv)) ->
    carried g (kept vals minv) (kept vals' minv) ->
    (forall l, ~ In (Seeds l) cs) ->
    forall r' x', In r' (run (nbrs shape per) (indep_of cs) (order_of (kept vals' minv))) -> In x' (region r') ->
    exists r0, In r0 (run (nbrs shape per) (indep_of cs) (order_of (kept vals minv))) /\
               forall y', In y' (region r') <-> exists y, In y (region r0) /\ y' = g y.
Proof.
  intros k a shape per n vals vals' minv cs Hn H g Hrange Hc Hs.
  apply (roots_relabelled shape shape per per g); try assumption.
  - apply C17_shift_any_axis_any_amount; assumption.
  - apply (axis_ok_allpos a shape shape per per n n true true Hn Hn H).
Qed.
Print Assumptions C17_shifted_trunk_regions_with_ties.

(* non-vacuity: a 2 x 3 array, periodic along the inner axis, shifted by two along it *)
Example C17_shift_example :
  let g := axis_map 1 [2; 3] [2; 3] (iter_map 2 (rot1 3)) in
  giso [2; 3] [false; true] [2; 3] [false; true] g /\ map g [0; 1; 2; 3; 4; 5] = [2; 0; 1; 5; 3; 4].
Proof.
  split; [|vm_compute; reflexivity]. apply C17_shift_any_axis_any_amount; [reflexivity|].
  cbn. repeat split; try reflexivity. constructor.
Qed.

(* ties, no pruning: the leaves of the shifted data correspond one to one to the leaves of the
   original data (same number of leaves) *)
From Dendro Require Import RegMax LeafIso.
Theorem C17_shifted_leaves_correspond_with_ties :
  forall k a shape per n vals vals' minv,
    0 < n -> axis_ok a shape shape per per n n true true ->
    let g := axis_map a shape shape (iter_map k (rot1 n)) in
    (forall pv, In pv (kept vals minv) -> inrange shape (fst pv)) ->
    carried g (kept vals minv) (kept vals' minv) ->
    (forall t, In t (fnodes (run (nbrs shape per) np (order_of (kept vals minv)))) -> is_leaf t = true ->
       exists t', In t' (fnodes (run (nbrs shape per) np (order_of (kept vals' minv)))) /\ is_leaf t' = true /\
                  forall z, topof t z -> topof t' (gpv g z)) /\
    (forall t', In t' (fnodes (run (nbrs shape per) np (order_of (kept vals' minv)))) -> is_leaf t' = true ->
       exists t, In t (fnodes (run (nbrs shape per) np (order_of (kept vals minv)))) /\ is_leaf t = true /\
                 forall z, topof t z -> topof t' (gpv g z)).
Proof.
  intros k a shape per n vals vals' minv Hn H g Hr Hc.
  pose proof (C17_shift_any_axis_any_amount k a shape per n Hn H) as Hiso.
  destruct (axis_ok_allpos a shape shape per per n n true true Hn Hn H) as [Hp _].
  split.
  - exact (grid_leaf_image shape shape per per g Hiso Hp Hp vals vals' minv Hr Hc).
  - exact (grid_leaf_preimage shape shape per per g Hiso Hp Hp vals vals' minv Hr Hc).
Qed.
Print Assumptions C17_shifted_leaves_correspond_with_ties.

(* ... so Dendrogram.compute finds the same number of leaves on the shifted data *)
From Dendro Require Import LeafCount.
Theorem C17_shift_keeps_the_number_of_leaves :
  forall k a shape per n vals vals' minv,
    0 < n -> axis_ok a shape shape per per n n true true ->
    let g := axis_map a shape shape (iter_map k (rot1 n)) in
    (forall pv, In pv (kept vals minv) -> inrange shape (fst pv)) ->
    carried g (kept vals minv) (kept vals' minv) ->
    length (leaves (compute shape (AdjGrid per) vals minv [])) =
    length (leaves (compute shape (AdjGrid per) vals' minv [])).
Proof.
  intros k a shape per n vals vals' minv Hn H g Hr Hc.
  pose proof (C17_shift_any_axis_any_amount k a shape per n Hn H) as Hiso.
  destruct (axis_ok_allpos a shape shape per per n n true true Hn Hn H) as [Hp _].
  exact (compute_leaf_count_iso shape shape per per g Hiso Hp Hp vals vals' minv Hr Hc).
Qed.
Print Assumptions C17_shift_keeps_the_number_of_leaves.
