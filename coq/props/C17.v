(* C17 — periodic axes wrap, and only they do. *)
From Coq Require Import ZArith List Bool Permutation.
From Dendro Require Import Base Tree Grid GridLemmas Criteria Compute ComputeInv ComputeThm Concrete.
Import ListNotations.
Open Scope Z_scope.

(* what one axis contributes: +-1 in that coordinate while it stays inside the array; the
   two ends are linked iff the axis is declared periodic *)
Theorem C17_axis_neighbours :
  forall p n s per q,
    In q (nb_axis p n s per) <->
    (coord p s n + 1 < n /\ q = p + s) \/
    (coord p s n + 1 >= n /\ per = true /\ q = p - (n - 1) * s) \/
    (0 <= coord p s n - 1 /\ q = p - s) \/
    (coord p s n - 1 < 0 /\ per = true /\ q = p + (n - 1) * s).
Proof. exact nb_axis_spec. Qed.
Print Assumptions C17_axis_neighbours.

(* moving along an axis changes exactly that coordinate *)
Theorem C17_coordinate_shift :
  forall p s n k, 0 < s -> 0 < n -> 0 <= coord p s n + k < n ->
    coord (p + k * s) s n = coord p s n + k.
Proof. exact coord_shift. Qed.
Print Assumptions C17_coordinate_shift.

(* wrap-around adjacency is symmetric for every subset of periodic axes, every dimension and
   every axis length >= 1 (lengths 1 and 2 included) ... *)
Theorem C17_periodic_adjacency_symmetric :
  forall shape per p q, Forall (fun n => 0 < n) shape ->
    In q (nbrs shape per p) -> In p (nbrs shape per q).
Proof. exact nbrs_sym. Qed.
Print Assumptions C17_periodic_adjacency_symmetric.

(* ... so all hierarchy guarantees hold verbatim with wrap-around adjacency *)
Theorem C17_assigned_iff :
  forall shape per vals minv cs, Forall (fun n => 0 < n) shape ->
  forall p,
    In p (fregion (compute shape (AdjGrid per) vals minv cs)) <->
    (exists v i, nth_error vals i = Some (Some v) /\ p = Z.of_nat i /\ above minv v = true) /\
    ~ exists r, In r (run (nbrs shape per) (indep_of cs) (order_of (kept vals minv))) /\
                In p (region r) /\ dropped (indep_of cs) r.
Proof. exact grid_assigned_iff. Qed.
Theorem C17_connected :
  forall shape per vals minv cs, Forall (fun n => 0 < n) shape ->
  forall u, In u (fnodes (compute shape (AdjGrid per) vals minv cs)) ->
            connected (nbrs shape per) (region u).
Proof. exact grid_connected. Qed.
Theorem C17_contour :
  forall shape per vals minv cs, Forall (fun n => 0 < n) shape ->
  forall u x q vq y vy,
    In u (fnodes (compute shape (AdjGrid per) vals minv cs)) -> In x (region u) ->
    In (q, vq) (kept vals minv) -> In q (nbrs shape per x) -> ~ In q (region u) ->
    In (y, vy) (regionv u) -> vq <= vy.
Proof. exact grid_contour. Qed.
Print Assumptions C17_contour.

(* ties: the regions are the connected components under the wrap-around adjacency whatever
   the order - hence the same after a cyclic shift, which is an automorphism of that graph *)
Theorem C17_regions_do_not_depend_on_the_order :
  forall adj indep1 indep2 order1 order2,
    NoDup (map fst order1) -> sorted_desc order1 ->
    NoDup (map fst order2) -> sorted_desc order2 ->
    (forall p, In p (map fst order1) <-> In p (map fst order2)) ->
    (forall a b, In a (map fst order1) -> In b (map fst order1) -> In b (adj a) -> In a (adj b)) ->
    forall r1 x, In r1 (run adj indep1 order1) -> In x (region r1) ->
      exists r2, In r2 (run adj indep2 order2) /\ In x (region r2) /\
                 forall y, In y (region r1) <-> In y (region r2).
Proof. exact roots_order_independent. Qed.
Print Assumptions C17_regions_do_not_depend_on_the_order.

(* non-vacuity: a 1-D periodic axis joins the two ends into one structure *)
Example C17_example :
  label_map 5 (compute [5] (AdjGrid [true]) [Some 5; Some 1; None; Some 1; Some 4] (Some 0) [MinDelta 0; MinNpix 0 1])
  = [0; 0; -1; 0; 0] /\
  label_map 5 (compute [5] (AdjGrid [false]) [Some 5; Some 1; None; Some 1; Some 4] (Some 0) [MinDelta 0; MinNpix 0 1])
  = [0; 0; -1; 1; 1].
Proof. split; vm_compute; reflexivity. Qed.
