(* C12 — catalogs have one faithful row per structure. *)
From Coq Require Import ZArith List Bool Permutation Sorted.
From Dendro Require Import Base BaseLemmas Catalog CatalogLemmas.
Import ListNotations.
Open Scope Z_scope.

(* exactly one row per structure, ordered by identifier, whose identifier column names it *)
Theorem C12_one_row_each : forall R (rows : list (Z * R)), Permutation (catalog rows) rows.
Proof. exact @catalog_one_row_each. Qed.
Theorem C12_row_count : forall R (rows : list (Z * R)), length (catalog rows) = length rows.
Proof. exact @catalog_length. Qed.
Theorem C12_sorted_by_identifier : forall R (rows : list (Z * R)), StronglySorted (key_le fst) (catalog rows).
Proof. exact @catalog_sorted. Qed.
Theorem C12_identifier_column : forall R (rows : list (Z * R)), Permutation (map fst (catalog rows)) (map fst rows).
Proof. exact @catalog_idx_column. Qed.
Print Assumptions C12_sorted_by_identifier.

(* every row is the row function of one structure: the statistic computed for that structure alone *)
Theorem C12_rows_are_per_structure :
  forall S R (row : S -> Z * R) (ss : list S) r,
    In r (catalog (map row ss)) <-> exists s, In s ss /\ r = row s.
Proof. exact @catalog_rows_are_per_structure. Qed.
Print Assumptions C12_rows_are_per_structure.

(* periodic axes: a structure narrower than half the axis (offsets P within 0..e, 2e < n),
   placed anywhere on the cyclic axis, is handed to the statistics as the SAME pattern translated
   by its position a - whether or not it straddles the array edge.  With
   C10_second_moment_translation_invariant and C10_first_moment_translates: identical shape
   statistics, centroid moving with it. *)
Theorem C12_unwrap_translate :
  forall n e a P, 0 < n -> 0 <= e /\ 2 * e < n -> 0 <= a < n ->
    (forall d, In d P -> 0 <= d <= e) -> In 0 P -> In e P ->
    unwrap n (placed n a P) = map (fun d => a + d) P.
Proof. exact unwrap_placed. Qed.
Print Assumptions C12_unwrap_translate.

Theorem C12_unwrap_identity :
  forall n l, (forall x, In x l -> 2 * x >= n) -> unwrap n l = l.
Proof. exact unwrap_identity_when_compact. Qed.
Print Assumptions C12_unwrap_identity.

(* non-vacuity: n = 10, a structure of extent 3 placed at 8 straddles the edge *)
Example C12_example : unwrap 10 (placed 10 8 [0; 1; 3]) = [8; 9; 11] /\ placed 10 8 [0; 1; 3] = [8; 9; 1].
Proof. split; vm_compute; reflexivity. Qed.
