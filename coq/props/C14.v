(* C14 — no answer depends on what was asked before (no stale derived state).
   Cache.v: the forest plus an explicit store of the values Structure objects cache
   (_level, _descendants, _npix_total, _peak/_peak_subtree); operations = cached queries and
   prune.  run_ops = what the sequence of operations reports; run_fresh = what freshly built
   dendrograms with the current structures report. *)
From Coq Require Import ZArith List Bool.
From Dendro Require Import Base Tree Criteria Index Prune Cache CacheLemmas.
Import ListNotations.
Open Scope Z_scope.

(* one operation: the observation is the fresh one, and every cached value stays correct *)
Theorem C14_step_fresh :
  forall st o, inv' st -> op_ok (st_forest st) o ->
    snd (step false st o) = fresh_obs (st_forest st) o /\ inv' (fst (step false st o)).
Proof. exact step_fresh. Qed.
Print Assumptions C14_step_fresh.

(* every finite interleaving of cached queries and prune calls, from any state whose caches
   are correct (in particular from a newly computed dendrogram, whose caches are empty) *)
Theorem C14_history_fresh :
  forall ops st, inv' st -> ops_ok (st_forest st) ops ->
    run_ops false st ops = run_fresh (st_forest st) ops.
Proof. exact history_fresh. Qed.
Print Assumptions C14_history_fresh.

Theorem C14_history_fresh_from_compute :
  forall f ops, ops_ok f ops ->
    run_ops false {| st_forest := f; st_store := [] |} ops = run_fresh f ops.
Proof. exact history_fresh_from_compute. Qed.
Print Assumptions C14_history_fresh_from_compute.

(* the unrepaired prune (reset only the structures that received pixels) violates it:
   descendants read before the prune are stale afterwards; the repaired one does not *)
Theorem C14_legacy_stale_descendants_refuted :
  let f := [Node 0 [(4, 1)] [Node 1 [(0, 9)] [];
                             Node 2 [(3, 2)] [Node 3 [(2, 8)] []; Node 4 [(5, 7)] []; Node 5 [(7, 6)] []]]] in
  let ops := [QDesc 0; OPrune [MinDelta 0; MinNpix 0 1; MinPeak 8]; QDesc 0] in
  ops_ok f ops /\ run_ops true {| st_forest := f; st_store := [] |} ops <> run_fresh f ops /\
  run_ops false {| st_forest := f; st_store := [] |} ops = run_fresh f ops.
Proof. exact legacy_stale_descendants. Qed.
Print Assumptions C14_legacy_stale_descendants_refuted.

(* The label map is derived state as well.  In the model it is a function of the forest
   (label_map n f = map (owner f) ...), so after ANY history it names existing structures only:
   a label is -1 or the identifier of a structure of the current forest that owns the pixel.
   (The implementation updates its label map in place; the prune tie of C07 compares it with
   this function after every call, and the C14 oracle checks the statement on the live
   dendrogram after every step - a stale label of a removed structure is a violation.) *)
Theorem C14_label_map_names_existing_structures :
  forall f p, owner f p = -1 \/ exists t, In t (fnodes f) /\ owner f p = tid t /\ In p (opix t).
Proof. exact owner_names_existing. Qed.
Print Assumptions C14_label_map_names_existing_structures.
