(* C06 — structure accessors agree with the data and the label map. *)
From Coq Require Import ZArith List Bool Permutation.
From Dendro Require Import Base Tree Index IndexLemmas.
Import ListNotations.
Open Scope Z_scope.

(* "pixels labelled i" *)
Theorem C06_own_of_spec :
  forall labels i p, In p (own_of labels i) <-> 0 <= p < zlen labels /\ lab_at labels p = i.
Proof. exact own_of_spec. Qed.
Print Assumptions C06_own_of_spec.

(* TreeIndex: in prefix order every subtree is one contiguous run ... *)
Theorem C06_subtree_contiguous :
  forall f u, In u (fnodes f) -> exists l1 l2, fnodes f = l1 ++ nodes u ++ l2.
Proof. exact subtree_contiguous. Qed.
Print Assumptions C06_subtree_contiguous.

(* ... the bottom-up subtree count is the number of pixels labelled with the subtree ... *)
Theorem C06_subtree_count : forall labels t, sub_ct labels t = zlen (blocks labels (nodes t)).
Proof. exact sub_ct_spec. Qed.
Print Assumptions C06_subtree_count.

(* ... so the slice [offset, offset + npix) is exactly the pixels labelled with the
   structure, and [offset, offset + npix_subtree) those labelled with it or a descendant *)
Theorem C06_slice_own :
  forall labels f u, NoDup (map tid (fnodes f)) -> In u (fnodes f) ->
    ti_indices labels f u false = own_of labels (tid u).
Proof. exact ti_indices_own. Qed.
Print Assumptions C06_slice_own.

Theorem C06_slice_subtree :
  forall labels f u, NoDup (map tid (fnodes f)) -> In u (fnodes f) ->
    ti_indices labels f u true = blocks labels (nodes u).
Proof. exact ti_indices_subtree. Qed.
Print Assumptions C06_slice_subtree.

(* when the label map agrees with the own-pixel lists (C01), indices(subtree=True) is the
   region of the structure with its descendants *)
Theorem C06_indices_are_the_region :
  forall labels f u p, NoDup (map tid (fnodes f)) -> labels_agree labels f -> In u (fnodes f) ->
    (In p (ti_indices labels f u true) <-> In p (region u)).
Proof. exact ti_indices_region. Qed.
Print Assumptions C06_indices_are_the_region.

(* minimum, maximum, height *)
Theorem C06_vmax : forall t, town t <> [] ->
  (exists p, In (p, vmax t) (town t)) /\ forall p v, In (p, v) (town t) -> v <= vmax t.
Proof. exact vmax_spec. Qed.
Theorem C06_vmin : forall t, town t <> [] ->
  (exists p, In (p, vmin t) (town t)) /\ forall p v, In (p, v) (town t) -> vmin t <= v.
Proof. exact vmin_spec. Qed.
Theorem C06_height_leaf : forall t, tkids t = [] -> height t = vmax t.
Proof. exact height_leaf. Qed.
Theorem C06_height_branch : forall t, tkids t <> [] ->
  (exists k, In k (tkids t) /\ height t = vmin k) /\ forall k, In k (tkids t) -> height t <= vmin k.
Proof. exact height_branch. Qed.
Print Assumptions C06_height_branch.

(* peaks: value = maximum over the pixel set, position = a pixel of the set attaining it
   (own mode: the smallest such index, a function of data and label map alone) *)
Theorem C06_peak_own : forall t, town t <> [] ->
  snd (peak_own t) = vmax t /\ In (peak_own t) (town t) /\
  (forall p v, In (p, v) (town t) -> v <= snd (peak_own t)) /\
  (forall p, In (p, vmax t) (town t) -> fst (peak_own t) <= p).
Proof. exact peak_own_in. Qed.
Print Assumptions C06_peak_own.

Theorem C06_peak_subtree : forall t, (forall u, In u (nodes t) -> town u <> []) ->
  In (peak_sub t) (regionv t) /\ (forall p v, In (p, v) (regionv t) -> v <= snd (peak_sub t)).
Proof. exact peak_sub_spec. Qed.
Print Assumptions C06_peak_subtree.

(* non-vacuity *)
Example C06_example :
  let f := [Node 1 [(1, 1)] [Node 0 [(0, 5)] []; Node 2 [(2, 4); (3, 4)] []]] in
  acc_view [0; 1; 2; 2] f =
  [(1, (([1], [0; 1; 2; 3]), ((1, 4), ((1, 1), (4, ((1, 1), (0, 5)))))));
   (0, (([0], [0]), ((1, 1), ((5, 5), (5, ((0, 5), (0, 5)))))));
   (2, (([2; 3], [2; 3]), ((2, 2), ((4, 4), (4, ((2, 4), (2, 4)))))))].
Proof. vm_compute. reflexivity. Qed.
