(* C03 — each structure is a connected component of a superlevel set. *)
From Coq Require Import ZArith List Bool Permutation.
From Dendro Require Import Base Tree Grid GridLemmas Criteria Compute ComputeInv ComputeThm Concrete NoPrune.
Import ListNotations.
Open Scope Z_scope.

(* every structure together with its substructures is connected under the adjacency *)
Theorem C03_connected :
  forall adj indep order,
    NoDup (map fst order) -> sorted_desc order ->
    (forall a b, In a (map fst order) -> In b (map fst order) -> In b (adj a) -> In a (adj b)) ->
    forall u, In u (fnodes (make_trunk indep (run adj indep order))) -> connected adj (region u).
Proof. exact region_connected. Qed.
Print Assumptions C03_connected.

(* contour: a kept pixel adjacent to the region from outside is no brighter than
   any pixel of the region *)
Theorem C03_contour :
  forall adj indep order,
    NoDup (map fst order) -> sorted_desc order ->
    (forall a b, In a (map fst order) -> In b (map fst order) -> In b (adj a) -> In a (adj b)) ->
    forall u x q vq y vy,
      In u (fnodes (run adj indep order)) -> In x (region u) -> In (q, vq) order -> In q (adj x) ->
      ~ In q (region u) -> In (y, vy) (regionv u) -> vq <= vy.
Proof. exact contour. Qed.
Print Assumptions C03_contour.

(* parentless structures are exactly the connected components of the kept pixels;
   the trunk is those that survive the final test (C01_assigned_iff) *)
Theorem C03_trunk_components :
  forall adj indep order,
    NoDup (map fst order) -> sorted_desc order ->
    (forall a b, In a (map fst order) -> In b (map fst order) -> In b (adj a) -> In a (adj b)) ->
    forall r x y, In r (run adj indep order) -> In x (region r) ->
      (In y (region r) <-> conn adj (map fst order) x y).
Proof. exact root_is_component. Qed.
Print Assumptions C03_trunk_components.

Theorem C03_trunk_is_subset_of_roots :
  forall adj indep order t, In t (make_trunk indep (run adj indep order)) <->
              In t (run adj indep order) /\ ~ dropped indep t.
Proof. exact trunk_In. Qed.
Print Assumptions C03_trunk_is_subset_of_roots.

(* the adjacency of the implementation (default and periodic, through the padding) is
   symmetric in every dimension, for every axis length >= 1 *)
Theorem C03_grid_adjacency_symmetric :
  forall shape per p q, Forall (fun n => 0 < n) shape ->
    In q (nbrs shape per p) -> In p (nbrs shape per q).
Proof. exact nbrs_sym. Qed.
Print Assumptions C03_grid_adjacency_symmetric.

(* hence, with no hypothesis left, for the concrete computation on a grid: *)
Theorem C03_compute_connected :
  forall shape per vals minv cs, Forall (fun n => 0 < n) shape ->
  forall u, In u (fnodes (compute shape (AdjGrid per) vals minv cs)) ->
            connected (nbrs shape per) (region u).
Proof. exact grid_connected. Qed.
Print Assumptions C03_compute_connected.

Theorem C03_compute_contour :
  forall shape per vals minv cs, Forall (fun n => 0 < n) shape ->
  forall u x q vq y vy,
    In u (fnodes (compute shape (AdjGrid per) vals minv cs)) -> In x (region u) ->
    In (q, vq) (kept vals minv) -> In q (nbrs shape per x) -> ~ In q (region u) ->
    In (y, vy) (regionv u) -> vq <= vy.
Proof. exact grid_contour. Qed.
Print Assumptions C03_compute_contour.

(* when no pruning is requested (the criterion accepts every leaf at every meeting value) no
   pixel owned by a branch is brighter than any pixel of its substructures *)
Theorem C03_branch_below_children :
  forall adj indep, (forall o v, indep o (Some v) = true) ->
  forall order,
    NoDup (map fst order) -> sorted_desc order ->
    (forall a b, In a (map fst order) -> In b (map fst order) -> In b (adj a) -> In a (adj b)) ->
    forall u k y vy z vz,
      In (u, k) (fedges (run adj indep order)) -> In (y, vy) (town u) -> In (z, vz) (regionv k) -> vy <= vz.
Proof. exact branch_below_children. Qed.
Print Assumptions C03_branch_below_children.

(* non-vacuity: a 2-D periodic example with a branch *)
Example C03_example :
  map (fun t => (tid t, region t))
      (fnodes (compute [2; 4] (AdjGrid [false; true]) [Some 5; Some 1; Some 4; Some 0; Some 0; Some 0; Some 0; Some 0] (Some 0) [MinDelta 0; MinNpix 0 1]))
  = [(1, [1; 0; 2]); (0, [0]); (2, [2])].
Proof. vm_compute. reflexivity. Qed.
