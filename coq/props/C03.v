(* C03 — each structure is a connected component of a superlevel set. *)
From Coq Require Import ZArith List Bool Permutation.
From Dendro Require Import Base Tree Criteria Compute ComputeInv ComputeThm.
Import ListNotations.
Open Scope Z_scope.

(* every structure together with its substructures is connected under the adjacency *)
Theorem C03_connected :
  forall adj indep order,
    NoDup (map fst order) -> sorted_desc order ->
    (forall a b, In a (map fst order) -> In b (map fst order) -> In b (adj a) -> In a (adj b)) ->
    forall u, In u (fnodes (make_trunk indep (run adj indep order))) -> connected adj (region u).
Proof. exact region_connected. Qed.
Print Assumptions C03_connected.

(* contour: a kept pixel adjacent to the region from outside is no brighter than
   any pixel of the region *)
Theorem C03_contour :
  forall adj indep order,
    NoDup (map fst order) -> sorted_desc order ->
    (forall a b, In a (map fst order) -> In b (map fst order) -> In b (adj a) -> In a (adj b)) ->
    forall u x q vq y vy,
      In u (fnodes (run adj indep order)) -> In x (region u) -> In (q, vq) order -> In q (adj x) ->
      ~ In q (region u) -> In (y, vy) (regionv u) -> vq <= vy.
Proof. exact contour. Qed.
Print Assumptions C03_contour.

(* parentless structures are exactly the connected components of the kept pixels;
   the trunk is those that survive the final test (C01_assigned_iff) *)
Theorem C03_trunk_components :
  forall adj indep order,
    NoDup (map fst order) -> sorted_desc order ->
    (forall a b, In a (map fst order) -> In b (map fst order) -> In b (adj a) -> In a (adj b)) ->
    forall r x y, In r (run adj indep order) -> In x (region r) ->
      (In y (region r) <-> conn adj (map fst order) x y).
Proof. exact root_is_component. Qed.
Print Assumptions C03_trunk_components.

Theorem C03_trunk_is_subset_of_roots :
  forall adj indep order t, In t (make_trunk indep (run adj indep order)) <->
              In t (run adj indep order) /\ ~ dropped indep t.
Proof. exact trunk_In. Qed.
Print Assumptions C03_trunk_is_subset_of_roots.
