(* C13 — flux conversion is linear, unit-consistent and physically correct. *)
From Coq Require Import ZArith List Bool QArith Reals.
From Dendro Require Import Flux FluxLemmas FluxReal.
Import ListNotations.
Open Scope Q_scope.

(* proportional to the input values *)
Theorem C13_linear :
  forall c vals uin uout w ss bmaj bmin,
    res_eq (compute_flux (map (Qmult c) vals) uin uout w ss bmaj bmin)
           (res_scale c (compute_flux vals uin uout w ss bmaj bmin)).
Proof. exact flux_linear. Qed.
Print Assumptions C13_linear.

(* additive over any split of the pixels *)
Theorem C13_additive :
  forall vals1 vals2 uin uout w ss bmaj bmin,
    res_eq (compute_flux (vals1 ++ vals2) uin uout w ss bmaj bmin)
           (res_add (compute_flux vals1 uin uout w ss bmaj bmin) (compute_flux vals2 uin uout w ss bmaj bmin)).
Proof. exact flux_additive. Qed.
Print Assumptions C13_additive.

(* independent of the units in which equal physical inputs and metadata are expressed *)
Theorem C13_unit_invariant :
  forall s1 s2 uin1 uin2 w1 w2 ss1 ss2 bj1 bj2 bn1 bn2,
    sq_eq (sq_scale s1 (u_sq uin1)) (sq_scale s2 (u_sq uin2)) -> u_dim uin1 = u_dim uin2 ->
    q_same w1 w2 -> q_same ss1 ss2 -> q_same bj1 bj2 -> q_same bn1 bn2 ->
    res_eq (total_si s1 uin1 w1 ss1 bj1 bn1) (total_si s2 uin2 w2 ss2 bj2 bn2).
Proof. exact flux_unit_invariant. Qed.
Print Assumptions C13_unit_invariant.

(* expressed in the requested output unit; a non-flux output unit is an error *)
Theorem C13_output_unit :
  forall vals uin uout w ss bmaj bmin t r, ~ sc (u_sq uout) == 0 ->
    total_si (qsumQ vals) uin w ss bmaj bmin = Ok t ->
    compute_flux vals uin uout w ss bmaj bmin = Ok r ->
    sq_eq (sq_mul r (u_sq uout)) t /\ u_dim uout = u_dim uout /\ dim_eqb (u_dim uout) d_fnu = true.
Proof. exact flux_output_unit. Qed.
Theorem C13_output_must_be_flux_density :
  forall vals uin uout w ss bmaj bmin t,
    total_si (qsumQ vals) uin w ss bmaj bmin = Ok t -> dim_eqb (u_dim uout) d_fnu = false ->
    compute_flux vals uin uout w ss bmaj bmin = Err EOutputUnit.
Proof. exact flux_output_must_be_flux_density. Qed.
Print Assumptions C13_output_unit.

(* the five input families against their textbook conversions *)
Theorem C13_flux_density :
  forall s uin w ss bj bn, dim_eqb (u_dim uin) d_fnu = true -> total_si s uin w ss bj bn = Ok (input_si s uin).
Proof. exact flux_fnu. Qed.
Theorem C13_per_wavelength :
  forall s uin lam ss bj bn,
    dim_eqb (u_dim uin) d_fnu = false -> dim_eqb (u_dim uin) d_flam = true ->
    dim_eqb (u_dim (snd lam)) d_len = true -> ~ sc (phys lam) == 0 ->
    res_eq (total_si s uin (Some lam) ss bj bn)
           (Ok (sq_div (sq_mul (input_si s uin) (sq_mul (phys lam) (phys lam))) c_light)).
Proof. exact flux_flambda. Qed.
Theorem C13_surface_brightness :
  forall s uin w scale bj bn,
    dim_eqb (u_dim uin) d_fnu = false -> dim_eqb (u_dim uin) d_flam = false -> dim_eqb (u_dim uin) d_sb = true ->
    dim_eqb (u_dim (snd scale)) d_angle = true ->
    total_si s uin w (Some scale) bj bn = Ok (sq_mul (input_si s uin) (sq_mul (phys scale) (phys scale))).
Proof. exact flux_surface_brightness. Qed.
Theorem C13_per_beam :
  forall s uin w scale bj bn,
    dim_eqb (u_dim uin) d_fnu = false -> dim_eqb (u_dim uin) d_flam = false -> dim_eqb (u_dim uin) d_sb = false ->
    dim_eqb (u_dim uin) d_perbeam = true ->
    dim_eqb (u_dim (snd scale)) d_angle = true -> dim_eqb (u_dim (snd bj)) d_angle = true ->
    dim_eqb (u_dim (snd bn)) d_angle = true ->
    total_si s uin w (Some scale) (Some bj) (Some bn) =
    Ok (sq_mul (input_si s uin)
               (sq_div (sq_mul (phys scale) (phys scale)) (sq_mul (sq_mul (phys bn) (phys bj)) beam_const))).
Proof. exact flux_per_beam. Qed.
(* brightness temperature: Rayleigh-Jeans 2 k nu^2 T / c^2 times the pixel solid angle;
   the beam cancels (beam independence) *)
Theorem C13_brightness_temperature :
  forall s uin w scale bj bn,
    dim_eqb (u_dim uin) d_fnu = false -> dim_eqb (u_dim uin) d_flam = false -> dim_eqb (u_dim uin) d_sb = false ->
    dim_eqb (u_dim uin) d_perbeam = false -> dim_eqb (u_dim uin) d_temp = true ->
    dim_eqb (u_dim (snd scale)) d_angle = true -> dim_eqb (u_dim (snd bj)) d_angle = true ->
    dim_eqb (u_dim (snd bn)) d_angle = true ->
    is_spectral w = true -> ~ sc (phys bj) == 0 -> ~ sc (phys bn) == 0 ->
    res_eq (total_si s uin (Some w) (Some scale) (Some bj) (Some bn))
           (Ok (sq_mul (sq_mul (sq_div (sq_mul (sq_of 2) (sq_mul k_B (sq_mul (freq_of w) (freq_of w))))
                                       (sq_mul c_light c_light)) (input_si s uin))
                       (sq_mul (phys scale) (phys scale)))).
Proof. exact flux_temperature. Qed.
Print Assumptions C13_brightness_temperature.

(* the code's per-beam constant 1.1331 is the textbook pi / (4 ln 2) to within 2e-5 *)
Theorem C13_beam_constant_close : (Rabs (11331 / 10000 - PI / (4 * ln 2)) < 2 / 100000)%R.
Proof. exact beam_constant_close. Qed.
Print Assumptions C13_beam_constant_close.

(* errors rather than numbers *)
Theorem C13_unsupported_input_unit :
  forall s uin w ss bj bn,
    dim_eqb (u_dim uin) d_fnu = false -> dim_eqb (u_dim uin) d_flam = false -> dim_eqb (u_dim uin) d_sb = false ->
    dim_eqb (u_dim uin) d_perbeam = false -> dim_eqb (u_dim uin) d_temp = false ->
    total_si s uin w ss bj bn = Err EUnsupported.
Proof. exact flux_unsupported_unit. Qed.
Theorem C13_missing_spatial_scale :
  forall s uin w bj bn,
    dim_eqb (u_dim uin) d_fnu = false -> dim_eqb (u_dim uin) d_flam = false ->
    (dim_eqb (u_dim uin) d_sb = true \/
     (dim_eqb (u_dim uin) d_sb = false /\ (dim_eqb (u_dim uin) d_perbeam = true \/
        (dim_eqb (u_dim uin) d_perbeam = false /\ dim_eqb (u_dim uin) d_temp = true)))) ->
    total_si s uin w None bj bn = Err ESpatialNeeded.
Proof. exact flux_missing_spatial_scale. Qed.
Theorem C13_wrong_spatial_scale :
  forall s uin w scale bj bn,
    dim_eqb (u_dim uin) d_fnu = false -> dim_eqb (u_dim uin) d_flam = false ->
    (dim_eqb (u_dim uin) d_sb = true \/
     (dim_eqb (u_dim uin) d_sb = false /\ (dim_eqb (u_dim uin) d_perbeam = true \/
        (dim_eqb (u_dim uin) d_perbeam = false /\ dim_eqb (u_dim uin) d_temp = true)))) ->
    dim_eqb (u_dim (snd scale)) d_angle = false ->
    total_si s uin w (Some scale) bj bn = Err ESpatialAngle.
Proof. exact flux_wrong_spatial_scale. Qed.
Theorem C13_missing_wavelength :
  forall s uin ss bj bn,
    dim_eqb (u_dim uin) d_fnu = false -> dim_eqb (u_dim uin) d_flam = true ->
    total_si s uin None ss bj bn = Err EWavelengthNeeded.
Proof. exact flux_missing_wavelength_flambda. Qed.
Print Assumptions C13_wrong_spatial_scale.
