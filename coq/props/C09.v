(* C09 — save / load round-trips every dendrogram; the textual tree encoding parses back. *)
From Coq Require Import ZArith List Bool Permutation String.
From Dendro Require Import Base Tree Index IndexLemmas Newick NewickLemmas LexerLemmas IO IOLemmas.
Import ListNotations.
Open Scope Z_scope.

(* the token stream written for ANY forest (any number of structures, any depth, any
   identifiers and height renderings) parses back to exactly that forest *)
Theorem C09_newick_roundtrip : forall f, parse_forest (toks_forest f) = Some f.
Proof. exact parse_write_forest. Qed.
Print Assumptions C09_newick_roundtrip.

(* character level: the TEXT written for any forest whose identifiers are non-negative and
   whose heights are rendered over the alphabet of "%.3f" (digits, '.', '-', and the letters of
   inf / -inf / nan, which "%.3f" writes for infinite and undefined heights; non-empty) lexes and
   parses back to exactly that forest - any size, any depth, any identifiers *)
Theorem C09_text_roundtrip : forall f, all_ok f -> parse_text (render (toks_forest f)) = Some f.
Proof. exact parse_text_render. Qed.
Print Assumptions C09_text_roundtrip.

(* in particular identifiers, nesting and child order of a dendrogram's tree *)
Theorem C09_newick_roundtrip_shape :
  forall hstr f,
    option_map (map shape_of_ntree) (parse_forest (toks_forest (map (ntree_of hstr) f)))
    = Some (map shape_of_tree f).
Proof. exact newick_roundtrip_shape. Qed.
Print Assumptions C09_newick_roundtrip_shape.

(* decimal identifiers round-trip *)
Theorem C09_id_roundtrip : forall n, 0 <= n -> parse_id (print_id n) = Some n.
Proof. exact id_roundtrip. Qed.
Print Assumptions C09_id_roundtrip.

(* load (save d): same dimensionality, data, label map, parameters, WCS; same identifiers,
   parent/child relations and child order; every structure has the same own pixels with the
   same values (rebuilt from the label map in C order) *)
Theorem C09_load_save :
  forall hstr d,
    (forall u, In u (fnodes (d_forest d)) ->
       NoDup (opix u) /\ values_agree (d_data d) u /\
       (forall p, In p (own_of (d_labels d) (tid u)) <-> In p (opix u))) ->
    exists d', load (save hstr d) = Some d' /\
               d_ndim d' = d_ndim d /\ d_data d' = d_data d /\ d_labels d' = d_labels d /\
               d_params d' = d_params d /\ d_wcs d' = d_wcs d /\
               Forall2 tequiv (d_forest d') (d_forest d).
Proof. exact load_save. Qed.
Print Assumptions C09_load_save.

(* hence identical answers from the accessors *)
Theorem C09_same_vmax : forall a b, tequiv a b -> town a <> [] -> vmax a = vmax b.
Proof. exact tequiv_vmax. Qed.
Theorem C09_same_vmin : forall a b, tequiv a b -> town a <> [] -> vmin a = vmin b.
Proof. exact tequiv_vmin. Qed.
Theorem C09_same_npix : forall a b, tequiv a b -> npix_own a = npix_own b.
Proof. exact tequiv_npix. Qed.
Theorem C09_same_peak : forall a b, tequiv a b -> town a <> [] -> peak_own a = peak_own b.
Proof. exact tequiv_peak_own. Qed.
Theorem C09_same_region : forall a b, tequiv a b -> Permutation (regionv a) (regionv b).
Proof. exact tequiv_regionv. Qed.
Print Assumptions C09_same_peak.

(* format: explicit wins; writing goes by extension; reading an existing file by content;
   unrecognisable targets are refused *)
Theorem C09_format_explicit : forall f e c r, choose (Some f) e c r = Some f.
Proof. exact choose_explicit. Qed.
Theorem C09_format_write_by_extension :
  forall e c, choose None e c false =
              match e with ExtFits => Some FITS | ExtHdf5 => Some HDF5 | ExtOther => None end.
Proof. exact choose_write_by_extension. Qed.
Theorem C09_format_read_by_content :
  forall e c, file_exists c = true ->
    choose None e c true = match c with SigFits => Some FITS | SigHdf5 => Some HDF5 | _ => None end.
Proof. exact choose_read_by_content. Qed.
Theorem C09_format_unknown_refused :
  choose None ExtOther SigOther true = None /\ choose None ExtOther NoFile false = None /\
  choose None ExtFits SigOther true = None.
Proof. exact choose_unknown_refused. Qed.
Print Assumptions C09_format_read_by_content.

Example C09_example :
  parse_text (render (toks_forest [NNode 10 "1.000" []; NNode 2 "-0.250" [NNode 1 "2.000" []; NNode 305 "0.500" []]]))
  = Some [NNode 10 "1.000" []; NNode 2 "-0.250" [NNode 1 "2.000" []; NNode 305 "0.500" []]].
Proof. vm_compute. reflexivity. Qed.

(* infinite heights (saturated pixels, data blanked to -inf) are inside the alphabet *)
Example C09_example_infinite_heights :
  all_ok [NNode 3 "inf" [NNode 1 "-inf" []; NNode 2 "nan" []]] /\
  parse_text (render (toks_forest [NNode 3 "inf" [NNode 1 "-inf" []; NNode 2 "nan" []]]))
  = Some [NNode 3 "inf" [NNode 1 "-inf" []; NNode 2 "nan" []]].
Proof. split; [cbn; unfold hok; cbn; repeat split; try discriminate; try (intros H; discriminate H) | vm_compute; reflexivity]. Qed.

(* the hypothesis of C09_text_roundtrip is met by that forest *)
Example C09_example_all_ok :
  all_ok [NNode 10 "1.000" []; NNode 2 "-0.250" [NNode 1 "2.000" []; NNode 305 "0.500" []]].
Proof. cbn. unfold hok. cbn. repeat split; try discriminate; try (intros H; discriminate H). Qed.
