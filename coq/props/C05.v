(* C05 — leaves are exactly the independent local maxima. *)
From Coq Require Import ZArith List Bool Permutation.
From Dendro Require Import Base Tree Criteria Compute ComputeInv ComputeThm.
Import ListNotations.
Open Scope Z_scope.

(* a leaf k with parent w: cval w is the value of the pixel that created w.  That
   pixel is kept, adjacent to the leaf, and no kept pixel adjacent to the leaf from
   outside is brighter - so cval w IS the brightest adjacent outside value; the leaf
   peaks strictly above it and passed every criterion at that value. *)
Theorem C05_leaf_with_parent :
  forall adj indep order,
    NoDup (map fst order) -> sorted_desc order ->
    (forall a b, In a (map fst order) -> In b (map fst order) -> In b (adj a) -> In a (adj b)) ->
    forall w k, In (w, k) (fedges (run adj indep order)) -> is_leaf k = true ->
      cval w < vmax k /\
      indep (town k) (Some (cval w)) = true /\
      In (cpix w, cval w) order /\
      (exists x, In x (region k) /\ In x (adj (cpix w))) /\
      (forall x q vq, In x (region k) -> In (q, vq) order -> In q (adj x) -> ~ In q (region k) ->
                      vq <= cval w).
Proof. exact leaf_with_parent. Qed.
Print Assumptions C05_leaf_with_parent.

(* a parentless leaf in the trunk passed the final test *)
Theorem C05_parentless_leaf :
  forall adj indep order r, In r (make_trunk indep (run adj indep order)) -> is_leaf r = true ->
              indep (town r) None = true.
Proof. exact parentless_leaf. Qed.
Print Assumptions C05_parentless_leaf.

(* what "passed" means for the built-in criteria: all of the list, conjunctively *)
Theorem C05_criteria_conjunction :
  forall cs o ov c, indep_of cs o ov = true -> In c cs ->
    match ov with Some v => crit_at c o v | None => crit_final c o end = true.
Proof. exact indep_of_all. Qed.
Print Assumptions C05_criteria_conjunction.

Theorem C05_min_delta_at : forall d o v, crit_at (MinDelta d) o v = true <-> d <= vmax_l o - v.
Proof. exact min_delta_at. Qed.
Theorem C05_min_npix_at : forall n den o v, crit_at (MinNpix n den) o v = true <-> n <= zlen o * den.
Proof. exact min_npix_at. Qed.
Theorem C05_min_delta_final : forall d o, crit_final (MinDelta d) o = true <-> d <= vmax_l o - vmin_l o.
Proof. exact min_delta_final. Qed.
Theorem C05_min_npix_final : forall n den o, crit_final (MinNpix n den) o = true <-> n <= zlen o * den.
Proof. exact min_npix_final. Qed.
Print Assumptions C05_min_delta_at.
