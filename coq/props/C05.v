(* C05 — leaves are exactly the independent local maxima. *)
From Coq Require Import ZArith List Bool Permutation.
From Dendro Require Import Base Tree Criteria Compute ComputeInv ComputeThm.
Import ListNotations.
Open Scope Z_scope.

(* a leaf k with parent w: cval w is the value of the pixel that created w.  That
   pixel is kept, adjacent to the leaf, and no kept pixel adjacent to the leaf from
   outside is brighter - so cval w IS the brightest adjacent outside value; the leaf
   peaks strictly above it and passed every criterion at that value. *)
Theorem C05_leaf_with_parent :
  forall adj indep order,
    NoDup (map fst order) -> sorted_desc order ->
    (forall a b, In a (map fst order) -> In b (map fst order) -> In b (adj a) -> In a (adj b)) ->
    forall w k, In (w, k) (fedges (run adj indep order)) -> is_leaf k = true ->
      cval w < vmax k /\
      indep (town k) (Some (cval w)) = true /\
      In (cpix w, cval w) order /\
      (exists x, In x (region k) /\ In x (adj (cpix w))) /\
      (forall x q vq, In x (region k) -> In (q, vq) order -> In q (adj x) -> ~ In q (region k) ->
                      vq <= cval w).
Proof. exact leaf_with_parent. Qed.
Print Assumptions C05_leaf_with_parent.

(* a parentless leaf in the trunk passed the final test *)
Theorem C05_parentless_leaf :
  forall adj indep order r, In r (make_trunk indep (run adj indep order)) -> is_leaf r = true ->
              indep (town r) None = true.
Proof. exact parentless_leaf. Qed.
Print Assumptions C05_parentless_leaf.

(* what "passed" means for the built-in criteria: all of the list, conjunctively *)
Theorem C05_criteria_conjunction :
  forall cs o ov c, indep_of cs o ov = true -> In c cs ->
    match ov with Some v => crit_at c o v | None => crit_final c o end = true.
Proof. exact indep_of_all. Qed.
Print Assumptions C05_criteria_conjunction.

Theorem C05_min_delta_at : forall d o v, crit_at (MinDelta d) o v = true <-> d <= vmax_l o - v.
Proof. exact min_delta_at. Qed.
Theorem C05_min_npix_at : forall n den o v, crit_at (MinNpix n den) o v = true <-> n <= zlen o * den.
Proof. exact min_npix_at. Qed.
Theorem C05_min_delta_final : forall d o, crit_final (MinDelta d) o = true <-> d <= vmax_l o - vmin_l o.
Proof. exact min_delta_final. Qed.
Theorem C05_min_npix_final : forall n den o, crit_final (MinNpix n den) o = true <-> n <= zlen o * den.
Proof. exact min_npix_final. Qed.
Print Assumptions C05_min_delta_at.

(* ------------------------------------------------------------------------------------------
   "With no pruning requested there is exactly one leaf per regional maximum (plateau-aware)
   and each leaf's peak lies in its regional maximum."

   np = the criterion that is always true (what compute uses when no pruning parameter is
   given: C05_no_pruning_is_np).  A plateau is a class of sim = "adjacent kept pixels with
   equal values"; regmax a = the plateau of the kept pixel a has no kept neighbour of
   strictly higher value.  topof t z = z is an own pixel of the leaf t carrying t's maximal
   value.  For every adjacency that is symmetric on the kept pixels, every array, every
   threshold, ties and plateaus included: *)
From Coq Require Import Relations Sorted.
From Dendro Require Import RegMax.

(* every leaf has a peak, its top pixels are one whole plateau, and that plateau is a regional
   maximum *)
Theorem C05_leaf_peak_is_a_regional_maximum :
  forall adj order, NoDup (map fst order) -> sorted_desc order ->
    (forall a b, In a (map fst order) -> In b (map fst order) -> In b (adj a) -> In a (adj b)) ->
  forall t, In t (fnodes (run adj np order)) -> is_leaf t = true ->
    (exists z, topof t z) /\
    (forall z, topof t z -> regmax adj order z /\ forall b, sim adj order z b -> topof t b) /\
    (forall z1 z2, topof t z1 -> topof t z2 -> sim adj order z1 z2).
Proof.
  intros adj order Hnd Hs Hsym t Ht Hl. split; [|split].
  - exact (leaf_has_top adj order Hnd Hs Hsym t Ht Hl).
  - intros z Hz. exact (leaf_top_regmax adj order Hnd Hs Hsym t z Ht Hz).
  - intros z1 z2. exact (leaf_top_one_plateau adj order Hnd Hs Hsym t z1 z2 Ht).
Qed.
Print Assumptions C05_leaf_peak_is_a_regional_maximum.

(* every pixel of every regional maximum is a top pixel of exactly one leaf *)
Theorem C05_every_regional_maximum_has_its_leaf :
  forall adj order, NoDup (map fst order) -> sorted_desc order ->
    (forall a b, In a (map fst order) -> In b (map fst order) -> In b (adj a) -> In a (adj b)) ->
  forall a, regmax adj order a ->
    exists t, In t (fnodes (run adj np order)) /\ topof t a /\
              forall t', In t' (fnodes (run adj np order)) -> topof t' a -> t' = t.
Proof.
  intros adj order Hnd Hs Hsym a Ha.
  destruct (regmax_in_leaf adj order Hnd Hs Hsym a Ha) as [t [Ht Htop]].
  exists t. split; [exact Ht|]. split; [exact Htop|]. intros t' Ht' Htop'.
  exact (regmax_leaf_unique adj order Hnd Hs Hsym a t' t Ht' Ht Htop' Htop).
Qed.
Print Assumptions C05_every_regional_maximum_has_its_leaf.

(* without pruning parameters compute's criterion is np, and the loop does not depend on how
   the criterion is written *)
Theorem C05_no_pruning_is_np :
  forall adj order, run adj (indep_of []) order = run adj np order.
Proof. intros adj order. apply run_ext. exact indep_nil. Qed.
Print Assumptions C05_no_pruning_is_np.

(* the loop invariant behind it: every processed pixel has an ascending path to a top pixel of
   a leaf that owns it or peaks strictly higher *)
Theorem C05_ascending_path_invariant :
  forall adj D f pv, Jinv adj np D f -> NoDup (map fst (D ++ [pv])) ->
    (forall y vy, In (y, vy) D -> snd pv <= vy) ->
    INV adj D f -> INV adj (D ++ [pv]) (step adj np f pv).
Proof. exact INV_step. Qed.

(* the same on Dendrogram.compute itself (grid adjacency, default or periodic; no pruning
   parameters): the final sorting of the trunk and renaming of identifiers change neither which
   structures are leaves nor their pixels *)
From Dendro Require Import Grid ComputeNP.
Theorem C05_compute_leaves_are_the_regional_maxima :
  forall shape per vals minv, Forall (fun n => 0 < n) shape ->
  let order := order_of (kept vals minv) in
  let adj := nbrs shape per in
  (forall t', In t' (fnodes (compute shape (AdjGrid per) vals minv [])) -> is_leaf t' = true ->
     (exists z, topof t' z) /\
     (forall z, topof t' z -> regmax adj order z /\ forall b, sim adj order z b -> topof t' b) /\
     (forall z1 z2, topof t' z1 -> topof t' z2 -> sim adj order z1 z2)) /\
  (forall a, regmax adj order a ->
     exists t', In t' (fnodes (compute shape (AdjGrid per) vals minv [])) /\ topof t' a).
Proof. exact compute_leaves_are_regional_maxima. Qed.
Print Assumptions C05_compute_leaves_are_the_regional_maxima.

(* saturated (+inf) pixels: min_delta as the implementation evaluates it (rise = top - bottom, the
   NaN of inf - inf counted as no rise) is the model's test on the data with +inf embedded as a
   finite M far above everything else *)
From Dendro Require Import ExtVal.
Theorem C05_min_delta_with_saturated_pixels :
  forall B M, 2 * B < M -> forall d top bottom, 0 <= d <= B -> bounded B top -> bounded B bottom ->
    ext_rise_ok d top bottom = (d <=? emb M top - emb M bottom).
Proof. exact emb_rise_ok. Qed.
Print Assumptions C05_min_delta_with_saturated_pixels.

(* While a parentless leaf grows, compute tests it again at every meeting - with more own
   pixels and a meeting value that is no higher.  For min_delta, min_npix, min_peak and
   contains_seeds a leaf that passed once passes ever after; for min_sum it need not (negative
   pixels), so for min_sum "the criteria are satisfied at the meeting value" really depends
   on the test being repeated at the final meeting (as the model does and C05_leaf_with_parent
   states). *)
From Dendro Require Import CritMono.
Theorem C05_monotone_criteria_stay_satisfied_while_a_leaf_grows :
  forall cs o q v v',
    forallb monotone_crit cs = true -> o <> [] -> v' <= v ->
    indep_of cs o (Some v) = true -> indep_of cs (o ++ q) (Some v') = true.
Proof. exact indep_stays_while_growing. Qed.
Print Assumptions C05_monotone_criteria_stay_satisfied_while_a_leaf_grows.

Theorem C05_min_sum_can_be_lost_while_a_leaf_grows :
  exists o q v v', o <> [] /\ v' <= v /\
    indep_of [MinSum 5] o (Some v) = true /\ indep_of [MinSum 5] (o ++ q) (Some v') = false.
Proof. exact min_sum_may_be_lost. Qed.
Print Assumptions C05_min_sum_can_be_lost_while_a_leaf_grows.

Example C05_monotone_premises_hold :
  forallb monotone_crit [MinDelta 2; MinNpix 3 2; MinPeak 4; Seeds [0]] = true /\
  indep_of [MinDelta 2; MinNpix 3 2; MinPeak 4; Seeds [0]] [(0, 5); (1, 4)] (Some 3) = true.
Proof. vm_compute. split; reflexivity. Qed.
