(* C18 — the plotted tree is planar and drawn at the right heights.
   Plot.v models DendrogramPlotter.sort / get_lines and Structure.sorted_leaves. *)
From Coq Require Import ZArith List Bool Permutation QArith.
From Dendro Require Import Base Tree ComputeInv Plot PlotLemmas.
Import ListNotations.
Open Scope Z_scope.

(* from left to right the leaves of the dendrogram, each exactly once ... *)
Theorem C18_leaf_order_is_the_leaves :
  forall keytb reverse f, Permutation (leaf_order keytb reverse f) (leaf_ids (fnodes f)).
Proof. exact leaf_order_perm. Qed.
Print Assumptions C18_leaf_order_is_the_leaves.

Theorem C18_leaf_order_no_repetition :
  forall keytb reverse f, NoDup (map tid (fnodes f)) -> NoDup (leaf_order keytb reverse f).
Proof. exact leaf_order_NoDup. Qed.
Print Assumptions C18_leaf_order_no_repetition.

(* ... placed at their indices: distinct, inside 0 .. L-1, and every integer in 0 .. L-1 is taken *)
Theorem C18_leaf_positions_distinct :
  forall l i j, NoDup l -> In i l -> In j l -> index_of i l 0 = index_of j l 0 -> i = j.
Proof. exact leaf_positions_distinct. Qed.
Theorem C18_leaf_positions_range : forall l i, In i l -> 0 <= index_of i l 0 < Z.of_nat (length l).
Proof. exact leaf_positions_range. Qed.
Theorem C18_leaf_positions_consecutive :
  forall l k, NoDup l -> (k < length l)%nat -> exists i, In i l /\ index_of i l 0 = Z.of_nat k.
Proof. exact leaf_positions_onto. Qed.
Print Assumptions C18_leaf_positions_consecutive.

(* a leaf sits at its index, a branch at the mean position of its children *)
Theorem C18_leaf_position : forall lo i o, pos lo (Node i o []) = inject_Z (index_of i lo 0).
Proof. exact pos_leaf. Qed.
Theorem C18_branch_at_mean_of_children :
  forall lo i o k ks, pos lo (Node i o (k :: ks)) = qmean (map (pos lo) (k :: ks)).
Proof. exact pos_branch. Qed.
Print Assumptions C18_branch_at_mean_of_children.

(* sorting only permutes children; it never changes which leaves a subtree has *)
Theorem C18_sorting_keeps_subtree_leaves :
  forall keytb R t, Permutation (leaf_ids (nodes (reorder keytb R t))) (leaf_ids (nodes t)).
Proof. exact reorder_leaf_ids. Qed.
Print Assumptions C18_sorting_keeps_subtree_leaves.

(* planarity.  LL u = the leaves below a (sorted) structure u from left to right.
   (a) the leaves of every structure form one contiguous run of the leaves of any structure that
       contains it - so every structure's leaves occupy a contiguous interval of positions;
   (b) of two children, all leaves of the one later in the sorted child list lie to the left of
       all leaves of the earlier one - blocks never interleave, hence no lines cross;
   (c) the sorted child list is in key order (descending when reverse = false, because the
       display order is the reversed traversal: smaller keys end up on the left);
   (d) the whole display order is the concatenation of the trunk structures' blocks in sorted order *)
Theorem C18_subtree_leaves_contiguous :
  forall u w, In w (nodes u) -> exists X Z, LL u = X ++ LL w ++ Z.
Proof. exact subtree_leaves_contiguous. Qed.
Theorem C18_sibling_blocks_do_not_interleave :
  forall i o l1 a l2 b l3,
    exists X Y Z, LL (Node i o (l1 ++ a :: l2 ++ b :: l3)) = X ++ LL b ++ Y ++ LL a ++ Z.
Proof. exact sibling_blocks_ordered. Qed.
Theorem C18_children_in_key_order :
  forall keytb R i o ks l1 a l2 b l3,
    tkids (reorder keytb R (Node i o ks)) = l1 ++ a :: l2 ++ b :: l3 ->
    if R then key keytb b <= key keytb a else key keytb a <= key keytb b.
Proof. exact children_sorted_by_key. Qed.
Theorem C18_display_order_is_trunk_blocks :
  forall keytb reverse f,
    leaf_order keytb reverse f =
    flat_map (fun t => LL (reorder keytb (negb reverse) t)) (psorted keytb reverse f).
Proof. exact leaf_order_blocks. Qed.
Print Assumptions C18_sibling_blocks_do_not_interleave.
Print Assumptions C18_children_in_key_order.

(* the line collection: per structure a vertical segment from the parent's height (own minimum
   on the trunk) to its own height, and for a branch a horizontal one spanning its children at
   its height; each keyed by the structure it was drawn for *)
Theorem C18_segments_of_trunk_structure :
  forall lo ph t, In (tid t, node_segs lo ph t) (lines_from lo ph t).
Proof. exact segs_of_root. Qed.
Theorem C18_segments_of_child :
  forall lo t ph u k, In (u, k) (edges t) ->
    In (tid k, node_segs lo (Some (height u)) k) (lines_from lo ph t).
Proof. exact segs_of_child. Qed.
Theorem C18_segments_leaf :
  forall lo ph t, tkids t = [] ->
    node_segs lo ph t =
    [(tid t, ((pos lo t, match ph with Some h => h | None => vmin t end), (pos lo t, height t)))].
Proof. exact node_segs_leaf. Qed.
Theorem C18_segments_branch :
  forall lo ph t, tkids t <> [] ->
    node_segs lo ph t =
    [(tid t, ((pos lo t, match ph with Some h => h | None => vmin t end), (pos lo t, height t)));
     (tid t, ((qmin (map (pos lo) (tkids t)), height t), (qmax (map (pos lo) (tkids t)), height t)))].
Proof. exact node_segs_branch. Qed.
Print Assumptions C18_segments_branch.

Example C18_example :
  positions_view [(0, 5); (1, 9); (2, 7); (3, 8); (4, 7)] false
    [Node 0 [(3, 1)] [Node 1 [(0, 9)] []; Node 2 [(5, 2)] [Node 3 [(4, 8)] []; Node 4 [(6, 7)] []]]]
  = [(0, (5, 4)); (1, (2, 1)); (2, (1, 2)); (3, (1, 1)); (4, (0, 1))].
Proof. vm_compute. reflexivity. Qed.

(* every structure is drawn inside the interval spanned by the leaves below it: a branch sits
   at the mean of its children and a mean lies between the extremes (any leaf order lo) *)
From Coq Require Import QArith.
From Dendro Require Import PlotInterval.
Theorem C18_structure_inside_the_interval_of_its_leaves :
  forall lo (a b : Q) t,
    (forall l, In l (nodes t) -> is_leaf l = true ->
       (a <= inject_Z (index_of (tid l) lo 0) /\ inject_Z (index_of (tid l) lo 0) <= b)%Q) ->
    (a <= pos lo t /\ pos lo t <= b)%Q.
Proof. exact pos_within. Qed.
Print Assumptions C18_structure_inside_the_interval_of_its_leaves.
