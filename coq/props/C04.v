(* C04 — the hierarchy equals the documented brightest-to-faintest construction.
   Compute.v IS the documented construction; the tie (correspondence check) is what
   compares it with /repo on every run.  Here: the case rules in closed form, the
   order, and uniqueness of the result when kept values are distinct. *)
From Coq Require Import ZArith List Bool Permutation.
From Dendro Require Import Base Tree Grid Criteria Compute ComputeInv ComputeThm.
Import ListNotations.
Open Scope Z_scope.

(* the whole computation: threshold, order, loop, final test, identifiers *)
Theorem C04_compute_unfold :
  forall shape a vals minv cs,
    compute shape a vals minv cs =
    sort_by tid (relabel_forest (make_trunk (indep_of cs)
      (run (adj_of shape a) (indep_of cs) (order_of (kept vals minv))))).
Proof. reflexivity. Qed.

(* one iteration: the roots with a neighbour of the pixel in their region are replaced
   by one structure, all other roots are untouched *)
Theorem C04_step :
  forall adj indep roots pv,
    step adj indep roots pv =
    rests adj roots (fst pv) ++ [join indep (tchs adj roots (fst pv)) pv].
Proof. exact step_eq. Qed.

Theorem C04_touched_roots :
  forall adj roots p t,
    In t (tchs adj roots p) <->
    In t roots /\ exists q, In q (adj p) /\ In q (region t).
Proof. intros. rewrite tchs_In, touches_true. reflexivity. Qed.

(* rule 1: no assigned neighbour -> the pixel starts a leaf *)
Theorem C04_rule_new_leaf : forall indep pv, join indep [] pv = Node (fst pv) [pv] [].
Proof. reflexivity. Qed.

(* rule 2: exactly one adjacent structure -> the pixel joins it *)
Theorem C04_rule_join_one :
  forall indep t pv, join indep [t] pv = Node (tid t) (town t ++ [pv]) (tkids t).
Proof. reflexivity. Qed.

(* rule 3: several regions meet.  Leaves that are not independent (peak equal to the
   meeting value, or rejected by the criteria at that value) are absorbed; the
   remaining structures become the children of a new branch, or the single remaining
   one takes the pixel, or - if none remains - one absorbed leaf takes everything *)
Theorem C04_rule_meeting :
  forall indep t1 t2 r pv,
    let tch := t1 :: t2 :: r in
    let mg := filter (mergeable indep (snd pv)) tch in
    let keep := filter (fun t => negb (mergeable indep (snd pv) t)) tch in
    join indep tch pv =
    match keep with
    | [] => Node (tid (last mg dummy))
                 (town (last mg dummy) ++ [pv] ++ flat_map town (removelast mg)) []
    | [k] => Node (tid k) (town k ++ [pv] ++ flat_map town mg) (tkids k)
    | _ => Node (fst pv) (pv :: flat_map town mg) keep
    end.
Proof. reflexivity. Qed.

Theorem C04_not_independent :
  forall indep v t,
    mergeable indep v t = true <->
    is_leaf t = true /\ (vmax t = v \/ indep (town t) (Some v) = false).
Proof. exact mergeable_spec. Qed.

(* the criteria are min_delta, min_npix and the user criteria, all of which must hold *)
Theorem C04_criteria_conjunction :
  forall cs o ov c, indep_of cs o ov = true -> In c cs ->
    match ov with Some v => crit_at c o v | None => crit_final c o end = true.
Proof. exact indep_of_all. Qed.

(* pixels are processed in non-increasing order of value, each kept pixel once *)
Theorem C04_order_non_increasing : forall k, sorted_desc (order_of k).
Proof. exact order_of_sorted. Qed.
Theorem C04_order_permutation : forall k, Permutation (order_of k) k.
Proof. exact order_of_perm. Qed.

(* with pairwise distinct kept values there is exactly one admissible order, hence the
   hierarchy is a function of data and parameters alone *)
Theorem C04_order_unique :
  forall l1 l2 : list (Z * Z),
    sorted_desc l1 -> sorted_desc l2 -> Permutation l1 l2 -> NoDup (map snd l1) -> l1 = l2.
Proof. exact sorted_perm_unique. Qed.

Theorem C04_unique_hierarchy :
  forall adj indep k order,
    NoDup (map snd k) -> sorted_desc order -> Permutation order k ->
    run adj indep order = run adj indep (order_of k).
Proof.
  intros adj indep k order Hnd Hs HP. f_equal.
  apply sorted_perm_unique; [exact Hs | apply order_of_sorted | |].
  - rewrite HP. symmetry. apply order_of_perm.
  - eapply Permutation_NoDup; [|exact Hnd]. apply Permutation_map. symmetry. exact HP.
Qed.

Print Assumptions C04_rule_meeting.
Print Assumptions C04_order_unique.
Print Assumptions C04_unique_hierarchy.
Print Assumptions C04_step.

(* non-vacuity: three regions meet at one pixel and become children of a branch *)
Example C04_example :
  sview (compute [3; 3] (AdjGrid [false; false])
                 [None; Some 9; None; Some 8; Some 1; Some 7; None; Some 6; Some 6]
                 None [MinDelta 2; MinNpix 0 1])
  = [(2, (-1, ([0; 1; 3], [4]))); (0, (2, ([], [1]))); (1, (2, ([], [3]))); (3, (2, ([], [5; 8; 7])))].
Proof. vm_compute. reflexivity. Qed.
