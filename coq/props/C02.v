(* C02 — structures form a well-formed forest with consistent navigation.
   The model represents a dendrogram as a list of rose trees (the trunk), so "at most one
   parent, exactly once in its child list" holds by construction of the data type; what
   needs proof is that the implementation-shaped algorithms (worklist iteration,
   generation-wise descendants, level/parent tables, id assignment) agree with it. *)
From Coq Require Import ZArith List Bool Permutation Sorted.
From Dendro Require Import Base BaseLemmas Tree Grid Criteria Compute ComputeInv ComputeThm Forest Concrete.
Import ListNotations.
Open Scope Z_scope.

(* iteration (todo = children + todo) yields the prefix order: every structure once *)
Theorem C02_iteration_is_prefix_order :
  forall fuel todo, (fsize todo <= fuel)%nat -> worklist fuel todo = fnodes todo.
Proof. exact worklist_prefix. Qed.
Print Assumptions C02_iteration_is_prefix_order.

Theorem C02_structure_count : forall f, length (fnodes f) = fsize f.
Proof. exact length_fnodes. Qed.

(* parents before children *)
Theorem C02_parent_before_child :
  forall f u k, In (u, k) (fedges f) -> exists l1 l2 l3, fnodes f = l1 ++ u :: l2 ++ k :: l3.
Proof. exact parent_before_child. Qed.
Print Assumptions C02_parent_before_child.

(* the trunk is the parentless structures; a child's parent is the structure listing it *)
Theorem C02_parent_of_trunk : forall f t, In t f -> In (tid t, -1) (parent_table f).
Proof. exact parent_of_trunk. Qed.
Theorem C02_parent_of_child : forall f u k, In (u, k) (fedges f) -> In (tid k, tid u) (parent_table f).
Proof. exact parent_of_child. Qed.
Theorem C02_parent_table_one_entry_each : forall f, map fst (parent_table f) = map tid (fnodes f).
Proof. exact parent_table_ids. Qed.
Print Assumptions C02_parent_of_child.

(* level: 0 on the trunk, parent's level + 1 elsewhere, one entry per structure *)
Theorem C02_level_of_trunk : forall f t, In t f -> In (tid t, 0) (level_table f).
Proof. exact level_of_trunk. Qed.
Theorem C02_level_of_child :
  forall f u k, In (u, k) (fedges f) ->
    exists l, In (tid u, l) (level_table f) /\ In (tid k, l + 1) (level_table f).
Proof. exact level_of_child. Qed.
Theorem C02_level_table_one_entry_each : forall f, map fst (level_table f) = map tid (fnodes f).
Proof. exact level_table_ids. Qed.
Print Assumptions C02_level_of_child.

(* descendants (generation by generation) = every structure strictly below, once *)
Theorem C02_descendants : forall t, Permutation (descendants t) (flat_map nodes (tkids t)).
Proof. exact descendants_perm. Qed.
Print Assumptions C02_descendants.

(* identifiers: unique => lookup returns the carrier *)
Theorem C02_lookup_by_id :
  forall f u, NoDup (map tid (fnodes f)) -> In u (fnodes f) -> lookup f (tid u) = Some u.
Proof. exact lookup_by_id. Qed.
Print Assumptions C02_lookup_by_id.

(* after compute: identifiers are exactly 0..N-1 and every branch has >= 2 children *)
Theorem C02_compute_ids_exact :
  forall shape per vals minv cs, Forall (fun n => 0 < n) shape ->
    let G := compute shape (AdjGrid per) vals minv cs in
    Permutation (map tid (fnodes G)) (zseq (length (fnodes G))).
Proof. exact grid_ids_exact. Qed.
Print Assumptions C02_compute_ids_exact.

Theorem C02_compute_branch_arity :
  forall shape per vals minv cs, Forall (fun n => 0 < n) shape ->
  forall u, In u (fnodes (compute shape (AdjGrid per) vals minv cs)) ->
            tkids u = [] \/ (2 <= length (tkids u))%nat.
Proof. exact grid_arity. Qed.
Print Assumptions C02_compute_branch_arity.

(* generic (any symmetric adjacency, any criterion oracle) *)
Theorem C02_branch_arity_generic :
  forall adj indep order,
    NoDup (map fst order) -> sorted_desc order ->
    (forall a b, In a (map fst order) -> In b (map fst order) -> In b (adj a) -> In a (adj b)) ->
    Forall arity_ok (fnodes (make_trunk indep (run adj indep order))).
Proof. exact trunk_arity. Qed.
Print Assumptions C02_branch_arity_generic.

(* the trunk list (hence the iteration order above and the Newick text) is in the order of the
   final identifiers, for compute on any adjacency (fix F35) *)
Theorem C02_trunk_in_identifier_order :
  forall shape a vals minv cs, StronglySorted (key_le tid) (compute shape a vals minv cs).
Proof. intros. unfold compute. apply sort_by_sorted. Qed.
Print Assumptions C02_trunk_in_identifier_order.
