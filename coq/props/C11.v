(* C11 — PP / PPV statistics follow their stated definitions and axis conventions. *)
From Coq Require Import ZArith List Bool QArith.
From Dendro Require Import Moments MomentsLemmas Stats StatsLemmas.
Import ListNotations.
Open Scope Q_scope.

(* major_sigma^2 / dx^2 and minor_sigma^2 / dx^2 are the variances along the eigenvectors of the
   sky-plane covariance (C10_eigenvector_variance); every eigenvalue is a root of
   x^2 - tr x + det, so the two are the roots: real, and ... *)
Theorem C11_sigma_squared_is_a_root :
  forall m lam p q, eigen2 m lam p q -> (~ p == 0 \/ ~ q == 0) ->
    lam * lam - tr2 m * lam + det2 m == 0.
Proof. exact eigen_is_root. Qed.
Print Assumptions C11_sigma_squared_is_a_root.

(* ... their sum is the trace and their product the determinant: radius^4 = dx^4 det,
   area_ellipse = pi (2.3548/2)^2 dx^2 sqrt(det) *)
Theorem C11_sum_and_product :
  forall t d l1 l2, l1 * l1 - t * l1 + d == 0 -> l2 * l2 - t * l2 + d == 0 -> ~ l1 == l2 ->
    l1 + l2 == t /\ l1 * l2 == d.
Proof. exact roots_sum_product. Qed.
Print Assumptions C11_sum_and_product.

(* non-negative: variances of non-negatively weighted data *)
Theorem C11_variances_nonnegative :
  forall ps i, (forall p, In p ps -> 0 <= wt p) -> 0 < mom0 ps -> 0 <= mom2 ps i i.
Proof. exact variance_nonneg. Qed.
Print Assumptions C11_variances_nonnegative.

(* the velocity axis can be any array axis: on the cube transposed accordingly the sky covariance
   (hence sigmas, radius, areas, position angle), v_rms^2 and the centroids are those of vaxis = 0 *)
Theorem C11_vaxis_invariance :
  forall a ps, (a < 3)%nat -> cube3 ps ->
    let ps' := map (move_vaxis a) ps in
    (let '(a1, b1, c1) := ppv_sky ps' a in let '(a0, b0, c0) := ppv_sky ps 0 in
     a1 == a0 /\ b1 == b0 /\ c1 == c0) /\
    v_var ps' a == v_var ps 0 /\
    ppv_v_cen ps' a == ppv_v_cen ps 0 /\ ppv_y_cen ps' a == ppv_y_cen ps 0 /\ ppv_x_cen ps' a == ppv_x_cen ps 0.
Proof. exact vaxis_invariance. Qed.
Print Assumptions C11_vaxis_invariance.

Theorem C11_units : 
  unit_of_sigma true = USpatial /\ unit_of_sigma false = UPixel /\
  unit_of_vrms true = UVelocity /\ unit_of_vrms false = UPixel /\
  unit_of_area true = USpatial2 /\ unit_of_area false = UPixel2.
Proof. exact units_follow_metadata. Qed.

Theorem C11_metadata_descriptor :
  (forall s d r ok dok, ok = true -> metadata_get true s d r ok dok = MdValue) /\
  (forall s d dok, metadata_get true s d true false dok = MdTypeError) /\
  (forall d r ok dok, metadata_get false true d r ok dok = MdKeyError) /\
  (forall r ok, metadata_get false false false r ok true = MdNone) /\
  (forall ok, metadata_get false false true false ok true = MdDefault).
Proof. exact metadata_table. Qed.
Print Assumptions C11_metadata_descriptor.
