(* C07 — pruning coarsens the tree to a fixpoint and keeps it consistent.
   prune_struct cs f = the structures after Dendrogram.prune with criteria list cs
   (= [min_delta; min_npix] ++ user criteria) applied to forest f. *)
From Coq Require Import ZArith List Bool Permutation.
From Coq Require Import Sorted.
From Dendro Require Import Base BaseLemmas Tree Criteria Compute ComputeInv Prune PruneLemmas TrunkOrder.
Import ListNotations.
Open Scope Z_scope.

(* one merge step inside a tree keeps the root's identifier, all pixels, strictly reduces
   the number of structures, and every remaining structure is an old one with the same
   identifier and the same region *)
Theorem C07_step :
  forall cs u u', prune_once cs u = Some u' ->
    tid u' = tid u /\ Permutation (regionv u') (regionv u) /\ (tsize u' < tsize u)%nat /\
    (forall w', In w' (nodes u') -> exists w, In w (nodes u) /\ tid w = tid w' /\
                                          Permutation (regionv w') (regionv w)).
Proof. exact prune_once_spec. Qed.
Print Assumptions C07_step.

(* the loop stops exactly when every leaf with a parent passes the post-hoc criteria *)
Theorem C07_nothing_left :
  forall cs u, prune_once cs u = None <->
    forall w k, In (w, k) (edges u) -> is_leaf k = true -> ph_ok cs (height w) k = true.
Proof. exact prune_once_none. Qed.
Print Assumptions C07_nothing_left.

(* termination: fuel = number of structures suffices *)
Theorem C07_terminates :
  forall cs fuel f, (fsize' f <= fuel)%nat -> prune_forest_once cs (prune_loop cs fuel f) = None.
Proof. exact prune_loop_fixpoint. Qed.
Print Assumptions C07_terminates.

(* survivors keep identifier and region (with substructures) *)
Theorem C07_survivors_keep_id_and_region :
  forall cs f w', In w' (fnodes (prune_struct cs f)) ->
    exists w, In w (fnodes f) /\ tid w = tid w' /\ Permutation (regionv w') (regionv w).
Proof. exact prune_struct_survivors. Qed.
Print Assumptions C07_survivors_keep_id_and_region.

(* pixels: the loop moves pixels between structures but loses none; afterwards only whole
   parentless leaves failing the criteria are dropped *)
Theorem C07_pixels :
  forall cs f,
    let g := prune_loop cs (fsize' f) f in
    Permutation (fpv' g) (fpv' f) /\
    forall t, In t g -> In t (prune_struct cs f) \/
                        (is_leaf t = true /\ indep_of cs (town t) None = false).
Proof. exact prune_struct_pixels. Qed.
Print Assumptions C07_pixels.

(* well-formedness: every branch keeps at least two children *)
Theorem C07_arity :
  forall cs f, (forall w, In w (fnodes f) -> arity_ok w) ->
    forall w', In w' (fnodes (prune_struct cs f)) -> arity_ok w'.
Proof. exact prune_struct_arity. Qed.
Print Assumptions C07_arity.

(* afterwards every leaf satisfies the requested criteria *)
Theorem C07_leaves_satisfy_criteria :
  forall cs f,
    (forall w k, In (w, k) (fedges (prune_struct cs f)) -> is_leaf k = true ->
                 ph_ok cs (height w) k = true) /\
    (forall r, In r (prune_struct cs f) -> is_leaf r = true -> indep_of cs (town r) None = true).
Proof. exact prune_struct_leaves_ok. Qed.
Print Assumptions C07_leaves_satisfy_criteria.

(* pruning again with the same criteria changes nothing *)
Theorem C07_idempotent : forall cs f, prune_struct cs (prune_struct cs f) = prune_struct cs f.
Proof. exact prune_struct_idempotent. Qed.
Print Assumptions C07_idempotent.

(* criteria every leaf already meets change nothing (the trunk list is re-sorted by id) *)
Theorem C07_noop :
  forall cs f,
    (forall w k, In (w, k) (fedges f) -> is_leaf k = true -> ph_ok cs (height w) k = true) ->
    (forall r, In r f -> is_leaf r = true -> indep_of cs (town r) None = true) ->
    prune_struct cs f = sort_by tid f.
Proof. exact prune_struct_noop. Qed.
Print Assumptions C07_noop.

(* ... and straight after compute the trunk already is in identifier order (fix F35), so that
   nothing at all changes: same trunk list, same iteration order, same Newick text *)
Theorem C07_trunk_in_identifier_order_after_compute :
  forall shape a vals minv cs, StronglySorted (key_le tid) (compute shape a vals minv cs).
Proof. exact compute_trunk_sorted. Qed.
Theorem C07_trunk_in_identifier_order_after_prune :
  forall cs f, StronglySorted (key_le tid) (prune_struct cs f).
Proof. exact prune_trunk_sorted. Qed.
Theorem C07_noop_after_compute :
  forall shape a vals minv cs0 cs,
    let G := compute shape a vals minv cs0 in
    (forall w k, In (w, k) (fedges G) -> is_leaf k = true -> ph_ok cs (height w) k = true) ->
    (forall r, In r G -> is_leaf r = true -> indep_of cs (town r) None = true) ->
    prune_struct cs G = G.
Proof. exact prune_noop_after_compute. Qed.
Print Assumptions C07_noop_after_compute.

(* recorded parameters never decrease; 0 means inherit *)
Theorem C07_min_delta_never_decreases : forall cur arg, cur <= rec_delta cur arg.
Proof. exact rec_delta_monotone. Qed.
Theorem C07_min_npix_never_decreases :
  forall cur arg, 0 < snd cur -> 0 < snd (rec_npix cur arg) ->
    fst cur * snd (rec_npix cur arg) <= fst (rec_npix cur arg) * snd cur.
Proof. exact rec_npix_monotone. Qed.
Theorem C07_zero_inherits : forall cur, eff_delta cur 0 = cur.
Proof. exact eff_delta_inherit. Qed.
Print Assumptions C07_min_npix_never_decreases.

(* non-vacuity: two siblings, the failing leaf and its branch sibling are merged and the
   grandchildren adopted *)
Example C07_example :
  let f := [Node 0 [(3, 1)] [Node 1 [(0, 9)] []; Node 2 [(5, 2)] [Node 3 [(4, 8)] []; Node 4 [(6, 7)] []]]] in
  sview (prune_struct [MinDelta 0; MinNpix 2 1] f) = [(0, (-1, ([], [3; 0; 5; 4; 6])))].
Proof. vm_compute. reflexivity. Qed.

(* ------------------------------------------------------------------------------------------
   "its parent is its nearest surviving former ancestor".  anc_table lists, for every
   structure, the identifiers of its ancestors from the parent up to the trunk structure
   (its first components are the parent table used elsewhere: C07_chain_table_is_parent_table).
   After prune the chain of every surviving structure is its former chain with exactly the
   removed structures left out, in the same order - for every forest with distinct
   identifiers, every criteria list. *)
From Dendro Require Import PruneAnc.

Theorem C07_ancestor_chains :
  forall cs f, NoDup (fids f) ->
    incl (fids (prune_struct cs f)) (fids f) /\ NoDup (fids (prune_struct cs f)) /\
    forall j l', In (j, l') (anc_table (prune_struct cs f)) ->
      exists l, In (j, l) (anc_table f) /\ l' = survives (fids (prune_struct cs f)) l.
Proof. exact prune_struct_ancestors. Qed.
Print Assumptions C07_ancestor_chains.

Theorem C07_parent_is_nearest_surviving_former_ancestor :
  forall cs f j p rest, NoDup (fids f) -> In (j, p :: rest) (anc_table (prune_struct cs f)) ->
    exists pre post, In (j, pre ++ p :: post) (anc_table f) /\
                     (forall y, In y pre -> ~ In y (fids (prune_struct cs f))) /\ In p (fids (prune_struct cs f)).
Proof. exact parent_is_nearest_surviving_ancestor. Qed.
Print Assumptions C07_parent_is_nearest_surviving_former_ancestor.

Theorem C07_parentless_iff_no_former_ancestor_survives :
  forall cs f j, NoDup (fids f) -> In (j, []) (anc_table (prune_struct cs f)) ->
    exists l, In (j, l) (anc_table f) /\ forall y, In y l -> ~ In y (fids (prune_struct cs f)).
Proof. exact parentless_iff_no_ancestor_survives. Qed.

Theorem C07_chain_table_is_parent_table :
  forall f, map (fun e : Z * list Z => (fst e, hd (-1) (snd e))) (anc_table f) = parent_table f.
Proof. exact anc_table_parents. Qed.
Print Assumptions C07_chain_table_is_parent_table.

(* Absorption (the theorem behind the harness check "criteria no stricter than the ones just
   enforced change nothing"): after pruning with criteria cs1, pruning with criteria cs0
   that every structure passing cs1 also passes changes nothing - any criteria lists, any
   forest.  For the built-in parameters "no stricter" is min_delta d0 <= d1 and
   min_npix n0/m0 <= n1/m1 (same user criteria), and the statement is also made for the
   whole prune() call with its inherit-on-zero bookkeeping: what counts is the EFFECTIVE
   parameters (a 0 argument inherits the recorded value, which may be stricter than the one
   the previous call used without recording it). *)
From Dendro Require Import PruneMono.

Theorem C07_laxer_prune_after_stricter_changes_nothing :
  forall cs0 cs1 f, weaker cs0 cs1 -> prune_struct cs0 (prune_struct cs1 f) = prune_struct cs1 f.
Proof. exact prune_absorbs. Qed.
Print Assumptions C07_laxer_prune_after_stricter_changes_nothing.

Theorem C07_builtin_parameters_order :
  forall d0 n0 m0 d1 n1 m1 user,
    d0 <= d1 -> 0 < m0 -> 0 < m1 -> n0 * m1 <= n1 * m0 ->
    weaker (MinDelta d0 :: MinNpix n0 m0 :: user) (MinDelta d1 :: MinNpix n1 m1 :: user).
Proof. exact weaker_builtin. Qed.
Print Assumptions C07_builtin_parameters_order.

Theorem C07_laxer_call_after_stricter_call :
  forall params a1d a1n a2d a2n user f,
    let d1 := eff_delta (fst params) a1d in
    let n1 := eff_npix (snd params) a1n in
    let r1 := prune params a1d a1n user f in
    let d2 := eff_delta (fst (fst r1)) a2d in
    let n2 := eff_npix (snd (fst r1)) a2n in
    d2 <= d1 -> 0 < snd n1 -> 0 < snd n2 -> fst n2 * snd n1 <= fst n1 * snd n2 ->
    snd (prune (fst r1) a2d a2n user (snd r1)) = snd r1 /\
    fst (fst (prune (fst r1) a2d a2n user (snd r1))) = fst (fst r1).
Proof. exact prune_call_absorbs. Qed.
Print Assumptions C07_laxer_call_after_stricter_call.

(* non-vacuity: a forest on which the stricter call removes a leaf (3 structures -> 1) and
   the hypotheses of the call theorem hold for a following laxer call; and the hypothesis on
   EFFECTIVE parameters is needed: a 0 argument after an unrecorded laxer call inherits the
   stricter recorded value and does prune *)
Example C07_absorption_premises_hold :
  let f := [Node 0 [(1, 1)] [Node 1 [(0, 3)] []; Node 2 [(2, 4); (3, 2)] []]] in
  let r1 := prune (0, (0, 1)) 2 (0, 1) [] f in
  length (fnodes f) = 3%nat /\ length (fnodes (snd r1)) = 1%nat /\
  eff_delta (fst (fst r1)) 1 <= eff_delta 0 2 /\
  snd (prune (fst r1) 1 (0, 1) [] (snd r1)) = snd r1.
Proof. vm_compute. repeat split; congruence. Qed.

Example C07_zero_argument_may_be_stricter :
  let f := [Node 0 [(1, 1)] [Node 1 [(0, 3)] []; Node 2 [(2, 4); (3, 2)] []]] in
  let r1 := prune (2, (0, 1)) 1 (0, 1) [] f in      (* recorded 2, call uses 1: nothing removed *)
  length (fnodes (snd r1)) = 3%nat /\
  length (fnodes (snd (prune (fst r1) 0 (0, 1) [] (snd r1)))) = 1%nat.   (* 0 inherits 2: prunes *)
Proof. vm_compute. split; reflexivity. Qed.

(* prune() straight after compute with the criteria of the computation (min_delta = 0) is the
   identity - no hypothesis left to the caller (PruneSame.v; see props/C08.v for the reason
   min_delta > 0 is excluded) *)
From Dendro Require Import PruneSame.
Theorem C07_prune_with_the_criteria_of_compute_changes_nothing :
  forall shape per vals minv cs,
    Forall (fun n => 0 < n) shape -> nodelta cs = true ->
    prune_struct cs (compute shape (AdjGrid per) vals minv cs) = compute shape (AdjGrid per) vals minv cs.
Proof. exact grid_prune_same. Qed.
Print Assumptions C07_prune_with_the_criteria_of_compute_changes_nothing.

(* ... and more generally prune() with criteria no stricter than those of the computation
   (min_delta 0, min_npix no larger, the same other criteria; the computation may have used
   any min_delta) is the identity on the computed dendrogram (PruneLaxer.v) - the oracle's
   "criteria every leaf already meets" check as a theorem for the call right after compute *)
From Dendro Require Import PruneLaxer.
Theorem C07_prune_no_stricter_than_compute_changes_nothing :
  forall shape per vals minv cs cs0,
    Forall (fun n => 0 < n) shape -> laxer_after cs cs0 ->
    prune_struct cs (compute shape (AdjGrid per) vals minv cs0) = compute shape (AdjGrid per) vals minv cs0.
Proof. exact grid_prune_laxer. Qed.
Print Assumptions C07_prune_no_stricter_than_compute_changes_nothing.

Theorem C07_builtin_parameters_no_stricter_than_compute :
  forall d n m d0 n0 m0 user,
    d <= 0 -> 0 < m -> 0 < m0 -> n * m0 <= n0 * m -> nodelta user = true ->
    laxer_after (MinDelta d :: MinNpix n m :: user) (MinDelta d0 :: MinNpix n0 m0 :: user).
Proof. exact laxer_after_builtin. Qed.
Print Assumptions C07_builtin_parameters_no_stricter_than_compute.

Example C07_no_stricter_premises_hold :
  let v := [Some 5; Some 4; Some 1; Some 6; Some 5; Some 1; Some 2] in
  length (fnodes (compute [7] (AdjGrid [false]) v None [MinDelta 1; MinNpix 2 1])) = 3%nat /\
  prune_struct [MinDelta 0; MinNpix 3 2] (compute [7] (AdjGrid [false]) v None [MinDelta 1; MinNpix 2 1])
  = compute [7] (AdjGrid [false]) v None [MinDelta 1; MinNpix 2 1].
Proof. vm_compute. split; reflexivity. Qed.

(* d.prune() without arguments straight after compute(min_npix, user criteria; min_delta = 0):
   parameters and structures unchanged (the harness stream "noop_prune_after_compute") *)
Theorem C07_prune_without_arguments_after_compute :
  forall shape per vals minv n m user,
    Forall (fun k => 0 < k) shape -> nodelta user = true ->
    let cs := MinDelta 0 :: MinNpix n m :: user in
    prune (0, (n, m)) 0 (0, 1) user (compute shape (AdjGrid per) vals minv cs)
    = ((0, (n, m)), compute shape (AdjGrid per) vals minv cs).
Proof. exact prune_call_without_arguments_after_compute. Qed.
Print Assumptions C07_prune_without_arguments_after_compute.

From Dendro Require Import Grid.
Theorem C07_prune_no_stricter_than_compute_user_adjacency :
  forall shape tb vals minv cs cs0,
    (forall a b, In b (nbrs_custom tb a) -> In a (nbrs_custom tb b)) -> laxer_after cs cs0 ->
    prune_struct cs (compute shape (AdjCustom tb) vals minv cs0) = compute shape (AdjCustom tb) vals minv cs0.
Proof. exact custom_prune_laxer. Qed.
Print Assumptions C07_prune_no_stricter_than_compute_user_adjacency.
