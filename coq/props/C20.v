(* C20 — dendrogram equality.  deq mirrors Dendrogram.__eq__ as it is (with the NaN fix). *)
From Coq Require Import ZArith List Bool.
From Dendro Require Import Base DEq DEqLemmas.
Import ListNotations.
Open Scope Z_scope.

Theorem C20_not_a_dendrogram : forall a, deq a None = false.
Proof. exact deq_not_dendrogram. Qed.
Print Assumptions C20_not_a_dendrogram.

Theorem C20_symmetric : forall a b, deq a (Some b) = deq b (Some a).
Proof. exact deq_sym. Qed.
Print Assumptions C20_symmetric.

(* "only if": every clause except the partition clause *)
Theorem C20_equal_only_if_partial :
  forall a b, deq a (Some b) = true ->
    v_shape a = v_shape b /\ v_data a = v_data b /\ v_minv a = v_minv b /\
    (v_delta a = 0 \/ v_delta b = 0 \/ v_delta a = v_delta b) /\
    (fst (v_npix a) = 0 \/ fst (v_npix b) = 0 \/
     fst (v_npix a) * snd (v_npix b) = fst (v_npix b) * snd (v_npix a)).
Proof. exact deq_sound_partial. Qed.
Print Assumptions C20_equal_only_if_partial.

(* "if": dendrograms agreeing in all of these compare equal *)
Theorem C20_agreeing_dendrograms_are_equal :
  forall a b,
    v_shape a = v_shape b -> v_data a = v_data b -> v_minv a = v_minv b ->
    (v_delta a = 0 \/ v_delta b = 0 \/ v_delta a = v_delta b) ->
    (fst (v_npix a) = 0 \/ fst (v_npix b) = 0 \/
     fst (v_npix a) * snd (v_npix b) = fst (v_npix b) * snd (v_npix a)) ->
    deq a (Some b) = true.
Proof. exact deq_complete. Qed.
Print Assumptions C20_agreeing_dendrograms_are_equal.

(* the partition clause of the property is FALSE for __eq__ (known finding K5) *)
Theorem C20_partition_clause_refuted :
  exists a b, deq a (Some b) = true /\ partition_of (v_labels a) <> partition_of (v_labels b).
Proof. exact deq_structures_refuted. Qed.
Print Assumptions C20_partition_clause_refuted.

Theorem C20_fingerprint_weaker_than_partition :
  fingerprint [0; 0; 1; 1] = fingerprint [0; 0; 1; 0] /\
  partition_of [0; 0; 1; 1] <> partition_of [0; 0; 1; 0].
Proof. exact fingerprint_weaker. Qed.

(* the repaired comparison (partitions really compared) satisfies the clause and stays symmetric *)
Theorem C20_repaired_partition :
  forall a b, deq_repaired a (Some b) = true -> partition_of (v_labels a) = partition_of (v_labels b).
Proof. exact deq_repaired_partition. Qed.
Theorem C20_repaired_symmetric : forall a b, deq_repaired a (Some b) = deq_repaired b (Some a).
Proof. exact deq_repaired_sym. Qed.
Print Assumptions C20_repaired_symmetric.

(* K9: the comparison of an int64 array with a float64 array goes through the conversion of the
   integers to doubles (Rounding.v: round to nearest, ties to even, 53 bits): different numbers
   can compare equal.  The statement "equal only if the data are element-wise equal" is refuted
   for mixed dtypes beyond 2^53; below 2^53 the conversion is exact. *)
From Dendro Require Import Rounding.
Theorem C20_mixed_dtype_refuted :
  exists i d, d = to_double i /\ i <> d /\ numpy_int_eq_double i d = true.
Proof. exact mixed_dtype_equality_refuted. Qed.
Theorem C20_mixed_dtype_exact_below_2_53 : forall z, Z.abs z < 2 ^ 53 -> to_double z = z.
Proof. exact to_double_exact. Qed.
Print Assumptions C20_mixed_dtype_refuted.
