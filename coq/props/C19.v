(* C19 — viewer selections always denote the structure that was picked.
   Viewer.v: hub with three slots + per-slot artifacts of the tree viewer and the scatter
   plots, driven by events that are already resolved to a structure / to catalog rows. *)
From Coq Require Import ZArith List Bool.
From Dendro Require Import Base Tree Viewer ViewerLemmas.
Import ListNotations.
Open Scope Z_scope.

(* a click selects the structure owning the clicked pixel in the displayed slice, else clears *)
Theorem C19_click_selects_owner :
  forall labels ny nx slice iy ix i,
    click_target labels ny nx slice iy ix = Some i ->
    0 <= iy < ny /\ 0 <= ix < nx /\ 0 <= i /\
    i = nth (Z.to_nat (match slice with Some k => (k * ny + iy) * nx + ix | None => iy * nx + ix end)) labels (-1).
Proof. exact click_target_spec. Qed.
Print Assumptions C19_click_selects_owner.

(* one selection keeps every slot consistent: the changed slot shows its new selection, the
   other slots keep showing theirs *)
Theorem C19_select_keeps_slots_consistent :
  forall f views st slot os,
    In slot (slots st) -> consistent f st -> consistent f (select f views st slot os).
Proof. exact select_consistent. Qed.
Print Assumptions C19_select_keeps_slots_consistent.

Theorem C19_slice_change_keeps_slots_consistent :
  forall f st k, consistent f st -> consistent f (set_slice st k).
Proof. exact set_slice_consistent. Qed.

(* every sequence of clicks, line picks, lassos (slots 1-3) and slice changes: each slot shows
   exactly the highlighted lines, contour (in the current slice), label and scatter rows of its
   own current selection - descendants included iff a subtree is selected *)
Theorem C19_every_history_consistent :
  forall f views slice es, events_ok es ->
    consistent f (run f views slice es) /\
    forall j, In j (slots (run f views slice es)) <-> In j [1; 2; 3].
Proof. exact run_consistent. Qed.
Print Assumptions C19_every_history_consistent.

(* every registered view is notified exactly once per selection change *)
Theorem C19_each_view_notified_once :
  forall f views st slot os,
    v_notified (select f views st slot os) = map (fun v => (v, slot)) views ++ v_notified st.
Proof. exact select_notifies_each_view_once. Qed.
Print Assumptions C19_each_view_notified_once.
