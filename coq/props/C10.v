(* C10 — intensity-weighted moments are the mathematical moments (exact rationals;
   None = NaN value, skipped by nansum). *)
From Coq Require Import ZArith List Bool QArith.
From Dendro Require Import Moments MomentsLemmas.
Import ListNotations.
Open Scope Q_scope.

(* mom0 = sum of the values, mom1 = value-weighted mean position, mom2 = value-weighted
   covariance: these ARE the definitions in Moments.v (mirroring the nansum formulas of the
   code); the covariance also has its textbook form E[xy] - E[x]E[y] *)
Theorem C10_covariance_textbook_form :
  forall ps i j, ~ mom0 ps == 0 ->
    mom2 ps i j == qsum (map (fun p => wt p * coord i p * coord j p) ps) / mom0 ps - mom1 ps i * mom1 ps j.
Proof. exact mom2_alt. Qed.
Print Assumptions C10_covariance_textbook_form.

Theorem C10_covariance_symmetric : forall ps i j, mom2 ps i j == mom2 ps j i.
Proof. exact mom2_sym. Qed.

(* NaN values carry zero weight *)
Theorem C10_nan_zero_weight : forall x, wt {| px := x; pw := None |} = wt {| px := x; pw := Some 0 |}.
Proof. exact nan_is_zero_weight. Qed.
Theorem C10_nan_does_not_change_the_sum : forall ps x, mom0 (ps ++ [{| px := x; pw := None |}]) == mom0 ps.
Proof. exact mom0_nan. Qed.
Print Assumptions C10_nan_does_not_change_the_sum.

(* translating all positions shifts the first moment and leaves the second moments unchanged *)
Theorem C10_first_moment_translates :
  forall nd t ps i, dims_ok nd t ps -> (i < nd)%nat -> ~ mom0 ps == 0 ->
    mom1 (map (shift t) ps) i == mom1 ps i + nth i t 0.
Proof. exact mom1_translate. Qed.
Theorem C10_second_moment_translation_invariant :
  forall nd t ps i j, dims_ok nd t ps -> (i < nd)%nat -> (j < nd)%nat -> ~ mom0 ps == 0 ->
    mom2 (map (shift t) ps) i j == mom2 ps i j.
Proof. exact mom2_translate. Qed.
Print Assumptions C10_second_moment_translation_invariant.

(* the second moment along a direction is the quadratic form of the covariance for the
   normalised direction, (u M u^T)/(u.u) - by definition of mom2_along - and does not depend
   on the direction's length or sign *)
Theorem C10_direction_length_and_sign :
  forall ps nd c u, ~ c == 0 -> ~ dot u u == 0 ->
    mom2_along ps nd (map (Qmult c) u) == mom2_along ps nd u.
Proof. exact mom2_along_scale. Qed.
Print Assumptions C10_direction_length_and_sign.

(* for a unit eigenvector of the covariance matrix the variance along it is the eigenvalue
   (the eigen-solver itself is LAPACK's: validated per run, not proved) *)
Theorem C10_eigenvector_variance :
  forall ps nd v lam,
    (forall i, (i < nd)%nat -> qsum (map (fun j => mom2 ps i j * nth j v 0) (seq 0 nd)) == lam * nth i v 0) ->
    qsum (map (fun i => nth i v 0 * nth i v 0) (seq 0 nd)) == 1 ->
    quad ps nd v v == lam.
Proof. exact eigen_link. Qed.
Print Assumptions C10_eigenvector_variance.

(* memoisation: any sequence of calls (the key contains the instance and the arguments)
   returns what the un-memoised methods return *)
Theorem C10_memoisation_transparent :
  forall (K V : Type) (keqb : K -> K -> bool), (forall a b, keqb a b = true -> a = b) ->
  forall (F : K -> V) ks c, cache_ok K V F c -> mcalls K V keqb F c ks = map F ks.
Proof. intros K V keqb H F ks c. apply mcalls_ok. exact H. Qed.
Print Assumptions C10_memoisation_transparent.

Example C10_example :
  let ps := [{| px := [0; 0]; pw := Some 1 |}; {| px := [2; 0]; pw := Some 1 |}; {| px := [1; 3]; pw := Some 2 |}] in
  mom0 ps == 4 /\ mom1 ps 0 == 1 /\ mom1 ps 1 == 3 # 2 /\ mom2 ps 0 0 == 1 # 2 /\ mom2 ps 0 1 == 0 /\ mom2 ps 1 1 == 9 # 4.
Proof. repeat split; vm_compute; reflexivity. Qed.
