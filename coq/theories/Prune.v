(* Prune.v — executable model of Dendrogram.prune (dendrogram.py:517-602) on rose trees
   (definitions only; lemmas in PruneLemmas.v).

   _to_prune: repeatedly the first leaf in prefix order that has a parent and fails the
   post-hoc criteria; it is merged into its parent - with exactly two siblings both are
   merged and the grandchildren adopted.  Then _make_trunk (parentless structures sorted by
   identifier, failing parentless leaves dropped). *)
From Coq Require Import ZArith List Bool Lia.
From Dendro Require Import Base Tree Criteria.
Import ListNotations.
Open Scope Z_scope.

Section Prune.
  Variable cs : list crit.          (* [min_delta; min_npix] ++ user criteria *)

  (* is_independent(leaf) for a leaf whose parent has height h *)
  Definition ph_ok (h : Z) (k : tree) : bool := indep_posthoc cs (town k) h.

  (* the parent Node i o (pre ++ k :: rest) after child k is merged into it *)
  Definition merged (i : Z) (o : list (Z * Z)) (pre : list tree) (k : tree) (rest : list tree) : tree :=
    let ks := pre ++ k :: rest in
    if Nat.eqb (length ks) 2
    then Node i (o ++ flat_map town ks) (flat_map tkids ks)
    else Node i (o ++ town k) (pre ++ rest).

  Section Scan.
    Variable po : tree -> option tree.     (* recursive call on a child *)
    Variables (i : Z) (o : list (Z * Z)) (h : Z).
    Fixpoint scan (pre rest : list tree) {struct rest} : option tree :=
      match rest with
      | [] => None
      | k :: rest' =>
          if is_leaf k then
            if ph_ok h k then scan (pre ++ [k]) rest' else Some (merged i o pre k rest')
          else match po k with
               | Some k' => Some (Node i o (pre ++ k' :: rest'))
               | None => scan (pre ++ [k]) rest'
               end
      end.
  End Scan.

  (* one iteration of the loop inside one tree: None = nothing left to prune there *)
  Fixpoint prune_once (u : tree) : option tree :=
    match u with
    | Node i o ks => scan prune_once i o (minl (map vmin ks)) [] ks
    end.

  Fixpoint prune_forest_once (f : list tree) : option (list tree) :=
    match f with
    | [] => None
    | t :: r => match prune_once t with
                | Some t' => Some (t' :: r)
                | None => option_map (cons t) (prune_forest_once r)
                end
    end.

  Fixpoint prune_loop (fuel : nat) (f : list tree) : list tree :=
    match fuel with
    | O => f
    | S n => match prune_forest_once f with
             | Some f' => prune_loop n f'
             | None => f
             end
    end.

  Definition trunk_of (f : list tree) : list tree :=
    filter (fun t => negb (is_leaf t) || indep_of cs (town t) None) (sort_by tid f).

  Definition fsize' (f : list tree) : nat := length (fnodes f).

  Definition prune_struct (f : list tree) : list tree := trunk_of (prune_loop (fsize' f) f).
End Prune.

(* ---- parameter bookkeeping of prune(): 0 means "inherit"; a less strict value is not
   recorded (the recorded parameters never decrease) but IS used for this call.
   min_delta is an integer (scaled), min_npix a ratio num/den with den > 0. *)
Definition eff_delta (cur arg : Z) : Z := if arg =? 0 then cur else arg.
Definition rec_delta (cur arg : Z) : Z := let a := eff_delta cur arg in if a <? cur then cur else a.

Definition eff_npix (cur arg : Z * Z) : Z * Z := if fst arg =? 0 then cur else arg.
Definition npix_lt (a b : Z * Z) : bool := fst a * snd b <? fst b * snd a.
Definition rec_npix (cur arg : Z * Z) : Z * Z :=
  let a := eff_npix cur arg in if npix_lt a cur then cur else a.

(* the whole prune call: parameters (delta, npix) recorded so far, arguments, user criteria *)
Definition prune (params : Z * (Z * Z)) (arg_delta : Z) (arg_npix : Z * Z) (user : list crit)
           (f : list tree) : (Z * (Z * Z)) * list tree :=
  let d := eff_delta (fst params) arg_delta in
  let n := eff_npix (snd params) arg_npix in
  ((rec_delta (fst params) arg_delta, rec_npix (snd params) arg_npix),
   prune_struct (MinDelta d :: MinNpix (fst n) (snd n) :: user) f).
