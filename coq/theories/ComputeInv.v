(* ComputeInv.v — invariants of the compute model (Compute.v): what holds of the
   forest of current roots after any prefix of the pixel order. *)
From Coq Require Import ZArith List Bool Lia Permutation Sorted Relations.
From Dendro Require Import Base BaseLemmas Tree TreeLemmas Compute.
Import ListNotations.
Open Scope Z_scope.

Definition fpv (f : list tree) : list (Z * Z) := flat_map regionv f.
Definition subnodes (f : list tree) : list tree := flat_map nodes (flat_map tkids f).

(* parent/child pairs of a tree *)
Fixpoint edges (t : tree) : list (tree * tree) :=
  match t with Node _ _ ks => map (fun k => (t, k)) ks ++ flat_map edges ks end.
Definition fedges (f : list tree) : list (tree * tree) := flat_map edges f.

Lemma edges_unfold t : edges t = map (fun k => (t, k)) (tkids t) ++ flat_map edges (tkids t).
Proof. destruct t; reflexivity. Qed.

Lemma fpix_fpv f : fregion f = map fst (fpv f).
Proof.
  unfold fregion, fpv. rewrite flat_map_map_fst. apply flat_map_ext_Forall.
  rewrite Forall_forall. intros t _. apply region_regionv.
Qed.

Lemma edges_nodes t : forall u k, In (u, k) (edges t) -> In u (nodes t) /\ In k (tkids u).
Proof.
  induction t as [i o ks IH] using tree_ind2. intros u k H.
  rewrite edges_unfold in H. cbn [tkids] in H. apply in_app_or in H. destruct H as [H|H].
  - apply in_map_iff in H. destruct H as [k' [E Hk]]. injection E as <- ->.
    split; [apply nodes_self | exact Hk].
  - apply in_flat_map in H. destruct H as [c [Hc H]].
    rewrite Forall_forall in IH. destruct (IH c Hc u k H) as [H1 H2].
    split; [|exact H2]. cbn [nodes]. right. apply in_flat_map. exists c. split; assumption.
Qed.

Lemma nodes_edges t : forall u k, In u (nodes t) -> In k (tkids u) -> In (u, k) (edges t).
Proof.
  induction t as [i o ks IH] using tree_ind2. intros u k Hu Hk.
  rewrite edges_unfold. cbn [tkids]. cbn [nodes] in Hu. destruct Hu as [<-|Hu].
  - apply in_or_app. left. apply in_map_iff. exists k. split; [reflexivity | exact Hk].
  - apply in_or_app. right. apply in_flat_map in Hu. destruct Hu as [c [Hc Hu]].
    apply in_flat_map. exists c. split; [exact Hc|].
    rewrite Forall_forall in IH. apply IH; assumption.
Qed.

Section Inv.
  Variable adj : Z -> list Z.
  Variable indep : list (Z * Z) -> option Z -> bool.

  Notation step := (step adj indep).
  Notation join := (join indep).
  Notation mergeable := (mergeable indep).

  (* ---------- what [join] produces *)

  Lemma mg_leaf v l : Forall (fun t => is_leaf t = true) (filter (mergeable v) l).
  Proof.
    rewrite Forall_forall. intros t Ht. apply filter_In in Ht. destruct Ht as [_ Ht].
    unfold Compute.mergeable in Ht. apply andb_true_iff in Ht. tauto.
  Qed.

  Lemma flat_regionv_leaves l :
    Forall (fun t => is_leaf t = true) l -> flat_map regionv l = flat_map town l.
  Proof.
    intros H. apply flat_map_ext_Forall. eapply Forall_impl; [|exact H].
    intros t Ht. apply leaf_regionv, Ht.
  Qed.

  Lemma removelast_last_app {A} (l : list A) d : l <> [] -> l = removelast l ++ [last l d].
  Proof. intros H. apply app_removelast_last, H. Qed.

  Lemma join_regionv tch pv :
    Permutation (regionv (join tch pv)) (pv :: flat_map regionv tch).
  Proof.
    unfold Compute.join.
    destruct tch as [|t [|t2 r]].
    - cbn. reflexivity.
    - cbn [regionv flat_map]. rewrite app_nil_r, (regionv_unfold t).
      rewrite <- app_assoc. cbn [app]. symmetry. apply Permutation_middle.
    - set (tch := t :: t2 :: r).
      set (mg := filter (mergeable (snd pv)) tch).
      set (keep := filter (fun t => negb (mergeable (snd pv) t)) tch).
      assert (Hsplit : Permutation (flat_map regionv tch) (flat_map town mg ++ flat_map regionv keep)).
      { rewrite <- (flat_regionv_leaves mg) by apply mg_leaf.
        rewrite <- flat_map_app. apply Permutation_flat_map. symmetry. apply filter_split_perm. }
      destruct keep as [|k [|k2 kr]] eqn:Ek.
      + (* everything merged: the structure with the largest id takes the pixel *)
        assert (Hne : mg <> []).
        { intros E. assert (Hl : length (mg ++ keep) = length tch)
            by (apply Permutation_length, filter_split_perm).
          rewrite E, Ek in Hl. cbn in Hl. lia. }
        rewrite Hsplit. cbn [flat_map regionv]. rewrite !app_nil_r.
        rewrite (removelast_last_app mg dummy Hne) at 3.
        rewrite flat_map_app. cbn [flat_map]. rewrite app_nil_r.
        apply (Permutation_app_comm (town (last mg dummy)) ([pv] ++ flat_map town (removelast mg))).
      + rewrite Hsplit. cbn [regionv flat_map]. rewrite app_nil_r.
        rewrite (regionv_unfold k). symmetry. rewrite <- app_assoc. cbn [app].
        apply Permutation_cons_app. rewrite !app_assoc. apply Permutation_app_tail.
        apply Permutation_app_comm.
      + rewrite Hsplit. cbn [regionv]. cbn [app]. reflexivity.
  Qed.

  (* ---------- the shape of the structure that receives the pixel *)

  Lemma join_shape tch pv :
    (exists t ex, In t tch /\ join tch pv = Node (tid t) (town t ++ pv :: ex) (tkids t))
    \/ (exists ex ks, join tch pv = Node (fst pv) (pv :: ex) ks /\
          (ks = [] \/ (2 <= length ks)%nat) /\
          forall k, In k ks -> In k tch /\ mergeable (snd pv) k = false).
  Proof.
    unfold Compute.join.
    destruct tch as [|t [|t2 r]].
    - right. exists [], []. split; [reflexivity|]. split; [left; reflexivity | intros k []].
    - left. exists t, []. split; [left; reflexivity | reflexivity].
    - set (tch := t :: t2 :: r).
      set (mg := filter (mergeable (snd pv)) tch).
      set (keep := filter (fun t => negb (mergeable (snd pv) t)) tch).
      destruct keep as [|k [|k2 kr]] eqn:Ek.
      + left.
        assert (Hne : mg <> []).
        { intros E. assert (Hl : length (mg ++ keep) = length tch)
            by (apply Permutation_length, filter_split_perm).
          rewrite E, Ek in Hl. cbn in Hl. lia. }
        assert (Hin : In (last mg dummy) mg).
        { rewrite (removelast_last_app mg dummy Hne) at 2. apply in_or_app. right. left. reflexivity. }
        exists (last mg dummy), (flat_map town (removelast mg)).
        split; [apply filter_In in Hin; tauto|].
        pose proof (mg_leaf (snd pv) tch) as Hl. rewrite Forall_forall in Hl.
        apply Hl in Hin. apply is_leaf_kids in Hin. rewrite Hin. reflexivity.
      + left. exists k, (flat_map town mg). split; [|reflexivity].
        assert (Hk : In k keep) by (rewrite Ek; left; reflexivity).
        apply filter_In in Hk. tauto.
      + right. exists (flat_map town mg), (k :: k2 :: kr). split; [reflexivity|].
        split; [right; cbn [length]; lia|].
        intros c Hc. rewrite <- Ek in Hc. apply filter_In in Hc. destruct Hc as [Hc1 Hc2].
        split; [exact Hc1|]. apply negb_true_iff in Hc2. exact Hc2.
  Qed.

  (* ---------- one step *)

  Definition tchs (f : list tree) (p : Z) : list tree :=
    sort_by tid (filter (touches (adj p)) f).
  Definition rests (f : list tree) (p : Z) : list tree :=
    filter (fun t => negb (touches (adj p) t)) f.

  Lemma step_eq f pv : step f pv = rests f (fst pv) ++ [join (tchs f (fst pv)) pv].
  Proof. reflexivity. Qed.

  Lemma split_perm f p : Permutation (tchs f p ++ rests f p) f.
  Proof.
    unfold tchs, rests. rewrite sort_by_perm. apply filter_split_perm.
  Qed.

  Lemma tchs_In f p t : In t (tchs f p) <-> In t f /\ touches (adj p) t = true.
  Proof. unfold tchs. rewrite sort_by_In, filter_In. reflexivity. Qed.

  Lemma rests_In f p t : In t (rests f p) <-> In t f /\ touches (adj p) t = false.
  Proof. unfold rests. rewrite filter_In, negb_true_iff. reflexivity. Qed.

  Lemma step_fpv f pv : Permutation (fpv (step f pv)) (fpv f ++ [pv]).
  Proof.
    rewrite step_eq. unfold fpv. rewrite flat_map_app. cbn [flat_map]. rewrite app_nil_r.
    rewrite join_regionv.
    rewrite <- (Permutation_flat_map regionv (split_perm f (fst pv))).
    rewrite flat_map_app.
    rewrite (Permutation_app_comm (flat_map regionv (tchs f (fst pv)))).
    rewrite <- app_assoc. apply Permutation_app_head.
    change (pv :: flat_map regionv (tchs f (fst pv))) with ([pv] ++ flat_map regionv (tchs f (fst pv))).
    apply Permutation_app_comm.
  Qed.

  Lemma run_fpv order : forall f, Permutation (fpv (fold_left step order f)) (fpv f ++ order).
  Proof.
    induction order as [|pv order IH]; intros f; cbn [fold_left].
    - rewrite app_nil_r. reflexivity.
    - rewrite IH, step_fpv, <- app_assoc. reflexivity.
  Qed.

  (* C01 core: every processed pixel lies in exactly one own-pixel list, once *)
  Theorem run_pixels order : Permutation (fpv (run adj indep order)) order.
  Proof. unfold run. rewrite run_fpv. reflexivity. Qed.

  (* ---------- nodes and edges after a step *)

  Lemma join_kid_nodes tch pv u :
    In u (flat_map nodes (tkids (join tch pv))) -> In u (flat_map nodes tch).
  Proof.
    destruct (join_shape tch pv) as [[t [ex [Ht E]]]|[ex [ks [E [_ Hk]]]]]; rewrite E; cbn [tkids]; intros H.
    - apply in_flat_map. exists t. split; [exact Ht|]. rewrite nodes_unfold. right. exact H.
    - apply in_flat_map in H. destruct H as [k [Hk1 Hk2]].
      apply in_flat_map. exists k. split; [apply Hk, Hk1 | exact Hk2].
  Qed.

  Lemma tchs_sub f p t : In t (tchs f p) -> In t f.
  Proof. intros H. apply tchs_In in H. tauto. Qed.

  Lemma fnodes_sub f g : incl g f -> incl (fnodes g) (fnodes f).
  Proof.
    intros H u Hu. unfold fnodes in *. apply in_flat_map in Hu. destruct Hu as [t [Ht Hu]].
    apply in_flat_map. exists t. split; [apply H, Ht | exact Hu].
  Qed.

  Lemma step_nodes f pv u :
    In u (fnodes (step f pv)) -> u = join (tchs f (fst pv)) pv \/ In u (fnodes f).
  Proof.
    rewrite step_eq. unfold fnodes. rewrite flat_map_app. cbn [flat_map]. rewrite app_nil_r.
    intros H. apply in_app_or in H. destruct H as [H|H].
    - right. apply in_flat_map in H. destruct H as [t [Ht Hu]].
      apply in_flat_map. exists t. split; [|exact Hu]. apply rests_In in Ht. tauto.
    - rewrite nodes_unfold in H. destruct H as [H|H]; [left; symmetry; exact H|].
      right. apply join_kid_nodes in H.
      apply in_flat_map in H. destruct H as [t [Ht Hu]].
      apply in_flat_map. exists t. split; [eapply tchs_sub; exact Ht | exact Hu].
  Qed.

  Lemma fedges_sub f t : In t f -> incl (edges t) (fedges f).
  Proof. intros Ht e He. unfold fedges. apply in_flat_map. exists t. split; assumption. Qed.

  Lemma kid_edges t k : In k (tkids t) -> incl (edges k) (edges t).
  Proof.
    intros Hk e He. rewrite edges_unfold. apply in_or_app. right.
    apply in_flat_map. exists k. split; assumption.
  Qed.

  Lemma step_edges f pv e :
    In e (fedges (step f pv)) ->
    In e (fedges f) \/
    (exists k, e = (join (tchs f (fst pv)) pv, k) /\ In k (tkids (join (tchs f (fst pv)) pv))).
  Proof.
    rewrite step_eq. unfold fedges. rewrite flat_map_app. cbn [flat_map]. rewrite app_nil_r.
    intros H. apply in_app_or in H. destruct H as [H|H].
    - left. apply in_flat_map in H. destruct H as [t [Ht He]].
      apply in_flat_map. exists t. split; [|exact He]. apply rests_In in Ht. tauto.
    - rewrite edges_unfold in H. apply in_app_or in H. destruct H as [H|H].
      + right. apply in_map_iff in H. destruct H as [k [E Hk]]. exists k. split; [symmetry; exact E | exact Hk].
      + left. apply in_flat_map in H. destruct H as [c [Hc He]].
        destruct (join_shape (tchs f (fst pv)) pv) as [[t [ex [Ht E]]]|[ex [ks [E [_ Hk]]]]];
          rewrite E in Hc; cbn [tkids] in Hc.
        * apply (fedges_sub f t); [eapply tchs_sub; exact Ht|]. eapply kid_edges; eassumption.
        * apply (fedges_sub f c); [eapply tchs_sub; apply Hk, Hc | exact He].
  Qed.

  (* ---------- per-node invariants: own pixels non-empty, id = first own pixel; arity *)

  Definition cpix (t : tree) : Z := fst (hd (0, 0) (town t)).   (* creating pixel *)
  Definition cval (t : tree) : Z := snd (hd (0, 0) (town t)).   (* its value *)

  Definition own_ok (t : tree) : Prop := town t <> [] /\ tid t = cpix t.
  Definition arity_ok (t : tree) : Prop := tkids t = [] \/ (2 <= length (tkids t))%nat.

  Lemma join_own_ok f pv :
    Forall own_ok (fnodes f) -> own_ok (join (tchs f (fst pv)) pv).
  Proof.
    intros H. rewrite Forall_forall in H.
    destruct (join_shape (tchs f (fst pv)) pv) as [[t [ex [Ht E]]]|[ex [ks [E _]]]]; rewrite E.
    - assert (Hok : own_ok t).
      { apply H. apply in_flat_map. exists t. split; [eapply tchs_sub; exact Ht | apply nodes_self]. }
      destruct Hok as [Hne Hid]. unfold own_ok, cpix. cbn [town tid]. split.
      + destruct (town t); discriminate.
      + rewrite Hid. unfold cpix. destruct (town t); [congruence | reflexivity].
    - unfold own_ok, cpix. cbn [town tid hd]. split; [discriminate | reflexivity].
  Qed.

  Lemma join_arity_ok f pv :
    Forall arity_ok (fnodes f) -> arity_ok (join (tchs f (fst pv)) pv).
  Proof.
    intros H. rewrite Forall_forall in H.
    destruct (join_shape (tchs f (fst pv)) pv) as [[t [ex [Ht E]]]|[ex [ks [E [Hks _]]]]]; rewrite E.
    - assert (Hok : arity_ok t).
      { apply H. apply in_flat_map. exists t. split; [eapply tchs_sub; exact Ht | apply nodes_self]. }
      exact Hok.
    - exact Hks.
  Qed.

  Lemma step_own_ok f pv : Forall own_ok (fnodes f) -> Forall own_ok (fnodes (step f pv)).
  Proof.
    intros H. rewrite Forall_forall. intros u Hu. apply step_nodes in Hu.
    destruct Hu as [->|Hu]; [apply join_own_ok, H | rewrite Forall_forall in H; apply H, Hu].
  Qed.

  Lemma step_arity_ok f pv : Forall arity_ok (fnodes f) -> Forall arity_ok (fnodes (step f pv)).
  Proof.
    intros H. rewrite Forall_forall. intros u Hu. apply step_nodes in Hu.
    destruct Hu as [->|Hu]; [apply join_arity_ok, H | rewrite Forall_forall in H; apply H, Hu].
  Qed.

  (* ---------- regions as sets *)

  Lemma map_fst_fpv l : map fst (flat_map regionv l) = flat_map region l.
  Proof.
    rewrite flat_map_map_fst. apply flat_map_ext_Forall. rewrite Forall_forall.
    intros t _. symmetry. apply region_regionv.
  Qed.

  Lemma join_region_In tch pv x :
    In x (region (join tch pv)) <-> x = fst pv \/ exists r, In r tch /\ In x (region r).
  Proof.
    rewrite region_regionv.
    pose proof (Permutation_map fst (join_regionv tch pv)) as HP. cbn [map] in HP.
    rewrite map_fst_fpv in HP.
    split.
    - intros H. apply (Permutation_in _ HP) in H. destruct H as [H|H]; [left; symmetry; exact H|].
      right. apply in_flat_map in H. exact H.
    - intros H. apply (Permutation_in _ (Permutation_sym HP)).
      destruct H as [->|H]; [left; reflexivity | right; apply in_flat_map; exact H].
  Qed.

  Lemma step_fregion_In f pv x :
    In x (fregion (step f pv)) <-> x = fst pv \/ In x (fregion f).
  Proof.
    rewrite !fpix_fpv.
    pose proof (Permutation_map fst (step_fpv f pv)) as HP. rewrite map_app in HP. cbn [map] in HP.
    split.
    - intros H. apply (Permutation_in _ HP) in H. apply in_app_or in H.
      destruct H as [H|[H|[]]]; [right; exact H | left; symmetry; exact H].
    - intros H. apply (Permutation_in _ (Permutation_sym HP)). apply in_or_app.
      destruct H as [->|H]; [right; left; reflexivity | left; exact H].
  Qed.

  Lemma fregion_In f x : In x (fregion f) <-> exists r, In r f /\ In x (region r).
  Proof. unfold fregion. apply in_flat_map. Qed.

  Lemma touches_true nb t : touches nb t = true <-> exists q, In q nb /\ In q (region t).
  Proof.
    unfold touches. rewrite existsb_exists. split; intros [q [H1 H2]]; exists q; split; try exact H1.
    - apply memZ_In, H2.
    - apply memZ_In, H2.
  Qed.

  (* where an old root's pixels are after the step *)
  Lemma step_root f pv r x :
    In r f -> In x (region r) ->
    (touches (adj (fst pv)) r = true /\ In x (region (join (tchs f (fst pv)) pv)))
    \/ (touches (adj (fst pv)) r = false /\ In r (step f pv)).
  Proof.
    intros Hr Hx. destruct (touches (adj (fst pv)) r) eqn:E.
    - left. split; [reflexivity|]. apply join_region_In. right. exists r. split; [|exact Hx].
      apply tchs_In. split; assumption.
    - right. split; [reflexivity|]. rewrite step_eq. apply in_or_app. left.
      apply rests_In. split; assumption.
  Qed.

  Lemma join_in_step f pv : In (join (tchs f (fst pv)) pv) (step f pv).
  Proof. rewrite step_eq. apply in_or_app. right. left. reflexivity. Qed.

  (* ---------- adjacency is symmetric on the pixels under consideration *)
  Variable pixels : list Z.
  Hypothesis adj_sym : forall a b, In a pixels -> In b pixels -> In b (adj a) -> In a (adj b).

  (* closure: adjacent processed pixels lie in the same root *)
  Definition closed (f : list tree) : Prop :=
    forall x q, In x (fregion f) -> In q (fregion f) -> In q (adj x) ->
                exists r, In r f /\ In x (region r) /\ In q (region r).

  Lemma step_closed f pv :
    incl (fregion f) pixels -> In (fst pv) pixels ->
    closed f -> closed (step f pv).
  Proof.
    intros Hpix Hp Hc x q Hx Hq Hadj.
    set (t' := join (tchs f (fst pv)) pv).
    assert (Hpt : In (fst pv) (region t')) by (apply join_region_In; left; reflexivity).
    assert (Hnew : forall y, In y (fregion f) -> In y (adj (fst pv)) -> In y (region t')).
    { intros y Hy Hay. apply fregion_In in Hy. destruct Hy as [r [Hr Hyr]].
      apply join_region_In. right. exists r. split; [|exact Hyr].
      apply tchs_In. split; [exact Hr|]. apply touches_true. exists y. split; assumption. }
    apply step_fregion_In in Hx. apply step_fregion_In in Hq.
    destruct Hx as [->|Hx], Hq as [->|Hq].
    - exists t'. split; [apply join_in_step|]. split; exact Hpt.
    - exists t'. split; [apply join_in_step|]. split; [exact Hpt | apply Hnew; assumption].
    - exists t'. split; [apply join_in_step|]. split; [|exact Hpt].
      apply Hnew; [exact Hx|]. apply adj_sym; [apply Hpix, Hx | exact Hp | exact Hadj].
    - destruct (Hc x q Hx Hq Hadj) as [r [Hr [Hxr Hqr]]].
      destruct (step_root f pv r x Hr Hxr) as [[Ht Hxt]|[Ht Hrs]].
      + exists t'. split; [apply join_in_step|]. split; [exact Hxt|].
        apply join_region_In. right. exists r. split; [apply tchs_In; split; assumption | exact Hqr].
      + exists r. split; [exact Hrs|]. split; assumption.
  Qed.

  (* ---------- connectivity *)
  Definition edge (S : list Z) (a b : Z) : Prop := In a S /\ In b S /\ In b (adj a).
  Definition conn (S : list Z) : Z -> Z -> Prop := clos_refl_trans Z (edge S).
  Definition connected (S : list Z) : Prop := forall x y, In x S -> In y S -> conn S x y.

  Lemma conn_mono S S' x y : incl S S' -> conn S x y -> conn S' x y.
  Proof.
    intros Hi H. induction H as [a b [H1 [H2 H3]]| |a b c _ IH1 _ IH2].
    - apply rt_step. split; [apply Hi, H1|]. split; [apply Hi, H2 | exact H3].
    - apply rt_refl.
    - eapply rt_trans; eassumption.
  Qed.

  Lemma star_connected (S : list Z) (p : Z) (parts : list (list Z)) :
    In p S ->
    (forall x, In x S -> x = p \/ exists R, In R parts /\ In x R) ->
    (forall R, In R parts -> incl R S /\ connected R /\
                             exists q, In q R /\ In q (adj p) /\ In p (adj q)) ->
    connected S.
  Proof.
    intros Hp Hcov Hparts.
    assert (Hto : forall x, In x S -> conn S x p /\ conn S p x).
    { intros x Hx. destruct (Hcov x Hx) as [->|[R [HR HxR]]]; [split; apply rt_refl|].
      destruct (Hparts R HR) as [Hinc [Hcon [q [HqR [Hq1 Hq2]]]]].
      split.
      - apply (rt_trans _ _ x q p); [eapply conn_mono; [exact Hinc | apply Hcon; assumption]|].
        apply rt_step. split; [apply Hinc, HqR|]. split; [exact Hp | exact Hq2].
      - apply (rt_trans _ _ p q x); [|eapply conn_mono; [exact Hinc | apply Hcon; assumption]].
        apply rt_step. split; [exact Hp|]. split; [apply Hinc, HqR | exact Hq1]. }
    intros x y Hx Hy. apply (rt_trans _ _ x p y); [apply (Hto x Hx) | apply (Hto y Hy)].
  Qed.

  Definition all_connected (f : list tree) : Prop :=
    forall u, In u (fnodes f) -> connected (region u).

  Lemma step_connected f pv :
    incl (fregion f) pixels -> In (fst pv) pixels ->
    all_connected f -> all_connected (step f pv).
  Proof.
    intros Hpix Hp Hc u Hu. apply step_nodes in Hu. destruct Hu as [->|Hu]; [|apply Hc, Hu].
    set (t' := join (tchs f (fst pv)) pv).
    apply (star_connected (region t') (fst pv) (map region (tchs f (fst pv)))).
    - apply join_region_In. left. reflexivity.
    - intros x Hx. apply join_region_In in Hx. destruct Hx as [->|[r [Hr Hx]]]; [left; reflexivity|].
      right. exists (region r). split; [apply in_map, Hr | exact Hx].
    - intros R HR. apply in_map_iff in HR. destruct HR as [r [<- Hr]].
      pose proof Hr as Hr'. apply tchs_In in Hr'. destruct Hr' as [Hrf Ht].
      split; [|split].
      + intros x Hx. apply join_region_In. right. exists r. split; assumption.
      + apply Hc. apply in_flat_map. exists r. split; [exact Hrf | apply nodes_self].
      + apply touches_true in Ht. destruct Ht as [q [Hq1 Hq2]].
        exists q. split; [exact Hq2|]. split; [exact Hq1|].
        apply adj_sym; [exact Hp | | exact Hq1].
        apply Hpix. apply fregion_In. exists r. split; assumption.
  Qed.

  (* ---------- parent/child pairs: contour facts frozen at attachment time *)
  Definition edge_ok (D : list (Z * Z)) (e : tree * tree) : Prop :=
    let u := fst e in
    let k := snd e in
    (forall y vy, In (y, vy) (regionv k) -> cval u <= vy) /\
    (forall x q vq, In x (region k) -> In (q, vq) D -> In q (adj x) -> ~ In q (region k) ->
                    vq <= cval u) /\
    touches (adj (cpix u)) k = true /\
    (is_leaf k = true -> mergeable (cval u) k = false).

  Definition edges_ok (D : list (Z * Z)) (f : list tree) : Prop :=
    forall e, In e (fedges f) -> edge_ok D e.

  Lemma cval_in_fpv f u :
    In u (fnodes f) -> own_ok u -> In (cpix u, cval u) (fpv f).
  Proof.
    intros Hu [Hne _]. unfold fnodes in Hu. apply in_flat_map in Hu. destruct Hu as [r [Hr Hu]].
    unfold fpv. apply in_flat_map. exists r. split; [exact Hr|].
    apply In_regionv_nodes. exists u. split; [exact Hu|].
    unfold cpix, cval. destruct (town u) as [|a l]; [congruence|]. cbn [hd]. left.
    destruct a; reflexivity.
  Qed.

  Lemma fedges_nodes f u k : In (u, k) (fedges f) -> In u (fnodes f) /\ In k (tkids u).
  Proof.
    intros H. unfold fedges in H. apply in_flat_map in H. destruct H as [r [Hr H]].
    apply edges_nodes in H. destruct H as [H1 H2]. split; [|exact H2].
    apply in_flat_map. exists r. split; assumption.
  Qed.

  Lemma edge_ok_extend f D pv e :
    Permutation (fpv f) D -> Forall own_ok (fnodes f) ->
    (forall y vy, In (y, vy) D -> snd pv <= vy) ->
    In e (fedges f) -> edge_ok D e -> edge_ok (D ++ [pv]) e.
  Proof.
    intros HP Hown Hlow He [H1 [H2 [H3 H4]]]. destruct e as [u k].
    split; [exact H1|]. split; [|split; assumption].
    intros x q vq Hx Hq Hadj Hnot. apply in_app_or in Hq. destruct Hq as [Hq|[Hq|[]]].
    - eapply H2; eassumption.
    - subst pv. cbn [snd fst] in *.
      apply fedges_nodes in He. destruct He as [Hu _].
      rewrite Forall_forall in Hown.
      apply (Hlow (cpix u)). apply (Permutation_in _ HP). apply cval_in_fpv; [exact Hu | apply Hown, Hu].
  Qed.

  Lemma fregion_NoDup f D : Permutation (fpv f) D -> NoDup (map fst D) -> NoDup (fregion f).
  Proof.
    intros HP Hnd. rewrite fpix_fpv. eapply Permutation_NoDup; [|exact Hnd].
    apply Permutation_map. symmetry. exact HP.
  Qed.

  Lemma step_edges_ok f pv D :
    Permutation (fpv f) D -> NoDup (map fst D) ->
    (forall y vy, In (y, vy) D -> snd pv <= vy) ->
    Forall own_ok (fnodes f) -> closed f ->
    edges_ok D f -> edges_ok (D ++ [pv]) (step f pv).
  Proof.
    intros HP Hnd Hlow Hown Hcl Hok e He.
    apply step_edges in He. destruct He as [He|[k [-> Hk]]].
    - eapply edge_ok_extend; try eassumption. apply Hok, He.
    - destruct (join_shape (tchs f (fst pv)) pv) as [[t [ex [Ht E]]]|[ex [ks [E [_ Hks]]]]];
        rewrite E in Hk |- *; cbn [tkids] in Hk.
      + (* the receiving structure keeps its children and its creating pixel *)
        assert (Htf : In t f) by (eapply tchs_sub; exact Ht).
        assert (Hold : In (t, k) (fedges f)).
        { apply (fedges_sub f t Htf). apply nodes_edges; [apply nodes_self | exact Hk]. }
        pose proof (edge_ok_extend f D pv (t, k) HP Hown Hlow Hold (Hok _ Hold)) as Hext.
        assert (Hne : town t <> []).
        { rewrite Forall_forall in Hown. apply (Hown t). apply in_flat_map. exists t.
          split; [exact Htf | apply nodes_self]. }
        unfold edge_ok in *. cbn [fst snd] in *. unfold cval, cpix in *. cbn [town].
        destruct (town t) as [|a l]; [congruence|]. cbn [app hd] in *. exact Hext.
      + (* new branch *)
        destruct (Hks k Hk) as [Hkt Hmg].
        pose proof Hkt as Hkt'. apply tchs_In in Hkt'. destruct Hkt' as [Hkf Htouch].
        unfold edge_ok. cbn [fst snd]. unfold cval, cpix. cbn [town hd].
        split; [|split; [|split]].
        * intros y vy Hy. apply (Hlow y). apply (Permutation_in _ HP).
          unfold fpv. apply in_flat_map. exists k. split; assumption.
        * intros x q vq Hx Hq Hadj Hnot. apply in_app_or in Hq. destruct Hq as [Hq|[Hq|[]]].
          -- exfalso. apply Hnot.
             assert (Hxf : In x (fregion f)) by (apply fregion_In; exists k; split; assumption).
             assert (Hqf : In q (fregion f)).
             { rewrite fpix_fpv. apply in_map_iff. exists (q, vq). split; [reflexivity|].
               apply (Permutation_in _ (Permutation_sym HP)), Hq. }
             destruct (Hcl x q Hxf Hqf Hadj) as [r [Hr [Hxr Hqr]]].
             assert (r = k).
             { eapply (NoDup_flat_map_inj region f r k x); try eassumption.
               eapply fregion_NoDup; eassumption. }
             subst r. exact Hqr.
          -- subst pv. cbn [snd]. lia.
        * exact Htouch.
        * intros _. exact Hmg.
  Qed.

  (* ---------- the combined invariant and its lift to every prefix of the order *)
  Record Jinv (D : list (Z * Z)) (f : list tree) : Prop := {
    J_perm : Permutation (fpv f) D;
    J_own : Forall own_ok (fnodes f);
    J_arity : Forall arity_ok (fnodes f);
    J_closed : closed f;
    J_conn : all_connected f;
    J_edges : edges_ok D f
  }.

  Lemma Jinv_init : Jinv [] [].
  Proof.
    constructor.
    - reflexivity.
    - constructor.
    - constructor.
    - intros x q [].
    - intros u [].
    - intros e [].
  Qed.

  Lemma fregion_incl f D : Permutation (fpv f) D -> incl (map fst D) pixels -> incl (fregion f) pixels.
  Proof.
    intros HP Hi x Hx. apply Hi. rewrite fpix_fpv in Hx.
    eapply Permutation_in; [apply Permutation_map; exact HP | exact Hx].
  Qed.

  Lemma Jinv_step D f pv :
    Jinv D f ->
    NoDup (map fst (D ++ [pv])) -> incl (map fst (D ++ [pv])) pixels ->
    (forall y vy, In (y, vy) D -> snd pv <= vy) ->
    Jinv (D ++ [pv]) (step f pv).
  Proof.
    intros [HP Hown Har Hcl Hcon Hed] Hnd Hinc Hlow.
    assert (HndD : NoDup (map fst D)) by (rewrite map_app in Hnd; eapply NoDup_app_l; exact Hnd).
    assert (HincD : incl (map fst D) pixels).
    { intros x Hx. apply Hinc. rewrite map_app. apply in_or_app. left. exact Hx. }
    assert (Hp : In (fst pv) pixels).
    { apply Hinc. rewrite map_app. apply in_or_app. right. left. reflexivity. }
    pose proof (fregion_incl f D HP HincD) as Hfi.
    constructor.
    - rewrite step_fpv. apply Permutation_app_tail. exact HP.
    - apply step_own_ok, Hown.
    - apply step_arity_ok, Har.
    - apply step_closed; assumption.
    - apply step_connected; assumption.
    - apply step_edges_ok; assumption.
  Qed.

  Definition sorted_desc (l : list (Z * Z)) : Prop :=
    StronglySorted (fun a b => snd b <= snd a) l.

  Lemma sorted_desc_mid l1 x l2 :
    sorted_desc (l1 ++ x :: l2) -> forall y, In y l1 -> snd x <= snd y.
  Proof.
    unfold sorted_desc. induction l1 as [|a l1 IH]; intros Hs y Hy; [destruct Hy|].
    cbn [app] in Hs. inversion Hs as [|? ? Hs' Hall]; subst.
    destruct Hy as [<-|Hy]; [|apply IH; assumption].
    rewrite Forall_forall in Hall. apply Hall. apply in_or_app. right. left. reflexivity.
  Qed.

  Lemma Jinv_run U : forall D f,
    Jinv D f -> NoDup (map fst (D ++ U)) -> incl (map fst (D ++ U)) pixels ->
    sorted_desc (D ++ U) -> Jinv (D ++ U) (fold_left step U f).
  Proof.
    induction U as [|pv U IH]; intros D f HJ Hnd Hinc Hs; cbn [fold_left].
    - rewrite app_nil_r. exact HJ.
    - replace (D ++ pv :: U) with ((D ++ [pv]) ++ U) in * by (rewrite <- app_assoc; reflexivity).
      apply IH; try assumption.
      apply Jinv_step; try assumption.
      + rewrite map_app in Hnd. eapply NoDup_app_l. exact Hnd.
      + intros x Hx. apply Hinc. rewrite map_app. apply in_or_app. left. exact Hx.
      + intros y vy Hy. rewrite <- app_assoc in Hs. cbn [app] in Hs.
        apply (sorted_desc_mid D pv U Hs (y, vy) Hy).
  Qed.

  Theorem run_Jinv order :
    NoDup (map fst order) -> incl (map fst order) pixels -> sorted_desc order ->
    Jinv order (run adj indep order).
  Proof.
    intros Hnd Hinc Hs. unfold run. apply (Jinv_run order [] []); try assumption. apply Jinv_init.
  Qed.
End Inv.
