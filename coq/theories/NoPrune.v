(* NoPrune.v — C03 (last clause): when no pruning is requested at compute time (the
   criterion accepts every leaf at every meeting value), no pixel owned by a branch is brighter
   than any pixel of its substructures. *)
From Coq Require Import ZArith List Bool Lia Permutation Sorted.
From Dendro Require Import Base BaseLemmas Tree TreeLemmas Compute ComputeInv ComputeThm.
Import ListNotations.
Open Scope Z_scope.

Section NoPrune.
  Variable adj : Z -> list Z.
  Variable indep : list (Z * Z) -> option Z -> bool.
  Hypothesis indep_true : forall o v, indep o (Some v) = true.

  (* join_shape, with the origin of the extra own pixels: they come from merged leaves *)
  Definition from_merged (tch : list tree) (v : Z) (ex : list (Z * Z)) : Prop :=
    forall x, In x ex -> exists m, In m tch /\ mergeable indep v m = true /\ In x (town m).

  Lemma join_shape2 tch pv :
    (exists t ex, In t tch /\ join indep tch pv = Node (tid t) (town t ++ pv :: ex) (tkids t) /\
                  from_merged tch (snd pv) ex)
    \/ (exists ex ks, join indep tch pv = Node (fst pv) (pv :: ex) ks /\ from_merged tch (snd pv) ex).
  Proof.
    unfold join. destruct tch as [|t [|t2 r]].
    - right. exists [], []. split; [reflexivity | intros x []].
    - left. exists t, []. split; [left; reflexivity|]. split; [reflexivity | intros x []].
    - set (tch := t :: t2 :: r).
      set (mg := filter (mergeable indep (snd pv)) tch).
      set (keep := filter (fun t => negb (mergeable indep (snd pv) t)) tch).
      assert (Hfm : forall l, incl l mg -> from_merged tch (snd pv) (flat_map town l)).
      { intros l Hl x Hx. apply in_flat_map in Hx. destruct Hx as [m [Hm Hx]]. exists m.
        specialize (Hl m Hm). apply filter_In in Hl. destruct Hl. repeat split; assumption. }
      destruct keep as [|k [|k2 kr]] eqn:Ek.
      + left.
        assert (Hne : mg <> []).
        { intros E. assert (Hl : length (mg ++ keep) = length tch) by (apply Permutation_length, filter_split_perm).
          rewrite E, Ek in Hl. cbn in Hl. lia. }
        assert (Hin : In (last mg dummy) mg).
        { rewrite (app_removelast_last dummy Hne) at 2. apply in_or_app. right. left. reflexivity. }
        exists (last mg dummy), (flat_map town (removelast mg)).
        split; [apply filter_In in Hin; tauto|]. split.
        * assert (Hleaf : is_leaf (last mg dummy) = true).
          { apply filter_In in Hin. destruct Hin as [_ Hm]. unfold mergeable in Hm. apply andb_true_iff in Hm. tauto. }
          apply is_leaf_kids in Hleaf. rewrite Hleaf. reflexivity.
        * apply Hfm. intros x Hx. rewrite (app_removelast_last dummy Hne). apply in_or_app. left. exact Hx.
      + left. exists k, (flat_map town mg). split; [|split; [reflexivity | apply Hfm, incl_refl]].
        assert (Hk : In k keep) by (rewrite Ek; left; reflexivity). apply filter_In in Hk. tauto.
      + right. exists (flat_map town mg), (k :: k2 :: kr). split; [reflexivity | apply Hfm, incl_refl].
  Qed.

  (* own pixels never exceed the value of the pixel that created the structure *)
  Definition own_below (u : tree) : Prop := forall y vy, In (y, vy) (town u) -> vy <= cval u.

  Lemma mergeable_peak v m : mergeable indep v m = true -> vmax m = v.
  Proof.
    unfold mergeable. rewrite indep_true. cbn [negb]. rewrite orb_false_r.
    intros H. apply andb_true_iff in H. destruct H as [_ H]. apply Z.eqb_eq, H.
  Qed.

  Lemma merged_values_below tch v ex : from_merged tch v ex -> forall y vy, In (y, vy) ex -> vy <= v.
  Proof.
    intros H y vy Hy. destruct (H _ Hy) as [m [_ [Hm Hin]]]. rewrite <- (mergeable_peak v m Hm).
    unfold vmax, ovals. apply maxl_ge. apply in_map_iff. exists (y, vy). split; [reflexivity | exact Hin].
  Qed.

  Lemma step_own_below f pv D :
    Permutation (fpv f) D -> (forall y vy, In (y, vy) D -> snd pv <= vy) ->
    Forall own_ok (fnodes f) ->
    (forall u, In u (fnodes f) -> own_below u) ->
    forall u, In u (fnodes (step adj indep f pv)) -> own_below u.
  Proof.
    intros HP Hlow Hown Hb u Hu. apply step_nodes in Hu. destruct Hu as [->|Hu]; [|apply Hb, Hu].
    set (tch := tchs adj f (fst pv)).
    assert (Htchf : forall t, In t tch -> In t (fnodes f)).
    { intros t Ht. apply in_flat_map. exists t. split; [eapply tchs_sub; exact Ht | apply nodes_self]. }
    rewrite Forall_forall in Hown.
    destruct (join_shape2 tch pv) as [[t [ex [Ht [E Hex]]]]|[ex [ks [E Hex]]]]; rewrite E.
    - destruct (Hown t (Htchf t Ht)) as [Hne _].
      assert (Hcv : snd pv <= cval t).
      { assert (Hin : In (cpix t, cval t) (fpv f)) by (apply cval_in_fpv; [apply Htchf, Ht | apply Hown, Htchf, Ht]).
        apply (Permutation_in _ HP) in Hin. exact (Hlow _ _ Hin). }
      assert (Ecv : cval (Node (tid t) (town t ++ pv :: ex) (tkids t)) = cval t).
      { unfold cval. cbn [town]. destruct (town t); [congruence | reflexivity]. }
      intros y vy Hy. rewrite Ecv. cbn [town] in Hy. apply in_app_or in Hy. destruct Hy as [Hy|[Hy|Hy]].
      + exact (Hb t (Htchf t Ht) y vy Hy).
      + subst pv. exact Hcv.
      + pose proof (merged_values_below tch (snd pv) ex Hex y vy Hy). lia.
    - intros y vy Hy. unfold cval. cbn [town hd] in *. destruct Hy as [Hy|Hy].
      + subst pv. cbn [snd]. lia.
      + apply (merged_values_below tch (snd pv) ex Hex y vy Hy).
  Qed.

  Variable order : list (Z * Z).
  Hypothesis Hnd : NoDup (map fst order).
  Hypothesis Hsorted : sorted_desc order.
  Hypothesis Hsym : forall a b, In a (map fst order) -> In b (map fst order) -> In b (adj a) -> In a (adj b).

  Lemma run_own_below_gen U : forall D f,
    Jinv adj indep D f -> NoDup (map fst (D ++ U)) -> sorted_desc (D ++ U) ->
    (forall a b, In a (map fst (D ++ U)) -> In b (map fst (D ++ U)) -> In b (adj a) -> In a (adj b)) ->
    (forall u, In u (fnodes f) -> own_below u) ->
    forall u, In u (fnodes (fold_left (step adj indep) U f)) -> own_below u.
  Proof.
    induction U as [|pv U IH]; intros D f HJ Hn Hs Hsy Hb; cbn [fold_left]; [exact Hb|].
    replace (D ++ pv :: U) with ((D ++ [pv]) ++ U) in * by (rewrite <- app_assoc; reflexivity).
    assert (Hlow : forall y vy, In (y, vy) D -> snd pv <= vy).
    { intros y vy Hy. rewrite <- app_assoc in Hs. cbn [app] in Hs. apply (sorted_desc_mid D pv U Hs (y, vy) Hy). }
    apply (IH (D ++ [pv]) (step adj indep f pv)); try assumption.
    - apply (Jinv_step adj indep (map fst ((D ++ [pv]) ++ U))); try assumption.
      + rewrite map_app in Hn. eapply NoDup_app_l. exact Hn.
      + intros x Hx. rewrite map_app. apply in_or_app. left. exact Hx.
    - apply (step_own_below f pv D); [apply (J_perm _ _ _ _ HJ) | exact Hlow | apply (J_own _ _ _ _ HJ) | exact Hb].
  Qed.

  (* C03: without pruning no pixel owned by a branch is brighter than any pixel of its
     substructures *)
  Theorem branch_below_children u k y vy z vz :
    In (u, k) (fedges (run adj indep order)) -> In (y, vy) (town u) -> In (z, vz) (regionv k) -> vy <= vz.
  Proof.
    intros He Hy Hz.
    pose proof (HJ adj indep order Hnd Hsorted Hsym) as J.
    destruct (J_edges _ _ _ _ J _ He) as [H1 _]. cbn [fst snd] in H1. specialize (H1 z vz Hz).
    assert (Hb : own_below u).
    { destruct (fedges_nodes _ _ _ He) as [Hu _].
      apply (run_own_below_gen order [] []); try assumption.
      - apply Jinv_init.
      - intros w []. }
    specialize (Hb y vy Hy). lia.
  Qed.
End NoPrune.
