(* PruneLaxer.v — generalisation of PruneSame.v: prune() with criteria that are no stricter than
   the criteria of the computation, and have no positive min_delta, changes nothing on the
   result of compute.  (compute with cs0 - any min_delta -, prune with cs: min_delta 0,
   min_npix no larger, the same other criteria.)  Lemmas only. *)
From Coq Require Import ZArith List Bool Lia Sorted.
From Dendro Require Import Base BaseLemmas Tree TreeLemmas Grid GridLemmas Criteria Compute ComputeInv ComputeThm
     Prune PruneLemmas PruneMono PruneSame.
Import ListNotations.
Open Scope Z_scope.

(* cs asks no more post hoc (against any height not above the peak) than cs0 asked at the meeting *)
Definition laxer_after (cs cs0 : list crit) : Prop :=
  (forall o v ph, ph <= vmax_l o -> indep_of cs0 o (Some v) = true -> indep_posthoc cs o ph = true) /\
  (forall o, indep_of cs0 o None = true -> indep_of cs o None = true).

Lemma laxer_after_same cs : nodelta cs = true -> laxer_after cs cs.
Proof.
  intros H. split.
  - intros o v ph Hph Hi. apply posthoc_of_at with (v := v); assumption.
  - auto.
Qed.

Lemma nodelta_posthoc_at user o v ph :
  nodelta user = true -> ph <= vmax_l o ->
  forallb (fun c => crit_at c o v) user = true -> forallb (fun c => crit_posthoc c o ph) user = true.
Proof. intros Hn Hph H. apply (posthoc_of_at user o v ph Hn Hph H). Qed.

Lemma laxer_after_builtin d n m d0 n0 m0 user :
  d <= 0 -> 0 < m -> 0 < m0 -> n * m0 <= n0 * m -> nodelta user = true ->
  laxer_after (MinDelta d :: MinNpix n m :: user) (MinDelta d0 :: MinNpix n0 m0 :: user).
Proof.
  intros Hd Hm Hm0 Hn Hu. split.
  - intros o v ph Hph. unfold indep_of, indep_posthoc. cbn [forallb crit_at crit_posthoc crit_plain].
    rewrite !andb_true_iff, !Z.leb_le. intros [_ [H2 H3]].
    repeat split; [lia | eapply npix_le_transfer with (n1 := n0) (m1 := m0); eassumption
                  | apply nodelta_posthoc_at with (v := v); assumption].
  - intros o. unfold indep_of. cbn [forallb crit_final crit_plain].
    rewrite !andb_true_iff, !Z.leb_le. intros [_ [H2 H3]].
    repeat split; [| eapply npix_le_transfer with (n1 := n0) (m1 := m0); eassumption | exact H3].
    unfold vmax_l, vmin_l. pose proof (minl_le_maxl (map snd o)). lia.
Qed.

Section Laxer.
  Variable adj : Z -> list Z.
  Variables cs cs0 : list crit.
  Variable order : list (Z * Z).
  Hypothesis Hnd : NoDup (map fst order).
  Hypothesis Hsorted : sorted_desc order.
  Hypothesis Hsym : forall a b, In a (map fst order) -> In b (map fst order) -> In b (adj a) -> In a (adj b).
  Hypothesis Hlax : laxer_after cs cs0.

  Let R := run adj (indep_of cs0) order.
  Let F := make_trunk (indep_of cs0) R.
  Let G := sort_by tid (relabel_forest F).

  Theorem prune_laxer_changes_nothing : prune_struct cs G = G.
  Proof.
    destruct Hlax as [Hp Hf].
    rewrite prune_struct_noop.
    - unfold G. apply sort_by_idem.
    - intros w' k' He Hl.
      destruct (G_edges adj cs0 order _ _ He) as [w [k [Hwk [Hw Hk]]]]. subst w' k'.
      rewrite relabel_is_leaf in Hl. unfold ph_ok. rewrite relabel_town, relabel_height.
      destruct (leaf_with_parent adj (indep_of cs0) order Hnd Hsorted Hsym w k Hwk Hl) as [_ [Hind _]].
      apply Hp with (v := cval w); [| exact Hind].
      apply height_le_vmax_kid. apply (fedges_nodes _ _ _ Hwk).
    - intros r' Hr' Hl. unfold G in Hr'. apply sort_by_In in Hr'. unfold relabel_forest in Hr'.
      apply in_map_iff in Hr'. destruct Hr' as [r [Hr HrF]]. subst r'.
      rewrite relabel_is_leaf in Hl. rewrite relabel_town. apply Hf.
      apply (parentless_leaf adj (indep_of cs0) order r HrF Hl).
  Qed.
End Laxer.

Theorem grid_prune_laxer shape per vals minv cs cs0 :
  Forall (fun n => 0 < n) shape -> laxer_after cs cs0 ->
  prune_struct cs (compute shape (AdjGrid per) vals minv cs0) = compute shape (AdjGrid per) vals minv cs0.
Proof.
  intros Hshape Hl. unfold compute. cbn [adj_of].
  apply prune_laxer_changes_nothing.
  - apply order_of_NoDup.
  - apply order_of_sorted.
  - intros a b _ _ H. apply nbrs_sym; assumption.
  - exact Hl.
Qed.

(* the same for a user adjacency given as a table, symmetric *)
Theorem custom_prune_laxer shape tb vals minv cs cs0 :
  (forall a b, In b (nbrs_custom tb a) -> In a (nbrs_custom tb b)) -> laxer_after cs cs0 ->
  prune_struct cs (compute shape (AdjCustom tb) vals minv cs0) = compute shape (AdjCustom tb) vals minv cs0.
Proof.
  intros Hsym Hl. unfold compute. cbn [adj_of].
  apply prune_laxer_changes_nothing.
  - apply order_of_NoDup.
  - apply order_of_sorted.
  - intros a b _ _ H. apply Hsym. exact H.
  - exact Hl.
Qed.
