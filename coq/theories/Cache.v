(* Cache.v — C14: the derived state that Structure objects cache (_level, _descendants,
   _npix_total, _peak/_peak_subtree) as an explicit store next to the forest, and the
   operations that read, fill and reset it.  [legacy = true] reproduces the unrepaired
   prune, which reset only the structure that received pixels (defect F5); [legacy =
   false] is the repaired code, which resets every surviving structure.
   What is abstracted: HOW a missing value is computed (the incremental algorithms of
   level / ancestor / get_peak are validated by the navigation and accessor ties); what is
   modelled exactly: WHICH values are cached, when they are reused and when dropped. *)
From Coq Require Import ZArith List Bool Lia.
From Dendro Require Import Base Tree Criteria Index Prune.
Import ListNotations.
Open Scope Z_scope.

Record crec : Type := {
  c_level : option Z;
  c_desc : option (list Z);
  c_npix : option Z;
  c_peak : option ((Z * Z) * (Z * Z))       (* (_peak, _peak_subtree) *)
}.
Definition empty_rec : crec := {| c_level := None; c_desc := None; c_npix := None; c_peak := None |}.

Definition store : Type := list (Z * crec).

Fixpoint get (s : store) (i : Z) : crec :=
  match s with
  | [] => empty_rec
  | (j, r) :: s' => if j =? i then r else get s' i
  end.
Definition put (s : store) (i : Z) (r : crec) : store := (i, r) :: s.

Record state : Type := { st_forest : list tree; st_store : store }.

(* ---- the fresh values: what a newly constructed dendrogram would report *)
Definition f_level (f : list tree) (i : Z) : Z := assoc (level_table f) i.
Definition f_desc (f : list tree) (i : Z) : list Z :=
  match lookup f i with Some t => map tid (descendants t) | None => [] end.
Definition f_npix (f : list tree) (i : Z) : Z :=
  match lookup f i with Some t => npix_sub t | None => 0 end.
Definition f_peak (f : list tree) (i : Z) : (Z * Z) * (Z * Z) :=
  match lookup f i with Some t => (peak_own t, peak_sub t) | None => ((0, 0), (0, 0)) end.

Inductive op : Type :=
| QLevel (i : Z) | QDesc (i : Z) | QNpix (i : Z) | QPeak (i : Z)
| OPrune (cs : list crit).

Inductive obs : Type :=
| OZ (z : Z) | OL (l : list Z) | OP (p : (Z * Z) * (Z * Z)) | OForest (f : list tree).

(* get_peak fills the caches of the whole subtree of i *)
Definition fill_peaks (f : list tree) (s : store) (i : Z) : store :=
  match lookup f i with
  | Some t => fold_left (fun acc u =>
                 let r := get acc (tid u) in
                 put acc (tid u) {| c_level := c_level r; c_desc := c_desc r; c_npix := c_npix r;
                                    c_peak := Some (f_peak f (tid u)) |}) (nodes t) s
  | None => s
  end.

(* ids that survive a prune and were touched by a merge (they received pixels): the only
   ones the legacy code reset *)
Definition changed_ids (f f' : list tree) : list Z :=
  map tid (filter (fun u' => match lookup f (tid u') with
                             | Some u => negb (Nat.eqb (length (town u)) (length (town u')))
                             | None => true
                             end) (fnodes f')).

Definition reset_ids (s : store) (ids : list Z) : store :=
  fold_left (fun acc i => put acc i empty_rec) ids s.

Definition step (legacy : bool) (st : state) (o : op) : state * obs :=
  let f := st_forest st in
  let s := st_store st in
  match o with
  | QLevel i =>
      let r := get s i in
      match c_level r with
      | Some v => (st, OZ v)
      | None => let v := f_level f i in
                ({| st_forest := f;
                    st_store := put s i {| c_level := Some v; c_desc := c_desc r; c_npix := c_npix r; c_peak := c_peak r |} |},
                 OZ v)
      end
  | QDesc i =>
      let r := get s i in
      match c_desc r with
      | Some v => (st, OL v)
      | None => let v := f_desc f i in
                ({| st_forest := f;
                    st_store := put s i {| c_level := c_level r; c_desc := Some v; c_npix := c_npix r; c_peak := c_peak r |} |},
                 OL v)
      end
  | QNpix i =>
      let r := get s i in
      match c_npix r with
      | Some v => (st, OZ v)
      | None => let v := f_npix f i in
                ({| st_forest := f;
                    st_store := put s i {| c_level := c_level r; c_desc := c_desc r; c_npix := Some v; c_peak := c_peak r |} |},
                 OZ v)
      end
  | QPeak i =>
      let r := get s i in
      match c_peak r with
      | Some v => (st, OP v)
      | None => let s' := fill_peaks f s i in
                ({| st_forest := f; st_store := s' |}, OP (f_peak f i))
      end
  | OPrune cs =>
      let f' := prune_struct cs f in
      let s' := if legacy then reset_ids s (changed_ids f f')
                else reset_ids s (map tid (fnodes f')) in
      ({| st_forest := f'; st_store := s' |}, OForest f')
  end.

(* what the same operation reports on a freshly constructed dendrogram *)
Definition fresh_obs (f : list tree) (o : op) : obs :=
  match o with
  | QLevel i => OZ (f_level f i)
  | QDesc i => OL (f_desc f i)
  | QNpix i => OZ (f_npix f i)
  | QPeak i => OP (f_peak f i)
  | OPrune cs => OForest (prune_struct cs f)
  end.

Fixpoint run_ops (legacy : bool) (st : state) (ops : list op) : list obs :=
  match ops with
  | [] => []
  | o :: r => let '(st', ob) := step legacy st o in ob :: run_ops legacy st' r
  end.

(* the same history where every operation is answered by a fresh dendrogram built from the
   current structures *)
Fixpoint run_fresh (f : list tree) (ops : list op) : list obs :=
  match ops with
  | [] => []
  | o :: r => fresh_obs f o :: run_fresh (match o with OPrune cs => prune_struct cs f | _ => f end) r
  end.
