(* Concrete.v — the generic theorems of ComputeThm.v instantiated for the concrete
   computation (threshold, stable order, grid adjacency default or periodic, built-in
   criteria): no hypotheses left except that axis lengths are positive. *)
From Coq Require Import ZArith List Bool Lia Permutation Sorted.
From Dendro Require Import Base BaseLemmas Tree TreeLemmas Grid GridLemmas Criteria Compute ComputeInv ComputeThm Forest.
Import ListNotations.
Open Scope Z_scope.

Section Grid.
  Variable shape : list Z.
  Variable per : list bool.
  Variable vals : list (option Z).
  Variable minv : option Z.
  Variable cs : list crit.
  Hypothesis Hshape : Forall (fun n => 0 < n) shape.

  Let adj := nbrs shape per.
  Let indep := indep_of cs.
  Let order := order_of (kept vals minv).
  Let R := run adj indep order.
  Let F := make_trunk indep R.
  Let G := compute shape (AdjGrid per) vals minv cs.

  Lemma G_eq : G = sort_by tid (relabel_forest F).
  Proof. reflexivity. Qed.

  Lemma G_fnodes : Permutation (fnodes G) (fnodes (relabel_forest F)).
  Proof. rewrite G_eq. unfold fnodes. apply Permutation_flat_map, sort_by_perm. Qed.
  Lemma G_fregion : Permutation (fregion G) (fregion (relabel_forest F)).
  Proof. rewrite G_eq. unfold fregion. apply Permutation_flat_map, sort_by_perm. Qed.
  Lemma G_fnodes_In u : In u (fnodes G) <-> In u (fnodes (relabel_forest F)).
  Proof. split; apply Permutation_in; [|symmetry]; apply G_fnodes. Qed.
  Lemma G_fregion_In p : In p (fregion G) <-> In p (fregion (relabel_forest F)).
  Proof. split; apply Permutation_in; [|symmetry]; apply G_fregion. Qed.

  (* F35: the trunk of the computed dendrogram is in the order of the final identifiers *)
  Theorem grid_trunk_sorted : StronglySorted (key_le tid) G.
  Proof. rewrite G_eq. apply sort_by_sorted. Qed.
  Theorem grid_trunk_resort : sort_by tid G = G.
  Proof. apply sort_by_of_sorted, grid_trunk_sorted. Qed.

  Lemma Hnd : NoDup (map fst order).
  Proof. apply order_of_NoDup. Qed.
  Lemma Hsorted : sorted_desc order.
  Proof. apply order_of_sorted. Qed.
  Lemma Hsym : forall a b, In a (map fst order) -> In b (map fst order) -> In b (adj a) -> In a (adj b).
  Proof. intros a b _ _ H. apply nbrs_sym; assumption. Qed.

  Lemma order_In p v : In (p, v) order <-> In (p, v) (kept vals minv).
  Proof. split; apply Permutation_in; [|symmetry]; apply order_of_perm. Qed.

  (* C01: the assigned pixels of the computed dendrogram *)
  Theorem grid_assigned_iff p :
    In p (fregion G) <->
    (exists v i, nth_error vals i = Some (Some v) /\ p = Z.of_nat i /\ above minv v = true) /\
    ~ exists r, In r R /\ In p (region r) /\ dropped indep r.
  Proof.
    rewrite G_fregion_In, relabel_forest_fregion.
    unfold F, R. rewrite (assigned_iff adj indep order Hnd Hsorted Hsym p).
    assert (Hpix : In p (map fst order) <->
                   exists v i, nth_error vals i = Some (Some v) /\ p = Z.of_nat i /\ above minv v = true).
    { rewrite in_map_iff. split.
      - intros [[q v] [E H]]. cbn in E. subst q. apply order_In, kept_spec in H.
        destruct H as [i H]. exists v, i. exact H.
      - intros [v [i H]]. exists (p, v). split; [reflexivity|]. apply order_In, kept_spec. exists i. exact H. }
    rewrite Hpix. reflexivity.
  Qed.

  Theorem grid_pixels_distinct : NoDup (fregion G).
  Proof.
    apply (Permutation_NoDup (Permutation_sym G_fregion)).
    rewrite relabel_forest_fregion. apply (trunk_NoDup adj indep order Hnd Hsorted Hsym).
  Qed.

  Lemma G_node_inv u :
    In u (fnodes G) -> exists u0, In u0 (fnodes F) /\ regionv u = regionv u0 /\ region u = region u0.
  Proof.
    rewrite G_fnodes_In, relabel_forest_fnodes. intros H. apply in_map_iff in H. destruct H as [u0 [<- H0]].
    exists u0. split; [exact H0|]. split; [apply relabel_regionv | apply relabel_region].
  Qed.

  (* C03: every structure of the computed dendrogram is connected *)
  Theorem grid_connected u : In u (fnodes G) -> connected adj (region u).
  Proof.
    intros Hu. destruct (G_node_inv u Hu) as [u0 [H0 [_ Hr]]]. rewrite Hr.
    apply (region_connected adj indep order Hnd Hsorted Hsym). exact H0.
  Qed.

  (* C03: contour semantics for the computed dendrogram *)
  Theorem grid_contour u x q vq y vy :
    In u (fnodes G) -> In x (region u) -> In (q, vq) (kept vals minv) -> In q (adj x) ->
    ~ In q (region u) -> In (y, vy) (regionv u) -> vq <= vy.
  Proof.
    intros Hu Hx Hq Hadj Hnot Hy. destruct (G_node_inv u Hu) as [u0 [H0 [Hrv Hr]]].
    rewrite Hr in Hx, Hnot. rewrite Hrv in Hy.
    apply (contour adj indep order Hnd Hsorted Hsym u0 x q vq y vy); try assumption.
    - eapply fnodes_sub; [|exact H0]. intros t Ht. apply trunk_In in Ht. tauto.
    - apply order_In. exact Hq.
  Qed.

  (* C02: identifiers of the computed dendrogram are exactly 0..N-1 *)
  Theorem grid_ids_exact :
    Permutation (map tid (fnodes G)) (zseq (length (fnodes G))).
  Proof.
    rewrite (Permutation_length G_fnodes). rewrite (Permutation_map tid G_fnodes).
    rewrite relabel_forest_fnodes at 2. rewrite map_length.
    apply relabel_ids_exact. apply smalls_distinct.
    - apply (trunk_NoDup adj indep order Hnd Hsorted Hsym).
    - apply (trunk_own adj indep order Hnd Hsorted Hsym).
  Qed.

  (* C02: every branch of the computed dendrogram has at least two children *)
  Theorem grid_arity u : In u (fnodes G) -> tkids u = [] \/ (2 <= length (tkids u))%nat.
  Proof.
    rewrite G_fnodes_In, relabel_forest_fnodes. intros H. apply in_map_iff in H. destruct H as [u0 [<- H0]].
    pose proof (trunk_arity adj indep order Hnd Hsorted Hsym) as Har. rewrite Forall_forall in Har.
    destruct (Har u0 H0) as [E|E].
    - left. rewrite relabel_kids, E. reflexivity.
    - right. rewrite relabel_arity. exact E.
  Qed.
End Grid.
