(* Criteria.v — the built-in independence criteria of pruning.py
   (min_delta, min_npix, min_peak, min_sum, contains_seeds, all_true), in the
   three situations in which the code evaluates them:
     at compute time  is_independent(leaf, index, value)   -> crit_at
     on a parentless leaf  is_independent(leaf)            -> crit_final
     post hoc (prune) on a leaf with a parent              -> crit_posthoc
   Values are integers (the harness scales dyadic data by a power of two);
   min_npix may be fractional, so it is a ratio num/den with den > 0. *)
From Coq Require Import ZArith List Bool Lia.
From Dendro Require Import Base.
Import ListNotations.
Open Scope Z_scope.

Inductive crit : Type :=
| MinDelta (d : Z)
| MinNpix (num den : Z)
| MinPeak (v : Z)
| MinSum (s : Z)
| Seeds (l : list Z).

Definition vmax_l (o : list (Z * Z)) : Z := maxl (map snd o).
Definition vmin_l (o : list (Z * Z)) : Z := minl (map snd o).

(* criteria other than min_delta do not look at the meeting value *)
Definition crit_plain (c : crit) (o : list (Z * Z)) : bool :=
  match c with
  | MinDelta _ => true
  | MinNpix num den => num <=? zlen o * den
  | MinPeak pk => pk <=? vmax_l o
  | MinSum s => s <=? sumZ (map snd o)
  | Seeds l => existsb (fun pv => memZ (fst pv) l) o
  end.

Definition crit_at (c : crit) (o : list (Z * Z)) (v : Z) : bool :=
  match c with
  | MinDelta d => d <=? vmax_l o - v
  | _ => crit_plain c o
  end.

Definition crit_final (c : crit) (o : list (Z * Z)) : bool :=
  match c with
  | MinDelta d => d <=? vmax_l o - vmin_l o
  | _ => crit_plain c o
  end.

(* post hoc: height(leaf) - height(parent); ph = the parent's height *)
Definition crit_posthoc (c : crit) (o : list (Z * Z)) (ph : Z) : bool :=
  match c with
  | MinDelta d => d <=? vmax_l o - ph
  | _ => crit_plain c o
  end.

(* all_true over a criteria list; the meeting value is None for the final test *)
Definition indep_of (cs : list crit) (o : list (Z * Z)) (ov : option Z) : bool :=
  match ov with
  | Some v => forallb (fun c => crit_at c o v) cs
  | None => forallb (fun c => crit_final c o) cs
  end.

Definition indep_posthoc (cs : list crit) (o : list (Z * Z)) (ph : Z) : bool :=
  forallb (fun c => crit_posthoc c o ph) cs.
