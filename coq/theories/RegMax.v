(* RegMax.v — C05: with no pruning requested there is exactly one leaf per regional maximum
   (plateau-aware) and each leaf's peak lies in its regional maximum.

   A plateau is a class of the relation "adjacent kept pixels with equal values"; a regional
   maximum is a plateau none of whose pixels has a strictly higher kept neighbour.
   For the forest built without pruning (independence criterion = always true):
     - the top pixels of every leaf (the own pixels with the leaf's maximal value) form exactly
       one plateau, and it is a regional maximum                                   (leaf_top theorems)
     - every pixel of a regional maximum is a top pixel of some leaf           (regmax_in_leaf)
   Leaves own disjoint pixels, so leaves and regional maxima correspond one to one.

   Dynamic part: an invariant carried through the loop - every processed pixel has an
   ascending path to a top pixel of a leaf that either owns it or peaks strictly higher. *)
From Coq Require Import ZArith List Bool Lia Permutation Sorted Relations.
From Dendro Require Import Base BaseLemmas Tree TreeLemmas Criteria Compute ComputeInv ComputeThm.
Import ListNotations.
Open Scope Z_scope.

Definition np : list (Z * Z) -> option Z -> bool := fun _ _ => true.

Lemma mergeable_np v t : mergeable np v t = is_leaf t && (vmax t =? v).
Proof. unfold mergeable, np. cbn [negb]. rewrite orb_false_r. reflexivity. Qed.

Section RM.
  Variable adj : Z -> list Z.

  Definition nbr (a b : Z * Z) : Prop := In (fst b) (adj (fst a)) \/ In (fst a) (adj (fst b)).
  Definition eqadj (D : list (Z * Z)) (a b : Z * Z) : Prop := In a D /\ In b D /\ nbr a b /\ snd a = snd b.
  Definition sim (D : list (Z * Z)) : Z * Z -> Z * Z -> Prop := clos_refl_trans (Z * Z) (eqadj D).
  Definition higher (D : list (Z * Z)) (a : Z * Z) : Prop := exists b, In b D /\ nbr a b /\ snd a < snd b.

  Inductive asc (D : list (Z * Z)) : Z * Z -> Z * Z -> Prop :=
  | asc_refl a : In a D -> asc D a a
  | asc_step a b c : In a D -> In b D -> nbr a b -> snd a <= snd b -> asc D b c -> asc D a c.

  Lemma nbr_sym a b : nbr a b -> nbr b a.
  Proof. unfold nbr. tauto. Qed.

  Lemma asc_mono D D' a b : incl D D' -> asc D a b -> asc D' a b.
  Proof.
    intros Hi H. induction H as [a Ha|a b c Ha Hb Hn Hle _ IH]; [apply asc_refl, Hi, Ha|].
    eapply asc_step; [apply Hi, Ha | apply Hi, Hb | exact Hn | exact Hle | exact IH].
  Qed.

  Lemma asc_trans D a b c : asc D a b -> asc D b c -> asc D a c.
  Proof.
    intros H1 H2. induction H1 as [a Ha|a b0 c0 Ha Hb Hn Hle _ IH]; [exact H2|].
    eapply asc_step; [exact Ha | exact Hb | exact Hn | exact Hle | apply IH, H2].
  Qed.

  Lemma asc_le D a b : asc D a b -> snd a <= snd b.
  Proof. induction 1 as [a Ha|a b c Ha Hb Hn Hle _ IH]; lia. Qed.

  Lemma asc_in D a b : asc D a b -> In a D /\ In b D.
  Proof. induction 1 as [a Ha|a b c Ha Hb Hn Hle _ IH]; tauto. Qed.

  Lemma sim_mono D D' a b : incl D D' -> sim D a b -> sim D' a b.
  Proof.
    intros Hi H. induction H as [a b [Ha [Hb [Hn He]]]|a|a b c _ IH1 _ IH2].
    - apply rt_step. repeat split; try assumption; apply Hi; assumption.
    - apply rt_refl.
    - eapply rt_trans; eassumption.
  Qed.

  Lemma sim_sym D a b : sim D a b -> sim D b a.
  Proof.
    induction 1 as [a b [Ha [Hb [Hn He]]]|a|a b c _ IH1 _ IH2].
    - apply rt_step. repeat split; try assumption; [apply nbr_sym, Hn | symmetry; exact He].
    - apply rt_refl.
    - eapply rt_trans; eassumption.
  Qed.

  Lemma sim_val D a b : sim D a b -> snd a = snd b.
  Proof. induction 1 as [a b [_ [_ [_ He]]]|a|a b c _ IH1 _ IH2]; congruence. Qed.

  Lemma sim_asc D a b : sim D a b -> In a D -> asc D a b.
  Proof.
    induction 1 as [a b [Ha [Hb [Hn He]]]|a|a b c H1 IH1 H2 IH2]; intros Hin.
    - eapply asc_step; [exact Ha | exact Hb | exact Hn | lia | apply asc_refl, Hb].
    - apply asc_refl, Hin.
    - pose proof (IH1 Hin) as A1. eapply asc_trans; [exact A1|]. apply IH2. apply (asc_in _ _ _ A1).
  Qed.

  (* a pixel of a leaf that carries the leaf's maximal value *)
  Definition topof (t : tree) (z : Z * Z) : Prop := is_leaf t = true /\ In z (town t) /\ snd z = vmax t.

  Definition INV (D : list (Z * Z)) (f : list tree) : Prop :=
    forall a, In a D -> exists z t, asc D a z /\ In t (fnodes f) /\ topof t z /\ (In a (town t) \/ snd a < snd z).

  Definition NP2 (D : list (Z * Z)) (f : list tree) : Prop :=
    forall t z1 z2, In t (fnodes f) -> topof t z1 -> topof t z2 -> sim D z1 z2.

  (* ---- the join without pruning, by cases *)
  Notation mg v := (mergeable np v).

  Lemma last_removelast_perm' (l : list tree) (pv : Z * Z) :
    Permutation (town (last l dummy) ++ [pv] ++ flat_map town (removelast l)) (pv :: flat_map town l).
  Proof.
    destruct l as [|m l]; [cbn; apply Permutation_refl|].
    assert (Hne : m :: l <> []) by discriminate.
    rewrite (removelast_last_app (m :: l) dummy Hne) at 3.
    rewrite flat_map_app. cbn [flat_map]. rewrite app_nil_r.
    set (a := town (last (m :: l) dummy)). set (b := flat_map town (removelast (m :: l))).
    cbn [app]. apply Permutation_trans with (pv :: a ++ b).
    - apply Permutation_sym, Permutation_middle.
    - constructor. apply Permutation_app_comm.
  Qed.

  Lemma filter_all_true {A} (p : A -> bool) l : (forall x, In x l -> p x = true) -> filter p l = l.
  Proof.
    induction l as [|x l IH]; intros H; [reflexivity|]. cbn [filter]. rewrite (H x (or_introl eq_refl)).
    f_equal. apply IH. intros y Hy. apply H. right. exact Hy.
  Qed.

  Lemma filter_none {A} (p : A -> bool) l : filter p l = [] -> forall x, In x l -> p x = false.
  Proof.
    induction l as [|x l IH]; intros H y Hy; [destruct Hy|]. cbn [filter] in H.
    destruct (p x) eqn:E; [discriminate|]. destruct Hy as [<-|Hy]; [exact E | apply IH; assumption].
  Qed.

  Inductive jcase (tch : list tree) (pv : Z * Z) (N : tree) : Prop :=
  | JC1 : (forall t, In t tch -> mg (snd pv) t = true) -> tkids N = [] ->
          Permutation (town N) (pv :: flat_map town tch) -> jcase tch pv N
  | JC2 b : In b tch -> mg (snd pv) b = false -> tkids N = tkids b ->
          Permutation (town N) (town b ++ pv :: flat_map town (filter (mg (snd pv)) tch)) ->
          (forall t, In t tch -> t = b \/ mg (snd pv) t = true) -> jcase tch pv N
  | JC3 : tkids N = filter (fun t => negb (mg (snd pv) t)) tch -> (2 <= length (tkids N))%nat ->
          town N = pv :: flat_map town (filter (mg (snd pv)) tch) -> jcase tch pv N.

  Lemma join_cases tch pv : jcase tch pv (join np tch pv).
  Proof.
    destruct tch as [|t [|t2 r]].
    - apply JC1; [intros t [] | reflexivity | cbn; apply Permutation_refl].
    - cbn [join]. destruct (mg (snd pv) t) eqn:E.
      + apply JC1.
        * intros x [<-|[]]. exact E.
        * cbn [tkids]. rewrite mergeable_np in E. apply andb_true_iff in E. apply is_leaf_kids. tauto.
        * cbn [town flat_map]. rewrite app_nil_r. apply Permutation_sym, Permutation_cons_append.
      + apply (JC2 _ _ _ t); [left; reflexivity | exact E | reflexivity | | intros x [<-|[]]; left; reflexivity].
        cbn [town filter]. rewrite E. cbn [flat_map]. apply Permutation_refl.
    - set (tch := t :: t2 :: r).
      change (join np tch pv) with
        (let m := filter (mg (snd pv)) tch in
         let keep := filter (fun t => negb (mg (snd pv) t)) tch in
         match keep with
         | [] => let taker := last m dummy in Node (tid taker) (town taker ++ [pv] ++ flat_map town (removelast m)) []
         | [k] => Node (tid k) (town k ++ [pv] ++ flat_map town m) (tkids k)
         | _ => Node (fst pv) (pv :: flat_map town m) keep
         end).
      cbn zeta.
      destruct (filter (fun t0 => negb (mg (snd pv) t0)) tch) as [|k [|k2 kr]] eqn:Ek.
      + assert (Hall : forall x, In x tch -> mg (snd pv) x = true).
        { intros x Hx. pose proof (filter_none _ _ Ek x Hx) as H. apply negb_false_iff in H. exact H. }
        apply JC1; [exact Hall | reflexivity|]. cbn [town].
        rewrite (filter_all_true _ tch Hall). apply last_removelast_perm'.
      + assert (Hk : In k tch /\ mg (snd pv) k = false).
        { assert (H : In k (filter (fun t0 => negb (mg (snd pv) t0)) tch)) by (rewrite Ek; left; reflexivity).
          apply filter_In in H. destruct H as [H1 H2]. apply negb_true_iff in H2. tauto. }
        apply (JC2 _ _ _ k); [tauto | tauto | reflexivity | cbn [town app]; apply Permutation_refl|].
        intros x Hx. destruct (mg (snd pv) x) eqn:E; [right; reflexivity|]. left.
        assert (H : In x (filter (fun t0 => negb (mg (snd pv) t0)) tch)) by (apply filter_In; rewrite E; tauto).
        rewrite Ek in H. destruct H as [H|[]]. symmetry. exact H.
      + apply JC3; [cbn [tkids]; symmetry; exact Ek | cbn [tkids length]; lia | reflexivity].
  Qed.

  (* ---- general facts about a state satisfying Jinv *)
  Lemma maxl_perm' l l' : Permutation l l' -> maxl l = maxl l'.
  Proof.
    intros HP. destruct l as [|x l].
    - apply Permutation_nil in HP. subst. reflexivity.
    - apply maxl_ext; [discriminate|]. intros y. split; intros Hy.
      + apply (Permutation_in _ HP), Hy.
      + apply (Permutation_in _ (Permutation_sym HP)), Hy.
  Qed.

  Lemma maxl_const l v : l <> [] -> (forall x, In x l -> x = v) -> maxl l = v.
  Proof. intros Hne H. apply H, maxl_in, Hne. Qed.

  Lemma fregion_opix f : fregion f = flat_map opix (fnodes f).
  Proof.
    unfold fregion, fnodes. rewrite flat_map_flat_map. apply flat_map_ext_Forall. rewrite Forall_forall.
    intros r _. apply region_nodes.
  Qed.

  Lemma nodup_fst_inj (D : list (Z * Z)) a b : NoDup (map fst D) -> In a D -> In b D -> fst a = fst b -> a = b.
  Proof.
    induction D as [|x D IH]; intros Hnd Ha Hb E; [destruct Ha|]. cbn [map] in Hnd. inversion Hnd as [|? ? Hx Hnd']; subst.
    destruct Ha as [<-|Ha], Hb as [<-|Hb].
    - reflexivity.
    - exfalso. apply Hx. rewrite E. apply in_map, Hb.
    - exfalso. apply Hx. rewrite <- E. apply in_map, Ha.
    - apply IH; assumption.
  Qed.

  Section State.
    Variables (D : list (Z * Z)) (f : list tree).
    Hypothesis HJ : Jinv adj np D f.
    Hypothesis HndD : NoDup (map fst D).

    Lemma town_in_D u a : In u (fnodes f) -> In a (town u) -> In a D.
    Proof.
      intros Hu Ha. apply (Permutation_in _ (J_perm _ _ _ _ HJ)).
      unfold fnodes in Hu. apply in_flat_map in Hu. destruct Hu as [r [Hr Hu]].
      unfold fpv. apply in_flat_map. exists r. split; [exact Hr|]. destruct a as [x vx].
      apply In_regionv_nodes. exists u. split; assumption.
    Qed.

    Lemma regionv_in_D r a : In r f -> In a (regionv r) -> In a D.
    Proof.
      intros Hr Ha. apply (Permutation_in _ (J_perm _ _ _ _ HJ)). unfold fpv. apply in_flat_map. exists r. split; assumption.
    Qed.

    Lemma fregion_nodup : NoDup (fregion f).
    Proof. eapply fregion_NoDup; [apply (J_perm _ _ _ _ HJ) | exact HndD]. Qed.

    Lemma own_unique u1 u2 a : In u1 (fnodes f) -> In u2 (fnodes f) -> In a (town u1) -> In a (town u2) -> u1 = u2.
    Proof.
      intros H1 H2 A1 A2. pose proof fregion_nodup as Hnd. rewrite fregion_opix in Hnd.
      apply (NoDup_flat_map_inj opix (fnodes f) u1 u2 (fst a) Hnd H1 H2); unfold opix; apply in_map; assumption.
    Qed.

    Lemma root_unique r1 r2 x : In r1 f -> In r2 f -> In x (region r1) -> In x (region r2) -> r1 = r2.
    Proof. intros H1 H2 X1 X2. apply (NoDup_flat_map_inj region f r1 r2 x fregion_nodup H1 H2 X1 X2). Qed.

    Lemma own_nonempty u : In u (fnodes f) -> town u <> [].
    Proof.
      intros Hu. pose proof (J_own _ _ _ _ HJ) as H. rewrite Forall_forall in H. destruct (H u Hu) as [Hne _]. exact Hne.
    Qed.

    Lemma vmax_in u : In u (fnodes f) -> exists z, In z (town u) /\ snd z = vmax u.
    Proof.
      intros Hu. pose proof (own_nonempty u Hu) as Hne.
      assert (H : In (vmax u) (ovals u)).
      { unfold vmax. apply maxl_in. unfold ovals. destruct (town u); [congruence | discriminate]. }
      unfold ovals in H. apply in_map_iff in H. destruct H as [z [E Hz]]. exists z. split; [exact Hz | exact E].
    Qed.

    Lemma vmax_ge u a : In a (town u) -> snd a <= vmax u.
    Proof. intros Ha. unfold vmax, ovals. apply maxl_ge. apply in_map, Ha. Qed.

    (* a leaf that is not the root of its tree peaks strictly above its parent's creating pixel *)
    Lemma kid_leaf_gt w k : In (w, k) (fedges f) -> is_leaf k = true -> cval w < vmax k.
    Proof.
      intros He Hl. destruct (J_edges _ _ _ _ HJ _ He) as [H1 [_ [_ H4]]]. cbn [fst snd] in *.
      specialize (H4 Hl). rewrite mergeable_np, Hl in H4. cbn [andb] in H4. apply Z.eqb_neq in H4.
      destruct (fedges_nodes f w k He) as [Hw Hk].
      assert (Hkn : In k (fnodes f)).
      { unfold fnodes in *. apply in_flat_map in Hw. destruct Hw as [r [Hr Hw]]. apply in_flat_map. exists r. split; [exact Hr|].
        eapply nodes_trans; [exact Hw | apply kid_nodes, Hk]. }
      destruct (vmax_in k Hkn) as [z [Hz Ez]]. destruct z as [x vx]. cbn [snd] in Ez.
      assert (cval w <= vx).
      { apply (H1 x vx). rewrite regionv_unfold. apply in_or_app. left. exact Hz. }
      lia.
    Qed.

    Lemma cval_in_D w : In w (fnodes f) -> In (cpix w, cval w) D.
    Proof.
      intros Hw. apply (Permutation_in _ (J_perm _ _ _ _ HJ)). apply cval_in_fpv; [exact Hw|].
      pose proof (J_own _ _ _ _ HJ) as H. rewrite Forall_forall in H. apply H, Hw.
    Qed.
  End State.

  (* ---- one step of the loop *)
  Section Step.
    Variable pixels : list Z.
    Hypothesis Hsym : forall a b, In a pixels -> In b pixels -> In b (adj a) -> In a (adj b).
    Variables (D : list (Z * Z)) (f : list tree) (pv : Z * Z).
    Hypothesis HJ : Jinv adj np D f.
    Hypothesis Hnd : NoDup (map fst (D ++ [pv])).
    Hypothesis Hinc : incl (map fst (D ++ [pv])) pixels.
    Hypothesis Hlow : forall y vy, In (y, vy) D -> snd pv <= vy.
    Hypothesis HINV : INV D f.
    Hypothesis HNP2 : NP2 D f.

    Let p := fst pv.
    Let v := snd pv.
    Let tch := tchs adj f p.
    Let N := join np tch pv.
    Let f' := step adj np f pv.
    Let D' := D ++ [pv].

    Ltac foldv :=
      repeat match goal with
             | H : context [snd ?q] |- _ =>
                 lazymatch goal with
                 | v0 := snd q |- _ => lazymatch H with v0 => fail | _ => progress change (snd q) with v0 in H end
                 end
             end;
      try match goal with v0 := snd ?q |- _ => progress change (snd q) with v0 end.

    Lemma HndD : NoDup (map fst D).
    Proof. rewrite map_app in Hnd. eapply NoDup_app_l. exact Hnd. Qed.

    Lemma HJ' : Jinv adj np D' f'.
    Proof. apply (Jinv_step adj np pixels Hsym); assumption. Qed.

    Lemma D_sub : incl D D'.
    Proof. intros x Hx. apply in_or_app. left. exact Hx. Qed.

    Lemma pv_in : In pv D'.
    Proof. apply in_or_app. right. left. reflexivity. Qed.

    Lemma val_ge u a : In u (fnodes f) -> In a (town u) -> v <= snd a.
    Proof. intros Hu Ha. destruct a as [x vx]. apply (Hlow x vx). apply (town_in_D D f HJ u _ Hu Ha). Qed.

    Lemma mg_allv u a : In u (fnodes f) -> mg v u = true -> In a (town u) -> snd a = v.
    Proof.
      intros Hu Hm Ha. rewrite mergeable_np in Hm. apply andb_true_iff in Hm. destruct Hm as [_ Hm]. apply Z.eqb_eq in Hm.
      pose proof (val_ge u a Hu Ha). pose proof (vmax_ge u a Ha). lia.
    Qed.

    Lemma nonmg_leaf_gt u : In u (fnodes f) -> is_leaf u = true -> mg v u = false -> v < vmax u.
    Proof.
      intros Hu Hl Hm. rewrite mergeable_np, Hl in Hm. cbn [andb] in Hm. apply Z.eqb_neq in Hm.
      destruct (vmax_in D f HJ u Hu) as [z [Hz Ez]]. pose proof (val_ge u z Hu Hz). lia.
    Qed.

    Lemma tch_root t : In t tch -> In t f.
    Proof. intros H. apply tchs_In in H. tauto. Qed.

    Lemma tch_node t : In t tch -> In t (fnodes f).
    Proof. intros H. apply in_flat_map. exists t. split; [apply tch_root, H | apply nodes_self]. Qed.

    Lemma tch_touch t : In t tch -> exists y vy, In y (adj p) /\ In (y, vy) (regionv t).
    Proof.
      intros H. apply tchs_In in H. destruct H as [_ H]. apply touches_true in H. destruct H as [y [Hy Hr]].
      apply In_region_regionv in Hr. destruct Hr as [vy Hr]. exists y, vy. split; assumption.
    Qed.

    Lemma fnodes_f' : fnodes f' = fnodes (rests adj f p) ++ nodes N.
    Proof.
      unfold f'. rewrite step_eq. unfold fnodes. rewrite flat_map_app. cbn [flat_map]. rewrite app_nil_r. reflexivity.
    Qed.

    Lemma N_in : In N (fnodes f').
    Proof. rewrite fnodes_f'. apply in_or_app. right. apply nodes_self. Qed.

    Lemma Jc : jcase tch pv N.
    Proof. apply join_cases. Qed.

    Definition isbase (u : tree) : Prop :=
      In u tch /\ mg v u = false /\ tkids N = tkids u /\
      Permutation (town N) (town u ++ pv :: flat_map town (filter (mg v) tch)).

    (* what becomes of a structure of the old state *)
    Lemma persist u : In u (fnodes f) -> In u (fnodes f') \/ (In u tch /\ mg v u = true) \/ isbase u.
    Proof.
      intros Hu. unfold fnodes in Hu. apply in_flat_map in Hu. destruct Hu as [r [Hr Hu]].
      destruct (touches (adj p) r) eqn:Et.
      2:{ left. rewrite fnodes_f'. apply in_or_app. left. apply in_flat_map. exists r. split; [|exact Hu].
          apply rests_In. split; assumption. }
      assert (Hrt : In r tch) by (apply tchs_In; split; assumption).
      assert (Hleafcase : mg v r = true -> u = r).
      { intros Hm. rewrite mergeable_np in Hm. apply andb_true_iff in Hm. destruct Hm as [Hl _].
        apply is_leaf_kids in Hl. rewrite nodes_unfold, Hl in Hu. cbn in Hu. destruct Hu as [Hu|[]]. symmetry. exact Hu. }
      destruct Jc as [Hall Hk HP|b Hb Hmb Hk HP Hothers|Hk Hlen Hown]. all: foldv.
      - right; left. rewrite (Hleafcase (Hall r Hrt)). split; [exact Hrt | apply Hall, Hrt].
      - destruct (Hothers r Hrt) as [->|Hm].
        + rewrite nodes_unfold in Hu. destruct Hu as [<-|Hu].
          * right; right. unfold isbase. tauto.
          * left. rewrite fnodes_f'. apply in_or_app. right. rewrite nodes_unfold. right. fold N in Hk. rewrite Hk. exact Hu.
        + right; left. rewrite (Hleafcase Hm). split; assumption.
      - destruct (mg v r) eqn:Em.
        + right; left. rewrite (Hleafcase eq_refl). split; assumption.
        + left. rewrite fnodes_f'. apply in_or_app. right. rewrite nodes_unfold. right.
          apply in_flat_map. exists r. split; [|exact Hu]. rewrite Hk. apply filter_In. change (snd pv) with v. rewrite Em. split; [exact Hrt | reflexivity].
    Qed.

    (* the base, when it is a leaf, stays a leaf with the same top *)
    Lemma base_leaf u z : isbase u -> In u (fnodes f) -> topof u z -> topof N z /\ incl (town u) (town N).
    Proof.
      intros [Hu [Hm [Hk HP]]] Hun [Hl [Hz Ez]].
      assert (Hinc' : incl (town u) (town N)).
      { intros a Ha. apply (Permutation_in _ (Permutation_sym HP)). apply in_or_app. left. exact Ha. }
      split; [|exact Hinc']. split; [|split].
      - apply is_leaf_kids. rewrite Hk. apply is_leaf_kids, Hl.
      - apply Hinc', Hz.
      - rewrite Ez. symmetry. unfold vmax, ovals. rewrite (maxl_perm' _ _ (Permutation_map snd HP)).
        pose proof (nonmg_leaf_gt u Hun Hl Hm) as Hgt.
        apply Z.le_antisymm.
        + assert (Hin : In (maxl (map snd (town u ++ pv :: flat_map town (filter (mg v) tch))))
                           (map snd (town u ++ pv :: flat_map town (filter (mg v) tch)))).
          { apply maxl_in. destruct (town u); discriminate. }
          apply in_map_iff in Hin. destruct Hin as [a [Ea Ha]]. rewrite <- Ea.
          apply in_app_or in Ha. destruct Ha as [Ha|[<-|Ha]].
          * apply (vmax_ge u a Ha).
          * fold v. unfold vmax, ovals in Hgt. lia.
          * apply in_flat_map in Ha. destruct Ha as [t [Ht Ha]]. apply filter_In in Ht. destruct Ht as [Ht Hmt].
            rewrite (mg_allv t a (tch_node t Ht) Hmt Ha). unfold vmax, ovals in Hgt. lia.
        + apply maxl_ge. rewrite map_app. apply in_or_app. left.
          apply maxl_in. pose proof (own_nonempty D f HJ u Hun). destruct (town u); [congruence | discriminate].
    Qed.

    (* connectivity inside an absorbed (all-v) leaf gives a plateau path *)
    Lemma conn_sim t : In t tch -> mg v t = true ->
      forall x y, conn adj (region t) x y -> In x (region t) -> sim D (x, v) (y, v).
    Proof.
      intros Ht Hm x y H. 
      assert (Hpix : forall a, In a (region t) -> In (a, v) D).
      { intros a Ha. assert (Hl : is_leaf t = true) by (rewrite mergeable_np in Hm; apply andb_true_iff in Hm; tauto).
        rewrite (leaf_region t Hl) in Ha. unfold opix in Ha. apply in_map_iff in Ha. destruct Ha as [[a' va] [E Ha]].
        cbn [fst] in E. subst a'. pose proof (mg_allv t (a, va) (tch_node t Ht) Hm Ha) as Ev. cbn [snd] in Ev. subst va.
        apply (town_in_D D f HJ t _ (tch_node t Ht) Ha). }
      induction H as [a b [Ha [Hb Hab]]|a|a b c H1 IH1 H2 IH2]; intros Hx.
      - apply rt_step. repeat split; [apply Hpix, Ha | apply Hpix, Hb | left; exact Hab].
      - apply rt_refl.
      - eapply rt_trans; [apply IH1, Hx|]. apply IH2.
        clear -H1 Hx. (* b lies in the region: every edge stays inside *)
        assert (Hgen : forall u w, clos_refl_trans Z (edge adj (region t)) u w -> In u (region t) -> In w (region t)).
        { intros u w Hc. induction Hc as [u w [_ [Hw _]]|u|u w z _ I1 _ I2]; intros Hu; [exact Hw | exact Hu | apply I2, I1, Hu]. }
        exact (Hgen a b H1 Hx).
    Qed.

    (* an absorbed leaf reaches the new pixel on its plateau *)
    Lemma absorbed_to_pv t a : In t tch -> mg v t = true -> In a (town t) -> sim D' a pv.
    Proof.
      intros Ht Hm Ha.
      assert (Hl : is_leaf t = true) by (rewrite mergeable_np in Hm; apply andb_true_iff in Hm; tauto).
      destruct (tch_touch t Ht) as [y [vy [Hy Hyr]]]. rewrite (leaf_regionv t Hl) in Hyr.
      pose proof (mg_allv t _ (tch_node t Ht) Hm Hyr) as Ev. cbn [snd] in Ev. subst vy.
      pose proof (mg_allv t a (tch_node t Ht) Hm Ha) as Ea. destruct a as [x vx]. cbn [snd] in Ea. subst vx.
      assert (Hxr : In x (region t)) by (rewrite (leaf_region t Hl); unfold opix; apply in_map_iff; exists (x, v); split; [reflexivity | exact Ha]).
      assert (Hyr' : In y (region t)) by (rewrite (leaf_region t Hl); unfold opix; apply in_map_iff; exists (y, v); split; [reflexivity | exact Hyr]).
      pose proof (J_conn _ _ _ _ HJ t (tch_node t Ht) x y Hxr Hyr') as Hc.
      eapply rt_trans; [apply (sim_mono D D' _ _ D_sub), (conn_sim t Ht Hm x y Hc Hxr)|].
      apply rt_step. repeat split.
      - apply D_sub, (town_in_D D f HJ t _ (tch_node t Ht) Hyr).
      - apply pv_in.
      - right. cbn [fst]. exact Hy.
    Qed.

    (* when a touched structure is not absorbed, the new pixel climbs into it *)
    Lemma reroute u0 : In u0 tch -> mg v u0 = false ->
      exists z t, asc D' pv z /\ In t (fnodes f') /\ topof t z /\ v < snd z.
    Proof.
      intros Hu0 Hm0. destruct (tch_touch u0 Hu0) as [y [vy [Hy Hyr]]].
      assert (HyD : In (y, vy) D) by (apply (regionv_in_D D f HJ u0 _ (tch_root u0 Hu0) Hyr)).
      destruct (HINV (y, vy) HyD) as [z [t [Hasc [Ht [Htop Hdisj]]]]].
      assert (Hvy : v <= vy) by (apply (Hlow y vy HyD)).
      assert (Hgt : v < snd z).
      { destruct Hdisj as [Hown|Hlt]; [|cbn [snd] in Hlt; lia].
        destruct Htop as [Hl [Hz Ez]]. rewrite Ez.
        apply In_regionv_nodes in Hyr. destruct Hyr as [u [Hu Hyu]].
        assert (Hun : In u (fnodes f)) by (apply in_flat_map; exists u0; split; [apply tch_root, Hu0 | exact Hu]).
        assert (u = t) by (apply (own_unique D f HJ HndD u t (y, vy) Hun Ht Hyu Hown)). subst u.
        destruct (fnodes_root_or_kid f t Ht) as [Hroot|[w Hw]].
        - assert (t = u0).
          { apply (root_unique D f HJ HndD t u0 y Hroot (tch_root u0 Hu0)).
            - rewrite region_unfold. apply in_or_app. left. unfold opix. apply in_map_iff. exists (y, vy). split; [reflexivity | exact Hown].
            - apply In_region_nodes. exists t. split; [exact Hu|]. unfold opix. apply in_map_iff. exists (y, vy). split; [reflexivity | exact Hown]. }
          subst t. apply (nonmg_leaf_gt u0 Ht Hl Hm0).
        - pose proof (kid_leaf_gt D f HJ w t Hw Hl) as H1.
          destruct (fedges_nodes f w t Hw) as [Hwn _].
          pose proof (cval_in_D D f HJ w Hwn) as H2. apply Hlow in H2. fold v in H2. lia. }
      assert (Hpath : asc D' pv z).
      { eapply asc_step; [apply pv_in | apply D_sub, HyD | left; cbn [fst]; exact Hy | cbn [snd]; fold v; lia|].
        apply (asc_mono D D' _ _ D_sub Hasc). }
      destruct (persist t Ht) as [Hp|[[Htt Hmt]|Hb]].
      - exists z, t. repeat split; try assumption; apply Htop.
      - exfalso. destruct Htop as [_ [Hz Ez]]. pose proof (mg_allv t z Ht Hmt Hz). lia.
      - destruct (base_leaf t z Hb Ht Htop) as [HtopN _]. exists z, N. split; [exact Hpath|]. split; [apply N_in|]. split; [exact HtopN | exact Hgt].
    Qed.

    (* in the cases where something is not absorbed there is such a structure *)
    Lemma non_absorbed_exists : (~ forall t, In t tch -> mg v t = true) -> exists u0, In u0 tch /\ mg v u0 = false.
    Proof.
      intros H. induction tch as [|t l IH].
      - exfalso. apply H. intros t [].
      - destruct (mg v t) eqn:E.
        + destruct IH as [u0 [H1 H2]].
          * intros Hall. apply H. intros x [<-|Hx]; [exact E | apply Hall, Hx].
          * exists u0. split; [right; exact H1 | exact H2].
        + exists t. split; [left; reflexivity | exact E].
    Qed.

    Lemma all_mg_dec : (forall t, In t tch -> mg v t = true) \/ exists u0, In u0 tch /\ mg v u0 = false.
    Proof.
      induction tch as [|t l IH]; [left; intros t []|].
      destruct (mg v t) eqn:E.
      - destruct IH as [IH|[u0 [H1 H2]]]; [left; intros x [<-|Hx]; [exact E | apply IH, Hx] | right; exists u0; split; [right; exact H1 | exact H2]].
      - right. exists t. split; [left; reflexivity | exact E].
    Qed.

    (* everything absorbed: the new structure is a leaf on the plateau of the new pixel *)
    Lemma allmg_N : (forall t, In t tch -> mg v t = true) ->
      is_leaf N = true /\ Permutation (town N) (pv :: flat_map town tch) /\ vmax N = v /\
      (forall a, In a (town N) -> snd a = v).
    Proof.
      intros Hall. destruct Jc as [_ Hk HP|b Hb Hmb _ _ _|Hk Hlen _]. all: foldv.
      - assert (Hv : forall a, In a (town N) -> snd a = v).
        { intros a Ha. apply (Permutation_in _ HP) in Ha. destruct Ha as [<-|Ha]; [reflexivity|].
          apply in_flat_map in Ha. destruct Ha as [t [Ht Ha]]. apply (mg_allv t a (tch_node t Ht) (Hall t Ht) Ha). }
        split; [apply is_leaf_kids, Hk|]. split; [exact HP|]. split; [|exact Hv].
        unfold vmax, ovals. apply maxl_const.
        + assert (In pv (town N)) by (apply (Permutation_in _ (Permutation_sym HP)); left; reflexivity).
          destruct (town N); [destruct H | discriminate].
        + intros x Hx. apply in_map_iff in Hx. destruct Hx as [a [<- Ha]]. apply Hv, Ha.
      - rewrite (Hall b Hb) in Hmb. discriminate.
      - exfalso. fold N in Hk. rewrite Hk in Hlen.
        assert (Hnil : filter (fun t => negb (mg v t)) tch = []).
        { clear -Hall. induction tch as [|t l IH]; [reflexivity|]. cbn [filter]. rewrite (Hall t (or_introl eq_refl)). cbn [negb].
          apply IH. intros x Hx. apply Hall. right. exact Hx. }
        fold v in Hlen. rewrite Hnil in Hlen. cbn in Hlen. lia.
    Qed.

    Theorem INV_step : INV D' f'.
    Proof.
      intros a Ha. apply in_app_or in Ha. destruct Ha as [Ha|[<-|[]]].
      - (* an old pixel *)
        destruct (HINV a Ha) as [z [t [Hasc [Ht [Htop Hdisj]]]]].
        pose proof (asc_mono D D' _ _ D_sub Hasc) as Hasc'.
        destruct (persist t Ht) as [Hp|[[Htt Hmt]|Hb]].
        + exists z, t. repeat split; try assumption; apply Htop.
        + destruct all_mg_dec as [Hall|[u0 [Hu0 Hm0]]].
          * destruct (allmg_N Hall) as [HlN [HPN [HvN HallN]]].
            assert (Hsub : incl (town t) (town N)).
            { intros x Hx. apply (Permutation_in _ (Permutation_sym HPN)). right. apply in_flat_map. exists t. split; assumption. }
            exists z, N. split; [exact Hasc'|]. split; [apply N_in|]. split.
            -- destruct Htop as [_ [Hz Ez]]. split; [exact HlN|]. split; [apply Hsub, Hz|]. rewrite HvN. apply HallN, Hsub, Hz.
            -- destruct Hdisj as [Hown|Hlt]; [left; apply Hsub, Hown | right; exact Hlt].
          * destruct (reroute u0 Hu0 Hm0) as [z2 [t2 [Hasc2 [Ht2 [Htop2 Hgt]]]]].
            destruct Htop as [_ [Hz Ez]].
            pose proof (mg_allv t z Ht Hmt Hz) as Ezv.
            exists z2, t2. split; [|split; [exact Ht2 | split; [exact Htop2|]]].
            -- eapply asc_trans; [exact Hasc'|]. eapply asc_trans; [|exact Hasc2].
               apply sim_asc; [apply (absorbed_to_pv t z Htt Hmt Hz) | apply D_sub, (town_in_D D f HJ t z Ht Hz)].
            -- right. pose proof (asc_le _ _ _ Hasc). lia.
        + destruct (base_leaf t z Hb Ht Htop) as [HtopN Hsub].
          exists z, N. split; [exact Hasc'|]. split; [apply N_in|]. split; [exact HtopN|].
          destruct Hdisj as [Hown|Hlt]; [left; apply Hsub, Hown | right; exact Hlt].
      - (* the new pixel *)
        destruct all_mg_dec as [Hall|[u0 [Hu0 Hm0]]].
        + destruct (allmg_N Hall) as [HlN [HPN [HvN HallN]]].
          assert (HpN : In pv (town N)) by (apply (Permutation_in _ (Permutation_sym HPN)); left; reflexivity).
          exists pv, N. split; [apply asc_refl, pv_in|]. split; [apply N_in|]. split; [|left; exact HpN].
          split; [exact HlN|]. split; [exact HpN|]. rewrite HvN. reflexivity.
        + destruct (reroute u0 Hu0 Hm0) as [z2 [t2 [Hasc2 [Ht2 [Htop2 Hgt]]]]].
          exists z2, t2. split; [exact Hasc2|]. split; [exact Ht2|]. split; [exact Htop2|]. right. exact Hgt.
    Qed.

    Theorem NP2_step : NP2 D' f'.
    Proof.
      intros t z1 z2 Ht H1 H2.
      assert (Hold : In t (fnodes f) -> sim D' z1 z2).
      { intros Htf. apply (sim_mono D D' _ _ D_sub). apply (HNP2 t z1 z2 Htf H1 H2). }
      unfold f' in Ht. apply step_nodes in Ht. destruct Ht as [Ht|Ht]; [|apply Hold, Ht].
      fold p tch N in Ht. subst t.
      destruct all_mg_dec as [Hall|[u0 [Hu0 Hm0]]].
      - destruct (allmg_N Hall) as [HlN [HPN [HvN HallN]]].
        assert (Hto : forall a, In a (town N) -> sim D' a pv).
        { intros a Ha. apply (Permutation_in _ HPN) in Ha. destruct Ha as [<-|Ha]; [apply rt_refl|].
          apply in_flat_map in Ha. destruct Ha as [t [Ht Ha]]. apply (absorbed_to_pv t a Ht (Hall t Ht) Ha). }
        destruct H1 as [_ [Hz1 _]]. destruct H2 as [_ [Hz2 _]].
        eapply rt_trans; [apply Hto, Hz1 | apply sim_sym, Hto, Hz2].
      - destruct Jc as [Hall _ _|b Hb Hmb Hk HP Hothers|Hk Hlen _]. all: foldv.
        + rewrite (Hall u0 Hu0) in Hm0. discriminate.
        + (* the top of the new leaf is the top of the base *)
          assert (Hbn : In b (fnodes f)) by apply (tch_node b Hb).
          assert (HlN : is_leaf N = true) by apply H1.
          assert (Hlb : is_leaf b = true).
          { apply is_leaf_kids. fold N in Hk. rewrite <- Hk. apply is_leaf_kids, HlN. }
          assert (Hbase : isbase b) by (unfold isbase; fold N v; tauto).
          destruct (vmax_in D f HJ b Hbn) as [zb [Hzb Ezb]].
          destruct (base_leaf b zb Hbase Hbn (conj Hlb (conj Hzb Ezb))) as [[_ [_ EzN]] _].
          pose proof (nonmg_leaf_gt b Hbn Hlb Hmb) as Hgt.
          assert (Hback : forall z, topof N z -> topof b z).
          { intros z [_ [Hz Ez]]. split; [exact Hlb|]. fold N v in HP.
            apply (Permutation_in _ HP) in Hz. apply in_app_or in Hz. destruct Hz as [Hz|[<-|Hz]].
            - split; [exact Hz | congruence].
            - exfalso. fold v in Ez. lia.
            - exfalso. apply in_flat_map in Hz. destruct Hz as [t [Ht Hz]]. apply filter_In in Ht. destruct Ht as [Ht Hmt].
              pose proof (mg_allv t z (tch_node t Ht) Hmt Hz). lia. }
          apply (sim_mono D D' _ _ D_sub). apply (HNP2 b z1 z2 Hbn (Hback z1 H1) (Hback z2 H2)).
        + exfalso. destruct H1 as [Hl _]. apply is_leaf_kids in Hl. fold N in Hlen. rewrite Hl in Hlen. cbn in Hlen. lia.
    Qed.
  End Step.
End RM.

(* ---- the whole loop *)
Section Run.
  Variable adj : Z -> list Z.
  Variable pixels : list Z.
  Hypothesis Hsym : forall a b, In a pixels -> In b pixels -> In b (adj a) -> In a (adj b).

  Lemma NP_run U : forall D f,
    Jinv adj np D f -> INV adj D f -> NP2 adj D f ->
    NoDup (map fst (D ++ U)) -> incl (map fst (D ++ U)) pixels -> sorted_desc (D ++ U) ->
    INV adj (D ++ U) (fold_left (step adj np) U f) /\ NP2 adj (D ++ U) (fold_left (step adj np) U f).
  Proof.
    induction U as [|pv U IH]; intros D f HJ HI HN Hnd Hinc Hs; cbn [fold_left].
    - rewrite app_nil_r. split; assumption.
    - replace (D ++ pv :: U) with ((D ++ [pv]) ++ U) in * by (rewrite <- app_assoc; reflexivity).
      assert (Hnd1 : NoDup (map fst (D ++ [pv]))) by (rewrite map_app in Hnd; eapply NoDup_app_l; exact Hnd).
      assert (Hinc1 : incl (map fst (D ++ [pv])) pixels).
      { intros x Hx. apply Hinc. rewrite map_app. apply in_or_app. left. exact Hx. }
      assert (Hlow : forall y vy, In (y, vy) D -> snd pv <= vy).
      { intros y vy Hy. rewrite <- app_assoc in Hs. cbn [app] in Hs. apply (sorted_desc_mid D pv U Hs (y, vy) Hy). }
      apply IH; try assumption.
      + apply (Jinv_step adj np pixels Hsym); assumption.
      + apply INV_step; assumption.
      + apply NP2_step; assumption.
  Qed.
End Run.

Section FinalNP.
  Variable adj : Z -> list Z.
  Variable order : list (Z * Z).
  Hypothesis Hnd : NoDup (map fst order).
  Hypothesis Hsorted : sorted_desc order.
  Hypothesis Hsym : forall a b, In a (map fst order) -> In b (map fst order) -> In b (adj a) -> In a (adj b).

  Let R := run adj np order.

  Lemma HJR : Jinv adj np order R.
  Proof. apply (run_Jinv adj np (map fst order)); [exact Hsym | exact Hnd | apply incl_refl | exact Hsorted]. Qed.

  Lemma HIR : INV adj order R /\ NP2 adj order R.
  Proof.
    unfold R, run. apply (NP_run adj (map fst order) Hsym order [] []); try assumption.
    - apply Jinv_init.
    - intros a [].
    - intros t z1 z2 [].
    - apply incl_refl.
  Qed.

  (* regional maximum, plateau-aware: the plateau (class of "adjacent, equal value") of a kept
     pixel has no kept neighbour of strictly higher value *)
  Definition regmax (a : Z * Z) : Prop := In a order /\ forall b, sim adj order a b -> ~ higher adj order b.

  Lemma nbr_adj a b : In a order -> In b order -> nbr adj a b -> In (fst b) (adj (fst a)).
  Proof.
    intros Ha Hb [H|H]; [exact H|]. apply Hsym; [apply in_map, Hb | apply in_map, Ha | exact H].
  Qed.

  (* a kept neighbour of a top pixel that is at least as high is itself a top pixel of the leaf *)
  Lemma leaf_top_closed t z b :
    In t (fnodes R) -> topof t z -> In b order -> nbr adj z b -> snd z <= snd b -> topof t b.
  Proof.
    intros Ht [Hl [Hz Ez]] Hb Hn Hle. pose proof HJR as HJ.
    assert (HzD : In z order) by (apply (town_in_D adj order R HJ t z Ht Hz)).
    pose proof (nbr_adj z b HzD Hb Hn) as Hadj.
    assert (Hzr : In (fst z) (region t)).
    { rewrite (leaf_region t Hl). unfold opix. apply in_map, Hz. }
    destruct (in_dec Z.eq_dec (fst b) (region t)) as [Hin|Hout].
    - rewrite (leaf_region t Hl) in Hin. unfold opix in Hin. apply in_map_iff in Hin. destruct Hin as [b' [E Hb']].
      assert (b' = b).
      { apply (nodup_fst_inj order b' b Hnd); [apply (town_in_D adj order R HJ t b' Ht Hb') | exact Hb | exact E]. }
      subst b'. split; [exact Hl|]. split; [exact Hb'|]. pose proof (vmax_ge t b Hb'). lia.
    - exfalso. destruct (fnodes_root_or_kid R t Ht) as [Hroot|[w Hw]].
      + (* a whole tree: the neighbour would belong to it *)
        assert (Hzf : In (fst z) (fregion R)) by (apply fregion_In; exists t; split; assumption).
        assert (Hbf : In (fst b) (fregion R)).
        { rewrite fpix_fpv. apply (Permutation_in _ (Permutation_sym (Permutation_map fst (J_perm _ _ _ _ HJ)))). apply in_map, Hb. }
        destruct (J_closed _ _ _ _ HJ (fst z) (fst b) Hzf Hbf Hadj) as [r [Hr [Hzr' Hbr]]].
        assert (r = t) by (apply (root_unique adj order R HJ Hnd r t (fst z) Hr Hroot Hzr' Hzr)).
        subst r. exact (Hout Hbr).
      + destruct (J_edges _ _ _ _ HJ _ Hw) as [_ [H2 _]]. cbn [fst snd] in H2.
        destruct b as [q vq]. cbn [fst snd] in *.
        pose proof (H2 (fst z) q vq Hzr Hb Hadj Hout) as Hc.
        pose proof (kid_leaf_gt adj order R HJ w t Hw Hl). lia.
  Qed.

  (* C05: the top pixels of a leaf are closed under the plateau relation and have no higher
     neighbour: they form a regional maximum ... *)
  Theorem leaf_top_regmax t z : In t (fnodes R) -> topof t z -> regmax z /\ forall b, sim adj order z b -> topof t b.
  Proof.
    intros Ht Hz. pose proof HJR as HJ.
    assert (Hcl : forall b, sim adj order z b -> topof t b).
    { intros b Hs. apply clos_rt_rtn1 in Hs. induction Hs as [|b c [Hb [Hc [Hn He]]] _ IH]; [exact Hz|].
      apply (leaf_top_closed t b c Ht IH Hc Hn). lia. }
    split; [|exact Hcl]. split; [destruct Hz as [_ [Hz _]]; apply (town_in_D adj order R HJ t z Ht Hz)|].
    intros b Hs [c [Hc [Hn Hlt]]]. pose proof (Hcl b Hs) as Hb.
    pose proof (leaf_top_closed t b c Ht Hb Hc Hn ltac:(lia)) as Hc'.
    destruct Hb as [_ [_ Eb]]. destruct Hc' as [_ [_ Ec]]. lia.
  Qed.

  (* ... exactly one plateau ... *)
  Theorem leaf_top_one_plateau t z1 z2 : In t (fnodes R) -> topof t z1 -> topof t z2 -> sim adj order z1 z2.
  Proof. apply (proj2 HIR). Qed.

  (* ... and it exists: every leaf has a top pixel (its peak) *)
  Theorem leaf_has_top t : In t (fnodes R) -> is_leaf t = true -> exists z, topof t z.
  Proof.
    intros Ht Hl. destruct (vmax_in adj order R HJR t Ht) as [z [Hz Ez]]. exists z. split; [exact Hl | split; assumption].
  Qed.

  Lemma asc_in_plateau a z : asc adj order a z -> (forall b, sim adj order a b -> ~ higher adj order b) -> sim adj order a z.
  Proof.
    induction 1 as [a Ha|a b c Ha Hb Hn Hle _ IH]; intros Hmax; [apply rt_refl|].
    assert (E : snd a = snd b).
    { destruct (Z.eq_dec (snd a) (snd b)) as [E|Hne]; [exact E|]. exfalso.
      apply (Hmax a (rt_refl _ _ a)). exists b. split; [exact Hb|]. split; [exact Hn | lia]. }
    assert (Hab : sim adj order a b) by (apply rt_step; repeat split; assumption).
    eapply rt_trans; [exact Hab|]. apply IH. intros b' Hb'. apply Hmax. eapply rt_trans; eassumption.
  Qed.

  (* C05: every pixel of a regional maximum is a top pixel of a leaf *)
  Theorem regmax_in_leaf a : regmax a -> exists t, In t (fnodes R) /\ topof t a.
  Proof.
    intros [Ha Hmax]. destruct (proj1 HIR a Ha) as [z [t [Hasc [Ht [Htop Hdisj]]]]].
    pose proof (asc_in_plateau a z Hasc Hmax) as Hs. pose proof (sim_val adj order a z Hs) as E.
    exists t. split; [exact Ht|]. destruct Hdisj as [Hown|Hlt]; [|lia].
    destruct Htop as [Hl [_ Ez]]. split; [exact Hl|]. split; [exact Hown | lia].
  Qed.

  (* the leaf is unique: structures own disjoint pixels *)
  Theorem regmax_leaf_unique a t1 t2 : In t1 (fnodes R) -> In t2 (fnodes R) -> topof t1 a -> topof t2 a -> t1 = t2.
  Proof.
    intros H1 H2 [_ [A1 _]] [_ [A2 _]]. apply (own_unique adj order R HJR Hnd t1 t2 a H1 H2 A1 A2).
  Qed.
End FinalNP.

(* ---- the criterion of compute without pruning parameters is the trivial one *)
Lemma indep_nil o ov : indep_of [] o ov = np o ov.
Proof. destruct ov; reflexivity. Qed.

Lemma mergeable_ext i1 i2 v t : (forall o ov, i1 o ov = i2 o ov) -> mergeable i1 v t = mergeable i2 v t.
Proof. intros H. unfold mergeable. rewrite H. reflexivity. Qed.

Lemma filter_ext' {A} (p q : A -> bool) l : (forall x, p x = q x) -> filter p l = filter q l.
Proof. intros H. induction l as [|x l IH]; [reflexivity|]. cbn [filter]. rewrite H, IH. reflexivity. Qed.

Lemma join_ext i1 i2 tch pv : (forall o ov, i1 o ov = i2 o ov) -> join i1 tch pv = join i2 tch pv.
Proof.
  intros H. unfold join. destruct tch as [|t [|t2 r]]; try reflexivity.
  rewrite (filter_ext' (mergeable i1 (snd pv)) (mergeable i2 (snd pv))) by (intros x; apply mergeable_ext, H).
  rewrite (filter_ext' (fun t0 => negb (mergeable i1 (snd pv) t0)) (fun t0 => negb (mergeable i2 (snd pv) t0)))
    by (intros x; rewrite (mergeable_ext i1 i2 _ _ H); reflexivity).
  reflexivity.
Qed.

Lemma run_ext adj i1 i2 order : (forall o ov, i1 o ov = i2 o ov) -> run adj i1 order = run adj i2 order.
Proof.
  intros H. unfold run. generalize (@nil tree). induction order as [|pv order IH]; intros f; [reflexivity|].
  cbn [fold_left]. unfold step at 2 4. rewrite (join_ext i1 i2 _ _ H). apply IH.
Qed.

(* non-vacuity: a plateau of two pixels, a single peak and a saddle in one row *)
Example regmax_example :
  let order := order_of (kept [Some 5; Some 5; Some 1; Some 7; Some 2; Some 3] None) in
  let adj := Grid.nbrs [6] [false] in
  map (fun t => (is_leaf t, town t)) (fnodes (run adj np order))
  = [(false, [(2, 1)]); (true, [(1, 5); (0, 5)]); (false, [(4, 2)]); (true, [(3, 7)]); (true, [(5, 3)])].
Proof. vm_compute. reflexivity. Qed.
