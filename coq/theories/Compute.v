(* Compute.v — executable model of Dendrogram.compute (dendrogram.py) on rose
   trees.  No proofs in this file (they are in ComputeInv.v and later files),
   so that the model still runs when a proof breaks.

   State while pixels are processed: the list of *current roots* (structures
   without a parent), each a complete tree.  The implementation's label map
   plus `structures[label].ancestor` answers "which root region contains this
   neighbour"; here the same question is answered by membership in the
   root's region.  A structure's identifier during the computation is the
   flat index of the pixel that created it (order-isomorphic to the
   implementation's idx = i + 1, the rank of that pixel among kept pixels in
   C order; only the order of identifiers is ever used). *)
From Coq Require Import ZArith List Bool Lia.
From Dendro Require Import Base Tree Grid Criteria.
Import ListNotations.
Open Scope Z_scope.

Section Compute.
  Variable adj : Z -> list Z.                              (* neighbours of a pixel *)
  Variable indep : list (Z * Z) -> option Z -> bool.       (* is_independent *)

  Definition touches (nb : list Z) (t : tree) : bool :=
    existsb (fun q => memZ q (region t)) nb.

  (* a leaf that is treated like the pixel under consideration *)
  Definition mergeable (v : Z) (t : tree) : bool :=
    is_leaf t && ((vmax t =? v) || negb (indep (town t) (Some v))).

  Definition dummy : tree := Node 0 [] [].

  (* what happens to the structures adjacent to pixel pv = (p, v);
     tch = adjacent roots sorted by identifier *)
  Definition join (tch : list tree) (pv : Z * Z) : tree :=
    match tch with
    | [] => Node (fst pv) [pv] []
    | [t] => Node (tid t) (town t ++ [pv]) (tkids t)
    | _ =>
        let mg := filter (mergeable (snd pv)) tch in
        let keep := filter (fun t => negb (mergeable (snd pv) t)) tch in
        match keep with
        | [] => let taker := last mg dummy in
                Node (tid taker)
                     (town taker ++ [pv] ++ flat_map town (removelast mg)) []
        | [k] => Node (tid k) (town k ++ [pv] ++ flat_map town mg) (tkids k)
        | _ => Node (fst pv) (pv :: flat_map town mg) keep
        end
    end.

  Definition step (roots : list tree) (pv : Z * Z) : list tree :=
    let nb := adj (fst pv) in
    let tch := sort_by tid (filter (touches nb) roots) in
    let rest := filter (fun t => negb (touches nb t)) roots in
    rest ++ [join tch pv].

  Definition run (order : list (Z * Z)) : list tree := fold_left step order [].

  (* _make_trunk: parentless structures sorted by identifier; parentless
     leaves failing the criteria (no meeting value) are dropped *)
  Definition make_trunk (roots : list tree) : list tree :=
    filter (fun t => negb (is_leaf t) || indep (town t) None) (sort_by tid roots).
End Compute.

(* identifiers reassigned 0..N-1 by smallest own pixel *)
Definition newid (all : list tree) (t : tree) : Z :=
  zlen (filter (fun u => small u <? small t) all).

Fixpoint relabel (all : list tree) (t : tree) : tree :=
  match t with Node _ o ks => Node (newid all t) o (map (relabel all) ks) end.

Definition relabel_forest (f : list tree) : list tree := map (relabel (fnodes f)) f.

(* threshold: data > min_value, NaN (None) never; minv = None is the default
   minimum, which lies below every number *)
Definition above (minv : option Z) (v : Z) : bool :=
  match minv with None => true | Some m => m <? v end.

Fixpoint kept_from (p : Z) (vals : list (option Z)) (minv : option Z) : list (Z * Z) :=
  match vals with
  | [] => []
  | ov :: r =>
      match ov with
      | Some v => if above minv v then (p, v) :: kept_from (p + 1) r minv
                  else kept_from (p + 1) r minv
      | None => kept_from (p + 1) r minv
      end
  end.
Definition kept (vals : list (option Z)) (minv : option Z) : list (Z * Z) :=
  kept_from 0 vals minv.

(* np.argsort(values, kind='stable')[::-1]: non-increasing values, ties in
   decreasing C-order index *)
Definition order_of (k : list (Z * Z)) : list (Z * Z) := rev (sort_by snd k).

Inductive adjspec : Type :=
| AdjGrid (per : list bool)              (* default (all false) or periodic axes *)
| AdjCustom (table : list (list Z)).     (* user function, tabulated *)

Definition adj_of (shape : list Z) (a : adjspec) : Z -> list Z :=
  match a with
  | AdjGrid per => nbrs shape per
  | AdjCustom tb => nbrs_custom tb
  end.

(* the whole of Dendrogram.compute: final forest in trunk order, final ids *)
Definition compute (shape : list Z) (a : adjspec) (vals : list (option Z))
           (minv : option Z) (cs : list crit) : list tree :=
  let indep := indep_of cs in
  (* the trunk list is left in the order of the final identifiers (fix F35) *)
  sort_by tid (relabel_forest (make_trunk indep (run (adj_of shape a) indep (order_of (kept vals minv))))).

(* observables compared with the implementation *)
Definition sview (f : list tree) : list (Z * (Z * (list Z * list Z))) :=
  let pt := parent_table f in
  map (fun t => (tid t, (match find (fun ip => fst ip =? tid t) pt with
                         | Some ip => snd ip | None => -2 end,
                         (map tid (tkids t), opix t)))) (fnodes f).

Definition compute_view (shape : list Z) (a : adjspec) (vals : list (option Z))
           (minv : option Z) (cs : list crit) :=
  let f := compute shape a vals minv cs in
  (map fst (order_of (kept vals minv)), (label_map (length vals) f, sview f)).
