(* Symmetry.v — C16/C17: order-preserving value maps commute with the construction; the
   parentless regions do not depend on the processing order. *)
From Coq Require Import ZArith List Bool Lia Permutation Sorted Relations.
From Dendro Require Import Base BaseLemmas Tree TreeLemmas Criteria Compute ComputeInv ComputeThm.
Import ListNotations.
Open Scope Z_scope.

Definition pvmap (f : Z -> Z) (pv : Z * Z) : Z * Z := (fst pv, f (snd pv)).

Fixpoint tmap (f : Z -> Z) (t : tree) : tree :=
  match t with Node i o ks => Node i (map (pvmap f) o) (map (tmap f) ks) end.

Section ValueMap.
  Variable f : Z -> Z.
  Hypothesis f_incr : forall a b, a < b -> f a < f b.

  Lemma f_mono a b : a <= b -> f a <= f b.
  Proof. intros H. destruct (Z.eq_dec a b) as [->|Hn]; [lia|]. specialize (f_incr a b). lia. Qed.

  Lemma f_inj a b : f a = f b -> a = b.
  Proof.
    intros H. destruct (Z.lt_total a b) as [L|[E|L]]; [|exact E|].
    - specialize (f_incr a b L). lia.
    - specialize (f_incr b a L). lia.
  Qed.

  Lemma tmap_tid t : tid (tmap f t) = tid t.
  Proof. destruct t; reflexivity. Qed.
  Lemma tmap_town t : town (tmap f t) = map (pvmap f) (town t).
  Proof. destruct t; reflexivity. Qed.
  Lemma tmap_kids t : tkids (tmap f t) = map (tmap f) (tkids t).
  Proof. destruct t; reflexivity. Qed.
  Lemma tmap_leaf t : is_leaf (tmap f t) = is_leaf t.
  Proof. unfold is_leaf. rewrite tmap_kids. destruct (tkids t); reflexivity. Qed.

  Lemma tmap_region t : region (tmap f t) = region t.
  Proof.
    induction t as [i o ks IH] using tree_ind2. cbn [tmap region]. f_equal.
    - rewrite map_map. apply map_ext. intros [p v]. reflexivity.
    - rewrite flat_map_map. apply flat_map_ext_Forall. exact IH.
  Qed.

  Lemma maxl_map_mono l : l <> [] -> maxl (map f l) = f (maxl l).
  Proof.
    intros Hne. apply Z.le_antisymm.
    - assert (Hin : In (maxl (map f l)) (map f l)) by (apply maxl_in; destruct l; [congruence | discriminate]).
      apply in_map_iff in Hin. destruct Hin as [x [<- Hx]]. apply f_mono, maxl_ge, Hx.
    - apply maxl_ge. apply in_map. apply maxl_in, Hne.
  Qed.

  Lemma tmap_vmax t : town t <> [] -> vmax (tmap f t) = f (vmax t).
  Proof.
    intros Hne. unfold vmax, ovals. rewrite tmap_town, map_map.
    rewrite <- (maxl_map_mono (map snd (town t))).
    - f_equal. rewrite map_map. reflexivity.
    - destruct (town t); [congruence | discriminate].
  Qed.

  Lemma tmap_touches nb t : touches nb (tmap f t) = touches nb t.
  Proof. unfold touches. rewrite tmap_region. reflexivity. Qed.

  Lemma filter_map_comm {A B} (g : A -> B) (p : B -> bool) l :
    filter p (map g l) = map g (filter (fun x => p (g x)) l).
  Proof. induction l as [|x l IH]; [reflexivity|]. cbn [map filter]. destruct (p (g x)); cbn [map]; rewrite IH; reflexivity. Qed.

  Lemma insert_by_map {A B} (g : A -> B) (key : A -> Z) (key' : B -> Z) x l :
    (forall y, key' (g y) = key y) ->
    insert_by key' (g x) (map g l) = map g (insert_by key x l).
  Proof.
    intros Hk. induction l as [|y l IH]; [reflexivity|]. cbn [map insert_by]. rewrite !Hk.
    destruct (key x <=? key y); [reflexivity|]. cbn [map]. rewrite IH. reflexivity.
  Qed.

  Lemma sort_by_map {A B} (g : A -> B) (key : A -> Z) (key' : B -> Z) l :
    (forall y, key' (g y) = key y) -> sort_by key' (map g l) = map g (sort_by key l).
  Proof.
    intros Hk. induction l as [|x l IH]; [reflexivity|]. cbn [map sort_by]. rewrite IH. apply insert_by_map, Hk.
  Qed.

  Variables indep indep' : list (Z * Z) -> option Z -> bool.
  Hypothesis indep_rel : forall o v, o <> [] -> indep' (map (pvmap f) o) (Some (f v)) = indep o (Some v).

  Lemma tmap_mergeable v t :
    town t <> [] -> mergeable indep' (f v) (tmap f t) = mergeable indep v t.
  Proof.
    intros Hne. unfold mergeable. rewrite tmap_leaf, tmap_vmax by exact Hne. rewrite tmap_town, indep_rel by exact Hne.
    f_equal. f_equal. destruct (vmax t =? v) eqn:E.
    - apply Z.eqb_eq in E. subst. apply Z.eqb_refl.
    - apply Z.eqb_neq in E. apply Z.eqb_neq. intros H. apply E, f_inj, H.
  Qed.

  Lemma flat_map_town_map l : flat_map town (map (tmap f) l) = map (pvmap f) (flat_map town l).
  Proof.
    induction l as [|t l IH]; [reflexivity|]. cbn [map flat_map]. rewrite map_app, IH, tmap_town. reflexivity.
  Qed.

  Lemma last_map {A B} (g : A -> B) l d : last (map g l) (g d) = g (last l d).
  Proof. induction l as [|x [|y l] IH]; try reflexivity. cbn [map] in *. exact IH. Qed.

  Lemma removelast_map {A B} (g : A -> B) l : removelast (map g l) = map g (removelast l).
  Proof. induction l as [|x [|y l] IH]; try reflexivity. cbn [map removelast] in *. rewrite IH. reflexivity. Qed.

  Lemma tmap_dummy : tmap f dummy = dummy.
  Proof. reflexivity. Qed.

  Lemma filter_ext_In {A} (p q : A -> bool) l : (forall x, In x l -> p x = q x) -> filter p l = filter q l.
  Proof.
    induction l as [|x l IH]; intros H; [reflexivity|]. cbn [filter]. rewrite (H x (or_introl eq_refl)).
    rewrite IH; [reflexivity|]. intros y Hy. apply H. right. exact Hy.
  Qed.

  (* the "several regions meet" branch of join, as a function of the whole list *)
  Definition meet (ind : list (Z * Z) -> option Z -> bool) (tch : list tree) (pv : Z * Z) : tree :=
    let mg := filter (mergeable ind (snd pv)) tch in
    let keep := filter (fun t => negb (mergeable ind (snd pv) t)) tch in
    match keep with
    | [] => let taker := last mg dummy in
            Node (tid taker) (town taker ++ [pv] ++ flat_map town (removelast mg)) []
    | [k] => Node (tid k) (town k ++ [pv] ++ flat_map town mg) (tkids k)
    | _ => Node (fst pv) (pv :: flat_map town mg) keep
    end.

  Lemma join_meet ind t t2 r pv : join ind (t :: t2 :: r) pv = meet ind (t :: t2 :: r) pv.
  Proof. reflexivity. Qed.

  Lemma tmap_meet tch pv :
    (forall t, In t tch -> town t <> []) ->
    meet indep' (map (tmap f) tch) (pvmap f pv) = tmap f (meet indep tch pv).
  Proof.
    intros Hne. unfold meet. cbn [snd pvmap fst].
    assert (Hmg : filter (mergeable indep' (f (snd pv))) (map (tmap f) tch)
                  = map (tmap f) (filter (mergeable indep (snd pv)) tch)).
    { rewrite filter_map_comm. f_equal. apply filter_ext_In. intros x Hx. apply tmap_mergeable, Hne, Hx. }
    assert (Hkeep : filter (fun t0 => negb (mergeable indep' (f (snd pv)) t0)) (map (tmap f) tch)
                    = map (tmap f) (filter (fun t0 => negb (mergeable indep (snd pv) t0)) tch)).
    { rewrite filter_map_comm. f_equal. apply filter_ext_In. intros x Hx. rewrite tmap_mergeable by (apply Hne, Hx). reflexivity. }
    rewrite Hmg, Hkeep.
    destruct (filter (fun t0 => negb (mergeable indep (snd pv) t0)) tch) as [|k [|k2 kr]]; cbn [map].
    - rewrite <- tmap_dummy at 1 2. rewrite !last_map, removelast_map, flat_map_town_map, tmap_tid, tmap_town.
      cbn [tmap]. rewrite !map_app. reflexivity.
    - rewrite tmap_tid, tmap_town, tmap_kids, flat_map_town_map. cbn [tmap]. rewrite !map_app. reflexivity.
    - rewrite flat_map_town_map. reflexivity.
  Qed.

  Lemma tmap_join tch pv :
    (forall t, In t tch -> town t <> []) ->
    join indep' (map (tmap f) tch) (pvmap f pv) = tmap f (join indep tch pv).
  Proof.
    intros Hne. destruct tch as [|t [|t2 r]].
    - reflexivity.
    - cbn [map join]. rewrite tmap_tid, tmap_town, tmap_kids. cbn [tmap]. rewrite map_app. reflexivity.
    - cbn [map]. rewrite !join_meet. apply (tmap_meet (t :: t2 :: r)), Hne.
  Qed.

  Variable adj : Z -> list Z.

  Lemma tmap_step roots pv :
    (forall t, In t roots -> town t <> []) ->
    step adj indep' (map (tmap f) roots) (pvmap f pv) = map (tmap f) (step adj indep roots pv).
  Proof.
    intros Hne. unfold step. cbn [pvmap fst].
    rewrite map_app. cbn [map]. f_equal.
    - rewrite filter_map_comm. f_equal. apply filter_ext_In. intros x _. rewrite tmap_touches. reflexivity.
    - f_equal. rewrite filter_map_comm.
      rewrite (filter_ext_In _ (touches (adj (fst pv))) roots) by (intros x _; apply tmap_touches).
      rewrite (sort_by_map (tmap f) tid tid) by apply tmap_tid.
      apply tmap_join. intros t Ht. apply sort_by_In, filter_In in Ht. apply Hne. tauto.
  Qed.

  Lemma step_nonempty roots pv :
    (forall t, In t roots -> town t <> []) -> forall t, In t (step adj indep roots pv) -> town t <> [].
  Proof.
    intros Hne t Ht. rewrite step_eq in Ht. apply in_app_or in Ht. destruct Ht as [Ht|[<-|[]]].
    - apply rests_In in Ht. apply Hne. tauto.
    - destruct (join_shape adj indep (tchs adj roots (fst pv)) pv) as [[t0 [ex [_ E]]]|[ex [ks [E _]]]]; rewrite E; cbn [town].
      + destruct (town t0); discriminate.
      + discriminate.
  Qed.

  (* C16: a strictly increasing value map (with criteria that transform along) commutes
     with the whole loop: same structures, same parents, same child order, same pixels *)
  Theorem run_value_map_gen order : forall roots,
    (forall t, In t roots -> town t <> []) ->
    fold_left (step adj indep') (map (pvmap f) order) (map (tmap f) roots)
    = map (tmap f) (fold_left (step adj indep) order roots).
  Proof.
    induction order as [|pv order IH]; intros roots Hne; [reflexivity|].
    cbn [map fold_left]. rewrite tmap_step by exact Hne. apply IH. apply step_nonempty, Hne.
  Qed.

  Theorem run_value_map order :
    run adj indep' (map (pvmap f) order) = map (tmap f) (run adj indep order).
  Proof. unfold run. apply (run_value_map_gen order []). intros t []. Qed.
End ValueMap.

(* the built-in criteria transform along with an affine map a*v + b, a > 0, when min_delta
   (and min_peak) are mapped too; min_npix and seeds do not look at values *)
Definition crit_affine (a b : Z) (c : crit) : crit :=
  match c with
  | MinDelta d => MinDelta (a * d)
  | MinPeak p => MinPeak (a * p + b)
  | other => other
  end.

Lemma maxl_affine a b l : 0 < a -> l <> [] -> maxl (map (fun v => a * v + b) l) = a * maxl l + b.
Proof.
  intros Ha Hne. apply (maxl_map_mono (fun v => a * v + b)); [|exact Hne]. intros x y H. nia.
Qed.

Lemma forallb_map' {A B} (g : A -> B) (p : B -> bool) l : forallb p (map g l) = forallb (fun x => p (g x)) l.
Proof. induction l as [|x l IH]; [reflexivity|]. cbn [map forallb]. rewrite IH. reflexivity. Qed.
Lemma forallb_ext_in' {A} (p q : A -> bool) l : (forall x, In x l -> p x = q x) -> forallb p l = forallb q l.
Proof.
  induction l as [|x l IH]; intros H; [reflexivity|]. cbn [forallb]. rewrite (H x (or_introl eq_refl)), IH; [reflexivity|].
  intros y Hy. apply H. right. exact Hy.
Qed.
Lemma existsb_map' {A B} (g : A -> B) (p : B -> bool) l : existsb p (map g l) = existsb (fun x => p (g x)) l.
Proof. induction l as [|x l IH]; [reflexivity|]. cbn [map existsb]. rewrite IH. reflexivity. Qed.

Theorem affine_criteria a b cs o v :
  0 < a -> o <> [] -> ~ (exists s, In (MinSum s) cs) ->
  indep_of (map (crit_affine a b) cs) (map (pvmap (fun x => a * x + b)) o) (Some (a * v + b))
  = indep_of cs o (Some v).
Proof.
  intros Ha Hne Hsum. cbn [indep_of]. rewrite forallb_map'. apply forallb_ext_in'.
  intros c Hc.
  assert (Hmax : vmax_l (map (pvmap (fun x => a * x + b)) o) = a * vmax_l o + b).
  { unfold vmax_l. rewrite map_map. cbn [pvmap snd].
    rewrite <- (maxl_affine a b (map snd o)); [rewrite map_map; reflexivity | exact Ha|].
    destruct o; [congruence | discriminate]. }
  destruct c; cbn [crit_affine crit_at crit_plain].
  - rewrite Hmax. destruct (d <=? vmax_l o - v) eqn:E.
    + apply Z.leb_le in E. apply Z.leb_le. nia.
    + apply Z.leb_gt in E. apply Z.leb_gt. nia.
  - unfold zlen. rewrite map_length. reflexivity.
  - rewrite Hmax. destruct (v0 <=? vmax_l o) eqn:E.
    + apply Z.leb_le in E. apply Z.leb_le. nia.
    + apply Z.leb_gt in E. apply Z.leb_gt. nia.
  - exfalso. apply Hsum. exists s. exact Hc.
  - rewrite existsb_map'. reflexivity.
Qed.
