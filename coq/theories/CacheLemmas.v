(* CacheLemmas.v — C14: with the repaired prune every observation at every point of every
   history equals the observation on a freshly built dendrogram; the legacy prune does not. *)
From Coq Require Import ZArith List Bool Lia.
From Dendro Require Import Base BaseLemmas Tree Criteria Index Prune Cache.
Import ListNotations.
Open Scope Z_scope.

(* every cached value is the fresh value for the current forest *)
Definition rec_ok (f : list tree) (i : Z) (r : crec) : Prop :=
  (forall v, c_level r = Some v -> v = f_level f i) /\
  (forall v, c_desc r = Some v -> v = f_desc f i) /\
  (forall v, c_npix r = Some v -> v = f_npix f i) /\
  (forall v, c_peak r = Some v -> v = f_peak f i).

Definition inv (st : state) : Prop := forall i, rec_ok (st_forest st) i (get (st_store st) i).

Lemma empty_ok f i : rec_ok f i empty_rec.
Proof. repeat split; intros v H; discriminate. Qed.

Lemma get_put s i r j : get (put s i r) j = if i =? j then r else get s j.
Proof. reflexivity. Qed.

Lemma inv_put f s i r :
  (forall j, rec_ok f j (get s j)) -> rec_ok f i r -> forall j, rec_ok f j (get (put s i r) j).
Proof.
  intros H Hr j. rewrite get_put. destruct (i =? j) eqn:E; [apply Z.eqb_eq in E; subst; exact Hr | apply H].
Qed.

Lemma fill_peaks_inv f s i :
  (forall j, rec_ok f j (get s j)) -> forall j, rec_ok f j (get (fill_peaks f s i) j).
Proof.
  intros H. unfold fill_peaks. destruct (lookup f i) as [t|]; [|exact H].
  generalize (nodes t). intros l. revert s H. induction l as [|u l IH]; intros s H; cbn [fold_left]; [exact H|].
  apply IH. apply inv_put; [exact H|].
  destruct (H (tid u)) as [H1 [H2 [H3 _]]]. repeat split; cbn; try assumption.
  intros v Hv. injection Hv as <-. reflexivity.
Qed.

Lemma fill_peaks_self f s i t :
  lookup f i = Some t -> tid t = i ->
  (forall j, rec_ok f j (get s j)) ->
  forall v, c_peak (get (fill_peaks f s i) i) = Some v -> v = f_peak f i.
Proof. intros _ _ H v Hv. apply (fill_peaks_inv f s i H i). exact Hv. Qed.

Lemma reset_all_inv f s ids : (forall i, In i ids \/ rec_ok f i (get s i)) -> forall j, rec_ok f j (get (reset_ids s ids) j).
Proof.
  unfold reset_ids. revert s. induction ids as [|i ids IH]; intros s H; cbn [fold_left].
  - intros j. destruct (H j) as [[]|Hj]. exact Hj.
  - apply IH. intros j. rewrite get_put. destruct (i =? j) eqn:E.
    + right. apply empty_ok.
    + destruct (H j) as [[Hj|Hj]|Hj]; [apply Z.eqb_neq in E; congruence | left; exact Hj | right; exact Hj].
Qed.

(* one step: the observation is the fresh one and the invariant is kept (repaired code).
   The store may keep records of removed structures; they are harmless only if such ids are
   not queried - histories query ids of the current forest. *)
Definition op_ok (f : list tree) (o : op) : Prop :=
  match o with
  | QLevel i | QDesc i | QNpix i | QPeak i => In i (map tid (fnodes f))
  | OPrune _ => True
  end.

(* stronger invariant: records exist only meaningfully for current ids *)
Definition inv' (st : state) : Prop :=
  forall i, In i (map tid (fnodes (st_forest st))) -> rec_ok (st_forest st) i (get (st_store st) i).

Lemma reset_current (s : store) ids :
  forall j, In j ids -> get (reset_ids s ids) j = empty_rec.
Proof.
  unfold reset_ids. revert s. induction ids as [|i ids IH]; intros s j Hj; [destruct Hj|].
  cbn [fold_left]. destruct (in_dec Z.eq_dec j ids) as [Hin|Hnin].
  - apply IH, Hin.
  - destruct Hj as [->|Hj]; [|contradiction].
    assert (Hkeep : forall ids' s', ~ In j ids' -> get (fold_left (fun acc i0 => put acc i0 empty_rec) ids' s') j = get s' j).
    { induction ids' as [|a ids' IH']; intros s' Hn; cbn [fold_left]; [reflexivity|].
      rewrite IH' by (intros H; apply Hn; right; exact H). rewrite get_put.
      destruct (a =? j) eqn:E; [apply Z.eqb_eq in E; exfalso; apply Hn; left; exact E | reflexivity]. }
    rewrite Hkeep by exact Hnin. rewrite get_put, Z.eqb_refl. reflexivity.
Qed.

Theorem step_fresh st o :
  inv' st -> op_ok (st_forest st) o ->
  snd (step false st o) = fresh_obs (st_forest st) o /\ inv' (fst (step false st o)).
Proof.
  intros Hinv Hok. destruct st as [f s]. cbn [st_forest st_store] in *. unfold inv' in *. cbn [st_forest st_store] in *.
  destruct o as [i|i|i|i|cs]; cbn [step fresh_obs op_ok st_forest st_store] in *.
  - destruct (Hinv i Hok) as [H1 _]. destruct (c_level (get s i)) as [v|] eqn:E; cbn [fst snd st_forest st_store].
    + split; [rewrite (H1 v eq_refl); reflexivity | exact Hinv].
    + split; [reflexivity|]. intros j Hj. rewrite get_put. destruct (i =? j) eqn:Eij; [|apply Hinv, Hj].
      apply Z.eqb_eq in Eij. subst j. destruct (Hinv i Hok) as [_ [H2 [H3 H4]]].
      repeat split; cbn; try assumption. intros v Hv. injection Hv as <-. reflexivity.
  - destruct (Hinv i Hok) as [_ [H2 _]]. destruct (c_desc (get s i)) as [v|] eqn:E; cbn [fst snd st_forest st_store].
    + split; [rewrite (H2 v eq_refl); reflexivity | exact Hinv].
    + split; [reflexivity|]. intros j Hj. rewrite get_put. destruct (i =? j) eqn:Eij; [|apply Hinv, Hj].
      apply Z.eqb_eq in Eij. subst j. destruct (Hinv i Hok) as [H1 [_ [H3 H4]]].
      repeat split; cbn; try assumption. intros v Hv. injection Hv as <-. reflexivity.
  - destruct (Hinv i Hok) as [_ [_ [H3 _]]]. destruct (c_npix (get s i)) as [v|] eqn:E; cbn [fst snd st_forest st_store].
    + split; [rewrite (H3 v eq_refl); reflexivity | exact Hinv].
    + split; [reflexivity|]. intros j Hj. rewrite get_put. destruct (i =? j) eqn:Eij; [|apply Hinv, Hj].
      apply Z.eqb_eq in Eij. subst j. destruct (Hinv i Hok) as [H1 [H2 [_ H4]]].
      repeat split; cbn; try assumption. intros v Hv. injection Hv as <-. reflexivity.
  - destruct (Hinv i Hok) as [_ [_ [_ H4]]]. destruct (c_peak (get s i)) as [v|] eqn:E; cbn [fst snd st_forest st_store].
    + split; [rewrite (H4 v eq_refl); reflexivity | exact Hinv].
    + split; [reflexivity|]. intros j Hj.
      (* fill_peaks only writes fresh peak values and keeps the other fields *)
      unfold fill_peaks. destruct (lookup f i) as [t|]; [|apply Hinv, Hj].
      assert (Hgen : forall l s0, (forall k, In k (map tid (fnodes f)) -> rec_ok f k (get s0 k)) ->
                forall k, In k (map tid (fnodes f)) ->
                rec_ok f k (get (fold_left (fun acc u =>
                   let r := get acc (tid u) in
                   put acc (tid u) {| c_level := c_level r; c_desc := c_desc r; c_npix := c_npix r;
                                      c_peak := Some (f_peak f (tid u)) |}) l s0) k)).
      { induction l as [|u l IHl]; intros s0 H0 k Hk; cbn [fold_left]; [apply H0, Hk|].
        apply IHl; [|exact Hk]. intros k' Hk'. rewrite get_put. destruct (tid u =? k') eqn:Eu; [|apply H0, Hk'].
        apply Z.eqb_eq in Eu. subst k'. destruct (H0 (tid u) Hk') as [G1 [G2 [G3 _]]].
        repeat split; cbn; try assumption. intros v Hv. injection Hv as <-. reflexivity. }
      apply Hgen; assumption.
  - cbn [fst snd st_forest st_store]. split; [reflexivity|]. intros j Hj.
    rewrite reset_current by exact Hj. apply empty_ok.
Qed.

(* histories: every operation queries an id of the forest current at that point *)
Fixpoint ops_ok (f : list tree) (ops : list op) : Prop :=
  match ops with
  | [] => True
  | o :: r => op_ok f o /\ ops_ok (match o with OPrune cs => prune_struct cs f | _ => f end) r
  end.

Lemma step_forest st o :
  st_forest (fst (step false st o)) = match o with OPrune cs => prune_struct cs (st_forest st) | _ => st_forest st end.
Proof.
  destruct st as [f s]. destruct o as [i|i|i|i|cs]; cbn [step st_forest st_store fst].
  - destruct (c_level (get s i)); reflexivity.
  - destruct (c_desc (get s i)); reflexivity.
  - destruct (c_npix (get s i)); reflexivity.
  - destruct (c_peak (get s i)); reflexivity.
  - reflexivity.
Qed.

(* C14: at every point of every history, every observation equals what a freshly constructed
   dendrogram with the current structures reports *)
Theorem history_fresh ops : forall st,
  inv' st -> ops_ok (st_forest st) ops -> run_ops false st ops = run_fresh (st_forest st) ops.
Proof.
  induction ops as [|o ops IH]; intros st Hinv Hok; [reflexivity|].
  cbn [run_ops run_fresh]. destruct Hok as [Ho Hr].
  destruct (step_fresh st o Hinv Ho) as [Hobs Hinv'].
  destruct (step false st o) as [st' ob] eqn:E. cbn [fst snd] in *. subst ob. f_equal.
  assert (Hf : st_forest st' = match o with OPrune cs => prune_struct cs (st_forest st) | _ => st_forest st end).
  { pose proof (step_forest st o) as H. rewrite E in H. exact H. }
  rewrite <- Hf. apply IH; [exact Hinv' | rewrite Hf; exact Hr].
Qed.

Theorem history_fresh_from_compute f ops :
  ops_ok f ops -> run_ops false {| st_forest := f; st_store := [] |} ops = run_fresh f ops.
Proof. intros H. apply history_fresh; [|exact H]. intros i _. apply empty_ok. Qed.

(* the legacy prune (reset only structures that received pixels) is refuted: descendants of
   an ancestor read before the prune are stale afterwards *)
Theorem legacy_stale_descendants :
  let f := [Node 0 [(4, 1)] [Node 1 [(0, 9)] [];
                             Node 2 [(3, 2)] [Node 3 [(2, 8)] []; Node 4 [(5, 7)] []; Node 5 [(7, 6)] []]]] in
  let ops := [QDesc 0; OPrune [MinDelta 0; MinNpix 0 1; MinPeak 8]; QDesc 0] in
  ops_ok f ops /\ run_ops true {| st_forest := f; st_store := [] |} ops <> run_fresh f ops /\
  run_ops false {| st_forest := f; st_store := [] |} ops = run_fresh f ops.
Proof.
  cbn zeta. split; [|split].
  - vm_compute. tauto.
  - vm_compute. discriminate.
  - vm_compute. reflexivity.
Qed.

(* the label map is a function of the forest: a label is -1 or the identifier of a structure of
   the forest that owns the pixel *)
Lemma owner_names_existing f p :
  owner f p = -1 \/ exists t, In t (fnodes f) /\ owner f p = tid t /\ In p (opix t).
Proof.
  unfold owner.
  destruct (find (fun t => memZ p (opix t)) (fnodes f)) as [t|] eqn:E; [right | left; reflexivity].
  apply find_some in E. destruct E as [Hin Hm]. exists t. repeat split; [exact Hin |].
  apply BaseLemmas.memZ_In. exact Hm.
Qed.
