(* ViewerLemmas.v — C19: after any sequence of events every slot shows exactly the artifacts
   of its current selection. *)
From Coq Require Import ZArith List Bool Lia.
From Dendro Require Import Base Tree Viewer.
Import ListNotations.
Open Scope Z_scope.

Section L.
  Variable f : list tree.
  Variable views : list Z.
  Notation select := (select f views).
  Notation step := (step f views).
  Notation shown := (shown f).

  Lemma aget_aset_same {A} (l : list (Z * A)) k v d : aget (aset l k v) k d = v.
  Proof. unfold aset. cbn [aget]. rewrite Z.eqb_refl. reflexivity. Qed.

  Lemma aget_filter_other {A} (l : list (Z * A)) k j d :
    j <> k -> aget (filter (fun e => negb (fst e =? k)) l) j d = aget l j d.
  Proof.
    intros Hne. induction l as [|[i v] l IH]; [reflexivity|]. cbn [filter fst].
    destruct (i =? k) eqn:E; cbn [negb].
    - apply Z.eqb_eq in E. subst i. cbn [aget]. replace (k =? j) with false by (symmetry; apply Z.eqb_neq; congruence). exact IH.
    - cbn [aget]. destruct (i =? j); [reflexivity | exact IH].
  Qed.

  Lemma aget_aset_other {A} (l : list (Z * A)) k j v d : j <> k -> aget (aset l k v) j d = aget l j d.
  Proof.
    intros Hne. unfold aset. cbn [aget]. replace (k =? j) with false by (symmetry; apply Z.eqb_neq; congruence).
    apply aget_filter_other, Hne.
  Qed.

  (* the slots that have an artifact record *)
  Definition slots (st : vstate) : list Z := map fst (v_art st).

  Lemma aget_map_art (g : Z * artifacts -> artifacts) l j d :
    In j (map fst l) -> aget (map (fun e => (fst e, g e)) l) j d = g (j, aget l j d).
  Proof.
    induction l as [|[i a] l IH]; intros Hin; [destruct Hin|]. cbn [map aget fst].
    destruct (i =? j) eqn:E; [apply Z.eqb_eq in E; subst; reflexivity|].
    destruct Hin as [Hi|Hin]; [cbn in Hi; apply Z.eqb_neq in E; congruence | apply IH, Hin].
  Qed.

  Lemma aget_update_contours sel k art j :
    In j (map fst art) ->
    aget (update_contours sel k art) j no_artifacts =
    let a := aget art j no_artifacts in
    {| a_lines := a_lines a;
       a_contour := match aget sel j None with Some s => Some (contour_for s k) | None => None end;
       a_label := a_label a; a_scatter := a_scatter a |}.
  Proof.
    unfold update_contours. induction art as [|[i a] l IH]; intros Hin; [destruct Hin|]. cbn [map aget fst snd].
    destruct (i =? j) eqn:E; [apply Z.eqb_eq in E; subst; reflexivity|].
    destruct Hin as [Hi|Hin]; [cbn in Hi; apply Z.eqb_neq in E; congruence | apply IH, Hin].
  Qed.

  (* the invariant: every slot shows what its selection calls for *)
  Definition consistent (st : vstate) : Prop :=
    forall j, In j (slots st) -> aget (v_art st) j no_artifacts = shown (aget (v_sel st) j None) (v_slice st).

  Lemma slots_aset st slot a : In slot (slots st) -> forall j, In j (map fst (aset (v_art st) slot a)) <-> In j (slots st).
  Proof.
    intros Hs j. unfold aset, slots. cbn [map fst]. split.
    - intros [<-|H]; [exact Hs|]. apply in_map_iff in H. destruct H as [e [<- He]]. apply filter_In in He. apply in_map. tauto.
    - intros H. destruct (Z.eq_dec j slot) as [->|Hne]; [left; reflexivity|]. right.
      apply in_map_iff in H. destruct H as [e [<- He]]. apply in_map_iff. exists e. split; [reflexivity|].
      apply filter_In. split; [exact He|]. apply negb_true_iff, Z.eqb_neq. exact Hne.
  Qed.

  Lemma update_contours_slots sel k art : map fst (update_contours sel k art) = map fst art.
  Proof. unfold update_contours. rewrite map_map. reflexivity. Qed.

  Theorem select_consistent st slot os :
    In slot (slots st) -> consistent st -> consistent (select st slot os).
  Proof.
    intros Hslot Hc j Hj. unfold Viewer.select in *. cbn [v_art v_sel v_slice] in *.
    unfold slots in Hj. cbn [v_art] in Hj. rewrite update_contours_slots in Hj.
    pose proof (proj1 (slots_aset st slot _ Hslot j) Hj) as Hj0.
    rewrite aget_update_contours by exact Hj. cbn zeta.
    destruct (Z.eq_dec j slot) as [->|Hne].
    - rewrite !aget_aset_same. destruct os as [s|]; reflexivity.
    - rewrite !aget_aset_other by exact Hne. rewrite (Hc j Hj0).
      destruct (aget (v_sel st) j None) as [s|]; reflexivity.
  Qed.

  Theorem set_slice_consistent st k : consistent st -> consistent (set_slice st k).
  Proof.
    intros Hc j Hj. unfold set_slice in *. cbn [v_art v_sel v_slice] in *.
    unfold slots in Hj. cbn [v_art] in Hj. rewrite update_contours_slots in Hj.
    rewrite aget_update_contours by exact Hj. cbn zeta. rewrite (Hc j Hj).
    destruct (aget (v_sel st) j None) as [s|]; reflexivity.
  Qed.

  Lemma select_slots st slot os : In slot (slots st) -> forall j, In j (slots (select st slot os)) <-> In j (slots st).
  Proof.
    intros Hs j. unfold slots, Viewer.select. cbn [v_art]. rewrite update_contours_slots. apply slots_aset, Hs.
  Qed.

  Definition event_slot_ok (st : vstate) (e : event) : Prop :=
    match e with
    | Click slot _ | PickLine slot _ _ | Lasso slot _ => In slot (slots st)
    | SetSlice _ => True
    end.

  Lemma set_slice_slots st k j : In j (slots (set_slice st k)) <-> In j (slots st).
  Proof. unfold slots, set_slice. cbn [v_art]. rewrite update_contours_slots. reflexivity. Qed.

  Theorem step_consistent st e :
    event_slot_ok st e -> consistent st -> consistent (step st e) /\ (forall j, In j (slots (step st e)) <-> In j (slots st)).
  Proof.
    intros Hok Hc. destruct e as [slot [i|]|slot i [k|]|slot [|r rows]|k]; cbn [Viewer.step event_slot_ok] in *.
    - split; [apply select_consistent | apply select_slots]; assumption.
    - split; [apply select_consistent | apply select_slots]; assumption.
    - assert (Hs : In slot (slots (set_slice st k))) by (apply set_slice_slots; exact Hok).
      split; [apply select_consistent; [exact Hs | apply set_slice_consistent, Hc]|].
      intros j. rewrite (select_slots _ _ _ Hs j). apply set_slice_slots.
    - split; [apply select_consistent | apply select_slots]; assumption.
    - split; [apply select_consistent | apply select_slots]; assumption.
    - split; [apply select_consistent | apply select_slots]; assumption.
    - split; [apply set_slice_consistent, Hc | apply set_slice_slots].
  Qed.

  Definition events_ok (es : list event) : Prop :=
    forall e, In e es -> match e with Click s _ | PickLine s _ _ | Lasso s _ => s = 1 \/ s = 2 \/ s = 3 | SetSlice _ => True end.

  (* C19: for every sequence of selections across the three slots and slice changes, each
     slot shows exactly the lines, contour, label and scatter rows of its own selection *)
  Theorem run_consistent slice es :
    events_ok es ->
    consistent (run f views slice es) /\ forall j, In j (slots (run f views slice es)) <-> In j [1; 2; 3].
  Proof.
    intros Hok. unfold run.
    assert (Hgen : forall es st, (forall e, In e es -> match e with Click s _ | PickLine s _ _ | Lasso s _ => s = 1 \/ s = 2 \/ s = 3 | SetSlice _ => True end) ->
                   consistent st -> (forall j, In j (slots st) <-> In j [1; 2; 3]) ->
                   consistent (fold_left step es st) /\ (forall j, In j (slots (fold_left step es st)) <-> In j [1; 2; 3])).
    { clear. induction es as [|e es IH]; intros st Hes Hc Hs; cbn [fold_left]; [split; assumption|].
      assert (Hok : event_slot_ok st e).
      { specialize (Hes e (or_introl eq_refl)). destruct e as [s ?|s ? ?|s ?|?]; cbn; try exact I; apply Hs; cbn; intuition lia. }
      destruct (step_consistent st e Hok Hc) as [Hc' Hs'].
      apply IH; [intros e' He'; apply Hes; right; exact He' | exact Hc'|].
      intros j. rewrite Hs'. apply Hs. }
    apply Hgen; [exact Hok | | intros j; reflexivity].
    intros j Hj. cbn in Hj. destruct Hj as [<-|[<-|[<-|[]]]]; reflexivity.
  Qed.

  (* every registered view is notified exactly once per selection change *)
  Theorem select_notifies_each_view_once st slot os :
    v_notified (select st slot os) = map (fun v => (v, slot)) views ++ v_notified st.
  Proof. reflexivity. Qed.

  (* a click selects the structure owning the clicked pixel of the displayed slice, or clears *)
  Theorem click_target_spec labels ny nx slice iy ix i :
    click_target labels ny nx slice iy ix = Some i ->
    0 <= iy < ny /\ 0 <= ix < nx /\ 0 <= i /\
    i = nth (Z.to_nat (match slice with Some k => (k * ny + iy) * nx + ix | None => iy * nx + ix end)) labels (-1).
  Proof.
    unfold click_target. intros H.
    destruct ((0 <=? iy) && (iy <? ny) && (0 <=? ix) && (ix <? nx) &&
              (0 <=? nth (Z.to_nat (match slice with Some k => (k * ny + iy) * nx + ix | None => iy * nx + ix end)) labels (-1))) eqn:E; [|discriminate].
    injection H as <-. rewrite !andb_true_iff in E. destruct E as [[[[E1 E2] E3] E4] E5].
    apply Z.leb_le in E1, E3, E5. apply Z.ltb_lt in E2, E4. repeat split; try lia.
  Qed.
End L.
