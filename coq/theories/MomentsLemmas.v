(* MomentsLemmas.v — C10: the moments are the mathematical moments. *)
From Coq Require Import ZArith List Bool QArith Lia.
From Dendro Require Import Moments.
Import ListNotations.
Open Scope Q_scope.

Lemma qsum_nil : qsum [] = 0.
Proof. reflexivity. Qed.
Lemma qsum_cons x l : qsum (x :: l) = x + qsum l.
Proof. reflexivity. Qed.

Lemma qsum_ext {A} (f g : A -> Q) l : (forall x, In x l -> f x == g x) -> qsum (map f l) == qsum (map g l).
Proof.
  induction l as [|x l IH]; intros H; cbn [map]; [reflexivity|]. rewrite !qsum_cons.
  rewrite (H x (or_introl eq_refl)). rewrite IH; [reflexivity|]. intros y Hy. apply H. right. exact Hy.
Qed.

Lemma qsum_scale {A} (c : Q) (f : A -> Q) l : qsum (map (fun x => c * f x) l) == c * qsum (map f l).
Proof.
  induction l as [|x l IH]; cbn [map]; [rewrite !qsum_nil; ring|]. rewrite !qsum_cons, IH. ring.
Qed.

Lemma qsum_plus {A} (f g : A -> Q) l : qsum (map (fun x => f x + g x) l) == qsum (map f l) + qsum (map g l).
Proof.
  induction l as [|x l IH]; cbn [map]; [rewrite !qsum_nil; ring|]. rewrite !qsum_cons, IH. ring.
Qed.

Lemma qsum_app l1 l2 : qsum (l1 ++ l2) == qsum l1 + qsum l2.
Proof. induction l1 as [|x l1 IH]; cbn [app]; [rewrite qsum_nil; ring|]. rewrite !qsum_cons, IH. ring. Qed.

(* the second moment is a symmetric matrix *)
Theorem mom2_sym ps i j : mom2 ps i j == mom2 ps j i.
Proof. unfold mom2. apply qsum_ext. intros p _. ring. Qed.

(* a NaN value carries zero weight: it contributes exactly like the value 0 *)
Theorem nan_is_zero_weight x : wt {| px := x; pw := None |} = wt {| px := x; pw := Some 0 |}.
Proof. reflexivity. Qed.

Theorem mom0_nan ps x : mom0 (ps ++ [{| px := x; pw := None |}]) == mom0 ps.
Proof. unfold mom0. rewrite map_app, qsum_app. cbn [map]. rewrite qsum_cons, qsum_nil. cbn [wt pw]. ring. Qed.

(* mom0 is the sum, mom1 the weighted mean, mom2 the weighted covariance: by definition;
   the form used in textbooks (E[xy] - E[x]E[y]) agrees *)
Theorem mom2_alt ps i j :
  ~ mom0 ps == 0 ->
  mom2 ps i j == qsum (map (fun p => wt p * coord i p * coord j p) ps) / mom0 ps - mom1 ps i * mom1 ps j.
Proof.
  intros H0. unfold mom2.
  set (m := mom0 ps) in *. set (a := mom1 ps i). set (b := mom1 ps j).
  assert (E : forall p, (wt p / m) * (coord i p - a) * (coord j p - b)
                 == (1 / m) * (wt p * coord i p * coord j p) + (- b / m) * (coord i p * wt p)
                    + (- a / m) * (coord j p * wt p) + (a * b / m) * wt p).
  { intros p. field. exact H0. }
  rewrite (qsum_ext _ _ ps (fun p _ => E p)).
  rewrite !qsum_plus, !qsum_scale.
  assert (Ha : qsum (map (fun p => coord i p * wt p) ps) == a * m) by (unfold a, mom1; fold m; field; exact H0).
  assert (Hb : qsum (map (fun p => coord j p * wt p) ps) == b * m) by (unfold b, mom1; fold m; field; exact H0).
  rewrite Ha, Hb. fold (mom0 ps). fold m. field. exact H0.
Qed.

(* ---- translation: shift every position by t *)
Definition shift (t : list Q) (p : pt) : pt :=
  {| px := map (fun ab => fst ab + snd ab) (combine (px p) t); pw := pw p |}.

Lemma wt_shift t p : wt (shift t p) = wt p.
Proof. reflexivity. Qed.

Lemma mom0_shift t ps : mom0 (map (shift t) ps) == mom0 ps.
Proof. unfold mom0. rewrite map_map. apply qsum_ext. intros p _. reflexivity. Qed.

(* all points have nd coordinates and so has t *)
Definition dims_ok (nd : nat) (t : list Q) (ps : list pt) : Prop :=
  length t = nd /\ forall p, In p ps -> length (px p) = nd.

Lemma coord_shift nd t ps p i :
  dims_ok nd t ps -> In p ps -> (i < nd)%nat -> coord i (shift t p) == coord i p + nth i t 0.
Proof.
  intros [Ht Hp] Hin Hi. unfold coord, shift. cbn [px].
  specialize (Hp p Hin).
  assert (Hn : nth i (map (fun ab => fst ab + snd ab) (combine (px p) t)) 0
               = (fun ab => fst ab + snd ab) (nth i (combine (px p) t) (0, 0))).
  { rewrite <- (map_nth (fun ab => fst ab + snd ab)). cbn. reflexivity. }
  rewrite Hn. rewrite combine_nth by congruence. cbn. reflexivity.
Qed.

(* the first moment moves with the translation ... *)
Theorem mom1_translate nd t ps i :
  dims_ok nd t ps -> (i < nd)%nat -> ~ mom0 ps == 0 ->
  mom1 (map (shift t) ps) i == mom1 ps i + nth i t 0.
Proof.
  intros Hd Hi H0. unfold mom1. rewrite mom0_shift. rewrite map_map.
  rewrite (qsum_ext _ (fun p => coord i p * wt p + nth i t 0 * wt p) ps).
  - rewrite qsum_plus, qsum_scale. fold (mom0 ps). field. exact H0.
  - intros p Hp. rewrite wt_shift, (coord_shift nd t ps p i Hd Hp Hi). ring.
Qed.

(* ... and the second moments do not change *)
Theorem mom2_translate nd t ps i j :
  dims_ok nd t ps -> (i < nd)%nat -> (j < nd)%nat -> ~ mom0 ps == 0 ->
  mom2 (map (shift t) ps) i j == mom2 ps i j.
Proof.
  intros Hd Hi Hj H0. unfold mom2. rewrite map_map. apply qsum_ext. intros p Hp.
  rewrite wt_shift, mom0_shift, (mom1_translate nd t ps i Hd Hi H0), (mom1_translate nd t ps j Hd Hj H0).
  rewrite (coord_shift nd t ps p i Hd Hp Hi), (coord_shift nd t ps p j Hd Hp Hj). field. exact H0.
Qed.

(* ---- directions *)
Lemma dot_scale_l c u v : dot (map (Qmult c) u) v == c * dot u v.
Proof.
  unfold dot. revert v. induction u as [|a u IH]; intros v; [cbn [map combine]; rewrite qsum_nil; ring|].
  destruct v as [|b v]; [cbn [map combine]; rewrite qsum_nil; ring|]. cbn [map combine]. rewrite !qsum_cons. cbn [fst snd].
  rewrite IH. ring.
Qed.

Lemma dot_sym u v : dot u v == dot v u.
Proof.
  unfold dot. revert v. induction u as [|a u IH]; intros v; destruct v as [|b v]; try reflexivity.
  cbn [combine map]. rewrite !qsum_cons. cbn [fst snd]. rewrite IH. ring.
Qed.

Lemma nth_scale c u i : nth i (map (Qmult c) u) 0 == c * nth i u 0.
Proof.
  revert i. induction u as [|a u IH]; intros i; destruct i; cbn; try ring. apply IH.
Qed.

Lemma quad_scale ps nd c d u v : quad ps nd (map (Qmult c) u) (map (Qmult d) v) == c * d * quad ps nd u v.
Proof.
  unfold quad. rewrite <- qsum_scale. apply qsum_ext. intros i _.
  rewrite <- qsum_scale. apply qsum_ext. intros j _. rewrite !nth_scale. ring.
Qed.

(* the second moment along a direction does not depend on the direction's length or sign *)
Theorem mom2_along_scale ps nd c u :
  ~ c == 0 -> ~ dot u u == 0 ->
  mom2_along ps nd (map (Qmult c) u) == mom2_along ps nd u.
Proof.
  intros Hc Hu. unfold mom2_along. rewrite quad_scale.
  rewrite dot_scale_l, (dot_sym u (map (Qmult c) u)), dot_scale_l. field. split; assumption.
Qed.

(* an eigenvector of the covariance matrix: the variance along it is its eigenvalue *)
Theorem eigen_link ps nd v lam :
  (forall i, (i < nd)%nat -> qsum (map (fun j => mom2 ps i j * nth j v 0) (seq 0 nd)) == lam * nth i v 0) ->
  qsum (map (fun i => nth i v 0 * nth i v 0) (seq 0 nd)) == 1 ->
  quad ps nd v v == lam.
Proof.
  intros Heig Hnorm. unfold quad.
  rewrite (qsum_ext _ (fun i => lam * (nth i v 0 * nth i v 0)) (seq 0 nd)).
  - rewrite qsum_scale, Hnorm. ring.
  - intros i Hi. apply in_seq in Hi.
    rewrite (qsum_ext _ (fun j => nth i v 0 * (mom2 ps i j * nth j v 0)) (seq 0 nd)) by (intros j _; ring).
    rewrite qsum_scale, Heig by lia. ring.
Qed.

(* ---- memoisation never changes an answer *)
Section MemoL.
  Variables K V : Type.
  Variable keqb : K -> K -> bool.
  Hypothesis keqb_eq : forall a b, keqb a b = true -> a = b.
  Variable F : K -> V.

  Definition cache_ok (c : list (K * V)) : Prop := forall k v, In (k, v) c -> v = F k.

  Lemma mlookup_ok c k v : cache_ok c -> mlookup K V keqb c k = Some v -> v = F k.
  Proof.
    induction c as [|[k' v'] c IH]; intros Hc H; cbn [mlookup] in H; [discriminate|].
    destruct (keqb k' k) eqn:E.
    - injection H as <-. apply keqb_eq in E. subst. apply Hc. left. reflexivity.
    - apply IH; [intros a b Hab; apply Hc; right; exact Hab | exact H].
  Qed.

  Theorem mcall_ok c k : cache_ok c -> snd (mcall K V keqb F c k) = F k /\ cache_ok (fst (mcall K V keqb F c k)).
  Proof.
    intros Hc. unfold mcall. destruct (mlookup K V keqb c k) as [v|] eqn:E; cbn [fst snd].
    - split; [apply (mlookup_ok c k v Hc E) | exact Hc].
    - split; [reflexivity|]. intros a b [H|H]; [injection H as <- <-; reflexivity | apply Hc, H].
  Qed.

  (* any sequence of calls, on any number of live instances (the key includes the
     instance), returns what the un-memoised methods return *)
  Theorem mcalls_ok ks : forall c, cache_ok c -> mcalls K V keqb F c ks = map F ks.
  Proof.
    induction ks as [|k ks IH]; intros c Hc; [reflexivity|]. cbn [mcalls map].
    destruct (mcall_ok c k Hc) as [H1 H2]. destruct (mcall K V keqb F c k) as [c' v]. cbn [fst snd] in *.
    subst v. f_equal. apply IH, H2.
  Qed.
End MemoL.
