(* TreeLemmas.v — structural facts about rose trees *)
From Coq Require Import ZArith List Bool Lia Permutation.
From Dendro Require Import Base BaseLemmas Tree.
Import ListNotations.
Open Scope Z_scope.

Lemma tree_eta t : t = Node (tid t) (town t) (tkids t).
Proof. destruct t; reflexivity. Qed.

Lemma nodes_unfold t : nodes t = t :: flat_map nodes (tkids t).
Proof. destruct t; reflexivity. Qed.

Lemma region_unfold t : region t = opix t ++ flat_map region (tkids t).
Proof. destruct t; reflexivity. Qed.

Lemma regionv_unfold t : regionv t = town t ++ flat_map regionv (tkids t).
Proof. destruct t; reflexivity. Qed.

Lemma nodes_self t : In t (nodes t).
Proof. rewrite nodes_unfold. left. reflexivity. Qed.

Lemma flat_map_map_fst {A} (g : A -> list (Z * Z)) l :
  map fst (flat_map g l) = flat_map (fun x => map fst (g x)) l.
Proof.
  induction l as [|x l IH]; cbn [flat_map map]; [reflexivity|].
  rewrite map_app, IH. reflexivity.
Qed.

Lemma flat_map_ext_Forall {A B} (g h : A -> list B) l :
  Forall (fun x => g x = h x) l -> flat_map g l = flat_map h l.
Proof.
  induction 1 as [|x l Hx _ IH]; cbn [flat_map]; [reflexivity|].
  rewrite Hx, IH. reflexivity.
Qed.

Lemma region_regionv t : region t = map fst (regionv t).
Proof.
  induction t as [i o ks IH] using tree_ind2.
  cbn [region regionv]. rewrite map_app, flat_map_map_fst.
  f_equal. apply flat_map_ext_Forall. exact IH.
Qed.

Lemma flat_map_flat_map {A B C} (g : A -> list B) (h : B -> list C) l :
  flat_map h (flat_map g l) = flat_map (fun x => flat_map h (g x)) l.
Proof.
  induction l as [|x l IH]; cbn [flat_map]; [reflexivity|].
  rewrite flat_map_app, IH. reflexivity.
Qed.

Lemma regionv_nodes t : regionv t = flat_map town (nodes t).
Proof.
  induction t as [i o ks IH] using tree_ind2.
  cbn [regionv nodes flat_map]. f_equal.
  rewrite flat_map_flat_map. apply flat_map_ext_Forall. exact IH.
Qed.

Lemma region_nodes t : region t = flat_map opix (nodes t).
Proof.
  induction t as [i o ks IH] using tree_ind2.
  cbn [region nodes flat_map]. unfold opix at 1. cbn [town]. f_equal.
  rewrite flat_map_flat_map. apply flat_map_ext_Forall. exact IH.
Qed.

Lemma In_region_nodes p t :
  In p (region t) <-> exists u, In u (nodes t) /\ In p (opix u).
Proof. rewrite region_nodes, in_flat_map. reflexivity. Qed.

Lemma In_regionv_nodes pv t :
  In pv (regionv t) <-> exists u, In u (nodes t) /\ In pv (town u).
Proof. rewrite regionv_nodes, in_flat_map. reflexivity. Qed.

Lemma nodes_trans t : forall u w, In u (nodes t) -> In w (nodes u) -> In w (nodes t).
Proof.
  induction t as [i o ks IH] using tree_ind2. intros u w Hu Hw.
  cbn [nodes] in Hu. destruct Hu as [<-|Hu]; [exact Hw|].
  cbn [nodes]. right. apply in_flat_map in Hu. destruct Hu as [k [Hk Hu]].
  apply in_flat_map. exists k. split; [exact Hk|].
  rewrite Forall_forall in IH. eapply IH; eassumption.
Qed.

Lemma kid_nodes t k : In k (tkids t) -> In k (nodes t).
Proof.
  intros H. rewrite nodes_unfold. right. apply in_flat_map. exists k. split; [exact H | apply nodes_self].
Qed.

Lemma region_sub t u : In u (nodes t) -> incl (region u) (region t).
Proof.
  intros Hu p Hp. apply In_region_nodes in Hp. destruct Hp as [w [Hw Hp]].
  apply In_region_nodes. exists w. split; [eapply nodes_trans; eassumption | exact Hp].
Qed.

Lemma regionv_sub t u : In u (nodes t) -> incl (regionv u) (regionv t).
Proof.
  intros Hu p Hp. apply In_regionv_nodes in Hp. destruct Hp as [w [Hw Hp]].
  apply In_regionv_nodes. exists w. split; [eapply nodes_trans; eassumption | exact Hp].
Qed.

Lemma In_region_regionv p t : In p (region t) <-> exists v, In (p, v) (regionv t).
Proof.
  rewrite region_regionv, in_map_iff. split.
  - intros [[q v] [E H]]. cbn in E. subst. exists v. exact H.
  - intros [v H]. exists (p, v). split; [reflexivity | exact H].
Qed.

Lemma leaf_regionv t : is_leaf t = true -> regionv t = town t.
Proof.
  destruct t as [i o ks]. unfold is_leaf. cbn [tkids]. destruct ks; [|discriminate].
  intros _. cbn [regionv flat_map town]. apply app_nil_r.
Qed.

Lemma leaf_region t : is_leaf t = true -> region t = opix t.
Proof. intros H. rewrite region_regionv, leaf_regionv by exact H. reflexivity. Qed.

Lemma is_leaf_kids t : is_leaf t = true <-> tkids t = [].
Proof. unfold is_leaf. destruct (tkids t); split; congruence. Qed.

(* a pixel list without duplicates pins down which element of a family owns it *)
Lemma NoDup_flat_map_inj {A B} (g : A -> list B) l a b x :
  NoDup (flat_map g l) -> In a l -> In b l -> In x (g a) -> In x (g b) -> a = b.
Proof.
  induction l as [|y l IH]; intros Hnd Ha Hb Hxa Hxb; [destruct Ha|].
  cbn [flat_map] in Hnd.
  destruct Ha as [->|Ha], Hb as [->|Hb].
  - reflexivity.
  - exfalso. apply (NoDup_app_disj _ _ x Hnd Hxa). apply in_flat_map. exists b. split; assumption.
  - exfalso. apply (NoDup_app_disj _ _ x Hnd Hxb). apply in_flat_map. exists a. split; assumption.
  - apply IH; [eapply NoDup_app_r; exact Hnd | assumption..].
Qed.

Lemma NoDup_flat_map_elem {A B} (g : A -> list B) l a :
  NoDup (flat_map g l) -> In a l -> NoDup (g a).
Proof.
  induction l as [|y l IH]; intros Hnd Ha; [destruct Ha|].
  cbn [flat_map] in Hnd. destruct Ha as [->|Ha].
  - eapply NoDup_app_l. exact Hnd.
  - apply IH; [eapply NoDup_app_r; exact Hnd | exact Ha].
Qed.

(* heads of the members of a duplicate-free concatenation are distinct *)
Lemma NoDup_heads {A B} (g : A -> list B) (d : B) l :
  NoDup (flat_map g l) -> (forall a, In a l -> g a <> []) ->
  NoDup (map (fun a => hd d (g a)) l).
Proof.
  induction l as [|y l IH]; intros Hnd Hne; cbn [map]; [constructor|].
  cbn [flat_map] in Hnd. constructor.
  - intros Hin. apply in_map_iff in Hin. destruct Hin as [a [E Ha]].
    assert (Hy : g y <> []) by (apply Hne; left; reflexivity).
    assert (Hga : g a <> []) by (apply Hne; right; exact Ha).
    destruct (g y) as [|w r] eqn:Ey; [congruence|].
    cbn [hd] in E. cbn [app] in Hnd. inversion Hnd as [|? ? Hn _]; subst.
    apply Hn. apply in_or_app. right. apply in_flat_map. exists a. split; [exact Ha|].
    destruct (g a) as [|w' r']; [congruence|]. cbn [hd]. left. reflexivity.
  - apply IH; [eapply NoDup_app_r; exact Hnd | intros a Ha; apply Hne; right; exact Ha].
Qed.
