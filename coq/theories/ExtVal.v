(* ExtVal.v — saturated pixels (+inf) and the integer model.
   The model of Compute.v works over Z.  The implementation also accepts +inf pixels (C01: a number
   above every threshold; fix F34: inf - inf, which IEEE arithmetic makes NaN, counts as no rise).
   Here: the extended values, the decisions the construction makes on them as the implementation
   makes them, and the proof that replacing +inf by one finite number M far above everything else
   (|finite values|, |threshold|, min_delta <= B and M > 2B) keeps every one of those decisions:
   processing order and plateaus (comparisons of two values), the threshold test, and the
   min_delta test in its three uses (peak against the value of the joining pixel, height against
   the parent's height, vmax against vmin).  The correspondence check then compares the
   implementation on data with +inf with the Z model on the embedded data (stream
   "infinity tie", M = 2^200). *)
From Coq Require Import ZArith Bool Lia.
Open Scope Z_scope.

Inductive ext : Type := Fin (z : Z) | PInf.

Definition emb (M : Z) (x : ext) : Z := match x with Fin z => z | PInf => M end.

Definition bounded (B : Z) (x : ext) : Prop := match x with Fin z => - B <= z <= B | PInf => True end.

(* comparisons of two pixel values *)
Definition ext_ltb (x y : ext) : bool :=
  match x, y with
  | Fin a, Fin b => a <? b
  | Fin _, PInf => true
  | PInf, _ => false
  end.
Definition ext_eqb (x y : ext) : bool :=
  match x, y with
  | Fin a, Fin b => a =? b
  | PInf, PInf => true
  | _, _ => false
  end.

(* a finite threshold: data > min_value *)
Definition ext_above (t : Z) (x : ext) : bool := match x with Fin a => t <? a | PInf => true end.

(* pruning.min_delta after F34: rise(top, bottom) = top - bottom, with NaN (inf - inf) counted
   as 0; the test is rise >= delta for a finite delta.  top is never below bottom in the uses the
   construction makes (vmax against a value met later, height against the parent's height,
   vmax against vmin); the fourth combination (finite top, infinite bottom: -inf) fails. *)
Definition ext_rise_ok (d : Z) (top bottom : ext) : bool :=
  match top, bottom with
  | Fin a, Fin b => d <=? a - b
  | PInf, Fin _ => true
  | PInf, PInf => d <=? 0
  | Fin _, PInf => false
  end.

Section Embedding.
  Variables B M : Z.
  Hypothesis HB : 0 <= B.
  Hypothesis HM : 2 * B < M.

  Lemma emb_ltb x y : bounded B x -> bounded B y -> ext_ltb x y = (emb M x <? emb M y).
  Proof.
    destruct x as [a|], y as [b|]; cbn; intros Hx Hy; try reflexivity.
    - symmetry. apply Z.ltb_lt. lia.
    - symmetry. apply Z.ltb_ge. lia.
    - symmetry. apply Z.ltb_irrefl.
  Qed.

  Lemma emb_eqb x y : bounded B x -> bounded B y -> ext_eqb x y = (emb M x =? emb M y).
  Proof.
    destruct x as [a|], y as [b|]; cbn; intros Hx Hy; try reflexivity.
    - symmetry. apply Z.eqb_neq. lia.
    - symmetry. apply Z.eqb_neq. lia.
    - symmetry. apply Z.eqb_refl.
  Qed.

  Lemma emb_above t x : - B <= t <= B -> bounded B x -> ext_above t x = (t <? emb M x).
  Proof.
    destruct x as [a|]; cbn; intros Ht Hx; [reflexivity|]. symmetry. apply Z.ltb_lt. lia.
  Qed.

  Lemma emb_rise_ok d top bottom :
    0 <= d <= B -> bounded B top -> bounded B bottom ->
    ext_rise_ok d top bottom = (d <=? emb M top - emb M bottom).
  Proof.
    destruct top as [a|], bottom as [b|]; cbn; intros Hd Ht Hb.
    - reflexivity.
    - symmetry. apply Z.leb_gt. lia.
    - symmetry. apply Z.leb_le. lia.
    - rewrite Z.sub_diag. reflexivity.
  Qed.

  (* the embedding is strictly increasing, so the (stable) processing order is the same *)
  Lemma emb_mono x y : bounded B x -> bounded B y -> ext_ltb x y = true -> emb M x < emb M y.
  Proof. intros Hx Hy H. rewrite (emb_ltb x y Hx Hy) in H. apply Z.ltb_lt, H. Qed.
End Embedding.

(* non-vacuity: the numbers of the correspondence check: values and parameters below 2^100, M = 2^200 *)
Example embedding_example :
  let B := 2 ^ 100 in let M := 2 ^ 200 in
  0 <= B /\ 2 * B < M /\
  ext_rise_ok 3 PInf PInf = false /\ (3 <=? emb M PInf - emb M PInf) = false /\
  ext_rise_ok 0 PInf PInf = true /\ ext_rise_ok 1000 PInf (Fin 7) = true /\ (1000 <=? emb M PInf - emb M (Fin 7)) = true.
Proof. cbv. repeat split; congruence. Qed.
