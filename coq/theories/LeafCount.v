(* LeafCount.v — C16/C17, arbitrary values (ties included), no pruning: the NUMBER of leaves is
   the same on two grids related by an isomorphism of the adjacency graph — on the forests
   built by the loop and on the result of Dendrogram.compute itself.  From the one-to-one
   correspondence of LeafIso.v by a counting lemma (a relation between two duplicate-free lists
   that is total, onto, functional and injective relates lists of equal length). *)
From Coq Require Import ZArith List Bool Lia Permutation Sorted Relations.
From Dendro Require Import Base BaseLemmas Tree TreeLemmas Grid GridLemmas Criteria Compute ComputeInv ComputeThm
     PixelMap GridIso GridSym RegMax LeafIso ComputeNP.
Import ListNotations.
Open Scope Z_scope.

Lemma bij_length {A B} (Rel : A -> B -> Prop) : forall (l : list A) (l' : list B),
  NoDup l -> NoDup l' ->
  (forall x, In x l -> exists y, In y l' /\ Rel x y) ->
  (forall y, In y l' -> exists x, In x l /\ Rel x y) ->
  (forall x y1 y2, In x l -> In y1 l' -> In y2 l' -> Rel x y1 -> Rel x y2 -> y1 = y2) ->
  (forall x1 x2 y, In x1 l -> In x2 l -> In y l' -> Rel x1 y -> Rel x2 y -> x1 = x2) ->
  length l = length l'.
Proof.
  induction l as [|x l IH]; intros l' Hn Hn' Htot Hsur Hfun Hinj.
  - destruct l' as [|y l']; [reflexivity|]. destruct (Hsur y (or_introl eq_refl)) as [x [[] _]].
  - inversion Hn as [|? ? Hx Hnl]; subst.
    destruct (Htot x (or_introl eq_refl)) as [y [Hy Rxy]].
    destruct (in_split y l' Hy) as [l1 [l2 ->]].
    rewrite app_length. cbn [length]. rewrite Nat.add_succ_r, <- app_length. f_equal.
    assert (Hy' : ~ In y (l1 ++ l2)) by (apply NoDup_remove_2, Hn').
    assert (Hn2 : NoDup (l1 ++ l2)) by (apply NoDup_remove_1 in Hn'; exact Hn').
    assert (Hsub : forall z, In z (l1 ++ l2) -> In z (l1 ++ y :: l2)).
    { intros z Hz. apply in_app_or in Hz. apply in_or_app. destruct Hz as [Hz|Hz]; [left; exact Hz | right; right; exact Hz]. }
    apply IH; try assumption.
    + intros x0 Hx0. destruct (Htot x0 (or_intror Hx0)) as [y0 [Hy0 R0]].
      exists y0. split; [|exact R0].
      apply in_app_or in Hy0. apply in_or_app. destruct Hy0 as [H|[E|H]]; [left; exact H | | right; exact H].
      subst y0. exfalso. apply Hx. rewrite (Hinj x x0 y (or_introl eq_refl) (or_intror Hx0) Hy Rxy R0). exact Hx0.
    + intros y0 Hy0. destruct (Hsur y0 (Hsub y0 Hy0)) as [x0 [[E|Hx0] R0]].
      * subst x0. exfalso. apply Hy'. rewrite (Hfun x y y0 (or_introl eq_refl) Hy (Hsub y0 Hy0) Rxy R0). exact Hy0.
      * exists x0. split; assumption.
    + intros x0 y1 y2 Hx0 H1 H2. apply Hfun; [right; exact Hx0 | apply Hsub, H1 | apply Hsub, H2].
    + intros x1 x2 y0 H1 H2 H0. apply Hinj; [right; exact H1 | right; exact H2 | apply Hsub, H0].
Qed.

Lemma NoDup_flat_map_filter {A B} (h : A -> list B) (p : A -> bool) l :
  NoDup (flat_map h l) -> NoDup (flat_map h (filter p l)).
Proof.
  induction l as [|x l IH]; intros Hn; [constructor|]. cbn [flat_map] in Hn. cbn [filter].
  pose proof (NoDup_app_r _ _ Hn) as Hl.
  destruct (p x); [|apply IH, Hl]. cbn [flat_map].
  apply NoDup_app_iff. split; [apply (NoDup_app_l _ _ Hn)|]. split; [apply IH, Hl|].
  intros b Hb Hb'. apply in_flat_map in Hb'. destruct Hb' as [a [Ha Hba]]. apply filter_In in Ha.
  apply (NoDup_app_disj _ _ b Hn Hb). apply in_flat_map. exists a. split; [apply Ha | exact Hba].
Qed.

Lemma NoDup_flat_map_nonempty {A B} (h : A -> list B) l :
  NoDup (flat_map h l) -> (forall x, In x l -> h x <> []) -> NoDup l.
Proof.
  induction l as [|x l IH]; intros Hn Hne; [constructor|]. cbn [flat_map] in Hn. constructor.
  - intros Hx. destruct (h x) as [|b r] eqn:E; [apply (Hne x (or_introl eq_refl) E)|].
    apply (NoDup_app_disj _ _ b Hn); [left; reflexivity|]. apply in_flat_map. exists x. split; [exact Hx | rewrite E; left; reflexivity].
  - apply IH; [apply (NoDup_app_r _ _ Hn) | intros y Hy; apply Hne; right; exact Hy].
Qed.

Lemma filter_length_perm {A} (p : A -> bool) l l' : Permutation l l' -> length (filter p l) = length (filter p l').
Proof.
  induction 1 as [|x l l' _ IH|x y l|l l' l'' _ IH1 _ IH2]; cbn [filter].
  - reflexivity.
  - destruct (p x); cbn [length]; rewrite IH; reflexivity.
  - destruct (p x), (p y); reflexivity.
  - rewrite IH1. exact IH2.
Qed.

Lemma filter_map_length {A B} (f : A -> B) (p : B -> bool) l :
  length (filter p (map f l)) = length (filter (fun a => p (f a)) l).
Proof. induction l as [|x l IH]; [reflexivity|]. cbn [map filter]. destruct (p (f x)); cbn [length]; rewrite IH; reflexivity. Qed.

Definition leaves (f : list tree) : list tree := filter is_leaf (fnodes f).

Section LeafCount.
  Variable g : Z -> Z.
  Variables adj adj' : Z -> list Z.
  Variables order order' : list (Z * Z).
  Hypothesis Hnd : NoDup (map fst order).
  Hypothesis Hnd' : NoDup (map fst order').
  Hypothesis Hs : sorted_desc order.
  Hypothesis Hs' : sorted_desc order'.
  Hypothesis Hsym : forall a b, In a (map fst order) -> In b (map fst order) -> In b (adj a) -> In a (adj b).
  Hypothesis Hsym' : forall a b, In a (map fst order') -> In b (map fst order') -> In b (adj' a) -> In a (adj' b).
  Hypothesis Hperm : Permutation order' (map (gpv g) order).
  Hypothesis Hiso : forall p q, In p (map fst order) -> In q (map fst order) ->
                                (In (g q) (adj' (g p)) <-> In q (adj p)).
  Hypothesis Hinj : forall p q, In p (map fst order) -> In q (map fst order) -> g p = g q -> p = q.

  Let R := run adj np order.
  Let R' := run adj' np order'.

  Lemma leaves_NoDup a o : NoDup (map fst o) -> sorted_desc o ->
    (forall x y, In x (map fst o) -> In y (map fst o) -> In y (a x) -> In x (a y)) ->
    NoDup (leaves (run a np o)).
  Proof.
    intros N S Y. unfold leaves.
    pose proof (HJR a o N S Y) as HJ.
    pose proof (fregion_nodup a o _ HJ N) as Hn. rewrite fregion_opix in Hn.
    apply (NoDup_flat_map_nonempty opix); [apply NoDup_flat_map_filter, Hn|].
    intros t Ht E. apply filter_In in Ht. destruct Ht as [Ht Hl].
    destruct (leaf_has_top a o N S Y t Ht Hl) as [z [_ [Hz _]]].
    unfold opix in E. apply (in_map fst) in Hz. rewrite E in Hz. exact Hz.
  Qed.

  Theorem leaf_count_iso : length (leaves R) = length (leaves R').
  Proof.
    apply (bij_length (fun t t' => exists z, topof t z /\ topof t' (gpv g z))).
    - apply leaves_NoDup; assumption.
    - apply leaves_NoDup; assumption.
    - intros t Ht. apply filter_In in Ht. destruct Ht as [Ht Hl].
      destruct (leaf_image g adj adj' order order' Hnd Hnd' Hs Hs' Hsym Hsym' Hperm Hiso t Ht Hl) as [t' [Ht' [Hl' Htop]]].
      destruct (leaf_has_top adj order Hnd Hs Hsym t Ht Hl) as [z Hz].
      exists t'. split; [apply filter_In; split; assumption|]. exists z. split; [exact Hz | apply Htop, Hz].
    - intros t' Ht'. apply filter_In in Ht'. destruct Ht' as [Ht' Hl'].
      destruct (leaf_preimage g adj adj' order order' Hnd Hnd' Hs Hs' Hsym Hsym' Hperm Hiso t' Ht' Hl') as [t [Ht [Hl Htop]]].
      destruct (leaf_has_top adj order Hnd Hs Hsym t Ht Hl) as [z Hz].
      exists t. split; [apply filter_In; split; assumption|]. exists z. split; [exact Hz | apply Htop, Hz].
    - intros t t1' t2' Ht H1 H2 [z1 [T1 U1]] [z2 [T2 U2]].
      apply filter_In in Ht, H1, H2. destruct Ht as [Ht Hl], H1 as [H1 _], H2 as [H2 _].
      destruct (leaf_image g adj adj' order order' Hnd Hnd' Hs Hs' Hsym Hsym' Hperm Hiso t Ht Hl) as [t0 [Ht0 [_ Htop]]].
      rewrite (leaf_image_unique g adj adj' order order' Hnd' Hs' Hsym' t t1' t0 z1 Ht T1 H1 Ht0 U1 (Htop z1 T1)).
      symmetry. apply (leaf_image_unique g adj adj' order order' Hnd' Hs' Hsym' t t2' t0 z2 Ht T2 H2 Ht0 U2 (Htop z2 T2)).
    - intros t1 t2 t' H1 H2 Ht' [z1 [T1 U1]] [z2 [T2 U2]].
      apply filter_In in H1, H2, Ht'. destruct H1 as [H1 _], H2 as [H2 _], Ht' as [Ht' _].
      exact (leaf_preimage_unique g adj adj' order order' Hnd Hnd' Hs Hs' Hsym Hsym' Hperm Hiso Hinj t1 t2 t' z1 z2 H1 H2 T1 T2 Ht' U1 U2).
  Qed.
End LeafCount.

(* ---- Dendrogram.compute without pruning parameters has as many leaves as the loop built *)
Lemma compute_nil_leaf_count shape a vals minv :
  length (leaves (compute shape a vals minv [])) =
  length (leaves (run (adj_of shape a) np (order_of (kept vals minv)))).
Proof.
  unfold compute, leaves. rewrite (run_ext (adj_of shape a) (indep_of []) np _ indep_nil).
  set (R := run (adj_of shape a) np (order_of (kept vals minv))).
  rewrite make_trunk_nil.
  rewrite (filter_length_perm is_leaf _ _ (perm_fnodes _ _ (sort_by_perm tid (relabel_forest (sort_by tid R))))).
  rewrite relabel_forest_fnodes, filter_map_length.
  rewrite (filter_ext _ is_leaf (fun t => relabel_leaf (fnodes (sort_by tid R)) t)).
  apply filter_length_perm, perm_fnodes, sort_by_perm.
Qed.

Section GridLeafCount.
  Variables (shape shape' : list Z) (per per' : list bool) (g : Z -> Z).
  Hypothesis Hiso : giso shape per shape' per' g.
  Hypothesis Hpos : allpos shape.
  Hypothesis Hpos' : allpos shape'.
  Variables (vals vals' : list (option Z)) (minv : option Z).
  Hypothesis Hrange : forall pv, In pv (kept vals minv) -> inrange shape (fst pv).
  Hypothesis Hcarried : carried g (kept vals minv) (kept vals' minv).

  (* C16 / C17: the number of leaves of Dendrogram.compute (no pruning parameters, ties
     included) is invariant under every isomorphism of the grids *)
  Theorem compute_leaf_count_iso :
    length (leaves (compute shape (AdjGrid per) vals minv [])) =
    length (leaves (compute shape' (AdjGrid per') vals' minv [])).
  Proof.
    rewrite !compute_nil_leaf_count. cbn [adj_of].
    apply (leaf_count_iso g (nbrs shape per) (nbrs shape' per') (order_of (kept vals minv)) (order_of (kept vals' minv))).
    - apply order_of_NoDup.
    - apply order_of_NoDup.
    - apply order_of_sorted.
    - apply order_of_sorted.
    - intros a b _ _. apply nbrs_sym, Hpos.
    - intros a b _ _. apply nbrs_sym, Hpos'.
    - exact (grid_orders shape shape' per per' g Hiso vals vals' minv Hrange Hcarried).
    - intros p q Hp Hq. apply (gi_adj _ _ _ _ _ Hiso); apply (order_range shape vals minv Hrange); assumption.
    - intros p q Hp Hq. apply (gi_inj _ _ _ _ _ Hiso); apply (order_range shape vals minv Hrange); assumption.
  Qed.
End GridLeafCount.

(* non-vacuity: [3,1,3,2,3] (ties) has three leaves, and so has its flip *)
Example leaf_count_example :
  length (leaves (compute [5] (AdjGrid [false]) [Some 3; Some 1; Some 3; Some 2; Some 3] None [])) = 3%nat /\
  length (leaves (compute [5] (AdjGrid [false]) [Some 3; Some 2; Some 3; Some 1; Some 3] None [])) = 3%nat.
Proof. vm_compute. split; reflexivity. Qed.
