(* Corr.v — comparison of model outputs with the implementation's observables,
   evaluated by vm_compute from generated case files (definitions only). *)
From Coq Require Import ZArith List Bool Lia.
From Dendro Require Import Base Tree Grid GridIso AxisPerm Rounding Criteria Compute Index Prune PruneGhost Newick IO DEq Cache Plot Moments Stats Catalog Flux Viewer.
Import ListNotations.
Open Scope Z_scope.

Definition zl_eqb := list_eqb Z.eqb.
Definition sview_t := list (Z * (Z * (list Z * list Z))).
Definition sview_eqb : sview_t -> sview_t -> bool :=
  list_eqb (pair_eqb Z.eqb (pair_eqb Z.eqb (pair_eqb zl_eqb zl_eqb))).

Fixpoint mism_from {A} (ok : A -> bool) (i : Z) (l : list A) : list Z :=
  match l with
  | [] => []
  | x :: r => if ok x then mism_from ok (i + 1) r else i :: mism_from ok (i + 1) r
  end.
Definition mismatches {A} (ok : A -> bool) (l : list A) : list Z := mism_from ok 0 l.

(* ---- compute: (shape, adjacency, values, min_value, criteria, expected) *)
Definition compute_case : Type :=
  list Z * adjspec * list (option Z) * option Z * list crit * (list Z * (list Z * sview_t)).

Definition compute_ok (c : compute_case) : bool :=
  let '(shape, a, vals, minv, cs, (eo, (el, es))) := c in
  let '(o, (l, s)) := compute_view shape a vals minv cs in
  zl_eqb o eo && zl_eqb l el && sview_eqb s es.

(* ---- navigation (C02): (forest as observed, expected nav view, expected sorted leaf ids, len) *)
Definition nav_t := list (Z * (Z * (Z * list Z))).
Definition nav_eqb : nav_t -> nav_t -> bool :=
  list_eqb (pair_eqb Z.eqb (pair_eqb Z.eqb (pair_eqb Z.eqb zl_eqb))).
Definition nav_case : Type := list tree * (nav_t * (list Z * Z)).
Definition nav_ok (c : nav_case) : bool :=
  let '(f, (en, (el, elen))) := c in
  nav_eqb (nav_view f) en &&
  zl_eqb (sort_by (fun x => x) (map tid (leaves_of f))) el &&
  (zlen (fnodes f) =? elen).

(* ---- accessors (C06): (labels, forest as observed, expected view) *)
Definition acc_t := list (Z * ((list Z * list Z) * ((Z * Z) * ((Z * Z) * (Z * ((Z * Z) * (Z * Z))))))).
Definition zz_eqb := pair_eqb Z.eqb Z.eqb.
Definition acc_eqb : acc_t -> acc_t -> bool :=
  list_eqb (pair_eqb Z.eqb
    (pair_eqb (pair_eqb zl_eqb zl_eqb)
      (pair_eqb zz_eqb (pair_eqb zz_eqb (pair_eqb Z.eqb (pair_eqb zz_eqb zz_eqb)))))).
Definition acc_case : Type := list Z * list tree * acc_t.
Definition acc_ok (c : acc_case) : bool :=
  let '(labels, f, e) := c in acc_eqb (Index.acc_view labels f) e.

(* ---- prune (C07): (n pixels, forest before, recorded params, args, user criteria,
        expected (params after, (labels after, structures after))) *)
Definition params_t : Type := Z * (Z * Z).
Definition npix_eqb (a b : Z * Z) : bool := fst a * snd b =? fst b * snd a.
Definition params_eqb (a b : params_t) : bool := (fst a =? fst b) && npix_eqb (snd a) (snd b).
Definition prune_case : Type :=
  nat * list tree * params_t * Z * (Z * Z) * list crit * (params_t * (list Z * sview_t)).
Definition prune_ok (c : prune_case) : bool :=
  let '(n, f, ps, ad, an, user, (eps, (el, es))) := c in
  let '(ps', f') := Prune.prune ps ad an user f in
  params_eqb ps' eps && zl_eqb (label_map n f') el && sview_eqb (sview f') es.

(* ---- C08: (shape, adj, vals, minv, lax delta, lax npix, strict delta, strict npix,
              implementation says the two hierarchies are equal) -> (tie ok?, repaired agrees?) *)
Definition c08_case : Type := list Z * adjspec * list (option Z) * option Z * Z * (Z * Z) * Z * (Z * Z) * bool.
(* returns indices where the faithful model's verdict differs from the implementation's *)
Definition c08_ok (c : c08_case) : bool :=
  let '(shape, a, vals, minv, d0, n0, d1, n1, impl_eq) := c in
  Bool.eqb (fst (PruneGhost.c08_view shape a vals minv d0 n0 d1 n1)) impl_eq.
(* indices where the repaired variant does NOT restore the equivalence *)
Definition c08_repaired_ok (c : c08_case) : bool :=
  let '(shape, a, vals, minv, d0, n0, d1, n1, impl_eq) := c in
  snd (PruneGhost.c08_view shape a vals minv d0 n0 d1 n1).

(* ---- Newick text (C09): (forest as written: ids, height strings, shape; the text) *)
Definition newick_case : Type := list Newick.ntree * String.string.
Definition newick_ok (c : newick_case) : bool :=
  let '(nf, text) := c in
  String.eqb (Newick.render (Newick.toks_forest nf)) text &&
  match Newick.parse_text text with
  | Some nf' => list_eqb Newick.ntree_eqb nf' nf
  | None => false
  end.

(* ---- load (C09): (data, label map, Newick tree, expected structures of the loaded dendrogram) *)
Definition load_case : Type := list (option Z) * list Z * list Newick.ntree * sview_t.
Definition load_ok (c : load_case) : bool :=
  let '(vals, labels, nf, es) := c in
  sview_eqb (sview (map (IO.rebuild vals labels) nf)) es.

(* ---- format choice: (explicit format, extension class, content class, reading?, expected) *)
Definition fmt_eqb (a b : IO.fmt) : bool :=
  match a, b with IO.FITS, IO.FITS => true | IO.HDF5, IO.HDF5 => true | _, _ => false end.
Definition choose_case : Type := option IO.fmt * IO.extension * IO.content * bool * option IO.fmt.
Definition choose_ok (c : choose_case) : bool :=
  let '(f, e, ct, r, expected) := c in option_eqb fmt_eqb (IO.choose f e ct r) expected.

(* ---- equality (C20): (a, other, observed result of a == other) *)
Definition deq_case : Type := DEq.dview * option DEq.dview * bool.
Definition deq_ok (c : deq_case) : bool := let '(a, o, r) := c in Bool.eqb (DEq.deq a o) r.

(* ---- caches (C14): (initial forest, operations, expected observations; a forest is
        observed through its structure view) *)
Inductive eobs : Type := EZ (z : Z) | EL (l : list Z) | EP (p : (Z * Z) * (Z * Z)) | EF (s : sview_t).
Definition eobs_ok (o : Cache.obs) (e : eobs) : bool :=
  match o, e with
  | Cache.OZ a, EZ b => a =? b
  | Cache.OL a, EL b => zl_eqb a b
  | Cache.OP a, EP b => pair_eqb zz_eqb zz_eqb a b
  | Cache.OForest f, EF s => sview_eqb (sview f) s
  | _, _ => false
  end.
Fixpoint eobs_all (os : list Cache.obs) (es : list eobs) : bool :=
  match os, es with
  | [], [] => true
  | o :: r, e :: r' => eobs_ok o e && eobs_all r r'
  | _, _ => false
  end.
Definition cache_case : Type := list tree * list Cache.op * list eobs.
Definition cache_ok (c : cache_case) : bool :=
  let '(f, ops, es) := c in
  eobs_all (Cache.run_ops false {| Cache.st_forest := f; Cache.st_store := [] |} ops) es.

(* ---- moments (C10): exact values of the model, as reduced fractions *)
Definition moments_view (ps : list Moments.pt) (nd : nat) (dirs : list (list QArith_base.Q)) :=
  (Plot.qpair (Moments.mom0 ps),
   (map (fun i => Plot.qpair (Moments.mom1 ps i)) (seq 0 nd),
    (map (fun i => map (fun j => Plot.qpair (Moments.mom2 ps i j)) (seq 0 nd)) (seq 0 nd),
     map (fun u => (Plot.qpair (Moments.quad ps nd u u), Plot.qpair (Moments.dot u u))) dirs))).

(* ---- PP / PPV statistics (C11): exact quantities as reduced fractions *)
Definition ppv_view (ps : list Moments.pt) (vaxis : nat) :=
  let m := Stats.ppv_sky ps vaxis in
  (Plot.qpair (Stats.tr2 m), (Plot.qpair (Stats.det2 m), (Plot.qpair (Stats.v_var ps vaxis),
   (Plot.qpair (Stats.ppv_v_cen ps vaxis), (Plot.qpair (Stats.ppv_y_cen ps vaxis), (Plot.qpair (Stats.ppv_x_cen ps vaxis),
    Z.of_nat (Stats.ppv_area_count ps vaxis))))))).
Definition pp_view (ps : list Moments.pt) :=
  let m := Stats.pp_sky ps in
  (Plot.qpair (Stats.tr2 m), (Plot.qpair (Stats.det2 m),
   (Plot.qpair (Stats.pp_y_cen ps), (Plot.qpair (Stats.pp_x_cen ps), Z.of_nat (Stats.pp_area_count ps))))).

(* ---- catalogs (C12): the un-wrapping of one axis: (axis length, indices, expected) *)
Definition unwrap_case : Type := Z * list Z * list Z.
Definition unwrap_ok (c : unwrap_case) : bool := let '(n, l, e) := c in zl_eqb (Catalog.unwrap n l) e.

(* ---- flux (C13): result as (error code, (coefficient fraction, (pi power, ln2 power))) *)
Definition err_code (e : Flux.err) : Z :=
  match e with
  | Flux.EWavelengthLength => 1 | Flux.EWavelengthNeeded => 2 | Flux.ESpatialAngle => 3 | Flux.ESpatialNeeded => 4
  | Flux.EBeamMajorAngle => 5 | Flux.EBeamMajorNeeded => 6 | Flux.EBeamMinorAngle => 7 | Flux.EBeamMinorNeeded => 8
  | Flux.EUnsupported => 9 | Flux.EOutputUnit => 10
  end.
Definition flux_view (r : Flux.res) : Z * ((Z * Z) * (Z * Z)) :=
  match r with
  | Flux.Ok v => (0, (Plot.qpair (Flux.sc v), (Flux.spi v, Flux.sln v)))
  | Flux.Err e => (err_code e, ((0, 1), (0, 0)))
  end.

(* ---- viewer (C19): final state after a sequence of events, per slot 1..3:
        (lines, (contour ids, slice), label, scatter rows), None encoded by the flag 0 *)
Definition optl (o : option (list Z)) : Z * list Z := match o with Some l => (1, l) | None => (0, []) end.
Definition art_view (a : Viewer.artifacts) :=
  (optl (Viewer.a_lines a),
   (match Viewer.a_contour a with Some (ids, k) => (1, (ids, k)) | None => (0, ([], 0)) end,
    (optl (Viewer.a_label a), optl (Viewer.a_scatter a)))).
Definition viewer_view (f : list tree) (views : list Z) (slice : Z) (es : list Viewer.event) :=
  let st := Viewer.run f views slice es in
  (map (fun j => art_view (Viewer.aget (Viewer.v_art st) j Viewer.no_artifacts)) [1; 2; 3],
   (Viewer.v_slice st, zlen (Viewer.v_notified st))).

(* ---- relabellings of the pixels (C16 / C17): the maps of GridIso.v against numpy's
   flip / roll / pad / swapaxes / expand_dims on an index array *)
Inductive relab : Type :=
| RFlip (a : nat) | RRoll (a : nat) (k : nat) | RPad (a : nat) (w w' : Z) | RSwap (a : nat) | RUnit (a : nat)
| RSwaps (ks : list nat).

Fixpoint set_nth (a : nat) (x : Z) (l : list Z) : list Z :=
  match a, l with
  | O, _ :: r => x :: r
  | S a', y :: r => y :: set_nth a' x r
  | _, [] => []
  end.

Definition relab_shape (shape : list Z) (r : relab) : list Z :=
  match r with
  | RFlip _ | RRoll _ _ => shape
  | RPad a w w' => set_nth a (nth a shape 0 + w + w') shape
  | RSwap a => swapped a shape
  | RUnit a => inserted a 1 shape
  | RSwaps ks => swaps ks shape
  end.

Definition relab_map (shape : list Z) (r : relab) : Z -> Z :=
  match r with
  | RFlip a => axis_map a shape shape (flip (nth a shape 0))
  | RRoll a k => axis_map a shape shape (iter_map k (rot1 (nth a shape 0)))
  | RPad a w w' => axis_map a shape (relab_shape shape r) (pad w)
  | RSwap a => swap_at a shape
  | RUnit _ => fun p => p
  | RSwaps ks => swaps_map ks shape
  end.

(* (shape, relabelling, new shape, new flat position of every pixel) *)
Definition relab_case : Type := list Z * relab * list Z * list Z.
Definition relab_ok (c : relab_case) : bool :=
  let '(shape, r, shape', pos) := c in
  list_eqb Z.eqb (relab_shape shape r) shape' &&
  list_eqb Z.eqb (map (relab_map shape r) (zseq (Z.to_nat (size shape)))) pos.

(* ---- conversion of a 64-bit integer to a double (Rounding.v) against Python's float(int):
   (integer, int(float(integer))) *)
Definition rounding_case : Type := Z * Z.
Definition rounding_ok (c : rounding_case) : bool := to_double (fst c) =? snd c.
