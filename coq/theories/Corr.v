(* Corr.v — comparison of model outputs with the implementation's observables,
   evaluated by vm_compute from generated case files (definitions only). *)
From Coq Require Import ZArith List Bool Lia.
From Dendro Require Import Base Tree Grid Criteria Compute.
Import ListNotations.
Open Scope Z_scope.

Definition zl_eqb := list_eqb Z.eqb.
Definition sview_t := list (Z * (Z * (list Z * list Z))).
Definition sview_eqb : sview_t -> sview_t -> bool :=
  list_eqb (pair_eqb Z.eqb (pair_eqb Z.eqb (pair_eqb zl_eqb zl_eqb))).

Fixpoint mism_from {A} (ok : A -> bool) (i : Z) (l : list A) : list Z :=
  match l with
  | [] => []
  | x :: r => if ok x then mism_from ok (i + 1) r else i :: mism_from ok (i + 1) r
  end.
Definition mismatches {A} (ok : A -> bool) (l : list A) : list Z := mism_from ok 0 l.

(* ---- compute: (shape, adjacency, values, min_value, criteria, expected) *)
Definition compute_case : Type :=
  list Z * adjspec * list (option Z) * option Z * list crit * (list Z * (list Z * sview_t)).

Definition compute_ok (c : compute_case) : bool :=
  let '(shape, a, vals, minv, cs, (eo, (el, es))) := c in
  let '(o, (l, s)) := compute_view shape a vals minv cs in
  zl_eqb o eo && zl_eqb l el && sview_eqb s es.
