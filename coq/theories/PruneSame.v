(* PruneSame.v — prune() with the very criteria a dendrogram was computed with changes nothing,
   provided min_delta is 0 (with min_delta > 0 this is FALSE: known finding K1,
   C08_refuted_same_parameters).  Any adjacency, any order of distinct pixels sorted by value,
   any criteria list without a positive min_delta (min_npix, min_peak, min_sum, seeds).
   The reason: a leaf that has a parent passed the criteria when it met its parent's creating
   pixel, its own pixels have not changed since, and the criteria other than min_delta do not
   look at the meeting value.  Lemmas only; statements in props/C08.v and props/C07.v. *)
From Coq Require Import ZArith List Bool Lia Sorted.
From Dendro Require Import Base BaseLemmas Tree TreeLemmas Grid GridLemmas Criteria Compute ComputeInv ComputeThm
     Prune PruneLemmas.
Import ListNotations.
Open Scope Z_scope.

Definition nodelta (cs : list crit) : bool :=
  forallb (fun c => match c with MinDelta d => d <=? 0 | _ => true end) cs.

Lemma minl_le_maxl l : minl l <= maxl l.
Proof.
  destruct l as [|x r]; [cbn; lia|].
  pose proof (minl_le (x :: r) x (or_introl eq_refl)).
  pose proof (maxl_ge (x :: r) x (or_introl eq_refl)). lia.
Qed.

Lemma posthoc_of_at cs o v ph :
  nodelta cs = true -> ph <= vmax_l o ->
  indep_of cs o (Some v) = true -> indep_posthoc cs o ph = true.
Proof.
  unfold nodelta, indep_of, indep_posthoc. rewrite !forallb_forall. intros Hn Hph H c Hc.
  specialize (Hn c Hc). specialize (H c Hc).
  destruct c as [d | num den | pk | s | l]; cbn [crit_posthoc crit_at] in *; try exact H.
  apply Z.leb_le in Hn. apply Z.leb_le. lia.
Qed.

(* the parent's height is not above the peak of any of its leaf children *)
Lemma height_le_vmax_kid w k : In k (tkids w) -> height w <= vmax_l (town k).
Proof.
  intros Hk. unfold height. destruct (tkids w) as [|k0 ks] eqn:E; [destruct Hk|].
  rewrite <- E in *. clear E.
  assert (H1 : minl (map vmin (tkids w)) <= vmin k) by (apply minl_le, in_map, Hk).
  unfold vmin, ovals in *. unfold vmax_l. pose proof (minl_le_maxl (map snd (town k))). lia.
Qed.

(* edges of a relabelled tree are the relabelled edges *)
Lemma edges_relabel_In all t : forall w' k',
  In (w', k') (edges (relabel all t)) ->
  exists w k, In (w, k) (edges t) /\ w' = relabel all w /\ k' = relabel all k.
Proof.
  induction t as [i o ks IH] using tree_ind2. intros w' k' H.
  rewrite edges_unfold in H. rewrite relabel_kids in H. cbn [tkids] in H.
  apply in_app_or in H. destruct H as [H | H].
  - apply in_map_iff in H. destruct H as [x [Hx Hin]]. apply in_map_iff in Hin.
    destruct Hin as [k [Hk Hin]]. inversion Hx; subst.
    exists (Node i o ks), k. split; [|split; reflexivity].
    rewrite edges_unfold. apply in_or_app. left. cbn [tkids]. apply in_map_iff. exists k. split; [reflexivity | exact Hin].
  - apply in_flat_map in H. destruct H as [x [Hx Hin]]. apply in_map_iff in Hx.
    destruct Hx as [k [Hk Hkin]]. subst x. rewrite Forall_forall in IH.
    destruct (IH k Hkin _ _ Hin) as [w [k2 [He [Hw Hk2]]]].
    exists w, k2. split; [|split; assumption].
    rewrite edges_unfold. apply in_or_app. right. cbn [tkids]. apply in_flat_map. exists k. split; assumption.
Qed.

Lemma relabel_is_leaf all t : is_leaf (relabel all t) = is_leaf t.
Proof. destruct t as [i o ks]. destruct ks; reflexivity. Qed.

Lemma relabel_vmin all t : vmin (relabel all t) = vmin t.
Proof. unfold vmin, ovals. rewrite relabel_town. reflexivity. Qed.

Lemma relabel_vmax all t : vmax (relabel all t) = vmax t.
Proof. unfold vmax, ovals. rewrite relabel_town. reflexivity. Qed.

Lemma relabel_height all t : height (relabel all t) = height t.
Proof.
  unfold height. rewrite relabel_kids, relabel_vmax. destruct (tkids t) as [|k ks]; [reflexivity|].
  cbn [map]. rewrite map_map. f_equal. rewrite relabel_vmin. f_equal.
  apply map_ext. intros a. apply relabel_vmin.
Qed.

Section Same.
  Variable adj : Z -> list Z.
  Variable cs : list crit.
  Variable order : list (Z * Z).
  Hypothesis Hnd : NoDup (map fst order).
  Hypothesis Hsorted : sorted_desc order.
  Hypothesis Hsym : forall a b, In a (map fst order) -> In b (map fst order) -> In b (adj a) -> In a (adj b).
  Hypothesis Hcs : nodelta cs = true.

  Let R := run adj (indep_of cs) order.
  Let F := make_trunk (indep_of cs) R.
  Let G := sort_by tid (relabel_forest F).

  Lemma G_edges w' k' : In (w', k') (fedges G) ->
    exists w k, In (w, k) (fedges R) /\ w' = relabel (fnodes F) w /\ k' = relabel (fnodes F) k.
  Proof.
    intros H. unfold fedges in H. apply in_flat_map in H. destruct H as [t' [Ht' He]].
    unfold G in Ht'. apply sort_by_In in Ht'. unfold relabel_forest in Ht'. apply in_map_iff in Ht'.
    destruct Ht' as [t [Ht HtF]]. subst t'.
    destruct (edges_relabel_In _ _ _ _ He) as [w [k [Hwk [Hw Hk]]]].
    exists w, k. split; [|split; assumption].
    unfold fedges. apply in_flat_map. exists t. split; [|exact Hwk].
    unfold F, make_trunk in HtF. apply filter_In in HtF. destruct HtF as [HtF _].
    apply sort_by_In in HtF. exact HtF.
  Qed.

  Theorem prune_same_criteria_changes_nothing : prune_struct cs G = G.
  Proof.
    rewrite prune_struct_noop.
    - unfold G. apply sort_by_idem.
    - intros w' k' He Hl. destruct (G_edges _ _ He) as [w [k [Hwk [Hw Hk]]]]. subst w' k'.
      rewrite relabel_is_leaf in Hl. unfold ph_ok. rewrite relabel_town, relabel_height.
      destruct (leaf_with_parent adj (indep_of cs) order Hnd Hsorted Hsym w k Hwk Hl) as [_ [Hind _]].
      apply posthoc_of_at with (v := cval w); [exact Hcs | | exact Hind].
      apply height_le_vmax_kid. apply (fedges_nodes _ _ _ Hwk).
    - intros r' Hr' Hl. unfold G in Hr'. apply sort_by_In in Hr'. unfold relabel_forest in Hr'.
      apply in_map_iff in Hr'. destruct Hr' as [r [Hr HrF]]. subst r'.
      rewrite relabel_is_leaf in Hl. rewrite relabel_town.
      apply (parentless_leaf adj (indep_of cs) order r HrF Hl).
  Qed.
End Same.

(* for Dendrogram.compute on a grid (default or periodic adjacency) *)
Theorem grid_prune_same shape per vals minv cs :
  Forall (fun n => 0 < n) shape -> nodelta cs = true ->
  prune_struct cs (compute shape (AdjGrid per) vals minv cs) = compute shape (AdjGrid per) vals minv cs.
Proof.
  intros Hshape Hcs. unfold compute. cbn [adj_of].
  apply prune_same_criteria_changes_nothing.
  - apply order_of_NoDup.
  - apply order_of_sorted.
  - intros a b _ _ H. apply nbrs_sym; assumption.
  - exact Hcs.
Qed.

(* a user adjacency given as a table: symmetric on the processed pixels *)
Theorem custom_prune_same shape tb vals minv cs :
  (forall a b, In b (nbrs_custom tb a) -> In a (nbrs_custom tb b)) -> nodelta cs = true ->
  prune_struct cs (compute shape (AdjCustom tb) vals minv cs) = compute shape (AdjCustom tb) vals minv cs.
Proof.
  intros Hsym Hcs. unfold compute. cbn [adj_of].
  apply prune_same_criteria_changes_nothing.
  - apply order_of_NoDup.
  - apply order_of_sorted.
  - intros a b _ _ H. apply Hsym. exact H.
  - exact Hcs.
Qed.

(* d.prune() without arguments straight after Dendrogram.compute(min_npix = n/m, user criteria),
   min_delta = 0: every argument inherits the recorded value, and nothing changes - neither
   the recorded parameters nor the structures *)
Theorem prune_call_without_arguments_after_compute shape per vals minv n m user :
  Forall (fun k => 0 < k) shape -> nodelta user = true ->
  let cs := MinDelta 0 :: MinNpix n m :: user in
  prune (0, (n, m)) 0 (0, 1) user (compute shape (AdjGrid per) vals minv cs)
  = ((0, (n, m)), compute shape (AdjGrid per) vals minv cs).
Proof.
  intros Hshape Hu cs. unfold prune. cbn [fst snd].
  unfold rec_delta, rec_npix, eff_delta, eff_npix, npix_lt. cbn [fst snd].
  rewrite Z.eqb_refl. rewrite !Z.ltb_irrefl. f_equal.
  apply grid_prune_same; [exact Hshape |].
  subst cs. unfold nodelta in *. cbn [forallb]. rewrite Hu. reflexivity.
Qed.
