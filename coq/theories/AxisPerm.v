(* AxisPerm.v — C16: ANY permutation of the axes of a grid (numpy's transpose) is an isomorphism
   of the adjacency graph.  A permutation is applied as a sequence of exchanges of neighbouring
   axes (swapped / swap_at of GridIso.v); every permutation of the list of axes is reached by
   such a sequence (adjacent transpositions generate the permutations: perm_swaps). *)
From Coq Require Import ZArith List Bool Lia Permutation.
From Dendro Require Import Base Grid GridLemmas GridIso.
Import ListNotations.
Open Scope Z_scope.

Fixpoint swaps {A} (ks : list nat) (l : list A) : list A :=
  match ks with [] => l | k :: ks' => swaps ks' (swapped k l) end.

Fixpoint swaps_map (ks : list nat) (shape : list Z) (p : Z) : Z :=
  match ks with [] => p | k :: ks' => swaps_map ks' (swapped k shape) (swap_at k shape p) end.

Lemma swapped_length {A} a : forall l : list A, length (swapped a l) = length l.
Proof.
  induction a as [|a IH]; intros l.
  - destruct l as [|x [|y r]]; reflexivity.
  - destruct l as [|x r]; [reflexivity|]. cbn [swapped length]. rewrite IH. reflexivity.
Qed.

Lemma swaps_length {A} ks : forall l : list A, length (swaps ks l) = length l.
Proof. induction ks as [|k ks IH]; intros l; cbn [swaps]; [reflexivity|]. rewrite IH. apply swapped_length. Qed.

Lemma swapped_map {A B} (f : A -> B) a : forall l, swapped a (map f l) = map f (swapped a l).
Proof.
  induction a as [|a IH]; intros l.
  - destruct l as [|x [|y r]]; reflexivity.
  - destruct l as [|x r]; [reflexivity|]. cbn [swapped map]. rewrite IH. reflexivity.
Qed.

Lemma swaps_map_list {A B} (f : A -> B) ks : forall l, swaps ks (map f l) = map f (swaps ks l).
Proof. induction ks as [|k ks IH]; intros l; cbn [swaps]; [reflexivity|]. rewrite swapped_map. apply IH. Qed.

Lemma swaps_app {A} ks1 ks2 (l : list A) : swaps (ks1 ++ ks2) l = swaps ks2 (swaps ks1 l).
Proof. revert l. induction ks1 as [|k ks IH]; intros l; cbn [swaps app]; [reflexivity|]. apply IH. Qed.

(* the composed relabelling is an isomorphism of the adjacency graphs *)
Theorem giso_swaps ks : forall shape per,
  allpos shape -> length per = length shape ->
  Forall (fun k => (S k < length shape)%nat) ks ->
  giso shape per (swaps ks shape) (swaps ks per) (swaps_map ks shape).
Proof.
  induction ks as [|k ks IH]; intros shape per Hpos Hper Hks; cbn [swaps swaps_map].
  - apply giso_id.
  - inversion Hks as [|? ? Hk Hrest]; subst.
    apply (giso_compose shape per (swapped k shape) (swapped k per) _ _ (swap_at k shape) (swaps_map ks (swapped k shape))).
    + apply giso_swap_at; assumption.
    + apply IH.
      * apply allpos_swapped, Hpos.
      * rewrite !swapped_length. exact Hper.
      * rewrite swapped_length. exact Hrest.
Qed.

(* every permutation of a list is a sequence of exchanges of neighbours *)
Lemma swaps_cons {A} (x : A) ks : forall l, swaps (map S ks) (x :: l) = x :: swaps ks l.
Proof.
  induction ks as [|k ks IH]; intros l; cbn [swaps map]; [reflexivity|].
  destruct l as [|y r].
  - assert (E : forall a, swapped (S a) [x] = [x]) by (intros a; cbn [swapped]; destruct a; reflexivity).
    rewrite E. assert (E0 : swapped k (@nil A) = []) by (destruct k; reflexivity). rewrite E0. apply IH.
  - cbn [swapped]. apply IH.
Qed.

Lemma perm_swaps {A} (l l' : list A) :
  Permutation l l' -> exists ks, Forall (fun k => (S k < length l)%nat) ks /\ swaps ks l = l'.
Proof.
  induction 1 as [|x l l' _ [ks [Hb E]]|x y l|l l' l'' _ [ks1 [Hb1 E1]] HP2 [ks2 [Hb2 E2]]].
  - exists []. split; [constructor | reflexivity].
  - exists (map S ks). split.
    + rewrite Forall_forall in *. intros k Hk. apply in_map_iff in Hk. destruct Hk as [k0 [<- Hk0]].
      cbn [length]. specialize (Hb k0 Hk0). lia.
    + rewrite swaps_cons, E. reflexivity.
  - exists [O]. split; [constructor; [cbn [length]; lia | constructor] | reflexivity].
  - exists (ks1 ++ ks2). split.
    + apply Forall_app. split; [exact Hb1|]. subst l'. rewrite swaps_length in Hb2. exact Hb2.
    + rewrite swaps_app, E1. exact E2.
Qed.

(* axes = (length, periodic?) pairs: any permutation of the axes is realised by a relabelling of
   the pixels that is an isomorphism of the adjacency graphs *)
Theorem giso_axis_permutation (axes axes' : list (Z * bool)) :
  Permutation axes axes' -> allpos (map fst axes) ->
  exists ks, Forall (fun k => (S k < length axes)%nat) ks /\ swaps ks axes = axes' /\
    giso (map fst axes) (map snd axes) (map fst axes') (map snd axes') (swaps_map ks (map fst axes)).
Proof.
  intros HP Hpos. destruct (perm_swaps axes axes' HP) as [ks [Hb E]].
  exists ks. split; [exact Hb|]. split; [exact E|].
  subst axes'. rewrite <- !swaps_map_list.
  apply giso_swaps; [exact Hpos | rewrite !map_length; reflexivity | rewrite map_length; exact Hb].
Qed.

(* non-vacuity: (a, b, c) -> (c, a, b) on a 2 x 3 x 4 grid, periodic along the first axis:
   exchanges at positions 1 then 0; the pixel (1, 2, 3) = 23 goes to (3, 1, 2) = 3*6 + 1*3 + 2 *)
Example axis_perm_example :
  swaps [1%nat; 0%nat] [(2, true); (3, false); (4, false)] = [(4, false); (2, true); (3, false)] /\
  swaps_map [1%nat; 0%nat] [2; 3; 4] 23 = 23 /\ swaps_map [1%nat; 0%nat] [2; 3; 4] 22 = 17.
Proof. vm_compute. repeat split. Qed.
