(* Index.v — model of TreeIndex (dendrogram.py) and of the Structure accessors that
   answer from the data array, the label map and the tree (definitions only). *)
From Coq Require Import ZArith List Bool Lia.
From Dendro Require Import Base Tree.
Import ListNotations.
Open Scope Z_scope.

Definition lab_at (labels : list Z) (p : Z) : Z := nth (Z.to_nat p) labels (-1).

(* pixels labelled i, ascending (TreeIndex takes them from an argsort of the packed
   labels, whose order inside one label is not specified: compared as sets) *)
Definition own_of (labels : list Z) (i : Z) : list Z :=
  filter (fun p => lab_at labels p =? i) (zseq (length labels)).

(* idx_ct / idx_sub_ct: own count, and count including the subtree (bottom-up) *)
Definition ct (labels : list Z) (t : tree) : Z := zlen (own_of labels (tid t)).
Fixpoint sub_ct (labels : list Z) (t : tree) : Z :=
  match t with Node _ _ ks => ct labels t + sumZ (map (sub_ct labels) ks) end.

(* the 1-D index array: own pixels of the structures in prefix order *)
Definition index_array (labels : list Z) (f : list tree) : list Z :=
  flat_map (fun t => own_of labels (tid t)) (fnodes f).

(* offset[s] = number of pixels placed before s in prefix order *)
Fixpoint offset_in (labels : list Z) (l : list tree) (i : Z) (pos : Z) : option Z :=
  match l with
  | [] => None
  | t :: r => if tid t =? i then Some pos else offset_in labels r i (pos + ct labels t)
  end.

Definition slice {A} (l : list A) (start len : Z) : list A :=
  firstn (Z.to_nat len) (skipn (Z.to_nat start) l).

(* TreeIndex.indices(sid, subtree) *)
Definition ti_indices (labels : list Z) (f : list tree) (u : tree) (subtree : bool) : list Z :=
  match offset_in labels (fnodes f) (tid u) 0 with
  | None => []
  | Some off => slice (index_array labels f) off (if subtree then sub_ct labels u else ct labels u)
  end.

(* ---- accessors, as functions of the tree whose own lists carry (pixel, value) *)

(* get_peak(subtree=False): value = own maximum, position = smallest index attaining it *)
Definition peak_own (t : tree) : Z * Z :=
  let m := vmax t in
  (minl (map fst (filter (fun pv => snd pv =? m) (town t))), m).

(* Python max(iterable, key=value): the first maximal element *)
Fixpoint first_max (l : list (Z * Z)) (best : Z * Z) : Z * Z :=
  match l with
  | [] => best
  | x :: r => first_max r (if snd best <? snd x then x else best)
  end.

(* get_peak(subtree=True) *)
Fixpoint peak_sub (t : tree) : Z * Z :=
  match t with
  | Node _ _ ks =>
      match map peak_sub ks with
      | [] => peak_own t
      | c :: cs => let cb := first_max cs c in
                   if snd cb <? snd (peak_own t) then peak_own t else cb
      end
  end.

Definition npix_sub (t : tree) : Z := zlen (region t).

(* per structure, in iteration order:
   (id, ((own pixels sorted, subtree pixels sorted), ((npix own, npix subtree),
        ((vmin, vmax), (height, (peak own, peak subtree)))))) *)
Definition acc_view (labels : list Z) (f : list tree) :=
  map (fun t =>
         (tid t,
          ((sort_by (fun x => x) (ti_indices labels f t false),
            sort_by (fun x => x) (ti_indices labels f t true)),
           ((npix_own t, npix_sub t),
            ((vmin t, vmax t), (height t, (peak_own t, peak_sub t)))))))
      (fnodes f).
