(* PixelMap.v — C16/C17: the construction commutes with every relabelling of the pixels
   that is an isomorphism of the adjacency graph on the processed pixels (axis permutations,
   flips, unit axes, padding, cyclic shifts along periodic axes are such relabellings).

   Identifiers during the loop are pixel indices and only their ORDER is used (to sort the
   adjacent structures); a relabelling changes that order, hence the order of children and
   which of several merged leaves lends its identifier.  The hierarchy - regions, own pixels
   with values, parent relation - is compared up to identifiers and child order (tsim). *)
From Coq Require Import ZArith List Bool Lia Permutation Sorted.
From Dendro Require Import Base BaseLemmas Tree TreeLemmas Criteria Compute ComputeInv ComputeThm Symmetry.
Import ListNotations.
Open Scope Z_scope.

Section PixelMap.
  Variable g : Z -> Z.
  Definition gpv (pv : Z * Z) : Z * Z := (g (fst pv), snd pv).

  (* same structure on the mapped pixels, up to identifiers, order of own pixels and order
     of children *)
  Inductive tsim : tree -> tree -> Prop :=
  | tsim_node i o ks i' o' ks' ks'' :
      Permutation (map gpv o) o' -> Permutation ks'' ks' -> Forall2 tsim ks ks'' ->
      tsim (Node i o ks) (Node i' o' ks').

  Definition rsim (R R' : list tree) : Prop :=
    exists R'', Permutation R'' R' /\ Forall2 tsim R R''.

  Lemma tsim_own t t' : tsim t t' -> Permutation (map gpv (town t)) (town t').
  Proof. intros H. inversion H; subst. assumption. Qed.

  Lemma tsim_kids t t' : tsim t t' -> rsim (tkids t) (tkids t').
  Proof. intros H. inversion H; subst. cbn [tkids]. eexists. split; eassumption. Qed.

  Lemma rsim_length R R' : rsim R R' -> length R = length R'.
  Proof.
    intros [R'' [HP HF]]. rewrite <- (Permutation_length HP). clear HP.
    induction HF; cbn [length]; congruence.
  Qed.

  Lemma rsim_nil_l R' : rsim [] R' -> R' = [].
  Proof. intros H. apply rsim_length in H. destruct R'; [reflexivity | discriminate]. Qed.

  Lemma rsim_nil_r R : rsim R [] -> R = [].
  Proof. intros H. apply rsim_length in H. destruct R; [reflexivity | discriminate]. Qed.

  Lemma rsim_nil : rsim [] [].
  Proof. exists []. split; constructor. Qed.

  Lemma rsim_one t t' : tsim t t' -> rsim [t] [t'].
  Proof. intros H. exists [t']. split; [apply Permutation_refl | constructor; [exact H | constructor]]. Qed.

  Lemma rsim_one_inv t t' : rsim [t] [t'] -> tsim t t'.
  Proof.
    intros [R'' [HP HF]]. inversion HF as [|? x ? r Hx Hr]; subst. inversion Hr; subst.
    apply Permutation_length_1_inv in HP. injection HP as ->. exact Hx.
  Qed.

  Lemma tsim_leaf t t' : tsim t t' -> is_leaf t' = is_leaf t.
  Proof.
    intros H. apply tsim_kids, rsim_length in H. unfold is_leaf.
    destruct (tkids t), (tkids t'); try reflexivity; discriminate.
  Qed.

  Lemma maxl_perm l l' : Permutation l l' -> maxl l = maxl l'.
  Proof.
    intros HP. destruct l as [|x l].
    - apply Permutation_nil in HP. subst. reflexivity.
    - apply maxl_ext; [discriminate|]. intros y. split; intros Hy.
      + apply (Permutation_in _ HP), Hy.
      + apply (Permutation_in _ (Permutation_sym HP)), Hy.
  Qed.

  Lemma snd_gpv l : map snd (map gpv l) = map snd l.
  Proof. rewrite map_map. apply map_ext. intros [p v]. reflexivity. Qed.

  Lemma tsim_vmax t t' : tsim t t' -> vmax t' = vmax t.
  Proof.
    intros H. apply tsim_own in H. unfold vmax, ovals. rewrite <- (snd_gpv (town t)). symmetry.
    apply maxl_perm, Permutation_map, H.
  Qed.

  Lemma perm_flat_map {A B} (h : A -> list B) l l' : Permutation l l' -> Permutation (flat_map h l) (flat_map h l').
  Proof.
    induction 1 as [|x l l' _ IH|x y l|l l' l'' _ IH1 _ IH2]; cbn [flat_map].
    - constructor.
    - apply Permutation_app_head, IH.
    - rewrite !app_assoc. apply Permutation_app_tail, Permutation_app_comm.
    - eapply Permutation_trans; eassumption.
  Qed.

  Lemma perm_filter {A} (p : A -> bool) l l' : Permutation l l' -> Permutation (filter p l) (filter p l').
  Proof.
    induction 1 as [|x l l' _ IH|x y l|l l' l'' _ IH1 _ IH2]; cbn [filter].
    - constructor.
    - destruct (p x); [constructor|]; exact IH.
    - destruct (p x), (p y); try apply Permutation_refl. constructor.
    - eapply Permutation_trans; eassumption.
  Qed.

  (* regions correspond *)
  Lemma tsim_regionv t : forall t', tsim t t' -> Permutation (map gpv (regionv t)) (regionv t').
  Proof.
    induction t as [i o ks IH] using tree_ind2. intros t' H. inversion H as [? ? ? i' o' ks' ks'' Ho Hk HF]; subst.
    cbn [regionv]. rewrite map_app. apply Permutation_app; [exact Ho|].
    apply Permutation_trans with (flat_map regionv ks''); [|apply perm_flat_map, Hk].
    clear Hk H. revert ks'' HF. induction ks as [|k ks IHk]; intros ks'' HF; inversion HF as [|? k' ? r Hk' Hr]; subst.
    - constructor.
    - inversion IH as [|? ? IH1 IH2]; subst. cbn [flat_map]. rewrite map_app.
      apply Permutation_app; [apply IH1, Hk' | apply IHk; assumption].
  Qed.

  Lemma rsim_regionv R R' : rsim R R' -> Permutation (map gpv (flat_map regionv R)) (flat_map regionv R').
  Proof.
    intros [R'' [HP HF]]. apply Permutation_trans with (flat_map regionv R''); [|apply perm_flat_map, HP].
    clear HP. induction HF as [|t t' R R'' Ht _ IH]; [constructor|].
    cbn [flat_map]. rewrite map_app. apply Permutation_app; [apply tsim_regionv, Ht | exact IH].
  Qed.

  Lemma tsim_region_In t t' x : tsim t t' -> (In x (region t') <-> exists q, In q (region t) /\ x = g q).
  Proof.
    intros H. apply tsim_regionv in H. rewrite !region_regionv. split.
    - intros Hx. apply in_map_iff in Hx. destruct Hx as [[x' v] [<- Hx]].
      apply (Permutation_in _ (Permutation_sym H)) in Hx. apply in_map_iff in Hx.
      destruct Hx as [[q w] [E Hq]]. unfold gpv in E. cbn [fst snd] in E. injection E as <- <-.
      exists q. split; [|reflexivity]. apply in_map_iff. exists (q, w). split; [reflexivity | exact Hq].
    - intros [q [Hq ->]]. apply in_map_iff in Hq. destruct Hq as [[q' w] [<- Hq]].
      apply in_map_iff. exists (g q', w). split; [reflexivity|].
      apply (Permutation_in _ H). apply in_map_iff. exists (q', w). split; [reflexivity | exact Hq].
  Qed.

  (* ---- rsim is compatible with permutations, concatenation, filtering *)
  Lemma rsim_perm_r R R1 R' : rsim R R1 -> Permutation R1 R' -> rsim R R'.
  Proof. intros [R'' [HP HF]] H. exists R''. split; [eapply Permutation_trans; eassumption | exact HF]. Qed.

  Lemma rsim_perm_l R R1 R' : Permutation R R1 -> rsim R R' -> rsim R1 R'.
  Proof.
    intros HP [R'' [HP' HF]]. destruct (Permutation_Forall2 HP HF) as [R2 [HP2 HF2]].
    exists R2. split; [|exact HF2]. eapply Permutation_trans; [apply Permutation_sym, HP2 | exact HP'].
  Qed.

  Lemma rsim_app A A' B B' : rsim A A' -> rsim B B' -> rsim (A ++ B) (A' ++ B').
  Proof.
    intros [A'' [HPa HFa]] [B'' [HPb HFb]]. exists (A'' ++ B''). split.
    - apply Permutation_app; assumption.
    - apply Forall2_app; assumption.
  Qed.

  Lemma rsim_filter (P P' : tree -> bool) R R' :
    rsim R R' -> (forall t t', In t R -> tsim t t' -> P' t' = P t) -> rsim (filter P R) (filter P' R').
  Proof.
    intros [R'' [HP HF]] Hrel. exists (filter P' R''). split; [apply perm_filter, HP|].
    clear HP. induction HF as [|t t' R R'' Ht _ IH]; [constructor|].
    cbn [filter]. rewrite (Hrel t t' (or_introl eq_refl) Ht).
    assert (IH' : Forall2 tsim (filter P R) (filter P' R'')) by (apply IH; intros u u' Hu; apply Hrel; right; exact Hu).
    destruct (P t); [constructor; assumption | exact IH'].
  Qed.

  Lemma rsim_flat_town R R' : rsim R R' -> Permutation (map gpv (flat_map town R)) (flat_map town R').
  Proof.
    intros [R'' [HP HF]]. apply Permutation_trans with (flat_map town R''); [|apply perm_flat_map, HP].
    clear HP. induction HF as [|t t' R R'' Ht _ IH]; [constructor|].
    cbn [flat_map]. rewrite map_app. apply Permutation_app; [apply tsim_own, Ht | exact IH].
  Qed.

  Lemma Forall2_In_l {A B} (P : A -> B -> Prop) l l' x : Forall2 P l l' -> In x l -> exists y, In y l' /\ P x y.
  Proof.
    induction 1 as [|a b l l' Hab _ IH]; intros Hx; [destruct Hx|]. destruct Hx as [<-|Hx].
    - exists b. split; [left; reflexivity | exact Hab].
    - destruct (IH Hx) as [y [Hy Hp]]. exists y. split; [right; exact Hy | exact Hp].
  Qed.

  Lemma Forall2_In_r {A B} (P : A -> B -> Prop) l l' y : Forall2 P l l' -> In y l' -> exists x, In x l /\ P x y.
  Proof.
    induction 1 as [|a b l l' Hab _ IH]; intros Hy; [destruct Hy|]. destruct Hy as [<-|Hy].
    - exists a. split; [left; reflexivity | exact Hab].
    - destruct (IH Hy) as [x [Hx Hp]]. exists x. split; [right; exact Hx | exact Hp].
  Qed.

  Lemma rsim_In_l R R' t : rsim R R' -> In t R -> exists t', In t' R' /\ tsim t t'.
  Proof.
    intros [R'' [HP HF]] Ht. destruct (Forall2_In_l _ _ _ _ HF Ht) as [t' [Ht' Hs]].
    exists t'. split; [apply (Permutation_in _ HP), Ht' | exact Hs].
  Qed.

  Lemma rsim_In_r R R' t' : rsim R R' -> In t' R' -> exists t, In t R /\ tsim t t'.
  Proof.
    intros [R'' [HP HF]] Ht. apply (Permutation_in _ (Permutation_sym HP)) in Ht.
    destruct (Forall2_In_r _ _ _ _ HF Ht) as [t [Ht0 Hs]]. exists t. split; assumption.
  Qed.

  (* ---- the processed pixels; the criteria of the two runs agree on corresponding own lists of
     processed pixels (criteria that do not look at positions do so outright; contains_seeds does
     when the seeds are mapped along and g is injective on the processed pixels) *)
  Variable dom : Z -> Prop.
  Definition own_in_dom (o : list (Z * Z)) : Prop := forall pv, In pv o -> dom (fst pv).
  Variables indep indep' : list (Z * Z) -> option Z -> bool.
  Hypothesis indep_rel : forall o o' v, own_in_dom o -> Permutation (map gpv o) o' -> indep' o' v = indep o v.

  Lemma tsim_mergeable v t t' : own_in_dom (town t) -> tsim t t' -> mergeable indep' v t' = mergeable indep v t.
  Proof.
    intros Hd H. unfold mergeable. rewrite (tsim_leaf t t' H), (tsim_vmax t t' H).
    rewrite (indep_rel (town t) (town t') (Some v) Hd (tsim_own t t' H)). reflexivity.
  Qed.

  Lemma last_removelast_perm (mg : list tree) (pv : Z * Z) :
    Permutation (town (last mg dummy) ++ [pv] ++ flat_map town (removelast mg)) (pv :: flat_map town mg).
  Proof.
    destruct mg as [|m mg]; [cbn; apply Permutation_refl|].
    assert (Hne : m :: mg <> []) by discriminate.
    rewrite (removelast_last_app (m :: mg) dummy Hne) at 3.
    rewrite flat_map_app. cbn [flat_map]. rewrite app_nil_r.
    set (a := town (last (m :: mg) dummy)). set (b := flat_map town (removelast (m :: mg))).
    cbn [app]. apply Permutation_trans with (pv :: a ++ b).
    - apply Permutation_sym, Permutation_middle.
    - constructor. apply Permutation_app_comm.
  Qed.

  Lemma tsim_meet tch tch' pv :
    (forall t, In t tch -> own_in_dom (town t)) ->
    rsim tch tch' -> tsim (meet indep tch pv) (meet indep' tch' (gpv pv)).
  Proof.
    intros Hdom H. unfold meet. cbn [gpv fst snd].
    assert (Hmg : rsim (filter (mergeable indep (snd pv)) tch) (filter (mergeable indep' (snd pv)) tch')).
    { apply rsim_filter; [exact H|]. intros t t' Hin Ht. apply tsim_mergeable; [apply Hdom, Hin | exact Ht]. }
    assert (Hkeep : rsim (filter (fun t => negb (mergeable indep (snd pv) t)) tch)
                         (filter (fun t => negb (mergeable indep' (snd pv) t)) tch')).
    { apply rsim_filter; [exact H|]. intros t t' Hin Ht. rewrite (tsim_mergeable _ t t' (Hdom t Hin) Ht). reflexivity. }
    set (mg := filter (mergeable indep (snd pv)) tch) in *.
    set (mg' := filter (mergeable indep' (snd pv)) tch') in *.
    set (keep := filter (fun t => negb (mergeable indep (snd pv) t)) tch) in *.
    set (keep' := filter (fun t => negb (mergeable indep' (snd pv) t)) tch') in *.
    pose proof (rsim_flat_town mg mg' Hmg) as Hown.
    pose proof (rsim_length keep keep' Hkeep) as Hlen.
    destruct keep as [|k [|k2 kr]], keep' as [|k' [|k2' kr']]; try discriminate Hlen.
    - apply tsim_node with (ks'' := []); [|constructor|constructor].
      eapply Permutation_trans; [apply Permutation_map, last_removelast_perm|].
      eapply Permutation_trans; [|apply Permutation_sym, last_removelast_perm].
      cbn [map gpv fst snd]. constructor. exact Hown.
    - apply rsim_one_inv in Hkeep. destruct (tsim_kids k k' Hkeep) as [ks'' [HPk HFk]].
      apply tsim_node with (ks'' := ks''); [|exact HPk|exact HFk].
      rewrite !map_app. apply Permutation_app; [apply tsim_own, Hkeep|].
      cbn [map app gpv fst snd]. constructor. exact Hown.
    - destruct Hkeep as [ks'' [HPk HFk]].
      apply tsim_node with (ks'' := ks''); [|exact HPk|exact HFk].
      cbn [map gpv fst snd]. constructor. exact Hown.
  Qed.

  Lemma tsim_join tch tch' pv :
    (forall t, In t tch -> own_in_dom (town t)) ->
    rsim tch tch' -> tsim (join indep tch pv) (join indep' tch' (gpv pv)).
  Proof.
    intros Hdom H. pose proof (rsim_length tch tch' H) as Hlen.
    destruct tch as [|t [|t2 r]], tch' as [|t' [|t2' r']]; try discriminate Hlen.
    - cbn [join gpv fst snd]. apply tsim_node with (ks'' := []); constructor. constructor.
    - apply rsim_one_inv in H. destruct (tsim_kids t t' H) as [ks'' [HPk HFk]].
      cbn [join]. apply tsim_node with (ks'' := ks''); [|exact HPk|exact HFk].
      rewrite map_app. apply Permutation_app; [apply tsim_own, H|]. cbn [map]. apply Permutation_refl.
    - rewrite !join_meet. apply tsim_meet; [exact Hdom | exact H].
  Qed.

  (* ---- the adjacency graphs correspond on the processed pixels *)
  Variables adj adj' : Z -> list Z.
  Hypothesis adj_iso : forall p q, dom p -> dom q -> (In (g q) (adj' (g p)) <-> In q (adj p)).

  Definition in_dom (R : list tree) : Prop := forall t x, In t R -> In x (region t) -> dom x.

  Lemma in_dom_own R t : in_dom R -> In t R -> own_in_dom (town t).
  Proof.
    intros Hd Ht pv Hpv. apply (Hd t (fst pv) Ht). destruct t as [i o ks]. cbn [region town] in *.
    apply in_or_app. left. apply in_map, Hpv.
  Qed.

  Lemma tsim_touches p t t' :
    dom p -> (forall x, In x (region t) -> dom x) -> tsim t t' ->
    touches (adj' (g p)) t' = touches (adj p) t.
  Proof.
    intros Hp Hd H.
    destruct (touches (adj p) t) eqn:E.
    - apply touches_true in E. destruct E as [q [Hq Hr]]. apply touches_true.
      exists (g q). split; [apply adj_iso; [exact Hp | apply Hd, Hr | exact Hq]|].
      apply (tsim_region_In t t' _ H). exists q. split; [exact Hr | reflexivity].
    - destruct (touches (adj' (g p)) t') eqn:E'; [|reflexivity]. exfalso.
      apply touches_true in E'. destruct E' as [x [Hx Hr]].
      apply (tsim_region_In t t' _ H) in Hr. destruct Hr as [q [Hq ->]].
      assert (Ht : touches (adj p) t = true).
      { apply touches_true. exists q. split; [|exact Hq]. apply adj_iso; [exact Hp | apply Hd, Hq | exact Hx]. }
      congruence.
  Qed.

  Lemma rsim_step R R' pv :
    dom (fst pv) -> in_dom R -> rsim R R' ->
    rsim (step adj indep R pv) (step adj' indep' R' (gpv pv)).
  Proof.
    intros Hp Hd H. unfold step. cbn [gpv fst].
    apply rsim_app.
    - apply rsim_filter; [exact H|]. intros t t' Ht Hs.
      rewrite (tsim_touches (fst pv) t t' Hp (fun x Hx => Hd t x Ht Hx) Hs). reflexivity.
    - apply rsim_one, tsim_join.
      { intros t Ht. apply (in_dom_own R t Hd). apply sort_by_In in Ht. apply filter_In in Ht. apply Ht. }
      apply rsim_perm_l with (filter (touches (adj (fst pv))) R); [apply Permutation_sym, sort_by_perm|].
      eapply rsim_perm_r; [|apply Permutation_sym, sort_by_perm].
      apply rsim_filter; [exact H|]. intros t t' Ht Hs.
      apply (tsim_touches (fst pv) t t' Hp (fun x Hx => Hd t x Ht Hx) Hs).
  Qed.

  Lemma step_in_dom R pv : dom (fst pv) -> in_dom R -> in_dom (step adj indep R pv).
  Proof.
    intros Hp Hd t x Ht Hx.
    assert (Hf : In x (fregion (step adj indep R pv))).
    { apply fregion_In. exists t. split; assumption. }
    apply step_fregion_In in Hf. destruct Hf as [Hf|Hf].
    - subst x. exact Hp.
    - apply fregion_In in Hf. destruct Hf as [r [Hr Hxr]]. apply (Hd r x Hr Hxr).
  Qed.

  Theorem run_pixel_map_gen order : forall R R',
    (forall pv, In pv order -> dom (fst pv)) -> in_dom R -> rsim R R' ->
    rsim (fold_left (step adj indep) order R) (fold_left (step adj' indep') (map gpv order) R').
  Proof.
    induction order as [|pv order IH]; intros R R' Ho Hd H; [exact H|].
    cbn [map fold_left]. apply IH.
    - intros q Hq. apply Ho. right. exact Hq.
    - apply step_in_dom; [apply Ho; left; reflexivity | exact Hd].
    - apply rsim_step; [apply Ho; left; reflexivity | exact Hd | exact H].
  Qed.

  (* C16/C17: the loop over the relabelled pixels, with the relabelled adjacency, builds the
     same hierarchy on the relabelled pixels *)
  Theorem run_pixel_map order :
    (forall pv, In pv order -> dom (fst pv)) ->
    rsim (run adj indep order) (run adj' indep' (map gpv order)).
  Proof.
    intros Ho. unfold run. apply run_pixel_map_gen; [exact Ho | intros t x [] | apply rsim_nil].
  Qed.

  Lemma run_in_dom_gen order : forall R, (forall pv, In pv order -> dom (fst pv)) -> in_dom R ->
    in_dom (fold_left (step adj indep) order R).
  Proof.
    induction order as [|pv order IH]; intros R Ho Hd; [exact Hd|]. cbn [fold_left]. apply IH.
    - intros q Hq. apply Ho. right. exact Hq.
    - apply step_in_dom; [apply Ho; left; reflexivity | exact Hd].
  Qed.

  Lemma run_in_dom order : (forall pv, In pv order -> dom (fst pv)) -> in_dom (run adj indep order).
  Proof. intros Ho. unfold run. apply run_in_dom_gen; [exact Ho | intros t x []]. Qed.

  Lemma rsim_make_trunk R R' : in_dom R -> rsim R R' -> rsim (make_trunk indep R) (make_trunk indep' R').
  Proof.
    intros Hd H. unfold make_trunk. apply rsim_filter.
    - apply rsim_perm_l with R; [apply Permutation_sym, sort_by_perm|].
      eapply rsim_perm_r; [exact H | apply Permutation_sym, sort_by_perm].
    - intros t t' Ht Hs. apply sort_by_In in Ht.
      rewrite (tsim_leaf t t' Hs), (indep_rel (town t) (town t') None (in_dom_own R t Hd Ht) (tsim_own t t' Hs)). reflexivity.
  Qed.

  (* final identifiers are naming only *)
  Lemma tsim_relabel_r all t : forall t', tsim t t' -> tsim t (relabel all t').
  Proof.
    induction t as [i o ks IH] using tree_ind2. intros t' H.
    inversion H as [? ? ? i' o' ks' ks'' Ho Hk HF]; subst. cbn [relabel].
    apply tsim_node with (ks'' := map (relabel all) ks''); [exact Ho | apply Permutation_map, Hk|].
    clear Hk H. revert ks'' HF. induction ks as [|k ks IHk]; intros ks'' HF; inversion HF as [|? k' ? r Hk' Hr]; subst; cbn [map].
    - constructor.
    - inversion IH as [|? ? IH1 IH2]; subst. constructor; [apply IH1, Hk' | apply IHk; assumption].
  Qed.

  Lemma tsim_relabel_l all t : forall t', tsim t t' -> tsim (relabel all t) t'.
  Proof.
    induction t as [i o ks IH] using tree_ind2. intros t' H.
    inversion H as [? ? ? i' o' ks' ks'' Ho Hk HF]; subst. cbn [relabel].
    apply tsim_node with (ks'' := ks''); [exact Ho | exact Hk|].
    clear Hk H. revert ks'' HF. induction ks as [|k ks IHk]; intros ks'' HF; inversion HF as [|? k' ? r Hk' Hr]; subst; cbn [map].
    - constructor.
    - inversion IH as [|? ? IH1 IH2]; subst. constructor; [apply IH1, Hk' | apply IHk; assumption].
  Qed.

  Lemma rsim_relabel all all' R R' : rsim R R' -> rsim (map (relabel all) R) (map (relabel all') R').
  Proof.
    intros [R'' [HP HF]]. exists (map (relabel all') R''). split; [apply Permutation_map, HP|].
    clear HP. induction HF as [|t t' R R'' Ht _ IH]; cbn [map]; constructor; [|exact IH].
    apply tsim_relabel_l, tsim_relabel_r, Ht.
  Qed.

  (* ---- with pairwise distinct values the processing order is the relabelled order *)
  Lemma sort_by_gpv l : sort_by snd (map gpv l) = map gpv (sort_by snd l).
  Proof. apply sort_by_map. intros [p v]. reflexivity. Qed.

  Lemma sorted_desc_gpv l : sorted_desc l -> sorted_desc (map gpv l).
  Proof.
    unfold sorted_desc. induction 1 as [|a l _ IH Hall]; cbn [map]; constructor; [exact IH|].
    rewrite Forall_forall in *. intros x Hx. apply in_map_iff in Hx. destruct Hx as [y [<- Hy]].
    destruct a, y. cbn [gpv snd fst]. apply (Hall _ Hy).
  Qed.

  Lemma order_of_pixel_map k k' :
    Permutation k' (map gpv k) -> NoDup (map snd k) -> order_of k' = map gpv (order_of k).
  Proof.
    intros HP Hnd. apply sorted_perm_unique.
    - apply order_of_sorted.
    - apply sorted_desc_gpv, order_of_sorted.
    - eapply Permutation_trans; [apply order_of_perm|].
      eapply Permutation_trans; [exact HP|]. apply Permutation_map, Permutation_sym, order_of_perm.
    - apply (Permutation_NoDup (l := map snd (map gpv k))).
      + apply Permutation_map. eapply Permutation_trans; [apply Permutation_sym, HP | apply Permutation_sym, order_of_perm].
      + rewrite snd_gpv. exact Hnd.
  Qed.

  (* the whole construction, final identifiers included *)
  Theorem compute_pixel_map k k' :
    Permutation k' (map gpv k) -> NoDup (map snd k) -> (forall pv, In pv k -> dom (fst pv)) ->
    rsim (relabel_forest (make_trunk indep (run adj indep (order_of k))))
         (relabel_forest (make_trunk indep' (run adj' indep' (order_of k')))).
  Proof.
    intros HP Hnd Hd.
    assert (Ho : forall pv, In pv (order_of k) -> dom (fst pv)).
    { intros pv Hpv. apply Hd. apply (Permutation_in _ (order_of_perm k)), Hpv. }
    unfold relabel_forest. apply rsim_relabel, rsim_make_trunk; [apply run_in_dom, Ho|].
    rewrite (order_of_pixel_map k k' HP Hnd). apply run_pixel_map. exact Ho.
  Qed.

  (* with ties: whatever the two processing orders, the parentless regions correspond (from
     run_pixel_map on one order and order independence of the roots on the other side) *)
End PixelMap.

(* ---- the built-in criteria other than contains_seeds satisfy the hypothesis indep_rel *)
Lemma minl_perm l l' : Permutation l l' -> minl l = minl l'.
Proof.
  intros HP. destruct l as [|x l].
  - apply Permutation_nil in HP. subst. reflexivity.
  - apply minl_ext; [discriminate|]. intros y. split; intros Hy.
    + apply (Permutation_in _ HP), Hy.
    + apply (Permutation_in _ (Permutation_sym HP)), Hy.
Qed.

Lemma sumZ_perm l l' : Permutation l l' -> sumZ l = sumZ l'.
Proof.
  induction 1 as [|x l l' _ IH|x y l|l l' l'' _ IH1 _ IH2].
  - reflexivity.
  - rewrite !sumZ_cons, IH. reflexivity.
  - rewrite !sumZ_cons. lia.
  - congruence.
Qed.

Theorem builtin_indep_rel g cs o o' v :
  (forall l, ~ In (Seeds l) cs) -> Permutation (map (gpv g) o) o' -> indep_of cs o' v = indep_of cs o v.
Proof.
  intros Hseed HP.
  assert (Hs : Permutation (map snd o) (map snd o')).
  { rewrite <- (snd_gpv g o). apply Permutation_map, HP. }
  assert (Hmax : vmax_l o' = vmax_l o) by (unfold vmax_l; symmetry; apply maxl_perm, Hs).
  assert (Hmin : vmin_l o' = vmin_l o) by (unfold vmin_l; symmetry; apply minl_perm, Hs).
  assert (Hlen : zlen o' = zlen o).
  { unfold zlen. rewrite <- (Permutation_length HP), map_length. reflexivity. }
  assert (Hsum : sumZ (map snd o') = sumZ (map snd o)) by (symmetry; apply sumZ_perm, Hs).
  assert (Hplain : forall c, In c cs -> crit_plain c o' = crit_plain c o).
  { intros c Hc. destruct c; cbn [crit_plain]; try congruence. exfalso. apply (Hseed l Hc). }
  destruct v as [v|]; cbn [indep_of]; apply forallb_ext_in'; intros c Hc.
  - destruct c; cbn [crit_at]; try (apply (Hplain _ Hc)). rewrite Hmax. reflexivity.
  - destruct c; cbn [crit_final]; try (apply (Hplain _ Hc)). rewrite Hmax, Hmin. reflexivity.
Qed.

(* ---- contains_seeds: with the seed positions mapped along, and g injective on the processed
   pixels and the seeds, the criterion gives the same answer on corresponding own lists *)
Definition map_crit (g : Z -> Z) (c : crit) : crit :=
  match c with Seeds l => Seeds (map g l) | _ => c end.

Lemma existsb_perm {A} (f : A -> bool) l l' : Permutation l l' -> existsb f l = existsb f l'.
Proof.
  induction 1 as [|x l l' _ IH|x y l|l l' l'' _ IH1 _ IH2]; cbn [existsb].
  - reflexivity.
  - rewrite IH. reflexivity.
  - destruct (f x), (f y); reflexivity.
  - rewrite IH1. exact IH2.
Qed.

Lemma existsb_ext_in {A} (f f' : A -> bool) l : (forall x, In x l -> f' x = f x) -> existsb f' l = existsb f l.
Proof.
  induction l as [|x l IH]; intros H; [reflexivity|]. cbn [existsb].
  rewrite (H x (or_introl eq_refl)), IH; [reflexivity|]. intros y Hy. apply H. right. exact Hy.
Qed.

Lemma memZ_map_inj g (dom : Z -> Prop) p l :
  (forall a b, dom a -> dom b -> g a = g b -> a = b) -> dom p -> (forall s, In s l -> dom s) ->
  memZ (g p) (map g l) = memZ p l.
Proof.
  intros Hinj Hp Hl. destruct (memZ p l) eqn:E.
  - apply memZ_In in E. apply memZ_In. apply in_map, E.
  - apply memZ_false in E. apply memZ_false. intros H. apply in_map_iff in H. destruct H as [s [Es Hs]].
    apply E. rewrite <- (Hinj s p (Hl s Hs) Hp Es). exact Hs.
Qed.

Theorem mapped_indep_rel g (dom : Z -> Prop) cs o o' v :
  (forall a b, dom a -> dom b -> g a = g b -> a = b) ->
  (forall l, In (Seeds l) cs -> forall s, In s l -> dom s) ->
  (forall pv, In pv o -> dom (fst pv)) ->
  Permutation (map (gpv g) o) o' ->
  indep_of (map (map_crit g) cs) o' v = indep_of cs o v.
Proof.
  intros Hinj Hseeds Hdom HP.
  assert (Hs : Permutation (map snd o) (map snd o')).
  { rewrite <- (snd_gpv g o). apply Permutation_map, HP. }
  assert (Hmax : vmax_l o' = vmax_l o) by (unfold vmax_l; symmetry; apply maxl_perm, Hs).
  assert (Hmin : vmin_l o' = vmin_l o) by (unfold vmin_l; symmetry; apply minl_perm, Hs).
  assert (Hlen : zlen o' = zlen o).
  { unfold zlen. rewrite <- (Permutation_length HP), map_length. reflexivity. }
  assert (Hsum : sumZ (map snd o') = sumZ (map snd o)) by (symmetry; apply sumZ_perm, Hs).
  assert (Hplain : forall c, In c cs -> crit_plain (map_crit g c) o' = crit_plain c o).
  { intros c Hc. destruct c; cbn [crit_plain map_crit]; try congruence.
    rewrite <- (existsb_perm _ _ _ HP). rewrite existsb_map'.
    apply existsb_ext_in. intros pv Hpv. cbn [gpv fst].
    apply (memZ_map_inj g dom (fst pv) l Hinj (Hdom pv Hpv) (Hseeds l Hc)). }
  destruct v as [v|]; cbn [indep_of]; rewrite forallb_map'; apply forallb_ext_in'; intros c Hc.
  - destruct c; cbn [crit_at map_crit]; try (apply (Hplain _ Hc)). rewrite Hmax. reflexivity.
  - destruct c; cbn [crit_final map_crit]; try (apply (Hplain _ Hc)). rewrite Hmax, Hmin. reflexivity.
Qed.

(* graph isomorphisms compose and the identity is one: transformations can be chained *)
Definition graph_iso (dom : Z -> Prop) (adj adj' : Z -> list Z) (g : Z -> Z) : Prop :=
  forall p q, dom p -> dom q -> (In (g q) (adj' (g p)) <-> In q (adj p)).

Lemma graph_iso_compose dom adj adj1 adj2 g1 g2 :
  graph_iso dom adj adj1 g1 -> graph_iso (fun x => exists p, dom p /\ x = g1 p) adj1 adj2 g2 ->
  graph_iso dom adj adj2 (fun p => g2 (g1 p)).
Proof.
  intros H1 H2 p q Hp Hq. rewrite <- (H1 p q Hp Hq). apply H2; [exists p | exists q]; split; try assumption; reflexivity.
Qed.

(* the hierarchy relation read on observables: same leaves / same regions *)
Lemma tsim_region_perm g t t' : tsim g t t' -> Permutation (map g (region t)) (region t').
Proof.
  intros H. apply tsim_regionv in H. rewrite !region_regionv.
  apply (Permutation_map fst) in H. rewrite map_map in H. rewrite map_map.
  erewrite map_ext; [exact H|]. intros [p v]. reflexivity.
Qed.
