(* Tree.v — structures as rose trees: the shared data type of all models.
   A node = one astrodendro Structure: identifier, own pixels (flat C-order
   index paired with the data value, in insertion order), ordered children.
   Definitions only; lemmas live in TreeLemmas.v. *)
From Coq Require Import ZArith List Bool Lia.
From Dendro Require Import Base.
Import ListNotations.
Open Scope Z_scope.

Inductive tree : Type := Node (id : Z) (own : list (Z * Z)) (kids : list tree).

Definition tid (t : tree) : Z := match t with Node i _ _ => i end.
Definition town (t : tree) : list (Z * Z) := match t with Node _ o _ => o end.
Definition tkids (t : tree) : list tree := match t with Node _ _ k => k end.

(* nested induction principle *)
Section tree_ind2.
  Variable P : tree -> Prop.
  Hypothesis HN : forall i o ks, Forall P ks -> P (Node i o ks).
  Fixpoint tree_ind2 (t : tree) : P t :=
    match t with
    | Node i o ks =>
        HN i o ks ((fix go (l : list tree) : Forall P l :=
                      match l with
                      | [] => Forall_nil P
                      | x :: r => Forall_cons x (tree_ind2 x) (go r)
                      end) ks)
    end.
End tree_ind2.

Definition is_leaf (t : tree) : bool := match tkids t with [] => true | _ => false end.

Definition opix (t : tree) : list Z := map fst (town t).      (* own pixels *)
Definition ovals (t : tree) : list Z := map snd (town t).     (* own values *)

(* all structures of a subtree, prefix order (Structure / Dendrogram iteration) *)
Fixpoint nodes (t : tree) : list tree :=
  match t with Node _ _ ks => t :: flat_map nodes ks end.
Definition fnodes (f : list tree) : list tree := flat_map nodes f.

(* pixels of a structure together with its substructures *)
Fixpoint region (t : tree) : list Z :=
  match t with Node _ o ks => map fst o ++ flat_map region ks end.
Fixpoint regionv (t : tree) : list (Z * Z) :=
  match t with Node _ o ks => o ++ flat_map regionv ks end.
Definition fregion (f : list tree) : list Z := flat_map region f.

Definition vmax (t : tree) : Z := maxl (ovals t).
Definition vmin (t : tree) : Z := minl (ovals t).
Definition small (t : tree) : Z := minl (opix t).             (* smallest_index *)
Definition npix_own (t : tree) : Z := zlen (town t).

(* Structure.height: minimum vmin of the children, or own vmax for a leaf *)
Definition height (t : tree) : Z :=
  match tkids t with
  | [] => vmax t
  | ks => minl (map vmin ks)
  end.

Fixpoint tsize (t : tree) : nat :=
  match t with Node _ _ ks => S (fold_right (fun k a => (tsize k + a)%nat) 0%nat ks) end.

Fixpoint depth (t : tree) : nat :=
  match t with Node _ _ ks => S (fold_right (fun k a => Nat.max (depth k) a) 0%nat ks) end.

(* id -> structure lookup (first match in prefix order) *)
Definition lookup (f : list tree) (i : Z) : option tree :=
  find (fun t => tid t =? i) (fnodes f).

(* label of a pixel = id of the structure owning it, -1 if none *)
Definition owner (f : list tree) (p : Z) : Z :=
  match find (fun t => memZ p (opix t)) (fnodes f) with
  | Some t => tid t
  | None => -1
  end.

Definition label_map (n : nat) (f : list tree) : list Z := map (owner f) (zseq n).

(* parent id of every node: association list (child id, parent id), -1 for roots *)
Fixpoint parents_from (pid : Z) (t : tree) : list (Z * Z) :=
  match t with Node i _ ks => (i, pid) :: flat_map (parents_from i) ks end.
Definition parent_table (f : list tree) : list (Z * Z) := flat_map (parents_from (-1)) f.

Fixpoint levels_from (lv : Z) (t : tree) : list (Z * Z) :=
  match t with Node i _ ks => (i, lv) :: flat_map (levels_from (lv + 1)) ks end.
Definition level_table (f : list tree) : list (Z * Z) := flat_map (levels_from 0) f.

(* Structure.descendants: breadth-first by generation *)
Fixpoint desc_gen (fuel : nat) (gen : list tree) : list tree :=
  match fuel with
  | O => []
  | S fuel' =>
      let children := flat_map tkids gen in
      match children with
      | [] => []
      | _ => children ++ desc_gen fuel' (filter (fun b => negb (is_leaf b)) children)
      end
  end.
Definition descendants (t : tree) : list tree := desc_gen (tsize t) [t].

Definition leaves_of (f : list tree) : list tree := filter is_leaf (fnodes f).

Fixpoint tree_eqb (a b : tree) : bool :=
  match a, b with
  | Node i o ks, Node j p ls =>
      (i =? j) && list_eqb (pair_eqb Z.eqb Z.eqb) o p &&
      (fix go (l1 l2 : list tree) : bool :=
         match l1, l2 with
         | [], [] => true
         | x :: r1, y :: r2 => tree_eqb x y && go r1 r2
         | _, _ => false
         end) ks ls
  end.

(* Structure.ancestor: the trunk structure at the top of the parent chain *)
Definition anc_table (f : list tree) : list (Z * Z) :=
  flat_map (fun r => map (fun u => (tid u, tid r)) (nodes r)) f.

Definition assoc (tb : list (Z * Z)) (i : Z) : Z :=
  match find (fun e => fst e =? i) tb with Some e => snd e | None => -2 end.

(* navigation observables per structure, in iteration order:
   (id, (level, (ancestor id, descendant ids in the order of Structure.descendants))) *)
Definition nav_view (f : list tree) : list (Z * (Z * (Z * list Z))) :=
  let lt := level_table f in
  let at_ := anc_table f in
  map (fun t => (tid t, (assoc lt (tid t), (assoc at_ (tid t), map tid (descendants t))))) (fnodes f).
