(* Flux.v — model of flux.compute_flux: exact unit algebra.  A scalar is c * pi^a * (ln 2)^b
   with c rational; a quantity is a scalar in SI-coherent base units together with its
   dimension (length, time, mass, temperature, angle[rad], beam).  astropy's unit parser and
   equivalencies are outside the model: the harness maps every unit it uses to (scalar, dim). *)
From Coq Require Import ZArith List Bool QArith Lia.
Import ListNotations.
Open Scope Q_scope.

Record sq : Type := { sc : Q; spi : Z; sln : Z }.       (* sc * pi^spi * (ln 2)^sln *)
Definition sq_of (c : Q) : sq := {| sc := c; spi := 0; sln := 0 |}.
Definition sq_mul (x y : sq) : sq := {| sc := sc x * sc y; spi := (spi x + spi y)%Z; sln := (sln x + sln y)%Z |}.
Definition sq_inv (x : sq) : sq := {| sc := / sc x; spi := (- spi x)%Z; sln := (- sln x)%Z |}.
Definition sq_div (x y : sq) : sq := sq_mul x (sq_inv y).
Definition sq_eq (x y : sq) : Prop := sc x == sc y /\ spi x = spi y /\ sln x = sln y.
(* sums are only taken between scalars with the same pi / ln 2 powers *)
Definition sq_scale (c : Q) (x : sq) : sq := {| sc := c * sc x; spi := spi x; sln := sln x |}.

Record dim : Type := { dL : Z; dT : Z; dM : Z; dK : Z; dA : Z; dB : Z }.
Definition dim_mul (a b : dim) : dim :=
  {| dL := dL a + dL b; dT := dT a + dT b; dM := dM a + dM b; dK := dK a + dK b; dA := dA a + dA b; dB := dB a + dB b |}%Z.
Definition dim_inv (a : dim) : dim :=
  {| dL := - dL a; dT := - dT a; dM := - dM a; dK := - dK a; dA := - dA a; dB := - dB a |}%Z.
Definition dim_eqb (a b : dim) : bool :=
  (dL a =? dL b)%Z && (dT a =? dT b)%Z && (dM a =? dM b)%Z && (dK a =? dK b)%Z && (dA a =? dA b)%Z && (dB a =? dB b)%Z.

Definition mkdim (l t m k a b : Z) : dim := {| dL := l; dT := t; dM := m; dK := k; dA := a; dB := b |}.
Definition d_one := mkdim 0 0 0 0 0 0.
Definition d_fnu := mkdim 0 (-2) 1 0 0 0.            (* W / m^2 / Hz = kg s^-2 *)
Definition d_flam := mkdim (-1) (-3) 1 0 0 0.        (* W / m^2 / m *)
Definition d_sb := mkdim 0 (-2) 1 0 (-2) 0.          (* Fnu per solid angle *)
Definition d_perbeam := mkdim 0 (-2) 1 0 0 (-1).     (* Fnu per beam *)
Definition d_temp := mkdim 0 0 0 1 0 0.
Definition d_len := mkdim 1 0 0 0 0 0.
Definition d_freq := mkdim 0 (-1) 0 0 0 0.
Definition d_angle := mkdim 0 0 0 0 1 0.

(* a unit = the scalar that converts a number in that unit to SI-coherent base units *)
Record unit : Type := { u_sq : sq; u_dim : dim }.
(* a quantity given by the caller: number and unit; None = item not supplied *)
Definition quantity : Type := Q * unit.
Definition phys (q : quantity) : sq := sq_scale (fst q) (u_sq (snd q)).

(* exact SI constants *)
Definition c_light : sq := sq_of (299792458 # 1).
Definition k_B : sq := sq_of (1380649 # 100000000000000000000000000000).   (* 1.380649e-23 J/K *)
Definition jy : sq := sq_of (1 # 100000000000000000000000000).            (* 1e-26 W/m^2/Hz *)
Definition beam_const : sq := sq_of (11331 # 10000).                        (* the code's 1.1331 *)

Inductive err : Type :=
| EWavelengthLength | EWavelengthNeeded
| ESpatialAngle | ESpatialNeeded
| EBeamMajorAngle | EBeamMajorNeeded | EBeamMinorAngle | EBeamMinorNeeded
| EUnsupported | EOutputUnit.

Inductive res : Type := Ok (v : sq) | Err (e : err).

Definition is_dim (q : option quantity) (d : dim) : bool :=
  match q with Some x => dim_eqb (u_dim (snd x)) d | None => true end.

(* "X is not None and not equivalent -> error A; X is None -> error B", in source order *)
Definition need (q : option quantity) (ok : bool) (e_type e_missing : err) (k : quantity -> res) : res :=
  match q with
  | Some x => if ok then k x else Err e_type
  | None => Err e_missing
  end.

Definition is_spectral (q : quantity) : bool :=
  dim_eqb (u_dim (snd q)) d_len || dim_eqb (u_dim (snd q)) d_freq.
(* frequency from a wavelength or a frequency (u.spectral()) *)
Definition freq_of (q : quantity) : sq :=
  if dim_eqb (u_dim (snd q)) d_freq then phys q else sq_div c_light (phys q).

(* total flux in SI (W/m^2/Hz) for the sum s of the input numbers *)
Definition total_si (s : Q) (uin : unit) (wavelength spatial beam_major beam_minor : option quantity) : res :=
  let v := sq_scale s (u_sq uin) in
  if dim_eqb (u_dim uin) d_fnu then Ok v
  else if dim_eqb (u_dim uin) d_flam then
    need wavelength (is_dim wavelength d_len) EWavelengthLength EWavelengthNeeded (fun w =>
      (* q = F_lambda * wavelength / nu, nu = c / wavelength *)
      Ok (sq_div (sq_mul v (phys w)) (sq_div c_light (phys w))))
  else if dim_eqb (u_dim uin) d_sb then
    need spatial (is_dim spatial d_angle) ESpatialAngle ESpatialNeeded (fun ss =>
      Ok (sq_mul v (sq_mul (phys ss) (phys ss))))
  else if dim_eqb (u_dim uin) d_perbeam then
    need spatial (is_dim spatial d_angle) ESpatialAngle ESpatialNeeded (fun ss =>
    need beam_major (is_dim beam_major d_angle) EBeamMajorAngle EBeamMajorNeeded (fun bmaj =>
    need beam_minor (is_dim beam_minor d_angle) EBeamMinorAngle EBeamMinorNeeded (fun bmin =>
      Ok (sq_mul v (sq_div (sq_mul (phys ss) (phys ss)) (sq_mul (sq_mul (phys bmin) (phys bmaj)) beam_const))))))
  else if dim_eqb (u_dim uin) d_temp then
    need spatial (is_dim spatial d_angle) ESpatialAngle ESpatialNeeded (fun ss =>
    need beam_major (is_dim beam_major d_angle) EBeamMajorAngle EBeamMajorNeeded (fun bmaj =>
    need beam_minor (is_dim beam_minor d_angle) EBeamMinorAngle EBeamMinorNeeded (fun bmin =>
    need wavelength (match wavelength with Some w => is_spectral w | None => true end) EWavelengthLength EWavelengthNeeded (fun w =>
      let nu := freq_of w in
      (* omega_beam = pi * 2 / (8 ln 2) * bmaj * bmin *)
      let omega := sq_mul {| sc := 2 # 8; spi := 1; sln := -1 |} (sq_mul (phys bmaj) (phys bmin)) in
      (* Rayleigh-Jeans: Jy per beam = 2 k nu^2 / c^2 * T * omega_beam *)
      let per_beam := sq_mul (sq_mul (sq_div (sq_mul (sq_of 2) (sq_mul k_B (sq_mul nu nu))) (sq_mul c_light c_light)) v) omega in
      let beams_per_pixel := sq_div (sq_mul (phys ss) (phys ss)) omega in
      Ok (sq_mul per_beam beams_per_pixel)))))
  else Err EUnsupported.

Definition qsumQ (l : list Q) : Q := fold_right Qplus 0 l.

(* compute_flux: the number to be shown in front of the output unit *)
Definition compute_flux (vals : list Q) (uin uout : unit)
           (wavelength spatial beam_major beam_minor : option quantity) : res :=
  match total_si (qsumQ vals) uin wavelength spatial beam_major beam_minor with
  | Err e => Err e
  | Ok t => if dim_eqb (u_dim uout) d_fnu then Ok (sq_div t (u_sq uout)) else Err EOutputUnit
  end.
