(* CritMono.v — which built-in criteria stay satisfied while a leaf grows.
   During compute a parentless leaf is tested again every time another structure reaches it
   (is_independent(leaf, index, value)), each time with more own pixels and a meeting value
   that is no higher.  For min_delta, min_npix, min_peak and contains_seeds a leaf that passed
   once passes ever after (so a re-test could be skipped for them); for min_sum it need not
   (negative pixels): there the re-test is part of the construction.  Lemmas only. *)
From Coq Require Import ZArith List Bool Lia.
From Dendro Require Import Base BaseLemmas Criteria.
Import ListNotations.
Open Scope Z_scope.

Definition monotone_crit (c : crit) : bool :=
  match c with MinSum _ => false | MinNpix _ den => 0 <? den | _ => true end.

Lemma maxl_app_ge l q : l <> [] -> maxl l <= maxl (l ++ q).
Proof.
  intros Hl. apply maxl_ge. apply in_or_app. left. apply maxl_in. exact Hl.
Qed.

Lemma vmax_l_grows (o q : list (Z * Z)) : o <> [] -> vmax_l o <= vmax_l (o ++ q).
Proof.
  intros Ho. unfold vmax_l. rewrite map_app. apply maxl_app_ge.
  destruct o; [congruence | discriminate].
Qed.

(* one criterion: more own pixels (appended, as the model and the code do), lower meeting value *)
Lemma crit_at_grows c o q v v' :
  monotone_crit c = true -> o <> [] -> v' <= v ->
  crit_at c o v = true -> crit_at c (o ++ q) v' = true.
Proof.
  intros Hm Ho Hv H. pose proof (vmax_l_grows o q Ho) as Hg.
  destruct c as [d | num den | pk | s | l]; cbn [crit_at crit_plain monotone_crit] in *.
  - apply Z.leb_le in H. apply Z.leb_le. lia.
  - apply Z.leb_le in H. apply Z.ltb_lt in Hm. apply Z.leb_le. rewrite zlen_app.
    pose proof (zlen_nonneg q). nia.
  - apply Z.leb_le in H. apply Z.leb_le. lia.
  - discriminate.
  - rewrite existsb_app, H. reflexivity.
Qed.

Lemma crit_final_grows c o q :
  monotone_crit c = true -> o <> [] ->
  (forall x, In x (map snd q) -> x <= vmin_l o) ->
  crit_final c o = true -> crit_final c (o ++ q) = true.
Proof.
  intros Hm Ho Hq H. pose proof (vmax_l_grows o q Ho) as Hg.
  destruct c as [d | num den | pk | s | l]; cbn [crit_final crit_plain monotone_crit] in *.
  - apply Z.leb_le in H. apply Z.leb_le.
    assert (Hmin : vmin_l (o ++ q) <= vmin_l o).
    { unfold vmin_l. rewrite map_app. apply minl_le. apply in_or_app. left. apply minl_in.
      destruct o; [congruence | discriminate]. }
    lia.
  - apply Z.leb_le in H. apply Z.ltb_lt in Hm. apply Z.leb_le. rewrite zlen_app.
    pose proof (zlen_nonneg q). nia.
  - apply Z.leb_le in H. apply Z.leb_le. lia.
  - discriminate.
  - rewrite existsb_app, H. reflexivity.
Qed.

(* the whole criteria list *)
Theorem indep_stays_while_growing cs o q v v' :
  forallb monotone_crit cs = true -> o <> [] -> v' <= v ->
  indep_of cs o (Some v) = true -> indep_of cs (o ++ q) (Some v') = true.
Proof.
  intros Hm Ho Hv. unfold indep_of. rewrite !forallb_forall in *.
  intros H c Hc. apply crit_at_grows with (v := v); auto.
Qed.

(* min_sum is not of this kind: a leaf passes with sum 5 >= 5 and fails after growing by a
   pixel of value -1, although the meeting value dropped *)
Theorem min_sum_may_be_lost :
  exists o q v v', o <> [] /\ v' <= v /\
    indep_of [MinSum 5] o (Some v) = true /\ indep_of [MinSum 5] (o ++ q) (Some v') = false.
Proof.
  exists [(0, 5)], [(1, -1)], 0, (-1).
  split; [discriminate |]. split; [lia |]. split; vm_compute; reflexivity.
Qed.
