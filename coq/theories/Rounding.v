(* Rounding.v — what numpy does when a 64-bit integer meets a double: the integer is converted to
   the nearest double, ties to even (IEEE 754 binary64, 53 significant bits).  to_double is that
   conversion on Z for every integer (any magnitude: the exponent range of doubles is not reached by
   64-bit integers).  Two known findings are this conversion at work:
     K9  (C20)  Dendrogram.__eq__ compares an int64 array with its float64 cast through it, so arrays
                holding different numbers compare equal;
     K10 (C01)  an integer min_value is converted before float64 data are compared with it, so a
                pixel strictly above the threshold can be left out.
   Both are proved here as refutations with explicit witnesses; the correspondence check compares
   to_double with Python's float(int) on integers around 2^53 ... 2^64. *)
From Coq Require Import ZArith Bool Lia.
Open Scope Z_scope.

(* number of binary digits of a positive integer *)
Definition bits (z : Z) : Z := Z.log2 z + 1.

(* round-half-to-even of z / 2^k (k >= 0), times 2^k *)
Definition round_at (k z : Z) : Z :=
  let q := z / 2 ^ k in
  let r := z mod 2 ^ k in
  let half := 2 ^ k / 2 in
  let up := if r <? half then false
            else if half <? r then true
            else Z.odd q in                       (* tie: to even *)
  (if up then q + 1 else q) * 2 ^ k.

Definition to_double_pos (z : Z) : Z :=
  if bits z <=? 53 then z else round_at (bits z - 53) z.

Definition to_double (z : Z) : Z :=
  if z =? 0 then 0 else if 0 <? z then to_double_pos z else - to_double_pos (- z).

(* integers of at most 53 bits are doubles *)
Lemma to_double_exact z : Z.abs z < 2 ^ 53 -> to_double z = z.
Proof.
  intros H. unfold to_double. destruct (z =? 0) eqn:E0; [apply Z.eqb_eq in E0; lia|].
  apply Z.eqb_neq in E0.
  assert (Hb : forall p, 0 < p -> p < 2 ^ 53 -> to_double_pos p = p).
  { intros p Hp Hlt. unfold to_double_pos, bits.
    assert (Z.log2 p < 53) by (apply Z.log2_lt_pow2; lia).
    destruct (Z.log2 p + 1 <=? 53) eqn:E; [reflexivity|]. apply Z.leb_gt in E. lia. }
  destruct (0 <? z) eqn:Ep.
  - apply Z.ltb_lt in Ep. apply Hb; lia.
  - apply Z.ltb_ge in Ep. rewrite Hb; lia.
Qed.

(* K9: numpy's element-wise == between an int64 array and a float64 array *)
Definition numpy_int_eq_double (i d : Z) : bool := to_double i =? d.

Theorem mixed_dtype_equality_refuted :
  exists i d, d = to_double i /\ i <> d /\ numpy_int_eq_double i d = true.
Proof. exists (2 ^ 53 + 1), (2 ^ 53). vm_compute. repeat split; congruence. Qed.

(* K10: float64 data compared with an integer threshold *)
Definition numpy_double_gt_int (d t : Z) : bool := to_double t <? d.

Theorem integer_threshold_refuted :
  exists d t, to_double d = d /\ t < d /\ numpy_double_gt_int d t = false.
Proof. exists (2 ^ 53 + 4), (2 ^ 53 + 3). vm_compute. repeat split; congruence. Qed.

(* ... and where the threshold is itself a double the comparison is exact *)
Theorem double_threshold_exact d t : to_double t = t -> numpy_double_gt_int d t = (t <? d).
Proof. intros H. unfold numpy_double_gt_int. rewrite H. reflexivity. Qed.

Example to_double_examples :
  to_double (2 ^ 53 + 1) = 2 ^ 53 /\ to_double (2 ^ 53 + 3) = 2 ^ 53 + 4 /\ to_double (2 ^ 53 + 2) = 2 ^ 53 + 2 /\
  to_double (- (2 ^ 60) - 129) = - (2 ^ 60) - 256 /\ to_double (2 ^ 64 - 1) = 2 ^ 64 /\ to_double (2 ^ 63 + 1024) = 2 ^ 63.
Proof. vm_compute. repeat split; reflexivity. Qed.
