(* GridSym.v — C16/C17: Dendrogram.compute commutes with the relabellings of GridIso.v.
   Distinct above-threshold values: the same hierarchy on the mapped pixels (tsim: regions,
   own pixels with their values, parent relation; identifiers and child order are naming).
   Arbitrary values (ties): the parentless regions correspond. *)
From Coq Require Import ZArith List Bool Lia Permutation Sorted.
From Dendro Require Import Base BaseLemmas Tree TreeLemmas Grid GridLemmas Criteria Compute ComputeInv ComputeThm
     Symmetry PixelMap GridIso.
Import ListNotations.
Open Scope Z_scope.

Lemma NoDup_map_inj_on {A B} (f : A -> B) l :
  (forall x y, In x l -> In y l -> f x = f y -> x = y) -> NoDup l -> NoDup (map f l).
Proof.
  intros Hinj Hnd. induction Hnd as [|a l Ha _ IH]; cbn [map]; constructor.
  - intros H. apply in_map_iff in H. destruct H as [y [E Hy]].
    apply Hinj in E; [|right; exact Hy|left; reflexivity]. subst. contradiction.
  - apply IH. intros x y Hx Hy. apply Hinj; right; assumption.
Qed.

Lemma kept_NoDup vals minv : NoDup (map fst (kept vals minv)).
Proof.
  apply (Permutation_NoDup (l := map fst (order_of (kept vals minv)))).
  - apply Permutation_map, order_of_perm.
  - apply order_of_NoDup.
Qed.

(* the transformed array carries the same above-threshold values at the mapped pixels and
   nothing else above the threshold (padding: below threshold or NaN) *)
Definition carried (g : Z -> Z) (k k' : list (Z * Z)) : Prop :=
  (forall p v, In (p, v) k -> In (g p, v) k') /\
  (forall x v, In (x, v) k' -> exists p, x = g p /\ In (p, v) k).

Lemma carried_perm g k k' :
  NoDup (map fst k) -> NoDup (map fst k') ->
  (forall p q, In p (map fst k) -> In q (map fst k) -> g p = g q -> p = q) ->
  carried g k k' -> Permutation k' (map (gpv g) k).
Proof.
  intros Hnd Hnd' Hinj [H1 H2]. apply NoDup_Permutation.
  - apply (NoDup_map_inv fst), Hnd'.
  - apply NoDup_map_inj_on; [|apply (NoDup_map_inv fst), Hnd].
    intros [p v] [q w] Hp Hq E. unfold gpv in E. cbn [fst snd] in E. injection E as E ->.
    f_equal. apply Hinj; [apply (in_map fst _ _ Hp) | apply (in_map fst _ _ Hq) | exact E].
  - intros [x v]. split.
    + intros Hx. destruct (H2 x v Hx) as [p [-> Hp]]. apply in_map_iff. exists (p, v). split; [reflexivity | exact Hp].
    + intros Hx. apply in_map_iff in Hx. destruct Hx as [[p w] [E Hp]]. unfold gpv in E. cbn [fst snd] in E.
      injection E as <- <-. apply H1, Hp.
Qed.

Section Relabel.
  Variables (shape shape' : list Z) (per per' : list bool) (g : Z -> Z).
  Hypothesis Hiso : giso shape per shape' per' g.
  Variables (vals vals' : list (option Z)) (minv : option Z) (cs : list crit).
  Hypothesis Hrange : forall pv, In pv (kept vals minv) -> inrange shape (fst pv).
  Hypothesis Hcarried : carried g (kept vals minv) (kept vals' minv).
  Hypothesis Hseeds : forall l, ~ In (Seeds l) cs.

  Lemma kept_perm : Permutation (kept vals' minv) (map (gpv g) (kept vals minv)).
  Proof.
    apply carried_perm; [apply kept_NoDup | apply kept_NoDup | | exact Hcarried].
    intros p q Hp Hq. apply in_map_iff in Hp, Hq. destruct Hp as [pv [<- Hp]]. destruct Hq as [qv [<- Hq]].
    apply (gi_inj _ _ _ _ _ Hiso); apply Hrange; assumption.
  Qed.

  (* C16 / C17, distinct values: the same hierarchy on the mapped pixels *)
  Theorem compute_relabelled :
    NoDup (map snd (kept vals minv)) ->
    rsim g (compute shape (AdjGrid per) vals minv cs) (compute shape' (AdjGrid per') vals' minv cs).
  Proof.
    intros Hnd. unfold compute. cbn [adj_of].
    eapply rsim_perm_l; [apply Permutation_sym, sort_by_perm|].
    eapply rsim_perm_r; [|apply Permutation_sym, sort_by_perm].
    apply (compute_pixel_map g (inrange shape) (indep_of cs) (indep_of cs)
             (fun o o' v _ HP => builtin_indep_rel g cs o o' v Hseeds HP)
             (nbrs shape per) (nbrs shape' per')).
    - intros p q Hp Hq. apply (gi_adj _ _ _ _ _ Hiso); assumption.
    - exact kept_perm.
    - exact Hnd.
    - exact Hrange.
  Qed.

  (* arbitrary values, ties included: the parentless regions correspond *)
  Theorem roots_relabelled :
    allpos shape' ->
    forall r' x', In r' (run (nbrs shape' per') (indep_of cs) (order_of (kept vals' minv))) -> In x' (region r') ->
    exists r, In r (run (nbrs shape per) (indep_of cs) (order_of (kept vals minv))) /\
              forall y', In y' (region r') <-> exists y, In y (region r) /\ y' = g y.
  Proof.
    intros Hpos r' x' Hr' Hx'.
    set (o1 := order_of (kept vals' minv)) in *. set (o := order_of (kept vals minv)).
    assert (HP : Permutation o1 (map (gpv g) o)).
    { unfold o1, o. eapply Permutation_trans; [apply order_of_perm|].
      eapply Permutation_trans; [apply kept_perm|]. apply Permutation_map, Permutation_sym, order_of_perm. }
    assert (Hnd1 : NoDup (map fst o1)) by apply order_of_NoDup.
    assert (Hnd2 : NoDup (map fst (map (gpv g) o))).
    { apply (Permutation_NoDup (l := map fst o1)); [apply Permutation_map, HP | exact Hnd1]. }
    destruct (roots_order_independent (nbrs shape' per') (indep_of cs) (indep_of cs) o1 (map (gpv g) o)
                Hnd1 (order_of_sorted _) Hnd2 (sorted_desc_gpv g o (order_of_sorted _))) with (r1 := r') (x := x')
      as [r2 [Hr2 [_ Hsame]]].
    - intros p. split; intros Hp.
      + apply (Permutation_in _ (Permutation_map fst HP)), Hp.
      + apply (Permutation_in _ (Permutation_sym (Permutation_map fst HP))), Hp.
    - intros a b _ _ Hab. apply nbrs_sym; assumption.
    - exact Hr'.
    - exact Hx'.
    - assert (Hrs : rsim g (run (nbrs shape per) (indep_of cs) o) (run (nbrs shape' per') (indep_of cs) (map (gpv g) o))).
      { apply (run_pixel_map g (inrange shape) (indep_of cs) (indep_of cs)
                 (fun o0 o' v _ HP0 => builtin_indep_rel g cs o0 o' v Hseeds HP0)
                 (nbrs shape per) (nbrs shape' per')).
        - intros p q Hp Hq. apply (gi_adj _ _ _ _ _ Hiso); assumption.
        - intros pv Hpv. apply Hrange. apply (Permutation_in _ (order_of_perm _)), Hpv. }
      destruct (rsim_In_r g _ _ r2 Hrs Hr2) as [r [Hr Hsim]].
      exists r. split; [exact Hr|]. intros y'. rewrite (Hsame y'). apply (tsim_region_In g r r2 y' Hsim).
  Qed.
End Relabel.

(* ---- contains_seeds: the same hierarchy when the seed positions are mapped along with the pixels *)
Section RelabelSeeds.
  Variables (shape shape' : list Z) (per per' : list bool) (g : Z -> Z).
  Hypothesis Hiso : giso shape per shape' per' g.
  Variables (vals vals' : list (option Z)) (minv : option Z) (cs : list crit).
  Hypothesis Hrange : forall pv, In pv (kept vals minv) -> inrange shape (fst pv).
  Hypothesis Hcarried : carried g (kept vals minv) (kept vals' minv).
  Hypothesis Hseeds_in : forall l, In (Seeds l) cs -> forall s, In s l -> inrange shape s.

  Theorem compute_relabelled_seeds :
    NoDup (map snd (kept vals minv)) ->
    rsim g (compute shape (AdjGrid per) vals minv cs)
           (compute shape' (AdjGrid per') vals' minv (map (map_crit g) cs)).
  Proof.
    intros Hnd. unfold compute. cbn [adj_of].
    eapply rsim_perm_l; [apply Permutation_sym, sort_by_perm|].
    eapply rsim_perm_r; [|apply Permutation_sym, sort_by_perm].
    apply (compute_pixel_map g (inrange shape) (indep_of cs) (indep_of (map (map_crit g) cs))
             (fun o o' v Hd HP => mapped_indep_rel g (inrange shape) cs o o' v (gi_inj _ _ _ _ _ Hiso) Hseeds_in Hd HP)
             (nbrs shape per) (nbrs shape' per')).
    - intros p q Hp Hq. apply (gi_adj _ _ _ _ _ Hiso); assumption.
    - exact (kept_perm shape shape' per per' g Hiso vals vals' minv Hrange Hcarried).
    - exact Hnd.
    - exact Hrange.
  Qed.
End RelabelSeeds.

(* non-vacuity: a 2 x 3 array, periodic along the first axis, shifted by one row *)
Example relabel_example :
  let shape := [2; 3] in let per := [true; false] in
  let g := ghead 3 3 (rot1 2) (fun p => p) in
  let vals := [Some 5; Some 1; Some 7; Some 2; Some 9; Some 3] in
  let vals' := [Some 2; Some 9; Some 3; Some 5; Some 1; Some 7] in
  giso shape per shape per g /\ carried g (kept vals None) (kept vals' None) /\
  NoDup (map snd (kept vals None)) /\
  let norm := fun l : list (list Z) => sort_by (fun r => hd 0 r) (map (sort_by (fun x => x)) l) in
  norm (map region (fnodes (compute shape (AdjGrid per) vals' None []))) =
  norm (map (fun t => map g (region t)) (fnodes (compute shape (AdjGrid per) vals None []))) /\
  length (fnodes (compute shape (AdjGrid per) vals None [])) = 5%nat.
Proof.
  cbn zeta. split; [|split; [|split]].
  - apply (giso_rot1 2 [3] [false]); [repeat constructor | lia].
  - split.
    + intros p v H. vm_compute in H. vm_compute.
      repeat (destruct H as [H|H]; [injection H as <- <-; tauto|]). destruct H.
    + intros x v H. vm_compute in H.
      repeat (destruct H as [H|H]; [injection H as <- <-; eexists; split; [|vm_compute; eauto 10]; reflexivity|]). destruct H.
  - vm_compute. repeat constructor; cbn; intuition discriminate.
  - vm_compute. split; reflexivity.
Qed.
