(* FluxLemmas.v — C13 *)
From Coq Require Import ZArith List Bool QArith Lia.
From Dendro Require Import Flux.
Import ListNotations.
Open Scope Q_scope.

Ltac sqsimp := unfold sq_eq, sq_div, sq_mul, sq_inv, sq_scale, sq_of in *; cbn [sc spi sln] in *.

Lemma sq_eq_refl x : sq_eq x x.
Proof. repeat split; reflexivity. Qed.

Definition res_eq (a b : res) : Prop :=
  match a, b with
  | Ok x, Ok y => sq_eq x y
  | Err e, Err f => e = f
  | _, _ => False
  end.

Definition res_scale (c : Q) (r : res) : res := match r with Ok v => Ok (sq_scale c v) | Err e => Err e end.

Lemma qsumQ_nil : qsumQ [] = 0.
Proof. reflexivity. Qed.
Lemma qsumQ_cons x l : qsumQ (x :: l) = x + qsumQ l.
Proof. reflexivity. Qed.

Lemma qsumQ_scale c l : qsumQ (map (Qmult c) l) == c * qsumQ l.
Proof. induction l as [|x l IH]; cbn [map]; [rewrite !qsumQ_nil; ring|]. rewrite !qsumQ_cons, IH. ring. Qed.

Lemma qsumQ_app l1 l2 : qsumQ (l1 ++ l2) == qsumQ l1 + qsumQ l2.
Proof. induction l1 as [|x l1 IH]; cbn [app]; [rewrite qsumQ_nil; ring|]. rewrite !qsumQ_cons, IH. ring. Qed.

(* the SI total is linear in the summed input *)
Lemma total_si_linear s1 s2 c uin w ss bmaj bmin :
  s2 == c * s1 ->
  res_eq (total_si s2 uin w ss bmaj bmin) (res_scale c (total_si s1 uin w ss bmaj bmin)).
Proof.
  intros E. unfold total_si, need.
  destruct (dim_eqb (u_dim uin) d_fnu).
  { cbn. repeat split; cbn; try reflexivity. rewrite E. ring. }
  destruct (dim_eqb (u_dim uin) d_flam).
  { destruct w as [wq|]; [|reflexivity]. destruct (is_dim (Some wq) d_len); [|reflexivity].
    cbn. repeat split; cbn; try reflexivity. rewrite E. ring. }
  destruct (dim_eqb (u_dim uin) d_sb).
  { destruct ss as [q|]; [|reflexivity]. destruct (is_dim (Some q) d_angle); [|reflexivity].
    cbn. repeat split; cbn; try reflexivity. rewrite E. ring. }
  destruct (dim_eqb (u_dim uin) d_perbeam).
  { destruct ss as [q|]; [|reflexivity]. destruct (is_dim (Some q) d_angle); [|reflexivity].
    destruct bmaj as [q1|]; [|reflexivity]. destruct (is_dim (Some q1) d_angle); [|reflexivity].
    destruct bmin as [q2|]; [|reflexivity]. destruct (is_dim (Some q2) d_angle); [|reflexivity].
    cbn. repeat split; cbn; try reflexivity. rewrite E. ring. }
  destruct (dim_eqb (u_dim uin) d_temp); [|reflexivity].
  destruct ss as [q|]; [|reflexivity]. destruct (is_dim (Some q) d_angle); [|reflexivity].
  destruct bmaj as [q1|]; [|reflexivity]. destruct (is_dim (Some q1) d_angle); [|reflexivity].
  destruct bmin as [q2|]; [|reflexivity]. destruct (is_dim (Some q2) d_angle); [|reflexivity].
  destruct w as [wq|]; [|reflexivity]. destruct (is_spectral wq); [|reflexivity].
  cbn. repeat split; cbn; try reflexivity. rewrite E. ring.
Qed.

(* C13: the total flux is proportional to the input values *)
Theorem flux_linear c vals uin uout w ss bmaj bmin :
  res_eq (compute_flux (map (Qmult c) vals) uin uout w ss bmaj bmin)
         (res_scale c (compute_flux vals uin uout w ss bmaj bmin)).
Proof.
  unfold compute_flux.
  pose proof (total_si_linear (qsumQ vals) (qsumQ (map (Qmult c) vals)) c uin w ss bmaj bmin (qsumQ_scale c vals)) as H.
  destruct (total_si (qsumQ (map (Qmult c) vals)) uin w ss bmaj bmin) as [t2|e2],
           (total_si (qsumQ vals) uin w ss bmaj bmin) as [t1|e1]; cbn in H |- *; try contradiction.
  - destruct (dim_eqb (u_dim uout) d_fnu); cbn; [|reflexivity].
    sqsimp. destruct H as [H1 [H2 H3]]. repeat split; [rewrite H1; ring | lia | lia].
  - congruence.
Qed.

(* C13: additive over any split of the pixels (same units and metadata): the flux of the
   whole is determined by the sum, and the sum of a concatenation is the sum of the sums *)
Theorem flux_depends_on_sum vals1 vals2 uin uout w ss bmaj bmin :
  qsumQ vals1 == qsumQ vals2 ->
  res_eq (compute_flux vals1 uin uout w ss bmaj bmin) (compute_flux vals2 uin uout w ss bmaj bmin).
Proof.
  intros E. unfold compute_flux.
  assert (H : res_eq (total_si (qsumQ vals1) uin w ss bmaj bmin) (res_scale 1 (total_si (qsumQ vals2) uin w ss bmaj bmin))).
  { apply total_si_linear. rewrite E. ring. }
  destruct (total_si (qsumQ vals1) uin w ss bmaj bmin) as [t1|e1],
           (total_si (qsumQ vals2) uin w ss bmaj bmin) as [t2|e2]; cbn in H |- *; try contradiction.
  - destruct (dim_eqb (u_dim uout) d_fnu); cbn; [|reflexivity].
    sqsimp. destruct H as [H1 [H2 H3]]. repeat split; [rewrite H1; ring | lia | lia].
  - congruence.
Qed.

Definition res_add (a b : res) : res :=
  match a, b with
  | Ok x, Ok y => Ok {| sc := sc x + sc y; spi := spi x; sln := sln x |}
  | Err e, _ => Err e
  | _, Err e => Err e
  end.

Theorem flux_additive vals1 vals2 uin uout w ss bmaj bmin :
  res_eq (compute_flux (vals1 ++ vals2) uin uout w ss bmaj bmin)
         (res_add (compute_flux vals1 uin uout w ss bmaj bmin) (compute_flux vals2 uin uout w ss bmaj bmin)).
Proof.
  unfold compute_flux, total_si, need.
  pose proof (qsumQ_app vals1 vals2) as Es.
  destruct (dim_eqb (u_dim uin) d_fnu).
  { destruct (dim_eqb (u_dim uout) d_fnu); cbn; [|reflexivity]. repeat split; cbn; try lia. rewrite Es. ring. }
  destruct (dim_eqb (u_dim uin) d_flam).
  { destruct w as [wq|]; [|reflexivity]. destruct (is_dim (Some wq) d_len); [|reflexivity].
    destruct (dim_eqb (u_dim uout) d_fnu); cbn; [|reflexivity]. repeat split; cbn; try lia. rewrite Es. ring. }
  destruct (dim_eqb (u_dim uin) d_sb).
  { destruct ss as [q|]; [|reflexivity]. destruct (is_dim (Some q) d_angle); [|reflexivity].
    destruct (dim_eqb (u_dim uout) d_fnu); cbn; [|reflexivity]. repeat split; cbn; try lia. rewrite Es. ring. }
  destruct (dim_eqb (u_dim uin) d_perbeam).
  { destruct ss as [q|]; [|reflexivity]. destruct (is_dim (Some q) d_angle); [|reflexivity].
    destruct bmaj as [q1|]; [|reflexivity]. destruct (is_dim (Some q1) d_angle); [|reflexivity].
    destruct bmin as [q2|]; [|reflexivity]. destruct (is_dim (Some q2) d_angle); [|reflexivity].
    destruct (dim_eqb (u_dim uout) d_fnu); cbn; [|reflexivity]. repeat split; cbn; try lia. rewrite Es. ring. }
  destruct (dim_eqb (u_dim uin) d_temp); [|reflexivity].
  destruct ss as [q|]; [|reflexivity]. destruct (is_dim (Some q) d_angle); [|reflexivity].
  destruct bmaj as [q1|]; [|reflexivity]. destruct (is_dim (Some q1) d_angle); [|reflexivity].
  destruct bmin as [q2|]; [|reflexivity]. destruct (is_dim (Some q2) d_angle); [|reflexivity].
  destruct w as [wq|]; [|reflexivity]. destruct (is_spectral wq); [|reflexivity].
  destruct (dim_eqb (u_dim uout) d_fnu); cbn; [|reflexivity]. repeat split; cbn; try lia. rewrite Es. ring.
Qed.

(* ---- the result is expressed in the requested output unit *)
Theorem flux_output_unit vals uin uout w ss bmaj bmin t r :
  ~ sc (u_sq uout) == 0 ->
  total_si (qsumQ vals) uin w ss bmaj bmin = Ok t ->
  compute_flux vals uin uout w ss bmaj bmin = Ok r ->
  sq_eq (sq_mul r (u_sq uout)) t /\ u_dim uout = u_dim uout /\ dim_eqb (u_dim uout) d_fnu = true.
Proof.
  intros Hnz Ht Hr. unfold compute_flux in Hr. rewrite Ht in Hr.
  destruct (dim_eqb (u_dim uout) d_fnu) eqn:E; [|discriminate]. injection Hr as <-.
  split; [|split; reflexivity]. sqsimp. repeat split; [field; exact Hnz | lia | lia].
Qed.

Theorem flux_output_must_be_flux_density vals uin uout w ss bmaj bmin t :
  total_si (qsumQ vals) uin w ss bmaj bmin = Ok t -> dim_eqb (u_dim uout) d_fnu = false ->
  compute_flux vals uin uout w ss bmaj bmin = Err EOutputUnit.
Proof. intros Ht E. unfold compute_flux. rewrite Ht, E. reflexivity. Qed.

(* ---- equal physical inputs expressed in different units give equal results *)
Definition q_same (a b : option quantity) : Prop :=
  match a, b with
  | Some x, Some y => sq_eq (phys x) (phys y) /\ u_dim (snd x) = u_dim (snd y)
  | None, None => True
  | _, _ => False
  end.

Lemma is_dim_same a b d : q_same a b -> is_dim a d = is_dim b d.
Proof. destruct a, b; cbn; try tauto. intros [_ E]. rewrite E. reflexivity. Qed.

Lemma freq_of_same x y : sq_eq (phys x) (phys y) -> u_dim (snd x) = u_dim (snd y) -> sq_eq (freq_of x) (freq_of y).
Proof.
  intros [H1 [H2 H3]] E. unfold freq_of. rewrite E. destruct (dim_eqb (u_dim (snd y)) d_freq).
  - repeat split; assumption.
  - sqsimp. repeat split; [rewrite H1; reflexivity | lia | lia].
Qed.

Theorem flux_unit_invariant s1 s2 uin1 uin2 w1 w2 ss1 ss2 bj1 bj2 bn1 bn2 :
  sq_eq (sq_scale s1 (u_sq uin1)) (sq_scale s2 (u_sq uin2)) -> u_dim uin1 = u_dim uin2 ->
  q_same w1 w2 -> q_same ss1 ss2 -> q_same bj1 bj2 -> q_same bn1 bn2 ->
  res_eq (total_si s1 uin1 w1 ss1 bj1 bn1) (total_si s2 uin2 w2 ss2 bj2 bn2).
Proof.
  intros [Hv1 [Hv2 Hv3]] Ed Hw Hss Hbj Hbn. unfold total_si, need. rewrite Ed.
  cbn [sc spi sln sq_scale] in Hv1, Hv2, Hv3.
  destruct (dim_eqb (u_dim uin2) d_fnu).
  { sqsimp. repeat split; assumption. }
  destruct (dim_eqb (u_dim uin2) d_flam).
  { rewrite (is_dim_same w1 w2 d_len Hw). destruct w1 as [x|], w2 as [y|]; cbn in Hw; try tauto; [|reflexivity].
    destruct (is_dim (Some y) d_len); [|reflexivity]. destruct Hw as [[A1 [A2 A3]] _]. cbn [res_eq].
    sqsimp. repeat split; [rewrite Hv1, A1; reflexivity | lia | lia]. }
  destruct (dim_eqb (u_dim uin2) d_sb).
  { rewrite (is_dim_same ss1 ss2 d_angle Hss). destruct ss1 as [x|], ss2 as [y|]; cbn in Hss; try tauto; [|reflexivity].
    destruct (is_dim (Some y) d_angle); [|reflexivity]. destruct Hss as [[A1 [A2 A3]] _]. cbn [res_eq].
    sqsimp. repeat split; [rewrite Hv1, A1; reflexivity | lia | lia]. }
  destruct (dim_eqb (u_dim uin2) d_perbeam).
  { rewrite (is_dim_same ss1 ss2 d_angle Hss). destruct ss1 as [x|], ss2 as [y|]; cbn in Hss; try tauto; [|reflexivity].
    destruct (is_dim (Some y) d_angle); [|reflexivity]. destruct Hss as [[A1 [A2 A3]] _].
    rewrite (is_dim_same bj1 bj2 d_angle Hbj). destruct bj1 as [x1|], bj2 as [y1|]; cbn in Hbj; try tauto; [|reflexivity].
    destruct (is_dim (Some y1) d_angle); [|reflexivity]. destruct Hbj as [[B1 [B2 B3]] _].
    rewrite (is_dim_same bn1 bn2 d_angle Hbn). destruct bn1 as [x2|], bn2 as [y2|]; cbn in Hbn; try tauto; [|reflexivity].
    destruct (is_dim (Some y2) d_angle); [|reflexivity]. destruct Hbn as [[C1 [C2 C3]] _]. cbn [res_eq].
    sqsimp. repeat split; [rewrite Hv1, A1, B1, C1; reflexivity | lia | lia]. }
  destruct (dim_eqb (u_dim uin2) d_temp); [|reflexivity].
  rewrite (is_dim_same ss1 ss2 d_angle Hss). destruct ss1 as [x|], ss2 as [y|]; cbn in Hss; try tauto; [|reflexivity].
  destruct (is_dim (Some y) d_angle); [|reflexivity]. destruct Hss as [[A1 [A2 A3]] _].
  rewrite (is_dim_same bj1 bj2 d_angle Hbj). destruct bj1 as [x1|], bj2 as [y1|]; cbn in Hbj; try tauto; [|reflexivity].
  destruct (is_dim (Some y1) d_angle); [|reflexivity]. destruct Hbj as [[B1 [B2 B3]] _].
  rewrite (is_dim_same bn1 bn2 d_angle Hbn). destruct bn1 as [x2|], bn2 as [y2|]; cbn in Hbn; try tauto; [|reflexivity].
  destruct (is_dim (Some y2) d_angle); [|reflexivity]. destruct Hbn as [[C1 [C2 C3]] _].
  destruct w1 as [x3|], w2 as [y3|]; cbn in Hw; try tauto; [|reflexivity].
  destruct Hw as [Hp Edw].
  assert (Esp : is_spectral x3 = is_spectral y3) by (unfold is_spectral; rewrite Edw; reflexivity).
  rewrite Esp. destruct (is_spectral y3); [|reflexivity].
  pose proof (freq_of_same x3 y3 Hp Edw) as [F1 [F2 F3]]. cbn [res_eq].
  sqsimp. repeat split; [rewrite Hv1, A1, B1, C1, F1; reflexivity | lia | lia].
Qed.

Lemma c_light_nz : ~ sc c_light == 0.
Proof. intros H. unfold Qeq in H. cbn in H. discriminate. Qed.

(* ---- the five conversions, against the textbook formulas written independently *)
Definition input_si (s : Q) (uin : unit) : sq := sq_scale s (u_sq uin).

(* F_nu: nothing to convert *)
Theorem flux_fnu s uin w ss bj bn :
  dim_eqb (u_dim uin) d_fnu = true -> total_si s uin w ss bj bn = Ok (input_si s uin).
Proof. intros E. unfold total_si. rewrite E. reflexivity. Qed.

(* F_lambda: F_nu = F_lambda * lambda^2 / c *)
Theorem flux_flambda s uin lam ss bj bn :
  dim_eqb (u_dim uin) d_fnu = false -> dim_eqb (u_dim uin) d_flam = true ->
  dim_eqb (u_dim (snd lam)) d_len = true -> ~ sc (phys lam) == 0 ->
  res_eq (total_si s uin (Some lam) ss bj bn)
         (Ok (sq_div (sq_mul (input_si s uin) (sq_mul (phys lam) (phys lam))) c_light)).
Proof.
  intros E1 E2 E3 Hnz. unfold total_si, need, is_dim. rewrite E1, E2, E3. cbn [res_eq].
  unfold input_si. sqsimp. repeat split; [|lia|lia].
  field. split; [apply c_light_nz | exact Hnz].
Qed.

(* surface brightness: F = I * Omega_pixel, Omega_pixel = scale^2 *)
Theorem flux_surface_brightness s uin w scale bj bn :
  dim_eqb (u_dim uin) d_fnu = false -> dim_eqb (u_dim uin) d_flam = false -> dim_eqb (u_dim uin) d_sb = true ->
  dim_eqb (u_dim (snd scale)) d_angle = true ->
  total_si s uin w (Some scale) bj bn = Ok (sq_mul (input_si s uin) (sq_mul (phys scale) (phys scale))).
Proof. intros E1 E2 E3 E4. unfold total_si, need, is_dim. rewrite E1, E2, E3, E4. reflexivity. Qed.

(* per beam: F = S * Omega_pixel / Omega_beam with the code's Omega_beam = 1.1331 * bmaj * bmin *)
Theorem flux_per_beam s uin w scale bj bn :
  dim_eqb (u_dim uin) d_fnu = false -> dim_eqb (u_dim uin) d_flam = false -> dim_eqb (u_dim uin) d_sb = false ->
  dim_eqb (u_dim uin) d_perbeam = true ->
  dim_eqb (u_dim (snd scale)) d_angle = true -> dim_eqb (u_dim (snd bj)) d_angle = true -> dim_eqb (u_dim (snd bn)) d_angle = true ->
  total_si s uin w (Some scale) (Some bj) (Some bn) =
  Ok (sq_mul (input_si s uin) (sq_div (sq_mul (phys scale) (phys scale)) (sq_mul (sq_mul (phys bn) (phys bj)) beam_const))).
Proof. intros E1 E2 E3 E4 E5 E6 E7. unfold total_si, need, is_dim. rewrite E1, E2, E3, E4, E5, E6, E7. reflexivity. Qed.

(* brightness temperature (Rayleigh-Jeans): F = 2 k nu^2 T / c^2 * Omega_pixel - the beam cancels *)
Theorem flux_temperature s uin w scale bj bn :
  dim_eqb (u_dim uin) d_fnu = false -> dim_eqb (u_dim uin) d_flam = false -> dim_eqb (u_dim uin) d_sb = false ->
  dim_eqb (u_dim uin) d_perbeam = false -> dim_eqb (u_dim uin) d_temp = true ->
  dim_eqb (u_dim (snd scale)) d_angle = true -> dim_eqb (u_dim (snd bj)) d_angle = true -> dim_eqb (u_dim (snd bn)) d_angle = true ->
  is_spectral w = true -> ~ sc (phys bj) == 0 -> ~ sc (phys bn) == 0 ->
  res_eq (total_si s uin (Some w) (Some scale) (Some bj) (Some bn))
         (Ok (sq_mul (sq_mul (sq_div (sq_mul (sq_of 2) (sq_mul k_B (sq_mul (freq_of w) (freq_of w)))) (sq_mul c_light c_light))
                             (input_si s uin))
                     (sq_mul (phys scale) (phys scale)))).
Proof.
  intros E1 E2 E3 E4 E5 E6 E7 E8 E9 Hj Hn. unfold total_si, need, is_dim. rewrite E1, E2, E3, E4, E5, E6, E7, E8, E9.
  cbn [res_eq]. unfold input_si. sqsimp. repeat split; [|lia|lia].
  field. repeat split; try assumption; try apply c_light_nz; intros H; unfold Qeq in H; cbn in H; discriminate.
Qed.

(* ---- errors: which check fires, in source order *)
Theorem flux_unsupported_unit s uin w ss bj bn :
  dim_eqb (u_dim uin) d_fnu = false -> dim_eqb (u_dim uin) d_flam = false -> dim_eqb (u_dim uin) d_sb = false ->
  dim_eqb (u_dim uin) d_perbeam = false -> dim_eqb (u_dim uin) d_temp = false ->
  total_si s uin w ss bj bn = Err EUnsupported.
Proof. intros E1 E2 E3 E4 E5. unfold total_si. rewrite E1, E2, E3, E4, E5. reflexivity. Qed.

Theorem flux_missing_spatial_scale s uin w bj bn :
  dim_eqb (u_dim uin) d_fnu = false -> dim_eqb (u_dim uin) d_flam = false ->
  (dim_eqb (u_dim uin) d_sb = true \/
   (dim_eqb (u_dim uin) d_sb = false /\ (dim_eqb (u_dim uin) d_perbeam = true \/
      (dim_eqb (u_dim uin) d_perbeam = false /\ dim_eqb (u_dim uin) d_temp = true)))) ->
  total_si s uin w None bj bn = Err ESpatialNeeded.
Proof.
  intros E1 E2 H. unfold total_si, need. rewrite E1, E2.
  destruct H as [E3|[E3 [E4|[E4 E5]]]]; rewrite ?E3, ?E4, ?E5; reflexivity.
Qed.

Theorem flux_wrong_spatial_scale s uin w scale bj bn :
  dim_eqb (u_dim uin) d_fnu = false -> dim_eqb (u_dim uin) d_flam = false ->
  (dim_eqb (u_dim uin) d_sb = true \/
   (dim_eqb (u_dim uin) d_sb = false /\ (dim_eqb (u_dim uin) d_perbeam = true \/
      (dim_eqb (u_dim uin) d_perbeam = false /\ dim_eqb (u_dim uin) d_temp = true)))) ->
  dim_eqb (u_dim (snd scale)) d_angle = false ->
  total_si s uin w (Some scale) bj bn = Err ESpatialAngle.
Proof.
  intros E1 E2 H E. unfold total_si, need, is_dim. rewrite E1, E2.
  destruct H as [E3|[E3 [E4|[E4 E5]]]]; rewrite ?E3, ?E4, ?E5, E; reflexivity.
Qed.

Theorem flux_missing_wavelength_flambda s uin ss bj bn :
  dim_eqb (u_dim uin) d_fnu = false -> dim_eqb (u_dim uin) d_flam = true ->
  total_si s uin None ss bj bn = Err EWavelengthNeeded.
Proof. intros E1 E2. unfold total_si, need. rewrite E1, E2. reflexivity. Qed.
