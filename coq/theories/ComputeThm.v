(* ComputeThm.v — consequences of the invariants for the finished computation:
   the statements the property files C01, C02, C03, C05 export. *)
From Coq Require Import ZArith List Bool Lia Permutation Sorted Relations.
From Dendro Require Import Base BaseLemmas Tree TreeLemmas Criteria Compute ComputeInv.
Import ListNotations.
Open Scope Z_scope.

(* ---------- the kept pixels and the processing order of the model *)

Lemma kept_from_In s vals minv p v :
  In (p, v) (kept_from s vals minv) <->
  exists i, nth_error vals i = Some (Some v) /\ p = s + Z.of_nat i /\ above minv v = true.
Proof.
  revert s. induction vals as [|ov vals IH]; intros s; cbn [kept_from].
  - split; [intros [] | intros [i [H _]]; destruct i; discriminate].
  - assert (Hshift : (exists i, nth_error vals i = Some (Some v) /\ p = s + 1 + Z.of_nat i /\ above minv v = true)
                     <-> (exists i, nth_error (ov :: vals) (S i) = Some (Some v) /\ p = s + Z.of_nat (S i) /\ above minv v = true)).
    { split; intros [i [H1 [H2 H3]]]; exists i; cbn [nth_error] in *; repeat split; try assumption; lia. }
    destruct ov as [w|].
    + destruct (above minv w) eqn:Ea.
      * cbn [In]. rewrite IH, Hshift. split.
        -- intros [E|[i H]]; [injection E as <- <-; exists 0%nat; cbn; repeat split; try lia; assumption | exists (S i); exact H].
        -- intros [[|i] [H1 [H2 H3]]].
           ++ left. cbn in H1. injection H1 as ->. f_equal. lia.
           ++ right. exists i. repeat split; assumption.
      * rewrite IH, Hshift. split.
        -- intros [i H]. exists (S i). exact H.
        -- intros [[|i] [H1 [H2 H3]]]; [cbn in H1; injection H1 as ->; congruence | exists i; repeat split; assumption].
    + rewrite IH, Hshift. split.
      * intros [i H]. exists (S i). exact H.
      * intros [[|i] [H1 [H2 H3]]]; [cbn in H1; discriminate | exists i; repeat split; assumption].
Qed.

Lemma kept_from_lb s vals minv p v : In (p, v) (kept_from s vals minv) -> s <= p.
Proof. intros H. apply kept_from_In in H. destruct H as [i [_ [-> _]]]. lia. Qed.

Lemma kept_from_NoDup s vals minv : NoDup (map fst (kept_from s vals minv)).
Proof.
  revert s. induction vals as [|ov vals IH]; intros s; cbn [kept_from]; [constructor|].
  destruct ov as [w|]; [|apply IH]. destruct (above minv w); [|apply IH].
  cbn [map fst]. constructor; [|apply IH].
  intros H. apply in_map_iff in H. destruct H as [[q u] [E H]]. cbn in E. subst q.
  apply kept_from_lb in H. lia.
Qed.

(* a pixel is kept iff its value is a number strictly above the threshold *)
Theorem kept_spec vals minv p v :
  In (p, v) (kept vals minv) <->
  exists i, nth_error vals i = Some (Some v) /\ p = Z.of_nat i /\ above minv v = true.
Proof. unfold kept. rewrite kept_from_In. split; intros [i [H1 [H2 H3]]]; exists i; repeat split; try assumption; lia. Qed.

(* the default threshold excludes no number *)
Theorem default_threshold_keeps_all v : above None v = true.
Proof. reflexivity. Qed.

Lemma StronglySorted_app_intro {A} (R : A -> A -> Prop) l1 l2 :
  StronglySorted R l1 -> StronglySorted R l2 ->
  (forall a b, In a l1 -> In b l2 -> R a b) -> StronglySorted R (l1 ++ l2).
Proof.
  induction l1 as [|x l1 IH]; intros H1 H2 H12; cbn [app]; [exact H2|].
  inversion H1 as [|? ? H1' Hall]; subst. constructor.
  - apply IH; [exact H1' | exact H2 | intros a b Ha Hb; apply H12; [right; exact Ha | exact Hb]].
  - rewrite Forall_forall. intros y Hy. apply in_app_or in Hy. destruct Hy as [Hy|Hy].
    + rewrite Forall_forall in Hall. apply Hall, Hy.
    + apply H12; [left; reflexivity | exact Hy].
Qed.

Lemma StronglySorted_rev {A} (R : A -> A -> Prop) l :
  StronglySorted R l -> StronglySorted (fun a b => R b a) (rev l).
Proof.
  induction 1 as [|x l Hs IH Hall]; cbn [rev]; [constructor|].
  apply StronglySorted_app_intro; [exact IH | repeat constructor|].
  intros a b Ha [<-|[]]. apply in_rev in Ha. rewrite Forall_forall in Hall. apply Hall, Ha.
Qed.

Theorem order_of_perm k : Permutation (order_of k) k.
Proof. unfold order_of. rewrite <- Permutation_rev. apply sort_by_perm. Qed.

(* pixels are visited in non-increasing order of value *)
Theorem order_of_sorted k : sorted_desc (order_of k).
Proof.
  unfold order_of, sorted_desc.
  apply (StronglySorted_rev (key_le snd)). apply sort_by_sorted.
Qed.

Theorem order_of_NoDup vals minv : NoDup (map fst (order_of (kept vals minv))).
Proof.
  eapply Permutation_NoDup; [|apply (kept_from_NoDup 0 vals minv)].
  apply Permutation_map. symmetry. apply order_of_perm.
Qed.

(* ---------- relabelling keeps everything but the identifiers *)

Lemma relabel_town all t : town (relabel all t) = town t.
Proof. destruct t; reflexivity. Qed.

Lemma relabel_kids all t : tkids (relabel all t) = map (relabel all) (tkids t).
Proof. destruct t; reflexivity. Qed.

Lemma relabel_tid all t : tid (relabel all t) = newid all t.
Proof. destruct t; reflexivity. Qed.

Lemma flat_map_map {A B C} (g : A -> B) (h : B -> list C) l :
  flat_map h (map g l) = flat_map (fun x => h (g x)) l.
Proof. induction l as [|x l IH]; cbn [map flat_map]; [reflexivity|]. rewrite IH. reflexivity. Qed.

Lemma map_flat_map' {A B C} (g : B -> C) (h : A -> list B) l :
  map g (flat_map h l) = flat_map (fun x => map g (h x)) l.
Proof. induction l as [|x l IH]; cbn [map flat_map]; [reflexivity|]. rewrite map_app, IH. reflexivity. Qed.

Lemma relabel_nodes all t : nodes (relabel all t) = map (relabel all) (nodes t).
Proof.
  induction t as [i o ks IH] using tree_ind2.
  cbn [relabel nodes map]. f_equal.
  rewrite flat_map_map, map_flat_map'.
  apply flat_map_ext_Forall. exact IH.
Qed.

Lemma relabel_regionv all t : regionv (relabel all t) = regionv t.
Proof.
  rewrite !regionv_nodes, relabel_nodes, flat_map_map.
  apply flat_map_ext_Forall. rewrite Forall_forall. intros u _. apply relabel_town.
Qed.

Lemma relabel_region all t : region (relabel all t) = region t.
Proof. rewrite !region_regionv, relabel_regionv. reflexivity. Qed.

Lemma relabel_map_fnodes all f : fnodes (map (relabel all) f) = map (relabel all) (fnodes f).
Proof.
  unfold fnodes. rewrite flat_map_map, map_flat_map'.
  apply flat_map_ext_Forall. rewrite Forall_forall. intros t _. apply relabel_nodes.
Qed.

Lemma relabel_forest_fnodes f : fnodes (relabel_forest f) = map (relabel (fnodes f)) (fnodes f).
Proof. apply relabel_map_fnodes. Qed.

Lemma relabel_forest_fpv f : fpv (relabel_forest f) = fpv f.
Proof.
  unfold fpv, relabel_forest. rewrite flat_map_map.
  apply flat_map_ext_Forall. rewrite Forall_forall. intros t _. apply relabel_regionv.
Qed.

(* ---------- nodes of a forest: roots, or children of some node *)
Lemma fnodes_root_or_kid f u :
  In u (fnodes f) -> In u f \/ exists w, In (w, u) (fedges f).
Proof.
  intros Hu. unfold fnodes in Hu. apply in_flat_map in Hu. destruct Hu as [r [Hr Hu]].
  revert u Hu. induction r as [i o ks IH] using tree_ind2. intros u Hu.
  cbn [nodes] in Hu. destruct Hu as [<-|Hu]; [left; exact Hr|].
  right. apply in_flat_map in Hu. destruct Hu as [k [Hk Hu]].
  rewrite nodes_unfold in Hu. destruct Hu as [<-|Hu].
  - exists (Node i o ks). apply (fedges_sub f _ Hr). apply nodes_edges; [apply nodes_self | exact Hk].
  - assert (Hsub : exists w, In (w, u) (edges k)).
    { clear -Hu. revert u Hu. induction k as [j p cs IHk] using tree_ind2. intros u Hu.
      cbn [tkids] in Hu. apply in_flat_map in Hu. destruct Hu as [c [Hc Hu]].
      rewrite nodes_unfold in Hu. destruct Hu as [<-|Hu].
      - exists (Node j p cs). apply nodes_edges; [apply nodes_self | exact Hc].
      - rewrite Forall_forall in IHk. destruct (IHk c Hc u Hu) as [w Hw].
        exists w. eapply kid_edges; [|exact Hw]. exact Hc. }
    destruct Hsub as [w Hw]. exists w. apply (fedges_sub f _ Hr).
    eapply kid_edges; [|exact Hw]. exact Hk.
Qed.

Section Final.
  Variable adj : Z -> list Z.
  Variable indep : list (Z * Z) -> option Z -> bool.
  Variable order : list (Z * Z).
  Hypothesis Hnd : NoDup (map fst order).
  Hypothesis Hsorted : sorted_desc order.
  Hypothesis Hsym : forall a b, In a (map fst order) -> In b (map fst order) ->
                                In b (adj a) -> In a (adj b).

  Let pixels := map fst order.
  Let R := run adj indep order.          (* parentless structures before the final test *)
  Let F := make_trunk indep R.           (* the trunk *)

  Definition dropped (r : tree) : Prop := is_leaf r = true /\ indep (town r) None = false.

  Lemma HJ : Jinv adj indep order R.
  Proof. apply (run_Jinv adj indep pixels); [exact Hsym | exact Hnd | apply incl_refl | exact Hsorted]. Qed.

  Lemma trunk_In t : In t F <-> In t R /\ ~ dropped t.
  Proof.
    unfold F, make_trunk, dropped. rewrite filter_In, sort_by_In.
    destruct (is_leaf t), (indep (town t) None); cbn; intuition congruence.
  Qed.

  Lemma trunk_sub : incl F R.
  Proof. intros t Ht. apply trunk_In in Ht. tauto. Qed.

  Lemma R_NoDup : NoDup (fregion R).
  Proof. eapply fregion_NoDup; [apply (J_perm _ _ _ _ HJ) | exact Hnd]. Qed.

  Lemma R_pixels p : In p (fregion R) <-> In p pixels.
  Proof.
    rewrite fpix_fpv. unfold pixels.
    split; apply Permutation_in; [|symmetry]; apply Permutation_map, (J_perm _ _ _ _ HJ).
  Qed.

  Lemma NoDup_sub_flat_map {A B} (g : A -> list B) (l l' : list A) :
    NoDup l' -> incl l' l -> NoDup (flat_map g l) -> (forall a, In a l' -> g a <> []) ->
    NoDup (flat_map g l').
  Proof.
    intros Hl' Hi Hnd0 Hne. induction l' as [|a l' IH]; cbn [flat_map]; [constructor|].
    inversion Hl' as [|? ? Hna Hl'']; subst.
    apply NoDup_app_iff. split; [|split].
    - eapply NoDup_flat_map_elem; [exact Hnd0 | apply Hi; left; reflexivity].
    - apply IH; [exact Hl'' | intros x Hx; apply Hi; right; exact Hx | intros x Hx; apply Hne; right; exact Hx].
    - intros x Hx Hx'. apply in_flat_map in Hx'. destruct Hx' as [b [Hb Hxb]].
      assert (a = b).
      { eapply (NoDup_flat_map_inj g l a b x); try eassumption; apply Hi; [left; reflexivity | right; exact Hb]. }
      subst b. exact (Hna Hb).
  Qed.

  Lemma root_region_ne r : In r R -> region r <> [].
  Proof.
    intros Hr. pose proof (J_own _ _ _ _ HJ) as Hown. rewrite Forall_forall in Hown.
    assert (Hok : own_ok r) by (apply Hown; apply in_flat_map; exists r; split; [exact Hr | apply nodes_self]).
    destruct Hok as [Hne _]. rewrite region_unfold. unfold opix.
    destruct (town r); [congruence | discriminate].
  Qed.

  Lemma R_roots_NoDup : NoDup R.
  Proof.
    pose proof R_NoDup as H. unfold fregion in H.
    assert (Hne : forall r, In r R -> region r <> []) by apply root_region_ne.
    clear -H Hne. induction R as [|a l IH]; [constructor|].
    cbn [flat_map] in H. constructor.
    - intros Ha. assert (Hr : region a <> []) by (apply Hne; left; reflexivity).
      destruct (region a) as [|x rs] eqn:E; [congruence|].
      apply (NoDup_app_disj _ _ x H); [left; reflexivity|].
      apply in_flat_map. exists a. split; [exact Ha | rewrite E; left; reflexivity].
    - apply IH; [eapply NoDup_app_r; exact H | intros r Hr; apply Hne; right; exact Hr].
  Qed.

  (* C01: pixels of the trunk are listed without repetition *)
  Theorem trunk_NoDup : NoDup (fregion F).
  Proof.
    unfold fregion. apply (NoDup_sub_flat_map region R F).
    - unfold F, make_trunk. apply NoDup_filter.
      eapply Permutation_NoDup; [symmetry; apply sort_by_perm | apply R_roots_NoDup].
    - apply trunk_sub.
    - apply R_NoDup.
    - intros a Ha. apply root_region_ne, trunk_sub, Ha.
  Qed.

  (* C01: a pixel is assigned iff it is kept and not part of a dropped isolated leaf *)
  Theorem assigned_iff p :
    In p (fregion F) <->
    In p pixels /\ ~ exists r, In r R /\ In p (region r) /\ dropped r.
  Proof.
    split.
    - intros H. apply fregion_In in H. destruct H as [r [Hr Hp]].
      apply trunk_In in Hr. destruct Hr as [HrR Hnd'].
      split; [apply R_pixels, fregion_In; exists r; split; assumption|].
      intros [r' [Hr' [Hp' Hd]]].
      assert (r = r') by (eapply (NoDup_flat_map_inj region R r r' p); try eassumption; apply R_NoDup).
      subst r'. exact (Hnd' Hd).
    - intros [Hp Hno]. apply R_pixels, fregion_In in Hp. destruct Hp as [r [Hr Hp]].
      apply fregion_In. exists r. split; [|exact Hp]. apply trunk_In. split; [exact Hr|].
      intros Hd. apply Hno. exists r. repeat split; try assumption; apply Hd.
  Qed.

  (* C03: every structure with its substructures is connected *)
  Theorem region_connected u : In u (fnodes F) -> connected adj (region u).
  Proof.
    intros Hu. apply (J_conn _ _ _ _ HJ). eapply fnodes_sub; [apply trunk_sub | exact Hu].
  Qed.

  (* C03: trunk regions are connected components of the kept pixels *)
  Lemma conn_stays_in_root x y :
    conn adj pixels x y -> forall r, In r R -> In x (region r) -> In y (region r).
  Proof.
    intros H. induction H as [a b [Ha [Hb Hab]]| |a b c _ IH1 _ IH2]; intros r Hr Hx.
    - destruct (J_closed _ _ _ _ HJ a b) as [r' [Hr' [Ha' Hb']]]; try (apply R_pixels; assumption); try exact Hab.
      assert (r = r') by (eapply (NoDup_flat_map_inj region R r r' a); try eassumption; apply R_NoDup).
      subst r'. exact Hb'.
    - exact Hx.
    - eapply IH2; [exact Hr|]. eapply IH1; eassumption.
  Qed.

  Theorem root_is_component r x y :
    In r R -> In x (region r) -> (In y (region r) <-> conn adj pixels x y).
  Proof.
    intros Hr Hx. split.
    - intros Hy. eapply conn_mono; [|apply (J_conn _ _ _ _ HJ r); [apply in_flat_map; exists r; split; [exact Hr | apply nodes_self] | exact Hx | exact Hy]].
      intros z Hz. apply R_pixels, fregion_In. exists r. split; assumption.
    - intros Hc. eapply conn_stays_in_root; eassumption.
  Qed.

  (* C03: contour semantics *)
  Theorem contour u x q vq y vy :
    In u (fnodes R) -> In x (region u) -> In (q, vq) order -> In q (adj x) ->
    ~ In q (region u) -> In (y, vy) (regionv u) -> vq <= vy.
  Proof.
    intros Hu Hx Hq Hadj Hnot Hy.
    destruct (fnodes_root_or_kid R u Hu) as [Hroot|[w Hw]].
    - exfalso. apply Hnot.
      assert (Hxp : In x pixels) by (apply R_pixels, fregion_In; exists u; split; assumption).
      assert (Hqp : In q pixels) by (apply in_map_iff; exists (q, vq); split; [reflexivity | exact Hq]).
      apply (conn_stays_in_root x q); [|exact Hroot | exact Hx].
      apply rt_step. split; [exact Hxp|]. split; [exact Hqp | exact Hadj].
    - destruct (J_edges _ _ _ _ HJ _ Hw) as [H1 [H2 _]]. cbn [fst snd] in *.
      specialize (H1 y vy Hy). specialize (H2 x q vq Hx Hq Hadj Hnot). lia.
  Qed.

  (* C02: forest shape *)
  Theorem trunk_arity : Forall arity_ok (fnodes F).
  Proof.
    rewrite Forall_forall. intros u Hu. pose proof (J_arity _ _ _ _ HJ) as H.
    rewrite Forall_forall in H. apply H. eapply fnodes_sub; [apply trunk_sub | exact Hu].
  Qed.

  Theorem trunk_own : Forall own_ok (fnodes F).
  Proof.
    rewrite Forall_forall. intros u Hu. pose proof (J_own _ _ _ _ HJ) as H.
    rewrite Forall_forall in H. apply H. eapply fnodes_sub; [apply trunk_sub | exact Hu].
  Qed.

  (* C05: a leaf with a parent *)
  Theorem leaf_with_parent w k :
    In (w, k) (fedges R) -> is_leaf k = true ->
    cval w < vmax k /\
    indep (town k) (Some (cval w)) = true /\
    In (cpix w, cval w) order /\
    (exists x, In x (region k) /\ In x (adj (cpix w))) /\
    (forall x q vq, In x (region k) -> In (q, vq) order -> In q (adj x) -> ~ In q (region k) ->
                    vq <= cval w).
  Proof.
    intros Hw Hleaf. destruct (J_edges _ _ _ _ HJ _ Hw) as [H1 [H2 [H3 H4]]]. cbn [fst snd] in *.
    specialize (H4 Hleaf). unfold mergeable in H4. rewrite Hleaf in H4. cbn [andb] in H4.
    apply orb_false_iff in H4. destruct H4 as [Hne Hind]. apply negb_false_iff in Hind.
    apply Z.eqb_neq in Hne.
    destruct (fedges_nodes _ _ _ Hw) as [Hwn Hkw].
    pose proof (J_own _ _ _ _ HJ) as Hown. rewrite Forall_forall in Hown.
    assert (Hkn : In k (fnodes R)).
    { unfold fnodes in *. apply in_flat_map in Hwn. destruct Hwn as [r [Hr Hwn]].
      apply in_flat_map. exists r. split; [exact Hr|]. eapply nodes_trans; [exact Hwn | apply kid_nodes, Hkw]. }
    destruct (Hown k Hkn) as [Hkne _].
    assert (Hmax : cval w <= vmax k).
    { unfold vmax, ovals.
      assert (Hin : In (maxl (map snd (town k))) (map snd (town k)))
        by (apply maxl_in; destruct (town k); [congruence | discriminate]).
      apply in_map_iff in Hin. destruct Hin as [[y vy] [E Hy]]. cbn [snd] in E. rewrite <- E.
      apply (H1 y vy). rewrite regionv_unfold. apply in_or_app. left. exact Hy. }
    split; [lia|]. split; [exact Hind|]. split; [|split].
    - apply (Permutation_in _ (J_perm _ _ _ _ HJ)). apply cval_in_fpv; [exact Hwn | apply Hown, Hwn].
    - apply touches_true in H3. destruct H3 as [q [Hq1 Hq2]]. exists q. split; assumption.
    - exact H2.
  Qed.

  (* C05: a parentless leaf passed the final test *)
  Theorem parentless_leaf r : In r F -> is_leaf r = true -> indep (town r) None = true.
  Proof.
    intros Hr Hl. apply trunk_In in Hr. destruct Hr as [_ Hnd'].
    destruct (indep (town r) None) eqn:E; [reflexivity|]. exfalso. apply Hnd'. split; assumption.
  Qed.
End Final.

(* ---------- the label map (owner) and pixel -> structure lookup *)
Lemma fregion_fnodes f : fregion f = flat_map opix (fnodes f).
Proof.
  unfold fregion, fnodes. rewrite flat_map_flat_map.
  apply flat_map_ext_Forall. rewrite Forall_forall. intros t _. apply region_nodes.
Qed.

Lemma find_some_first {A} (g : A -> bool) l x : find g l = Some x -> In x l /\ g x = true.
Proof. apply find_some. Qed.

Theorem owner_of_own_pixel f u p :
  NoDup (fregion f) -> In u (fnodes f) -> In p (opix u) -> owner f p = tid u.
Proof.
  intros Hnd Hu Hp. unfold owner.
  destruct (find (fun t => memZ p (opix t)) (fnodes f)) as [t|] eqn:E.
  - apply find_some in E. destruct E as [Ht Hm]. apply memZ_In in Hm.
    rewrite fregion_fnodes in Hnd.
    assert (t = u) by (eapply (NoDup_flat_map_inj opix (fnodes f) t u p); eassumption).
    subst t. reflexivity.
  - exfalso. apply (find_none _ _ E u) in Hu. apply memZ_false in Hu. exact (Hu Hp).
Qed.

Theorem owner_unassigned f p : ~ In p (fregion f) -> owner f p = -1.
Proof.
  intros Hn. unfold owner.
  destruct (find (fun t => memZ p (opix t)) (fnodes f)) as [t|] eqn:E; [|reflexivity].
  exfalso. apply find_some in E. destruct E as [Ht Hm]. apply memZ_In in Hm.
  apply Hn. rewrite fregion_fnodes. apply in_flat_map. exists t. split; assumption.
Qed.

Lemma relabel_forest_fregion f : fregion (relabel_forest f) = fregion f.
Proof. rewrite !fpix_fpv, relabel_forest_fpv. reflexivity. Qed.

(* the criteria list is assembled as [min_delta; min_npix] ++ user criteria and
   evaluated conjunctively *)
Theorem indep_of_all cs o ov c :
  indep_of cs o ov = true -> In c cs ->
  match ov with Some v => crit_at c o v | None => crit_final c o end = true.
Proof.
  intros H Hc. destruct ov as [v|]; cbn [indep_of] in H; rewrite forallb_forall in H; apply H, Hc.
Qed.

Theorem min_delta_at d o v : crit_at (MinDelta d) o v = true <-> d <= vmax_l o - v.
Proof. cbn. apply Z.leb_le. Qed.
Theorem min_npix_at n den o v : crit_at (MinNpix n den) o v = true <-> n <= zlen o * den.
Proof. cbn. apply Z.leb_le. Qed.
Theorem min_delta_final d o : crit_final (MinDelta d) o = true <-> d <= vmax_l o - vmin_l o.
Proof. cbn. apply Z.leb_le. Qed.
Theorem min_npix_final n den o : crit_final (MinNpix n den) o = true <-> n <= zlen o * den.
Proof. cbn. apply Z.leb_le. Qed.

(* ---------- the order is unique when kept values are pairwise distinct *)
Theorem sorted_perm_unique (l1 : list (Z * Z)) : forall l2,
  sorted_desc l1 -> sorted_desc l2 -> Permutation l1 l2 -> NoDup (map snd l1) -> l1 = l2.
Proof.
  induction l1 as [|a l1 IH]; intros l2 H1 H2 HP Hnd.
  - apply Permutation_nil in HP. symmetry. exact HP.
  - destruct l2 as [|b l2]; [apply Permutation_sym, Permutation_nil in HP; discriminate|].
    assert (a = b).
    { assert (Ha : In a (b :: l2)) by (apply (Permutation_in _ HP); left; reflexivity).
      assert (Hb : In b (a :: l1)) by (apply (Permutation_in _ (Permutation_sym HP)); left; reflexivity).
      destruct Ha as [Ha|Ha]; [symmetry; exact Ha|].
      destruct Hb as [Hb|Hb]; [exact Hb|].
      exfalso.
      inversion H1 as [|? ? _ Hall1]; subst. inversion H2 as [|? ? _ Hall2]; subst.
      rewrite Forall_forall in Hall1, Hall2.
      specialize (Hall1 b Hb). specialize (Hall2 a Ha). cbn beta in Hall1, Hall2.
      assert (E : snd a = snd b) by lia.
      cbn [map] in Hnd. inversion Hnd as [|? ? Hn _]; subst. apply Hn.
      rewrite E. apply in_map, Hb. }
    subst b. f_equal. apply IH.
    + inversion H1; assumption.
    + inversion H2; assumption.
    + eapply Permutation_cons_inv. exact HP.
    + cbn [map] in Hnd. inversion Hnd; assumption.
Qed.

Theorem mergeable_spec indep v t :
  mergeable indep v t = true <->
  is_leaf t = true /\ (vmax t = v \/ indep (town t) (Some v) = false).
Proof.
  unfold mergeable. rewrite andb_true_iff, orb_true_iff, Z.eqb_eq, negb_true_iff. reflexivity.
Qed.

(* ---------- C15: the processing order is a function of the values alone: non-increasing,
   and pixels of equal value in decreasing index (stable sort, reversed) *)
Lemma filter_rev' {A} (f : A -> bool) l : filter f (rev l) = rev (filter f l).
Proof.
  induction l as [|x l IH]; [reflexivity|]. cbn [rev filter]. rewrite filter_app, IH. cbn [filter].
  destruct (f x); [reflexivity | apply app_nil_r].
Qed.

Theorem order_tie_break k v :
  filter (fun pv => snd pv =? v) (order_of k) = rev (filter (fun pv => snd pv =? v) k).
Proof.
  unfold order_of. rewrite filter_rev'. f_equal. apply sort_by_stable.
Qed.

(* ---------- C01/C16: with the built-in criteria only, whether a connected component is
   kept does not depend on the processing order: it is kept iff it spans at least min_delta
   and has at least min_npix pixels *)
Lemma branch_has_leaf_edge t : is_leaf t = false -> exists w k, In (w, k) (edges t) /\ is_leaf k = true.
Proof.
  induction t as [i o ks IH] using tree_ind2. intros Hl.
  destruct ks as [|k ks]; [discriminate|].
  destruct (is_leaf k) eqn:Ek.
  - exists (Node i o (k :: ks)), k. split; [|exact Ek].
    rewrite edges_unfold. apply in_or_app. left. cbn [tkids map]. left. reflexivity.
  - inversion IH as [|? ? Hk _]; subst. destruct (Hk Ek) as [w [c [Hwc Hc]]].
    exists w, c. split; [|exact Hc]. eapply kid_edges; [|exact Hwc]. left. reflexivity.
Qed.

Lemma length_town_le_regionv t u : In u (nodes t) -> (length (town u) <= length (regionv t))%nat.
Proof.
  revert u. induction t as [i o ks IH] using tree_ind2. intros u Hu.
  cbn [nodes] in Hu. cbn [regionv]. rewrite app_length. destruct Hu as [<-|Hu]; [cbn [town]; lia|].
  apply in_flat_map in Hu. destruct Hu as [k [Hk Hu]]. rewrite Forall_forall in IH.
  specialize (IH k Hk u Hu).
  assert (length (regionv k) <= length (flat_map regionv ks))%nat.
  { clear -Hk. induction ks as [|a ks IHk]; [destruct Hk|]. cbn [flat_map]. rewrite app_length.
    destruct Hk as [->|Hk]; [lia | specialize (IHk Hk); lia]. }
  lia.
Qed.

Section Builtin.
  Variable adj : Z -> list Z.
  Variables (d n den : Z).
  Hypothesis Hden : 0 < den.
  Variable order : list (Z * Z).
  Hypothesis Hnd : NoDup (map fst order).
  Hypothesis Hsorted : sorted_desc order.
  Hypothesis Hsym : forall a b, In a (map fst order) -> In b (map fst order) -> In b (adj a) -> In a (adj b).

  Let cs := [MinDelta d; MinNpix n den].
  Let indep := indep_of cs.
  Let R := run adj indep order.

  (* the test on the whole region *)
  Definition region_passes (r : tree) : Prop :=
    d <= maxl (map snd (regionv r)) - minl (map snd (regionv r)) /\ n <= zlen (regionv r) * den.

  Theorem builtin_kept_iff_region_passes r :
    In r R -> (~ dropped indep r <-> region_passes r).
  Proof.
    intros Hr. pose proof (HJ adj indep order Hnd Hsorted Hsym) as J. fold R in J.
    unfold dropped, region_passes.
    destruct (is_leaf r) eqn:El.
    - (* a parentless leaf: its own pixels are the whole region *)
      rewrite (leaf_regionv r El).
      assert (Hfin : indep (town r) None = true <->
                     d <= maxl (map snd (town r)) - minl (map snd (town r)) /\ n <= zlen (town r) * den).
      { unfold indep, cs. cbn [indep_of forallb crit_final crit_plain]. rewrite andb_true_r, andb_true_iff, !Z.leb_le.
        unfold vmax_l, vmin_l. reflexivity. }
      rewrite <- Hfin. split.
      + intros H. destruct (indep (town r) None) eqn:E; [reflexivity|]. exfalso. apply H. split; reflexivity.
      + intros H [_ E]. congruence.
    - (* a branch: some leaf below passed the criteria when it was attached *)
      split; [intros _ | intros _ [E _]; discriminate].
      destruct (branch_has_leaf_edge r El) as [w [k [Hwk Hk]]].
      assert (Hwk' : In (w, k) (fedges R)) by (apply (fedges_sub R r Hr), Hwk).
      destruct (leaf_with_parent adj indep order Hnd Hsorted Hsym w k Hwk' Hk) as [Hlt [Hind [_ _]]].
      destruct (edges_nodes r w k Hwk) as [Hw Hkw].
      assert (Hkn : In k (nodes r)) by (eapply nodes_trans; [exact Hw | apply kid_nodes, Hkw]).
      pose proof (J_own _ _ _ _ J) as Hown. rewrite Forall_forall in Hown.
      assert (HwR : In w (fnodes R)) by (apply in_flat_map; exists r; split; assumption).
      assert (HkR : In k (fnodes R)) by (apply in_flat_map; exists r; split; assumption).
      destruct (Hown w HwR) as [Hwne _]. destruct (Hown k HkR) as [Hkne _].
      unfold indep, cs in Hind. cbn [indep_of forallb crit_at crit_plain] in Hind.
      rewrite andb_true_r, andb_true_iff, !Z.leb_le in Hind. destruct Hind as [Hd Hn].
      (* values of the region: the leaf's peak and the pixel that created its parent *)
      assert (Hvals : forall pv, In pv (regionv r) -> In (snd pv) (map snd (regionv r))) by (intros pv H; apply in_map, H).
      assert (Hpk : In (vmax_l (town k)) (map snd (regionv r))).
      { unfold vmax_l. assert (Hin : In (maxl (map snd (town k))) (map snd (town k)))
          by (apply maxl_in; destruct (town k); [congruence | discriminate]).
        apply in_map_iff in Hin. destruct Hin as [pv [E Hpv]]. rewrite <- E. apply in_map.
        apply In_regionv_nodes. exists k. split; assumption. }
      assert (Hcv : In (cval w) (map snd (regionv r))).
      { unfold cval. destruct (town w) as [|pv l] eqn:Ew; [congruence|]. cbn [hd]. apply in_map.
        apply In_regionv_nodes. exists w. split; [exact Hw | rewrite Ew; left; reflexivity]. }
      split.
      + pose proof (maxl_ge _ _ Hpk). pose proof (minl_le _ _ Hcv). lia.
      + pose proof (length_town_le_regionv r k Hkn) as Hlen. unfold zlen in *. nia.
  Qed.
End Builtin.

(* ---------- C16: the parentless regions do not depend on the processing order, on how ties
   are broken, or on the criteria: they are the connected components of the kept pixels *)
Theorem roots_order_independent adj indep1 indep2 order1 order2 :
  NoDup (map fst order1) -> sorted_desc order1 ->
  NoDup (map fst order2) -> sorted_desc order2 ->
  (forall p, In p (map fst order1) <-> In p (map fst order2)) ->
  (forall a b, In a (map fst order1) -> In b (map fst order1) -> In b (adj a) -> In a (adj b)) ->
  forall r1 x, In r1 (run adj indep1 order1) -> In x (region r1) ->
    exists r2, In r2 (run adj indep2 order2) /\ In x (region r2) /\
               forall y, In y (region r1) <-> In y (region r2).
Proof.
  intros Hnd1 Hs1 Hnd2 Hs2 Hsame Hsym1 r1 x Hr1 Hx.
  assert (Hsym2 : forall a b, In a (map fst order2) -> In b (map fst order2) -> In b (adj a) -> In a (adj b)).
  { intros a b Ha Hb. apply Hsym1; apply Hsame; assumption. }
  assert (Hx1 : In x (map fst order1)).
  { apply (R_pixels adj indep1 order1 Hnd1 Hs1 Hsym1). apply fregion_In. exists r1. split; assumption. }
  assert (Hx2 : In x (fregion (run adj indep2 order2))).
  { apply (R_pixels adj indep2 order2 Hnd2 Hs2 Hsym2). apply Hsame, Hx1. }
  apply fregion_In in Hx2. destruct Hx2 as [r2 [Hr2 Hxr2]].
  exists r2. split; [exact Hr2|]. split; [exact Hxr2|]. intros y.
  rewrite (root_is_component adj indep1 order1 Hnd1 Hs1 Hsym1 r1 x y Hr1 Hx).
  rewrite (root_is_component adj indep2 order2 Hnd2 Hs2 Hsym2 r2 x y Hr2 Hxr2).
  split; apply conn_mono; intros z Hz; apply Hsame; exact Hz.
Qed.
