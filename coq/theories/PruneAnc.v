(* PruneAnc.v — C07: after pruning, the chain of ancestors of every surviving structure is
   its former chain with the removed structures left out; in particular its parent is its
   nearest surviving former ancestor, and it is parentless iff no former ancestor survives. *)
From Coq Require Import ZArith List Bool Lia Permutation.
From Dendro Require Import Base BaseLemmas Tree TreeLemmas Criteria Compute ComputeInv Prune PruneLemmas.
Import ListNotations.
Open Scope Z_scope.

Definition ids (t : tree) : list Z := map tid (nodes t).
Definition fids (f : list tree) : list Z := flat_map ids f.

(* (identifier, identifiers of its ancestors: parent first, trunk structure last) *)
Fixpoint anc_from (up : list Z) (t : tree) : list (Z * list Z) :=
  match t with Node i _ ks => (i, up) :: flat_map (anc_from (i :: up)) ks end.
Definition anc_table (f : list tree) : list (Z * list Z) := flat_map (anc_from []) f.

Lemma map_flat_map {A B C} (g : B -> C) (h : A -> list B) l : map g (flat_map h l) = flat_map (fun x => map g (h x)) l.
Proof. induction l as [|x l IH]; [reflexivity|]. cbn [flat_map]. rewrite map_app, IH. reflexivity. Qed.

Lemma ids_unfold i o ks : ids (Node i o ks) = i :: flat_map ids ks.
Proof. unfold ids. cbn [nodes map tid]. f_equal. apply map_flat_map. Qed.

Lemma anc_from_up t : forall up j l,
  In (j, l) (anc_from up t) <-> exists inner, In (j, inner) (anc_from [] t) /\ l = inner ++ up.
Proof.
  induction t as [i o ks IH] using tree_ind2. intros up j l. cbn [anc_from]. split.
  - intros [H|H].
    + injection H as <- <-. exists []. split; [left; reflexivity | reflexivity].
    + apply in_flat_map in H. destruct H as [k [Hk H]]. rewrite Forall_forall in IH.
      apply (IH k Hk) in H. destruct H as [inner [Hi ->]].
      exists (inner ++ [i]). split; [|rewrite <- app_assoc; reflexivity].
      right. apply in_flat_map. exists k. split; [exact Hk|]. apply (IH k Hk). exists inner. split; [exact Hi | reflexivity].
  - intros [inner [[H|H] ->]].
    + injection H as <- <-. left. reflexivity.
    + right. apply in_flat_map in H. destruct H as [k [Hk H]]. rewrite Forall_forall in IH.
      apply (IH k Hk) in H. destruct H as [inner' [Hi ->]].
      apply in_flat_map. exists k. split; [exact Hk|]. apply (IH k Hk). exists inner'. split; [exact Hi|].
      rewrite <- app_assoc. reflexivity.
Qed.

Lemma anc_from_incl t : forall j l, In (j, l) (anc_from [] t) -> In j (ids t) /\ incl l (ids t).
Proof.
  induction t as [i o ks IH] using tree_ind2. intros j l H. rewrite ids_unfold. cbn [anc_from] in H.
  destruct H as [H|H].
  - injection H as <- <-. split; [left; reflexivity | intros x []].
  - apply in_flat_map in H. destruct H as [k [Hk H]]. rewrite Forall_forall in IH.
    apply anc_from_up in H. destruct H as [inner [Hi ->]]. destruct (IH k Hk j inner Hi) as [Hj Hl].
    split.
    + right. apply in_flat_map. exists k. split; assumption.
    + intros x Hx. apply in_app_or in Hx. destruct Hx as [Hx|[<-|[]]]; [|left; reflexivity].
      right. apply in_flat_map. exists k. split; [exact Hk | apply Hl, Hx].
Qed.

Lemma filter_all {A} (p : A -> bool) l : (forall x, In x l -> p x = true) -> filter p l = l.
Proof.
  induction l as [|x l IH]; intros H; [reflexivity|]. cbn [filter]. rewrite (H x (or_introl eq_refl)).
  f_equal. apply IH. intros y Hy. apply H. right. exact Hy.
Qed.

Lemma filter_ext_in' {A} (p q : A -> bool) l : (forall x, In x l -> p x = q x) -> filter p l = filter q l.
Proof.
  induction l as [|x l IH]; intros H; [reflexivity|]. cbn [filter]. rewrite (H x (or_introl eq_refl)).
  rewrite IH; [reflexivity|]. intros y Hy. apply H. right. exact Hy.
Qed.

Lemma NoDup_flat_disj {A B} (h : A -> list B) l1 a l2 x :
  NoDup (flat_map h (l1 ++ a :: l2)) -> In x (h a) -> ~ In x (flat_map h l1) /\ ~ In x (flat_map h l2).
Proof.
  rewrite flat_map_app. cbn [flat_map]. intros Hnd Hx. split; intros Hc.
  - apply (NoDup_app_disj _ _ x Hnd Hc). apply in_or_app. left. exact Hx.
  - apply NoDup_app_r in Hnd. apply (NoDup_app_disj _ _ x Hnd Hx Hc).
Qed.

Lemma ids_self t : In (tid t) (ids t).
Proof. unfold ids. apply in_map, nodes_self. Qed.

Lemma flat_ids_kids ks : Permutation (flat_map ids ks) (map tid ks ++ flat_map ids (flat_map tkids ks)).
Proof.
  induction ks as [|[i o cs0] ks IH]; [constructor|].
  cbn [flat_map map tid tkids]. rewrite ids_unfold, flat_map_app. cbn [app]. constructor.
  apply Permutation_trans with (flat_map ids cs0 ++ map tid ks ++ flat_map ids (flat_map tkids ks)).
  - apply Permutation_app_head, IH.
  - rewrite !app_assoc. apply Permutation_app_tail, Permutation_app_comm.
Qed.

Section A.
  Variable cs : list crit.
  Notation prune_once := (prune_once cs).
  Notation pfo := (prune_forest_once cs).
  Notation ploop := (prune_loop cs).

  Definition survives (S : list Z) (l : list Z) : list Z := filter (fun j => memZ j S) l.

  Definition step_ok (ids0 ids1 : list Z) (T0 T1 : list (Z * list Z)) : Prop :=
    incl ids1 ids0 /\ NoDup ids1 /\
    forall j l', In (j, l') T1 -> exists l, In (j, l) T0 /\ l' = survives ids1 l.

  (* one step inside one tree *)
  Lemma prune_once_anc u : forall u',
    prune_once u = Some u' -> NoDup (ids u) ->
    step_ok (ids u) (ids u') (anc_from [] u) (anc_from [] u').
  Proof.
    induction u as [i o ks IH] using tree_ind2. intros u' H Hnd.
    rewrite prune_once_unfold in H. apply scan_some in H. cbn [app] in H.
    rewrite ids_unfold in Hnd. inversion Hnd as [|? ? Hi Hks]; subst.
    destruct H as [[p1 [k [r1 [E [Hl [_ ->]]]]]]|[p1 [k [k' [r1 [E [_ [Hk ->]]]]]]]].
    - (* a failing leaf child is merged *)
      subst ks. unfold merged. apply is_leaf_kids in Hl.
      destruct (Nat.eqb (length (p1 ++ k :: r1)) 2) eqn:E2.
      + (* two children: both dissolve, the grandchildren are adopted *)
        set (ks := p1 ++ k :: r1) in *.
        pose proof (flat_ids_kids ks) as HP.
        assert (Hsub : incl (flat_map ids (flat_map tkids ks)) (flat_map ids ks)).
        { intros x Hx. apply (Permutation_in _ (Permutation_sym HP)). apply in_or_app. right. exact Hx. }
        assert (Hnd2 : NoDup (map tid ks ++ flat_map ids (flat_map tkids ks))) by (apply (Permutation_NoDup HP), Hks).
        split; [|split].
        * rewrite !ids_unfold. intros x [<-|Hx]; [left; reflexivity | right; apply Hsub, Hx].
        * rewrite ids_unfold. constructor; [intros Hc; apply Hi, Hsub, Hc | apply (NoDup_app_r _ _ Hnd2)].
        * intros j l' Hj. cbn [anc_from] in Hj. destruct Hj as [Hj|Hj].
          -- injection Hj as <- <-. exists []. split; [left; reflexivity | reflexivity].
          -- apply in_flat_map in Hj. destruct Hj as [g [Hg Hj]]. apply in_flat_map in Hg. destruct Hg as [c [Hc Hg]].
             apply anc_from_up in Hj. destruct Hj as [inner [Hin ->]].
             exists (inner ++ [tid c; i]). split.
             ++ cbn [anc_from]. right. apply in_flat_map. exists c. split; [exact Hc|].
                destruct c as [ci co cks]. cbn [anc_from tid tkids] in *. right.
                apply in_flat_map. exists g. split; [exact Hg|]. apply anc_from_up. exists inner. split; [exact Hin | reflexivity].
             ++ unfold survives. rewrite filter_app. cbn [filter].
                destruct (anc_from_incl g j inner Hin) as [_ Hinc].
                assert (Hgsub : incl (ids g) (flat_map ids (flat_map tkids ks))).
                { intros x Hx. apply in_flat_map. exists g. split; [|exact Hx]. apply in_flat_map. exists c. split; assumption. }
                rewrite filter_all.
                2:{ intros x Hx. apply memZ_In. rewrite ids_unfold. right. apply Hgsub, Hinc, Hx. }
                replace (memZ (tid c) (ids (Node i (o ++ flat_map town ks) (flat_map tkids ks)))) with false.
                2:{ symmetry. apply memZ_false. rewrite ids_unfold. intros [Hc1|Hc1].
                    - apply Hi. rewrite Hc1. apply in_flat_map. exists c. split; [exact Hc | apply ids_self].
                    - apply (NoDup_app_disj _ _ (tid c) Hnd2); [apply in_map, Hc | exact Hc1]. }
                replace (memZ i (ids (Node i (o ++ flat_map town ks) (flat_map tkids ks)))) with true.
                2:{ symmetry. apply memZ_In. rewrite ids_unfold. left. reflexivity. }
                reflexivity.
      + (* the leaf alone dissolves *)
        assert (Hsub : incl (flat_map ids (p1 ++ r1)) (flat_map ids (p1 ++ k :: r1))).
        { intros x Hx. rewrite flat_map_app in *. cbn [flat_map]. apply in_app_or in Hx. apply in_or_app.
          destruct Hx as [Hx|Hx]; [left; exact Hx | right; apply in_or_app; right; exact Hx]. }
        split; [|split].
        * rewrite !ids_unfold. intros x [<-|Hx]; [left; reflexivity | right; apply Hsub, Hx].
        * rewrite ids_unfold. constructor; [intros Hc; apply Hi, Hsub, Hc|].
          rewrite flat_map_app in *. cbn [flat_map] in Hks.
          apply NoDup_app_iff. apply NoDup_app_iff in Hks. destruct Hks as [H1 [H2 H3]].
          apply NoDup_app_iff in H2. destruct H2 as [_ [H2 _]]. split; [exact H1|]. split; [exact H2|].
          intros x Hx1 Hx2. apply (H3 x Hx1). apply in_or_app. right. exact Hx2.
        * intros j l' Hj. cbn [anc_from] in Hj. destruct Hj as [Hj|Hj].
          -- injection Hj as <- <-. exists []. split; [left; reflexivity | reflexivity].
          -- apply in_flat_map in Hj. destruct Hj as [c [Hc Hj]].
             exists l'. split.
             ++ cbn [anc_from]. right. apply in_flat_map. exists c. split; [|exact Hj].
                apply in_app_or in Hc. apply in_or_app. destruct Hc as [Hc|Hc]; [left; exact Hc | right; right; exact Hc].
             ++ unfold survives. symmetry. apply filter_all. intros x Hx. apply memZ_In. rewrite ids_unfold.
                apply anc_from_up in Hj. destruct Hj as [inner [Hin ->]].
                apply in_app_or in Hx. destruct Hx as [Hx|[<-|[]]]; [|left; reflexivity].
                right. apply in_flat_map. exists c. split; [exact Hc|]. apply (anc_from_incl c j inner Hin), Hx.
    - (* a step inside the subtree of a branch child *)
      subst ks. rewrite Forall_forall in IH.
      assert (Hkin : In k (p1 ++ k :: r1)) by (apply in_or_app; right; left; reflexivity).
      assert (Hndk : NoDup (ids k)).
      { rewrite flat_map_app in Hks. cbn [flat_map] in Hks. apply NoDup_app_r in Hks. apply NoDup_app_l in Hks. exact Hks. }
      destruct (IH k Hkin k' Hk Hndk) as [Hinc [Hndk' Hanc]].
      assert (Hsub : incl (flat_map ids (p1 ++ k' :: r1)) (flat_map ids (p1 ++ k :: r1))).
      { intros x Hx. rewrite flat_map_app in *. cbn [flat_map] in *. apply in_app_or in Hx. apply in_or_app.
        destruct Hx as [Hx|Hx]; [left; exact Hx|]. right. apply in_app_or in Hx. apply in_or_app.
        destruct Hx as [Hx|Hx]; [left; apply Hinc, Hx | right; exact Hx]. }
      split; [|split].
      + rewrite !ids_unfold. intros x [<-|Hx]; [left; reflexivity | right; apply Hsub, Hx].
      + rewrite ids_unfold. constructor; [intros Hc; apply Hi, Hsub, Hc|].
        rewrite flat_map_app in *. cbn [flat_map] in *.
        apply NoDup_app_iff in Hks. destruct Hks as [H1 [H2 H3]].
        apply NoDup_app_iff in H2. destruct H2 as [_ [H2 H4]].
        apply NoDup_app_iff. split; [exact H1|]. split.
        * apply NoDup_app_iff. split; [exact Hndk'|]. split; [exact H2|].
          intros x Hx1 Hx2. apply (H4 x); [apply Hinc, Hx1 | exact Hx2].
        * intros x Hx1 Hx2. apply (H3 x Hx1). apply in_app_or in Hx2. apply in_or_app.
          destruct Hx2 as [Hx2|Hx2]; [left; apply Hinc, Hx2 | right; exact Hx2].
      + intros j l' Hj. cbn [anc_from] in Hj. destruct Hj as [Hj|Hj].
        * injection Hj as <- <-. exists []. split; [left; reflexivity | reflexivity].
        * apply in_flat_map in Hj. destruct Hj as [c [Hc Hj]].
          apply in_app_or in Hc. destruct Hc as [Hc|[<-|Hc]].
          -- (* an untouched sibling *)
             exists l'. split.
             ++ cbn [anc_from]. right. apply in_flat_map. exists c. split; [apply in_or_app; left; exact Hc | exact Hj].
             ++ unfold survives. symmetry. apply filter_all. intros x Hx. apply memZ_In. rewrite ids_unfold.
                apply anc_from_up in Hj. destruct Hj as [inner [Hin ->]].
                apply in_app_or in Hx. destruct Hx as [Hx|[<-|[]]]; [|left; reflexivity].
                right. apply in_flat_map. exists c. split; [apply in_or_app; left; exact Hc|].
                apply (anc_from_incl c j inner Hin), Hx.
          -- (* inside the changed child *)
             apply anc_from_up in Hj. destruct Hj as [inner' [Hin' ->]].
             destruct (Hanc j inner' Hin') as [inner [Hin ->]].
             exists (inner ++ [i]). split.
             ++ cbn [anc_from]. right. apply in_flat_map. exists k. split; [exact Hkin|].
                apply anc_from_up. exists inner. split; [exact Hin | reflexivity].
             ++ unfold survives. rewrite filter_app. cbn [filter].
                replace (memZ i (ids (Node i o (p1 ++ k' :: r1)))) with true
                  by (symmetry; apply memZ_In; rewrite ids_unfold; left; reflexivity).
                f_equal. apply filter_ext_in'. intros x Hx.
                destruct (anc_from_incl k j inner Hin) as [_ Hinck]. specialize (Hinck x Hx).
                destruct (memZ x (ids k')) eqn:Em.
                ** apply memZ_In in Em. symmetry. apply memZ_In. rewrite ids_unfold. right.
                   apply in_flat_map. exists k'. split; [apply in_or_app; right; left; reflexivity | exact Em].
                ** apply memZ_false in Em. symmetry. apply memZ_false. rewrite ids_unfold. intros [Hx1|Hx1].
                   --- apply Hi. rewrite Hx1. apply in_flat_map. exists k. split; assumption.
                   --- rewrite flat_map_app in Hx1. cbn [flat_map] in Hx1.
                       destruct (NoDup_flat_disj ids p1 k r1 x Hks Hinck) as [D1 D2].
                       apply in_app_or in Hx1. destruct Hx1 as [Hx1|Hx1]; [exact (D1 Hx1)|].
                       apply in_app_or in Hx1. destruct Hx1 as [Hx1|Hx1]; [exact (Em Hx1) | exact (D2 Hx1)].
          -- exists l'. split.
             ++ cbn [anc_from]. right. apply in_flat_map. exists c. split; [apply in_or_app; right; right; exact Hc | exact Hj].
             ++ unfold survives. symmetry. apply filter_all. intros x Hx. apply memZ_In. rewrite ids_unfold.
                apply anc_from_up in Hj. destruct Hj as [inner [Hin ->]].
                apply in_app_or in Hx. destruct Hx as [Hx|[<-|[]]]; [|left; reflexivity].
                right. apply in_flat_map. exists c. split; [apply in_or_app; right; right; exact Hc|].
                apply (anc_from_incl c j inner Hin), Hx.
  Qed.

  (* ---- composition *)
  Lemma survives_twice B C l : incl C B -> survives C (survives B l) = survives C l.
  Proof.
    intros H. unfold survives. induction l as [|x l IH]; [reflexivity|]. cbn [filter].
    destruct (memZ x B) eqn:EB; cbn [filter]; destruct (memZ x C) eqn:EC; try rewrite IH; try reflexivity.
    apply memZ_In in EC. apply H in EC. apply memZ_In in EC. congruence.
  Qed.

  Lemma step_ok_trans A B C TA TB TC : step_ok A B TA TB -> step_ok B C TB TC -> step_ok A C TA TC.
  Proof.
    intros [I1 [N1 H1]] [I2 [N2 H2]]. split; [|split].
    - intros x Hx. apply I1, I2, Hx.
    - exact N2.
    - intros j l2 Hj. destruct (H2 j l2 Hj) as [l1 [Hj1 ->]]. destruct (H1 j l1 Hj1) as [l [Hj0 ->]].
      exists l. split; [exact Hj0 | apply survives_twice, I2].
  Qed.

  Lemma anc_table_incl f j l : In (j, l) (anc_table f) -> exists t, In t f /\ In j (ids t) /\ incl l (ids t).
  Proof.
    intros H. apply in_flat_map in H. destruct H as [t [Ht H]]. exists t. split; [exact Ht|]. apply anc_from_incl, H.
  Qed.

  Lemma step_ok_refl f : NoDup (fids f) -> step_ok (fids f) (fids f) (anc_table f) (anc_table f).
  Proof.
    intros Hnd. split; [intros x Hx; exact Hx|]. split; [exact Hnd|].
    intros j l Hj. exists l. split; [exact Hj|]. unfold survives. symmetry. apply filter_all.
    intros x Hx. apply memZ_In. destruct (anc_table_incl f j l Hj) as [t [Ht [_ Hinc]]].
    apply in_flat_map. exists t. split; [exact Ht | apply Hinc, Hx].
  Qed.

  (* one step of the loop in the forest *)
  Lemma pfo_anc f f' : pfo f = Some f' -> NoDup (fids f) -> step_ok (fids f) (fids f') (anc_table f) (anc_table f').
  Proof.
    intros H Hnd. apply pfo_some in H. destruct H as [f1 [t [t' [f2 [-> [-> E]]]]]].
    unfold fids in *.
    assert (Hndt : NoDup (ids t)).
    { rewrite flat_map_app in Hnd. cbn [flat_map] in Hnd. apply NoDup_app_r in Hnd. apply NoDup_app_l in Hnd. exact Hnd. }
    destruct (prune_once_anc t t' E Hndt) as [Hinc [Hndt' Hanc]].
    assert (Hsub : incl (flat_map ids (f1 ++ t' :: f2)) (flat_map ids (f1 ++ t :: f2))).
    { intros x Hx. rewrite flat_map_app in *. cbn [flat_map] in *. apply in_app_or in Hx. apply in_or_app.
      destruct Hx as [Hx|Hx]; [left; exact Hx|]. right. apply in_app_or in Hx. apply in_or_app.
      destruct Hx as [Hx|Hx]; [left; apply Hinc, Hx | right; exact Hx]. }
    split; [exact Hsub|]. split.
    - pose proof Hnd as Hnd0. rewrite flat_map_app in *. cbn [flat_map] in *.
      apply NoDup_app_iff in Hnd. destruct Hnd as [H1 [H2 H3]].
      apply NoDup_app_iff in H2. destruct H2 as [_ [H2 H4]].
      apply NoDup_app_iff. split; [exact H1|]. split.
      + apply NoDup_app_iff. split; [exact Hndt'|]. split; [exact H2|].
        intros x Hx1 Hx2. apply (H4 x); [apply Hinc, Hx1 | exact Hx2].
      + intros x Hx1 Hx2. apply (H3 x Hx1). apply in_app_or in Hx2. apply in_or_app.
        destruct Hx2 as [Hx2|Hx2]; [left; apply Hinc, Hx2 | right; exact Hx2].
    - intros j l' Hj. unfold anc_table in *. rewrite flat_map_app in Hj. cbn [flat_map] in Hj.
      assert (Hother : forall c, In c (f1 ++ t' :: f2) -> In (j, l') (anc_from [] c) ->
                                 survives (flat_map ids (f1 ++ t' :: f2)) l' = l').
      { intros c Hc Hjc. apply filter_all. intros x Hx. apply memZ_In. apply in_flat_map. exists c.
        split; [exact Hc | apply (anc_from_incl c j l' Hjc), Hx]. }
      apply in_app_or in Hj. destruct Hj as [Hj|Hj]; [|apply in_app_or in Hj; destruct Hj as [Hj|Hj]].
      + apply in_flat_map in Hj. destruct Hj as [c [Hc Hj]]. exists l'. split.
        * rewrite flat_map_app. apply in_or_app. left. apply in_flat_map. exists c. split; assumption.
        * symmetry. apply (Hother c); [apply in_or_app; left; exact Hc | exact Hj].
      + destruct (Hanc j l' Hj) as [l [Hl ->]]. exists l. split.
        * rewrite flat_map_app. cbn [flat_map]. apply in_or_app. right. apply in_or_app. left. exact Hl.
        * unfold survives. apply filter_ext_in'. intros x Hx.
          destruct (anc_from_incl t j l Hl) as [_ Hinct]. specialize (Hinct x Hx).
          destruct (memZ x (ids t')) eqn:Em.
          -- apply memZ_In in Em. symmetry. apply memZ_In. apply in_flat_map. exists t'.
             split; [apply in_or_app; right; left; reflexivity | exact Em].
          -- apply memZ_false in Em. symmetry. apply memZ_false. intros Hx1.
             rewrite flat_map_app in Hx1. cbn [flat_map] in Hx1.
             destruct (NoDup_flat_disj ids f1 t f2 x Hnd Hinct) as [D1 D2].
             apply in_app_or in Hx1. destruct Hx1 as [Hx1|Hx1]; [exact (D1 Hx1)|].
             apply in_app_or in Hx1. destruct Hx1 as [Hx1|Hx1]; [exact (Em Hx1) | exact (D2 Hx1)].
      + apply in_flat_map in Hj. destruct Hj as [c [Hc Hj]]. exists l'. split.
        * rewrite flat_map_app. cbn [flat_map]. apply in_or_app. right. apply in_or_app. right.
          apply in_flat_map. exists c. split; assumption.
        * symmetry. apply (Hother c); [apply in_or_app; right; right; exact Hc | exact Hj].
  Qed.

  Lemma ploop_anc : forall fuel f, NoDup (fids f) ->
    step_ok (fids f) (fids (ploop fuel f)) (anc_table f) (anc_table (ploop fuel f)).
  Proof.
    induction fuel as [|fuel IH]; intros f Hnd; cbn [Prune.prune_loop]; [apply step_ok_refl, Hnd|].
    destruct (pfo f) as [f'|] eqn:E; [|apply step_ok_refl, Hnd].
    pose proof (pfo_anc f f' E Hnd) as H1. destruct H1 as [I1 [N1 H1]].
    eapply step_ok_trans; [split; [exact I1 | split; [exact N1 | exact H1]] | apply IH, N1].
  Qed.

  (* the trunk: a sub-forest *)
  Lemma NoDup_flat_filter {A B} (h : A -> list B) (p : A -> bool) l : NoDup (flat_map h l) -> NoDup (flat_map h (filter p l)).
  Proof.
    induction l as [|x l IH]; intros H; [constructor|]. cbn [flat_map filter] in *.
    apply NoDup_app_iff in H. destruct H as [H1 [H2 H3]].
    destruct (p x); [|apply IH, H2]. cbn [flat_map]. apply NoDup_app_iff. split; [exact H1|]. split; [apply IH, H2|].
    intros y Hy1 Hy2. apply (H3 y Hy1). apply in_flat_map in Hy2. destruct Hy2 as [c [Hc Hy2]].
    apply filter_In in Hc. apply in_flat_map. exists c. split; [tauto | exact Hy2].
  Qed.

  Lemma perm_flat_map' {A B} (h : A -> list B) l l' : Permutation l l' -> Permutation (flat_map h l) (flat_map h l').
  Proof.
    induction 1 as [|x l l' _ IH|x y l|l l' l'' _ IH1 _ IH2]; cbn [flat_map].
    - constructor.
    - apply Permutation_app_head, IH.
    - rewrite !app_assoc. apply Permutation_app_tail, Permutation_app_comm.
    - eapply Permutation_trans; eassumption.
  Qed.

  Lemma trunk_anc g : NoDup (fids g) ->
    step_ok (fids g) (fids (trunk_of cs g)) (anc_table g) (anc_table (trunk_of cs g)).
  Proof.
    intros Hnd. unfold trunk_of.
    set (P := fun t => negb (is_leaf t) || indep_of cs (town t) None).
    assert (Hin : forall t, In t (filter P (sort_by tid g)) -> In t g).
    { intros t Ht. apply filter_In in Ht. destruct Ht as [Ht _]. apply sort_by_In in Ht. exact Ht. }
    split; [|split].
    - intros x Hx. apply in_flat_map in Hx. destruct Hx as [t [Ht Hx]]. apply in_flat_map. exists t. split; [apply Hin, Ht | exact Hx].
    - apply NoDup_flat_filter. apply (Permutation_NoDup (l := fids g)); [|exact Hnd].
      apply perm_flat_map', Permutation_sym, sort_by_perm.
    - intros j l Hj. exists l. split.
      + apply in_flat_map in Hj. destruct Hj as [t [Ht Hj]]. apply in_flat_map. exists t. split; [apply Hin, Ht | exact Hj].
      + unfold survives. symmetry. apply filter_all. intros x Hx. apply memZ_In.
        apply in_flat_map in Hj. destruct Hj as [t [Ht Hj]]. apply in_flat_map. exists t.
        split; [exact Ht | apply (anc_from_incl t j l Hj), Hx].
  Qed.

  (* C07: after prune, the ancestors of every surviving structure are its former ancestors
     with the removed structures left out, in the same order *)
  Theorem prune_struct_ancestors f :
    NoDup (fids f) ->
    incl (fids (prune_struct cs f)) (fids f) /\ NoDup (fids (prune_struct cs f)) /\
    forall j l', In (j, l') (anc_table (prune_struct cs f)) ->
      exists l, In (j, l) (anc_table f) /\ l' = survives (fids (prune_struct cs f)) l.
  Proof.
    intros Hnd. unfold prune_struct.
    pose proof (ploop_anc (fsize' f) f Hnd) as H1.
    assert (N1 : NoDup (fids (ploop (fsize' f) f))) by (destruct H1 as [_ [N _]]; exact N).
    exact (step_ok_trans _ _ _ _ _ _ H1 (trunk_anc _ N1)).
  Qed.
End A.

(* reading the statement: the head of the filtered chain is the nearest surviving ancestor *)
Lemma filter_head {A} (p : A -> bool) l x r :
  filter p l = x :: r ->
  exists pre post, l = pre ++ x :: post /\ (forall y, In y pre -> p y = false) /\ p x = true /\ r = filter p post.
Proof.
  induction l as [|a l IH]; intros H; [discriminate|]. cbn [filter] in H. destruct (p a) eqn:E.
  - injection H as <- <-. exists [], l. repeat split; [intros y [] | exact E].
  - destruct (IH H) as [pre [post [-> [H1 [H2 H3]]]]]. exists (a :: pre), post. repeat split; try assumption.
    intros y [<-|Hy]; [exact E | apply H1, Hy].
Qed.

Theorem parent_is_nearest_surviving_ancestor cs f j p rest :
  NoDup (fids f) -> In (j, p :: rest) (anc_table (prune_struct cs f)) ->
  exists pre post, In (j, pre ++ p :: post) (anc_table f) /\
                   (forall y, In y pre -> ~ In y (fids (prune_struct cs f))) /\ In p (fids (prune_struct cs f)).
Proof.
  intros Hnd Hj. destruct (prune_struct_ancestors cs f Hnd) as [_ [_ H]].
  destruct (H j (p :: rest) Hj) as [l [Hl E]]. symmetry in E. unfold survives in E.
  destruct (filter_head _ l p rest E) as [pre [post [-> [H1 [H2 _]]]]].
  exists pre, post. split; [exact Hl|]. split.
  - intros y Hy. apply memZ_false, H1, Hy.
  - apply memZ_In, H2.
Qed.

Theorem parentless_iff_no_ancestor_survives cs f j :
  NoDup (fids f) -> In (j, []) (anc_table (prune_struct cs f)) ->
  exists l, In (j, l) (anc_table f) /\ forall y, In y l -> ~ In y (fids (prune_struct cs f)).
Proof.
  intros Hnd Hj. destruct (prune_struct_ancestors cs f Hnd) as [_ [_ H]].
  destruct (H j [] Hj) as [l [Hl E]]. exists l. split; [exact Hl|]. intros y Hy Hin.
  assert (Hf : In y (survives (fids (prune_struct cs f)) l)).
  { unfold survives. apply filter_In. split; [exact Hy | apply memZ_In, Hin]. }
  rewrite <- E in Hf. destruct Hf.
Qed.

(* the chain table agrees with the parent table used by the other theorems *)
Lemma anc_parents t : forall up,
  map (fun e : Z * list Z => (fst e, hd (-1) (snd e))) (anc_from up t) = parents_from (hd (-1) up) t.
Proof.
  induction t as [i o ks IH] using tree_ind2. intros up. cbn [anc_from parents_from map fst snd]. f_equal.
  rewrite map_flat_map. induction ks as [|k ks IHk]; [reflexivity|]. inversion IH as [|? ? H1 H2]; subst.
  cbn [flat_map]. rewrite (H1 (i :: up)). cbn [hd]. f_equal. apply IHk, H2.
Qed.

Theorem anc_table_parents f :
  map (fun e : Z * list Z => (fst e, hd (-1) (snd e))) (anc_table f) = parent_table f.
Proof.
  unfold anc_table, parent_table. rewrite map_flat_map. induction f as [|t f IH]; [reflexivity|].
  cbn [flat_map]. rewrite (anc_parents t []). cbn [hd]. f_equal. exact IH.
Qed.

(* non-vacuity: the two children (3 and 4) of structure 2 dissolve; the grandchildren 5 and 6
   hang under their nearest surviving former ancestor 2 *)
Example prune_anc_example :
  let f := [Node 0 [(10, 1)] [Node 1 [(0, 9)] [];
              Node 2 [(6, 2)] [Node 3 [(4, 5)] [Node 5 [(2, 9); (1, 6)] []; Node 6 [(3, 8); (5, 6)] []];
                               Node 4 [(7, 3)] []]]] in
  let cs := [MinDelta 2; MinNpix 0 1] in
  NoDup (fids f) /\
  anc_table f = [(0, []); (1, [0]); (2, [0]); (3, [2; 0]); (5, [3; 2; 0]); (6, [3; 2; 0]); (4, [2; 0])] /\
  anc_table (prune_struct cs f) = [(0, []); (1, [0]); (2, [0]); (5, [2; 0]); (6, [2; 0])].
Proof. cbn zeta. split; [|split]; vm_compute; [repeat constructor; cbn; intuition lia | reflexivity | reflexivity]. Qed.
