(* Grid.v — C-order index arithmetic and the neighbour functions
   (Dendrogram.neighbours and periodic_neighbours) resolved through the
   one-cell padding of index_map.  Definitions only; lemmas in GridLemmas.v.

   A pixel is its flat C-order index.  For axis a with length n and stride s
   the coordinate is (p / s) mod n.  The implementation adds +-1 to the
   coordinate and indexes the padded label array: coordinate n is the padding
   cell, coordinate -1 wraps (Python negative index) to the padding cell as
   well, and the padding cell is never labelled - so a non-periodic axis
   contributes a neighbour only while the coordinate stays inside [0,n).
   periodic_neighbours rewrites -1 to n-1 and n to 0 on the listed axes. *)
From Coq Require Import ZArith List Bool Lia.
From Dendro Require Import Base.
Import ListNotations.
Open Scope Z_scope.

Fixpoint strides (shape : list Z) : list Z :=
  match shape with
  | [] => []
  | _ :: r => fold_right Z.mul 1 r :: strides r
  end.

Definition size (shape : list Z) : Z := fold_right Z.mul 1 shape.

Definition coord (p s n : Z) : Z := (p / s) mod n.

Definition nb_axis (p n s : Z) (per : bool) : list Z :=
  let c := coord p s n in
  (if c + 1 <? n then [p + s] else if per then [p - (n - 1) * s] else []) ++
  (if 0 <=? c - 1 then [p - s] else if per then [p + (n - 1) * s] else []).

Fixpoint nb_axes (p : Z) (shape str : list Z) (per : list bool) : list Z :=
  match shape, str with
  | n :: shape', s :: str' =>
      nb_axis p n s (hd false per) ++ nb_axes p shape' str' (tl per)
  | _, _ => []
  end.

(* per: one flag per axis (missing flags = not periodic) *)
Definition nbrs (shape : list Z) (per : list bool) (p : Z) : list Z :=
  nb_axes p shape (strides shape) per.

(* user-supplied adjacency: explicit neighbour lists, one per pixel *)
Definition nbrs_custom (table : list (list Z)) (p : Z) : list Z :=
  nth (Z.to_nat p) table [].

Definition unravel (shape : list Z) (p : Z) : list Z :=
  map (fun ns => coord p (snd ns) (fst ns)) (combine shape (strides shape)).

Definition ravel (shape : list Z) (c : list Z) : Z :=
  fold_left Z.add (map (fun cs => fst cs * snd cs) (combine c (strides shape))) 0.
