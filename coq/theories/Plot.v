(* Plot.v — model of DendrogramPlotter.sort / get_lines (plot.py) and of
   Structure.sorted_leaves / prefix_visit with a key (structure.py).  Positions are exact
   rationals.  The sort key is a table id -> integer (the harness tabulates the key it passes;
   the default key is the peak value of the structure with its descendants). *)
From Coq Require Import ZArith List Bool Lia QArith.
From Dendro Require Import Base Tree.
Import ListNotations.
Open Scope Z_scope.

Section Plot.
  Variable keytb : list (Z * Z).
  Variable reverse : bool.

  Definition key (t : tree) : Z := assoc keytb (tid t).

  (* Python sorted(l, key=key, reverse=R): stable in both directions *)
  Definition psorted (R : bool) (l : list tree) : list tree :=
    if R then sort_by (fun t => - key t) l else sort_by key l.

  (* prefix_visit(s, key, reverse=R) visits the children in sorted order *)
  Fixpoint reorder (R : bool) (t : tree) : tree :=
    match t with Node i o ks => Node i o (psorted R (map (reorder R) ks)) end.

  (* sorted_leaves(sort_key, reverse, subtree=True) *)
  Definition sorted_leaves (t : tree) : list tree :=
    if is_leaf t then [t] else filter is_leaf (rev (nodes (reorder (negb reverse) t))).

  (* leaf identifiers from left to right: trunk structures sorted, then their leaves *)
  Definition leaf_order (f : list tree) : list Z :=
    flat_map (fun t => map tid (sorted_leaves t)) (psorted reverse f).

  Fixpoint index_of (i : Z) (l : list Z) (k : Z) : Z :=
    match l with
    | [] => -1
    | x :: r => if x =? i then k else index_of i r (k + 1)
    end.

  Definition qmean (l : list Q) : Q :=
    (fold_right Qplus 0%Q l) / (inject_Z (Z.of_nat (length l))).

  (* position of a structure: leaves at their index, branches at the mean of their children *)
  Fixpoint pos (lo : list Z) (t : tree) : Q :=
    match t with
    | Node i _ [] => inject_Z (index_of i lo 0)
    | Node _ _ ks => qmean (map (pos lo) ks)
    end.

  Definition qmin2 (a b : Q) : Q := if Qle_bool a b then a else b.
  Definition qmax2 (a b : Q) : Q := if Qle_bool a b then b else a.
  Definition qmin (l : list Q) : Q := match l with [] => 0%Q | x :: r => fold_left qmin2 r x end.
  Definition qmax (l : list Q) : Q := match l with [] => 0%Q | x :: r => fold_left qmax2 r x end.

  (* get_lines: per selected structure a vertical segment (x, bottom)-(x, top) and, for a
     branch, a horizontal one spanning its children at its height; bottom = parent's height,
     or the structure's own minimum on the trunk.  Each segment: (id, ((x1, y1), (x2, y2))) *)
  Definition seg : Type := Z * ((Q * Z) * (Q * Z)).

  Definition node_segs (lo : list Z) (parent_height : option Z) (t : tree) : list seg :=
    let x := pos lo t in
    let bot := match parent_height with Some h => h | None => vmin t end in
    let top := height t in
    let vert := (tid t, ((x, bot), (x, top))) in
    match tkids t with
    | [] => [vert]
    | ks => let pc := map (pos lo) ks in [vert; (tid t, ((qmin pc, top), (qmax pc, top)))]
    end.

  Fixpoint lines_from (lo : list Z) (parent_height : option Z) (t : tree) : list (Z * list seg) :=
    match t with
    | Node i _ ks => (i, node_segs lo parent_height t) :: flat_map (lines_from lo (Some (height t))) ks
    end.

  (* segments of every structure, keyed by id, in prefix order *)
  Definition line_table (f : list tree) : list (Z * list seg) :=
    flat_map (lines_from (leaf_order f) None) f.

  Definition segs_of (tb : list (Z * list seg)) (i : Z) : list seg :=
    match find (fun e => fst e =? i) tb with Some e => snd e | None => [] end.

  (* get_lines(structures = ids): segments of the selected structures, in the given order *)
  Definition get_lines (f : list tree) (sel : list Z) : list seg :=
    flat_map (segs_of (line_table f)) sel.

  Definition positions (f : list tree) : list (Z * Q) :=
    map (fun t => (tid t, pos (leaf_order f) t)) (fnodes f).
End Plot.

(* observable form with reduced fractions as (numerator, denominator) *)
Definition qpair (q : Q) : Z * Z := let r := Qred q in (Qnum r, Z.pos (Qden r)).
Definition positions_view (keytb : list (Z * Z)) (reverse : bool) (f : list tree) : list (Z * (Z * Z)) :=
  map (fun e => (fst e, qpair (snd e))) (positions keytb reverse f).
Definition seg_view (s : seg) : Z * (((Z * Z) * Z) * ((Z * Z) * Z)) :=
  (fst s, ((qpair (fst (fst (snd s))), snd (fst (snd s))), (qpair (fst (snd (snd s))), snd (snd (snd s))))).
Definition lines_view (keytb : list (Z * Z)) (reverse : bool) (f : list tree) (sel : list Z) :=
  map seg_view (get_lines keytb reverse f sel).
