(* NewickLemmas.v — C09: the textual tree encoding parses back to the tree it was
   written from (token level, for every forest), and decimal identifiers round-trip. *)
From Coq Require Import ZArith List Bool Lia Ascii String Decimal DecimalString DecimalN.
From Dendro Require Import Base Tree Newick.
Import ListNotations.
Open Scope Z_scope.

Section ntree_ind2.
  Variable P : ntree -> Prop.
  Hypothesis HN : forall i h ks, Forall P ks -> P (NNode i h ks).
  Fixpoint ntree_ind2 (t : ntree) : P t :=
    match t with
    | NNode i h ks =>
        HN i h ks ((fix go (l : list ntree) : Forall P l :=
                      match l with
                      | [] => Forall_nil P
                      | x :: r => Forall_cons x (ntree_ind2 x) (go r)
                      end) ks)
    end.
End ntree_ind2.

Lemma toks_tree_head t : exists x l, toks_tree t = x :: l /\ x <> TR /\ forall n, x = TId n -> l <> [] .
Proof.
  destruct t as [i h [|k ks]]; cbn [toks_tree].
  - exists (TId i), [TColon; TH h]. repeat split; [discriminate | intros; discriminate].
  - eexists TL, _. repeat split; [discriminate | intros; discriminate].
Qed.

Lemma sep_comma_cons2 a b r : sep_comma (a :: b :: r) = a ++ TComma :: sep_comma (b :: r).
Proof. reflexivity. Qed.
Lemma sep_comma_one a : sep_comma [a] = a.
Proof. reflexivity. Qed.

Definition tree_ok (t : ntree) : Prop :=
  forall fuel rest, (List.length (toks_tree t) <= fuel)%nat ->
                    parse_tree fuel (toks_tree t ++ rest) = Some (t, rest).

Lemma parse_list_ok ks :
  Forall tree_ok ks ->
  forall fuel rest,
    (List.length (sep_comma (map toks_tree ks)) + 1 <= fuel)%nat ->
    parse_list fuel (sep_comma (map toks_tree ks) ++ TR :: rest) = Some (ks, rest).
Proof.
  induction ks as [|t ks IH]; intros Hall fuel rest Hf.
  - destruct fuel as [|fuel']; [cbn in Hf; lia|]. reflexivity.
  - inversion Hall as [|? ? Ht Hks]; subst.
    destruct fuel as [|fuel']; [lia|].
    destruct ks as [|t2 ks'].
    + (* last element *)
      cbn [map] in *. rewrite sep_comma_one in *.
      destruct (toks_tree_head t) as [x [l [E [Hx _]]]].
      assert (Hp : parse_tree fuel' (toks_tree t ++ TR :: rest) = Some (t, TR :: rest)) by (apply Ht; lia).
      cbn [parse_list]. rewrite E in *. cbn [List.app] in *.
      destruct x; try congruence; rewrite Hp; reflexivity.
    + cbn [map] in *. rewrite sep_comma_cons2 in *.
      remember (sep_comma (toks_tree t2 :: map toks_tree ks')) as X eqn:EX.
      rewrite app_length in Hf. cbn [List.length] in Hf.
      rewrite <- app_assoc. cbn [List.app].
      destruct (toks_tree_head t) as [x [l [E [Hx _]]]].
      assert (Hp : parse_tree fuel' (toks_tree t ++ TComma :: X ++ TR :: rest) = Some (t, TComma :: X ++ TR :: rest))
        by (apply Ht; lia).
      assert (Hl : parse_list fuel' (X ++ TR :: rest) = Some (t2 :: ks', rest)).
      { apply (IH Hks). lia. }
      cbn [parse_list]. rewrite E in *. cbn [List.app] in *.
      destruct x; try congruence; rewrite Hp, Hl; reflexivity.
Qed.

Theorem parse_tree_ok t : tree_ok t.
Proof.
  induction t as [i h ks IH] using ntree_ind2. intros fuel rest Hf.
  destruct ks as [|k ks'].
  - cbn [toks_tree List.length] in Hf. destruct fuel as [|fuel']; [lia|]. reflexivity.
  - change (toks_tree (NNode i h (k :: ks'))) with
      (TL :: sep_comma (map toks_tree (k :: ks')) ++ [TR; TId i; TColon; TH h]) in *.
    remember (sep_comma (map toks_tree (k :: ks'))) as X eqn:EX.
    cbn [List.length] in Hf. rewrite app_length in Hf. cbn [List.length] in Hf.
    destruct fuel as [|fuel']; [lia|].
    cbn [List.app parse_tree]. rewrite <- app_assoc. cbn [List.app].
    assert (Hl : parse_list fuel' (X ++ TR :: TId i :: TColon :: TH h :: rest)
                 = Some (k :: ks', TId i :: TColon :: TH h :: rest)).
    { rewrite EX. apply (parse_list_ok (k :: ks') IH). rewrite <- EX. lia. }
    rewrite Hl. reflexivity.
Qed.

(* C09: the token stream written for a forest parses back to that forest: identifiers,
   heights, nesting and child order, for every forest (any size, any depth) *)
Theorem parse_write_forest f : parse_forest (toks_forest f) = Some f.
Proof.
  unfold parse_forest, toks_forest.
  assert (Hall : Forall tree_ok f) by (rewrite Forall_forall; intros t _; apply parse_tree_ok).
  pose proof (parse_list_ok f Hall (S (List.length (TL :: sep_comma (map toks_tree f) ++ [TR; TSemi]))) [TSemi]) as H.
  rewrite H; [reflexivity|]. cbn [List.length]. rewrite app_length. cbn [List.length]. lia.
Qed.

(* ---- shapes: what the Newick tree of a dendrogram carries *)
Lemma shape_of_ntree_of hstr t : shape_of_ntree (ntree_of hstr t) = shape_of_tree t.
Proof.
  induction t as [i o ks IH] using tree_ind2. cbn [ntree_of shape_of_ntree shape_of_tree]. f_equal.
  rewrite map_map. induction ks as [|k ks IHk]; [reflexivity|]. inversion IH; subst.
  cbn [map]. f_equal; [assumption | apply IHk; assumption].
Qed.

Theorem newick_roundtrip_shape hstr f :
  option_map (map shape_of_ntree) (parse_forest (toks_forest (map (ntree_of hstr) f)))
  = Some (map shape_of_tree f).
Proof.
  rewrite parse_write_forest. cbn [option_map]. f_equal. rewrite map_map.
  induction f as [|t f IH]; [reflexivity|]. cbn [map]. f_equal; [apply shape_of_ntree_of | exact IH].
Qed.

(* ---- decimal identifiers round-trip *)
Theorem id_roundtrip n : 0 <= n -> parse_id (print_id n) = Some n.
Proof.
  intros Hn. unfold parse_id, print_id.
  assert (Hm : Z.of_N (N.of_uint (N.to_uint (Z.to_N n))) = n) by (rewrite DecimalN.Unsigned.of_to; lia).
  destruct (N.to_uint (Z.to_N n)) eqn:Eu;
    try (rewrite NilZero.usu by discriminate; cbn [option_map]; f_equal; exact Hm).
  (* the empty numeral denotes 0 and is printed as "0" *)
  cbn in Hm. cbn. f_equal. exact Hm.
Qed.

Lemma string_chars_inv s : string_of_chars (chars_of_string s) = s.
Proof. induction s as [|c s IH]; cbn; [reflexivity | rewrite IH; reflexivity]. Qed.

Theorem digits_roundtrip n : 0 <= n -> num_of_digits (digits_of n) = n.
Proof.
  intros Hn. unfold num_of_digits, digits_of. rewrite string_chars_inv, id_roundtrip by exact Hn. reflexivity.
Qed.
