(* GridLemmas.v — the neighbour relation of Grid.v is symmetric (default and
   periodic axes, any dimension, axes of length 1 and 2 included). *)
From Coq Require Import ZArith List Bool Lia.
From Dendro Require Import Base Grid.
Import ListNotations.
Open Scope Z_scope.

(* moving k steps along an axis changes that coordinate by k while it stays in range *)
Lemma coord_shift p s n k :
  0 < s -> 0 < n -> 0 <= coord p s n + k < n -> coord (p + k * s) s n = coord p s n + k.
Proof.
  intros Hs Hn Hr. unfold coord in *.
  rewrite Z.div_add by lia.
  symmetry. apply (Z.mod_unique _ _ ((p / s) / n)); [left; exact Hr|].
  pose proof (Z.div_mod (p / s) n ltac:(lia)) as E. lia.
Qed.

Lemma coord_range p s n : 0 < n -> 0 <= coord p s n < n.
Proof. intros Hn. unfold coord. apply Z.mod_pos_bound. exact Hn. Qed.

Lemma nb_axis_sym p q n s per :
  0 < s -> 0 < n -> In q (nb_axis p n s per) -> In p (nb_axis q n s per).
Proof.
  intros Hs Hn H. unfold nb_axis in H.
  pose proof (coord_range p s n Hn) as Hc.
  apply in_app_or in H. destruct H as [H|H].
  - destruct (coord p s n + 1 <? n) eqn:E.
    + (* q = p + s *)
      destruct H as [<-|[]]. apply Z.ltb_lt in E.
      assert (Hq : coord (p + s) s n = coord p s n + 1).
      { replace (p + s) with (p + 1 * s) by lia. apply coord_shift; lia. }
      unfold nb_axis. rewrite Hq. apply in_or_app. right.
      replace (0 <=? coord p s n + 1 - 1) with true by (symmetry; apply Z.leb_le; lia).
      left. lia.
    + destruct per; [|destruct H].
      destruct H as [<-|[]]. apply Z.ltb_ge in E.
      assert (Hq : coord (p - (n - 1) * s) s n = 0).
      { replace (p - (n - 1) * s) with (p + (-(n - 1)) * s) by lia.
        rewrite coord_shift; lia. }
      unfold nb_axis. rewrite Hq. apply in_or_app. right.
      replace (0 <=? 0 - 1) with false by reflexivity.
      left. lia.
  - destruct (0 <=? coord p s n - 1) eqn:E.
    + destruct H as [<-|[]]. apply Z.leb_le in E.
      assert (Hq : coord (p - s) s n = coord p s n - 1).
      { replace (p - s) with (p + (-1) * s) by lia. rewrite coord_shift; lia. }
      unfold nb_axis. rewrite Hq. apply in_or_app. left.
      replace (coord p s n - 1 + 1 <? n) with true by (symmetry; apply Z.ltb_lt; lia).
      left. lia.
    + destruct per; [|destruct H].
      destruct H as [<-|[]]. apply Z.leb_gt in E.
      assert (Hq : coord (p + (n - 1) * s) s n = n - 1).
      { rewrite coord_shift; lia. }
      unfold nb_axis. rewrite Hq. apply in_or_app. left.
      replace (n - 1 + 1 <? n) with false by (symmetry; apply Z.ltb_ge; lia).
      left. lia.
Qed.

Lemma nb_axes_sym shape : forall str per p q,
  Forall (fun n => 0 < n) shape -> Forall (fun s => 0 < s) str ->
  In q (nb_axes p shape str per) -> In p (nb_axes q shape str per).
Proof.
  induction shape as [|n shape IH]; intros str per p q Hsh Hst H; [destruct H|].
  destruct str as [|s str]; [destruct H|].
  cbn [nb_axes] in *. inversion Hsh; subst. inversion Hst; subst.
  apply in_app_or in H. apply in_or_app. destruct H as [H|H].
  - left. apply nb_axis_sym; assumption.
  - right. apply IH; assumption.
Qed.

Lemma fold_mul_pos l : Forall (fun n => 0 < n) l -> 0 < fold_right Z.mul 1 l.
Proof.
  induction 1 as [|n l Hn _ IH]; cbn [fold_right]; [lia|]. apply Z.mul_pos_pos; assumption.
Qed.

Lemma strides_pos shape : Forall (fun n => 0 < n) shape -> Forall (fun s => 0 < s) (strides shape).
Proof.
  induction 1 as [|n l Hn Hl IH]; cbn [strides]; constructor; [apply fold_mul_pos, Hl | exact IH].
Qed.

(* C03 / C17: adjacency (default and periodic) is symmetric, for every dimension and
   every axis length >= 1 *)
Theorem nbrs_sym shape per p q :
  Forall (fun n => 0 < n) shape -> In q (nbrs shape per p) -> In p (nbrs shape per q).
Proof.
  intros Hsh H. unfold nbrs in *. apply nb_axes_sym; [exact Hsh | apply strides_pos, Hsh | exact H].
Qed.

(* a non-periodic axis never links its two ends (length > 2), a periodic one does *)
Lemma nb_axis_spec p n s per q :
  In q (nb_axis p n s per) <->
  (coord p s n + 1 < n /\ q = p + s) \/
  (coord p s n + 1 >= n /\ per = true /\ q = p - (n - 1) * s) \/
  (0 <= coord p s n - 1 /\ q = p - s) \/
  (coord p s n - 1 < 0 /\ per = true /\ q = p + (n - 1) * s).
Proof.
  unfold nb_axis. rewrite in_app_iff.
  destruct (coord p s n + 1 <? n) eqn:E1; destruct (0 <=? coord p s n - 1) eqn:E2;
    try apply Z.ltb_lt in E1; try apply Z.ltb_ge in E1; try apply Z.leb_le in E2; try apply Z.leb_gt in E2;
    destruct per; cbn [In]; intuition (try lia; try congruence).
Qed.
