(* Viewer.v — the selection logic of viewer.py (SelectionHub, BasicDendrogramViewer) and
   scatter.py (Scatter) as a state machine.  What is abstracted: which line or point is under
   the cursor (matplotlib picking geometry, Path.contains_points) - events arrive already
   resolved to a structure or to catalog rows.  What is modelled: the hub (three slots,
   subtree flag, callbacks), and per slot the artifacts each view keeps: highlighted line
   structures, contour mask description, label, highlighted scatter rows, and the slice. *)
From Coq Require Import ZArith List Bool Lia.
From Dendro Require Import Base Tree.
Import ListNotations.
Open Scope Z_scope.

(* what a slot holds: None = nothing selected ([None] in the hub) *)
Record selection : Type := { s_structs : list Z; s_subtree : bool }.

(* artifacts of one slot *)
Record artifacts : Type := {
  a_lines : option (list Z);            (* .structures of the highlighted line collection *)
  a_contour : option (list Z * Z);      (* ids whose subtree masks are summed, displayed slice *)
  a_label : option (list Z);            (* ids named in the label; None = "No structure selected" *)
  a_scatter : option (list Z)           (* ids of the highlighted catalog rows *)
}.
Definition no_artifacts : artifacts := {| a_lines := None; a_contour := None; a_label := None; a_scatter := None |}.

Record vstate : Type := {
  v_sel : list (Z * option selection);  (* slot -> selection; absent = never touched *)
  v_art : list (Z * artifacts);
  v_slice : Z;
  v_notified : list (Z * Z)             (* (view, slot) notifications, newest first *)
}.

Section Viewer.
  Variable f : list tree.               (* the dendrogram *)
  Variable views : list Z.              (* registered views: 0 = tree viewer, 1.. = scatter plots *)

  Definition desc_ids (i : Z) : list Z :=
    match lookup f i with Some t => map tid (descendants t) | None => [] end.

  Fixpoint aget {A} (l : list (Z * A)) (k : Z) (d : A) : A :=
    match l with [] => d | (j, v) :: r => if j =? k then v else aget r k d end.
  Definition aset {A} (l : list (Z * A)) (k : Z) (v : A) : list (Z * A) :=
    (k, v) :: filter (fun e => negb (fst e =? k)) l.

  (* the artifacts a slot should show for a selection (declarative) *)
  Definition lines_for (s : selection) : list Z :=
    match s_structs s with
    | [] => []
    | s0 :: _ => if s_subtree s then desc_ids s0 ++ [s0] else s_structs s
    end.
  Definition contour_for (s : selection) (slice : Z) : list Z * Z :=
    match s_structs s with
    | [] => ([], slice)
    | s0 :: _ => (if s_subtree s then [s0] else s_structs s, slice)
    end.
  Definition label_for (s : selection) : list Z := firstn 3 (s_structs s).
  Definition scatter_for (s : selection) : list Z :=
    match s_structs s with
    | [] => []
    | s0 :: _ => if s_subtree s then desc_ids s0 ++ [s0] else s_structs s
    end.

  Definition shown (os : option selection) (slice : Z) : artifacts :=
    match os with
    | None => no_artifacts
    | Some s => {| a_lines := Some (lines_for s); a_contour := Some (contour_for s slice);
                   a_label := Some (label_for s); a_scatter := Some (scatter_for s) |}
    end.

  (* ---- the imperative updates of the code *)
  (* update_contours: remove all contours, then one per slot with a selection *)
  Definition update_contours (sel : list (Z * option selection)) (slice : Z) (art : list (Z * artifacts)) : list (Z * artifacts) :=
    map (fun e => let a := snd e in
                  (fst e, {| a_lines := a_lines a;
                             a_contour := match aget sel (fst e) None with Some s => Some (contour_for s slice) | None => None end;
                             a_label := a_label a; a_scatter := a_scatter a |})) art.

  (* hub.select(slot, structures, subtree) followed by the callbacks of the tree viewer
     (_update_lines, update_contours) and of the scatter plots (update_selection) *)
  Definition select (st : vstate) (slot : Z) (os : option selection) : vstate :=
    let sel := aset (v_sel st) slot os in
    let old := aget (v_art st) slot no_artifacts in
    (* _update_lines + Scatter.update_selection for this slot *)
    let mine := match os with
                | None => {| a_lines := None; a_contour := None; a_label := None; a_scatter := None |}
                | Some s => {| a_lines := Some (lines_for s); a_contour := a_contour old;
                               a_label := Some (label_for s); a_scatter := Some (scatter_for s) |}
                end in
    let art := aset (v_art st) slot mine in
    {| v_sel := sel; v_art := update_contours sel (v_slice st) art; v_slice := v_slice st;
       v_notified := map (fun v => (v, slot)) views ++ v_notified st |}.

  (* update_slice: new slice, contours redrawn *)
  Definition set_slice (st : vstate) (k : Z) : vstate :=
    {| v_sel := v_sel st; v_art := update_contours (v_sel st) k (v_art st); v_slice := k; v_notified := v_notified st |}.

  Inductive event : Type :=
  | Click (slot : Z) (target : option Z)                (* structure_at(rounded click) in the displayed slice *)
  | PickLine (slot : Z) (target : Z) (peak_slice : option Z)   (* 3-D: the slice jumps to the peak *)
  | Lasso (slot : Z) (rows : list Z)                    (* structures whose catalog rows are inside *)
  | SetSlice (k : Z).

  Definition one (i : Z) : selection := {| s_structs := [i]; s_subtree := true |}.

  Definition step (st : vstate) (e : event) : vstate :=
    match e with
    | Click slot None => select st slot None
    | Click slot (Some i) => select st slot (Some (one i))
    | PickLine slot i ps => let st' := match ps with Some k => set_slice st k | None => st end in
                            select st' slot (Some (one i))
    | Lasso slot [] => select st slot None
    | Lasso slot rows => select st slot (Some {| s_structs := rows; s_subtree := false |})
    | SetSlice k => set_slice st k
    end.

  Definition init (slice : Z) : vstate :=
    {| v_sel := []; v_art := [(1, no_artifacts); (2, no_artifacts); (3, no_artifacts)]; v_slice := slice; v_notified := [] |}.

  Definition run (slice : Z) (es : list event) : vstate := fold_left step es (init slice).

  (* the click target: the structure owning pixel (iy, ix) in the displayed slice, if any *)
  Definition click_target (labels : list Z) (ny nx : Z) (slice : option Z) (iy ix : Z) : option Z :=
    let p := match slice with Some k => (k * ny + iy) * nx + ix | None => iy * nx + ix end in
    let l := nth (Z.to_nat p) labels (-1) in
    if (0 <=? iy) && (iy <? ny) && (0 <=? ix) && (ix <? nx) && (0 <=? l) then Some l else None.
End Viewer.
