(* Stats.v — PP / PPV statistics (analysis.py: SpatialBase, PPStatistic, PPVStatistic) at the
   level of exact rational quantities: the sky-plane covariance (trace, determinant), the
   variance along the velocity axis, centroids with the documented axis selection, exact
   area, the unit each quantity carries, and the Metadata descriptor.  Square roots and the
   eigen-solver are outside: sigmas are characterised through their squares. *)
From Coq Require Import ZArith List Bool QArith Lia.
From Dendro Require Import Moments.
Import ListNotations.
Open Scope Q_scope.

(* the two sky axes of a cube whose velocity axis is vaxis, in array order *)
Definition sky_axes (vaxis : nat) : nat * nat :=
  match vaxis with 0%nat => (1%nat, 2%nat) | 1%nat => (0%nat, 2%nat) | _ => (0%nat, 1%nat) end.

(* sky-plane covariance [[a, b], [b, c]] *)
Definition sky_cov (ps : list pt) (ax : nat * nat) : Q * Q * Q :=
  (mom2 ps (fst ax) (fst ax), mom2 ps (fst ax) (snd ax), mom2 ps (snd ax) (snd ax)).

Definition tr2 (m : Q * Q * Q) : Q := let '(a, b, c) := m in a + c.
Definition det2 (m : Q * Q * Q) : Q := let '(a, b, c) := m in a * c - b * b.

(* lam is an eigenvalue of [[a, b], [b, c]] with eigenvector (p, q) *)
Definition eigen2 (m : Q * Q * Q) (lam p q : Q) : Prop :=
  let '(a, b, c) := m in a * p + b * q == lam * p /\ b * p + c * q == lam * q.

(* PP: both axes are sky axes *)
Definition pp_sky (ps : list pt) : Q * Q * Q := sky_cov ps (0%nat, 1%nat).
Definition ppv_sky (ps : list pt) (vaxis : nat) : Q * Q * Q := sky_cov ps (sky_axes vaxis).

(* v_rms^2 in pixel units; multiplied by velocity_scale^2 when given *)
Definition v_var (ps : list pt) (vaxis : nat) : Q := mom2 ps vaxis vaxis.

(* centroids: _world_pos without WCS is mom1 in array order (p[0], p[1], p[2]);
   x_cen = p[2] if vaxis != 2 else p[1]; y_cen = p[1] if vaxis == 0 else p[0]; v_cen = p[vaxis] *)
Definition ppv_x_cen (ps : list pt) (vaxis : nat) : Q := mom1 ps (if Nat.eqb vaxis 2 then 1%nat else 2%nat).
Definition ppv_y_cen (ps : list pt) (vaxis : nat) : Q := mom1 ps (if Nat.eqb vaxis 0 then 1%nat else 0%nat).
Definition ppv_v_cen (ps : list pt) (vaxis : nat) : Q := mom1 ps vaxis.
Definition pp_x_cen (ps : list pt) : Q := mom1 ps 1%nat.
Definition pp_y_cen (ps : list pt) : Q := mom1 ps 0%nat.

(* exact area: number of distinct sky positions (PPV) / number of pixels (PP) *)
Fixpoint qlist_eqb (a b : list Q) : bool :=
  match a, b with
  | [], [] => true
  | x :: r, y :: s => Qeq_bool x y && qlist_eqb r s
  | _, _ => false
  end.
Fixpoint dedup_q (l : list (list Q)) : list (list Q) :=
  match l with
  | [] => []
  | x :: r => x :: filter (fun y => negb (qlist_eqb x y)) (dedup_q r)
  end.
Definition ppv_area_count (ps : list pt) (vaxis : nat) : nat :=
  length (dedup_q (map (fun p => [coord (fst (sky_axes vaxis)) p; coord (snd (sky_axes vaxis)) p]) ps)).
Definition pp_area_count (ps : list pt) : nat := length ps.

(* moving the velocity axis of a vaxis = 0 cube to array position a *)
Definition move_vaxis (a : nat) (p : pt) : pt :=
  match px p with
  | [v; y; x] => {| px := match a with 0%nat => [v; y; x] | 1%nat => [y; v; x] | _ => [y; x; v] end; pw := pw p |}
  | _ => p
  end.

(* ---- units: what each quantity is multiplied by *)
Inductive unit_tag : Type := UPixel | USpatial | UVelocity | UDegree | USpatial2 | UPixel2.
Definition unit_of_sigma (has_spatial_scale : bool) : unit_tag := if has_spatial_scale then USpatial else UPixel.
Definition unit_of_vrms (has_velocity_scale : bool) : unit_tag := if has_velocity_scale then UVelocity else UPixel.
Definition unit_of_area (has_spatial_scale : bool) : unit_tag := if has_spatial_scale then USpatial2 else UPixel2.

(* ---- the Metadata descriptor: (value present?, strict?, default present?, type ok?) *)
Inductive md_result : Type := MdValue | MdDefault | MdNone | MdKeyError | MdTypeError.
Definition metadata_get (present strict has_default restricted type_ok default_type_ok : bool) : md_result :=
  if present then (if restricted && negb type_ok then MdTypeError else MdValue)
  else if strict then MdKeyError
  else if has_default then (if restricted && negb default_type_ok then MdTypeError else MdDefault)
  else MdNone.
