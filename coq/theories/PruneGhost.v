(* PruneGhost.v — the REPAIRED variant of prune used to delimit known finding K1 (C08):
   identical to Prune.v except that the post-hoc min_delta test measures a leaf against the
   value at which it was attached during compute (a ghost table id -> attach value) instead
   of against parent.height.  Executable definitions and the C08 comparison only. *)
From Coq Require Import ZArith List Bool Lia.
From Dendro Require Import Base Tree Criteria Compute Prune.
Import ListNotations.
Open Scope Z_scope.

(* attach value of every structure that has a parent: the value of the pixel that created
   its parent (first own pixel of the parent in a computed forest) *)
Fixpoint att_from (t : tree) : list (Z * Z) :=
  match t with
  | Node _ o ks => map (fun k => (tid k, snd (hd (0, 0) o))) ks ++ flat_map att_from ks
  end.
Definition att_table (f : list tree) : list (Z * Z) := flat_map att_from f.

Section G.
  Variable cs : list crit.
  Variable att : list (Z * Z).

  Definition gh_ok (k : tree) : bool := indep_posthoc cs (town k) (assoc att (tid k)).

  Section Scan.
    Variable po : tree -> option tree.
    Variables (i : Z) (o : list (Z * Z)).
    Fixpoint gscan (pre rest : list tree) {struct rest} : option tree :=
      match rest with
      | [] => None
      | k :: rest' =>
          if is_leaf k then
            if gh_ok k then gscan (pre ++ [k]) rest' else Some (merged i o pre k rest')
          else match po k with
               | Some k' => Some (Node i o (pre ++ k' :: rest'))
               | None => gscan (pre ++ [k]) rest'
               end
      end.
  End Scan.

  Fixpoint gprune_once (u : tree) : option tree :=
    match u with Node i o ks => gscan gprune_once i o [] ks end.

  Fixpoint gprune_forest_once (f : list tree) : option (list tree) :=
    match f with
    | [] => None
    | t :: r => match gprune_once t with
                | Some t' => Some (t' :: r)
                | None => option_map (cons t) (gprune_forest_once r)
                end
    end.

  Fixpoint gprune_loop (fuel : nat) (f : list tree) : list tree :=
    match fuel with
    | O => f
    | S n => match gprune_forest_once f with Some f' => gprune_loop n f' | None => f end
    end.

  Definition gprune_struct (f : list tree) : list tree := trunk_of cs (gprune_loop (fsize' f) f).
End G.

(* canonical hierarchy: (smallest own pixel, (sorted own pixels, smallest own pixel of the
   parent or -1)), sorted by the first component: regions and parent relation, no ids *)
Fixpoint canon_from (par : Z) (t : tree) : list (Z * (list Z * Z)) :=
  match t with
  | Node _ o ks => (minl (map fst o), (sort_by (fun x => x) (map fst o), par))
                   :: flat_map (canon_from (minl (map fst o))) ks
  end.
Definition canon (f : list tree) : list (Z * (list Z * Z)) :=
  sort_by fst (flat_map (canon_from (-1)) f).

Definition canon_eqb (a b : list (Z * (list Z * Z))) : bool :=
  list_eqb (pair_eqb Z.eqb (pair_eqb (list_eqb Z.eqb) Z.eqb)) a b.

(* C08 on one input: compute with the lax parameters then prune with the strict ones,
   versus compute with the strict ones.  Returns (faithful model agrees, repaired agrees). *)
Definition c08_view (shape : list Z) (a : adjspec) (vals : list (option Z)) (minv : option Z)
           (d0 : Z) (n0 : Z * Z) (d1 : Z) (n1 : Z * Z) : bool * bool :=
  let lax := compute shape a vals minv [MinDelta d0; MinNpix (fst n0) (snd n0)] in
  let strict := compute shape a vals minv [MinDelta d1; MinNpix (fst n1) (snd n1)] in
  let cs := [MinDelta d1; MinNpix (fst n1) (snd n1)] in
  (canon_eqb (canon (prune_struct cs lax)) (canon strict),
   canon_eqb (canon (gprune_struct cs (att_table lax) lax)) (canon strict)).
