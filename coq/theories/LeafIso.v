(* LeafIso.v — C16/C17, arbitrary values (ties included), no pruning: under a relabelling of
   the pixels that is an isomorphism of the adjacency graph, the leaves of the two hierarchies
   correspond one to one (so their number is the same), whatever the two processing orders
   are.  Through RegMax.v: leaves <-> regional maxima, and regional maxima are a notion of the
   valued graph alone. *)
From Coq Require Import ZArith List Bool Lia Permutation Sorted Relations.
From Dendro Require Import Base BaseLemmas Tree TreeLemmas Grid GridLemmas Criteria Compute ComputeInv ComputeThm PixelMap GridIso GridSym RegMax.
Import ListNotations.
Open Scope Z_scope.

Section LeafIso.
  Variable g : Z -> Z.
  Variables adj adj' : Z -> list Z.
  Variables order order' : list (Z * Z).
  Hypothesis Hnd : NoDup (map fst order).
  Hypothesis Hnd' : NoDup (map fst order').
  Hypothesis Hs : sorted_desc order.
  Hypothesis Hs' : sorted_desc order'.
  Hypothesis Hsym : forall a b, In a (map fst order) -> In b (map fst order) -> In b (adj a) -> In a (adj b).
  Hypothesis Hsym' : forall a b, In a (map fst order') -> In b (map fst order') -> In b (adj' a) -> In a (adj' b).
  (* the second run processes the relabelled pixels with the same values, in any sorted order *)
  Hypothesis Hperm : Permutation order' (map (gpv g) order).
  (* g is an isomorphism of the adjacency graphs on the kept pixels *)
  Hypothesis Hiso : forall p q, In p (map fst order) -> In q (map fst order) ->
                                (In (g q) (adj' (g p)) <-> In q (adj p)).

  Let R := run adj np order.
  Let R' := run adj' np order'.

  Lemma in_order' a : In a order -> In (gpv g a) order'.
  Proof. intros H. apply (Permutation_in _ (Permutation_sym Hperm)). apply in_map, H. Qed.

  Lemma from_order' b' : In b' order' -> exists b, In b order /\ b' = gpv g b.
  Proof.
    intros H. apply (Permutation_in _ Hperm) in H. apply in_map_iff in H. destruct H as [b [E Hb]].
    exists b. split; [exact Hb | symmetry; exact E].
  Qed.

  Lemma nbr_iso a b : In a order -> In b order -> (nbr adj' (gpv g a) (gpv g b) <-> nbr adj a b).
  Proof.
    intros Ha Hb. unfold nbr, gpv. cbn [fst].
    rewrite (Hiso (fst a) (fst b) (in_map fst _ _ Ha) (in_map fst _ _ Hb)).
    rewrite (Hiso (fst b) (fst a) (in_map fst _ _ Hb) (in_map fst _ _ Ha)). reflexivity.
  Qed.

  Lemma sim_fwd a b : sim adj order a b -> sim adj' order' (gpv g a) (gpv g b).
  Proof.
    induction 1 as [a b [Ha [Hb [Hn He]]]|a|a b c _ IH1 _ IH2].
    - apply rt_step. repeat split; [apply in_order', Ha | apply in_order', Hb | apply nbr_iso; assumption | exact He].
    - apply rt_refl.
    - eapply rt_trans; eassumption.
  Qed.

  Lemma sim_back a b' : In a order -> sim adj' order' (gpv g a) b' -> exists b, In b order /\ b' = gpv g b /\ sim adj order a b.
  Proof.
    intros Ha H. apply clos_rt_rtn1 in H. induction H as [|b' c' [Hb' [Hc' [Hn He]]] _ IH].
    - exists a. split; [exact Ha|]. split; [reflexivity | apply rt_refl].
    - destruct IH as [b [Hb [-> Hsim]]]. destruct (from_order' c' Hc') as [c [Hc ->]].
      exists c. split; [exact Hc|]. split; [reflexivity|]. eapply rt_trans; [exact Hsim|].
      apply rt_step. repeat split; [exact Hb | exact Hc | apply (nbr_iso b c Hb Hc), Hn | exact He].
  Qed.

  Lemma higher_fwd a : In a order -> higher adj order a -> higher adj' order' (gpv g a).
  Proof.
    intros Ha [b [Hb [Hn Hlt]]]. exists (gpv g b). split; [apply in_order', Hb|].
    split; [apply nbr_iso; assumption | exact Hlt].
  Qed.

  Lemma higher_back a : In a order -> higher adj' order' (gpv g a) -> higher adj order a.
  Proof.
    intros Ha [b' [Hb' [Hn Hlt]]]. destruct (from_order' b' Hb') as [b [Hb ->]].
    exists b. split; [exact Hb|]. split; [apply (nbr_iso a b Ha Hb), Hn | exact Hlt].
  Qed.

  (* regional maxima are a notion of the valued graph *)
  Lemma regmax_iso a : In a order -> (regmax adj' order' (gpv g a) <-> regmax adj order a).
  Proof.
    intros Ha. split; intros [_ Hmax]; (split; [first [exact Ha | apply in_order', Ha]|]).
    - intros b Hb Hh.
      assert (Hbo : In b order).
      { apply clos_rt_rtn1 in Hb. destruct Hb as [|x y [_ [Hy _]] _]; assumption. }
      apply (Hmax (gpv g b) (sim_fwd a b Hb)). apply higher_fwd; assumption.
    - intros b' Hb' Hh. destruct (sim_back a b' Ha Hb') as [b [Hb [-> Hsim]]].
      apply (Hmax b Hsim). apply higher_back; assumption.
  Qed.

  (* C16 / C17, ties included, no pruning: every leaf of the first hierarchy has a leaf of the
     second whose top pixels are the images of its top pixels ... *)
  Theorem leaf_image t :
    In t (fnodes R) -> is_leaf t = true ->
    exists t', In t' (fnodes R') /\ is_leaf t' = true /\ forall z, topof t z -> topof t' (gpv g z).
  Proof.
    intros Ht Hl. destruct (leaf_has_top adj order Hnd Hs Hsym t Ht Hl) as [z0 Hz0].
    destruct (leaf_top_regmax adj order Hnd Hs Hsym t z0 Ht Hz0) as [Hrm _].
    assert (Hz0o : In z0 order) by apply Hrm.
    destruct (regmax_in_leaf adj' order' Hnd' Hs' Hsym' (gpv g z0) (proj2 (regmax_iso z0 Hz0o) Hrm)) as [t' [Ht' Htop']].
    exists t'. split; [exact Ht'|]. split; [apply Htop'|].
    intros z Hz. pose proof (leaf_top_one_plateau adj order Hnd Hs Hsym t z0 z Ht Hz0 Hz) as Hsim.
    apply (proj2 (leaf_top_regmax adj' order' Hnd' Hs' Hsym' t' (gpv g z0) Ht' Htop')). apply sim_fwd, Hsim.
  Qed.

  (* ... every leaf of the second is such an image ... *)
  Theorem leaf_preimage t' :
    In t' (fnodes R') -> is_leaf t' = true ->
    exists t, In t (fnodes R) /\ is_leaf t = true /\ forall z, topof t z -> topof t' (gpv g z).
  Proof.
    intros Ht' Hl'. destruct (leaf_has_top adj' order' Hnd' Hs' Hsym' t' Ht' Hl') as [z0' Hz0'].
    destruct (leaf_top_regmax adj' order' Hnd' Hs' Hsym' t' z0' Ht' Hz0') as [Hrm' Hcl'].
    destruct (from_order' z0' (proj1 Hrm')) as [z0 [Hz0o ->]].
    destruct (regmax_in_leaf adj order Hnd Hs Hsym z0 (proj1 (regmax_iso z0 Hz0o) Hrm')) as [t [Ht Htop]].
    exists t. split; [exact Ht|]. split; [apply Htop|].
    intros z Hz. pose proof (leaf_top_one_plateau adj order Hnd Hs Hsym t z0 z Ht Htop Hz) as Hsim.
    apply Hcl'. apply sim_fwd, Hsim.
  Qed.

  (* ... and the correspondence is one to one *)
  Theorem leaf_image_unique t t1' t2' z :
    In t (fnodes R) -> topof t z -> In t1' (fnodes R') -> In t2' (fnodes R') ->
    topof t1' (gpv g z) -> topof t2' (gpv g z) -> t1' = t2'.
  Proof. intros _ _ H1 H2 T1 T2. exact (regmax_leaf_unique adj' order' Hnd' Hs' Hsym' (gpv g z) t1' t2' H1 H2 T1 T2). Qed.

  Hypothesis Hinj : forall p q, In p (map fst order) -> In q (map fst order) -> g p = g q -> p = q.

  Theorem leaf_preimage_unique t1 t2 t' z1 z2 :
    In t1 (fnodes R) -> In t2 (fnodes R) -> topof t1 z1 -> topof t2 z2 ->
    In t' (fnodes R') -> topof t' (gpv g z1) -> topof t' (gpv g z2) -> t1 = t2.
  Proof.
    intros H1 H2 T1 T2 Ht' U1 U2.
    pose proof (HJR adj order Hnd Hs Hsym) as HJ.
    assert (Z1 : In z1 order) by (destruct T1 as [_ [A _]]; apply (town_in_D adj order _ HJ t1 z1 H1 A)).
    assert (Z2 : In z2 order) by (destruct T2 as [_ [A _]]; apply (town_in_D adj order _ HJ t2 z2 H2 A)).
    pose proof (leaf_top_one_plateau adj' order' Hnd' Hs' Hsym' t' _ _ Ht' U1 U2) as Hsim'.
    destruct (sim_back z1 _ Z1 Hsim') as [b [Hb [E Hsim]]].
    assert (b = z2).
    { unfold gpv in E. injection E as E1 E2. destruct b as [q vq], z2 as [q2 v2]. cbn [fst snd] in *. subst v2. f_equal.
      symmetry. apply Hinj; [apply (in_map fst _ _ Z2) | apply (in_map fst _ _ Hb) | exact E1]. }
    subst b.
    pose proof (proj2 (leaf_top_regmax adj order Hnd Hs Hsym t1 z1 H1 T1) z2 Hsim) as T1'.
    exact (regmax_leaf_unique adj order Hnd Hs Hsym z2 t1 t2 H1 H2 T1' T2).
  Qed.
End LeafIso.

(* ---- on grids related by an isomorphism of GridIso.v *)
Section GridLeaves.
  Variables (shape shape' : list Z) (per per' : list bool) (g : Z -> Z).
  Hypothesis Hiso : giso shape per shape' per' g.
  Hypothesis Hpos : allpos shape.
  Hypothesis Hpos' : allpos shape'.
  Variables (vals vals' : list (option Z)) (minv : option Z).
  Hypothesis Hrange : forall pv, In pv (kept vals minv) -> inrange shape (fst pv).
  Hypothesis Hcarried : carried g (kept vals minv) (kept vals' minv).

  Let order := order_of (kept vals minv).
  Let order' := order_of (kept vals' minv).

  Lemma grid_orders : Permutation order' (map (gpv g) order).
  Proof.
    unfold order, order'. eapply Permutation_trans; [apply order_of_perm|].
    eapply Permutation_trans; [apply (kept_perm shape shape' per per' g Hiso vals vals' minv Hrange Hcarried)|].
    apply Permutation_map, Permutation_sym, order_of_perm.
  Qed.

  Lemma order_range p : In p (map fst order) -> inrange shape p.
  Proof.
    intros H. apply in_map_iff in H. destruct H as [pv [<- Hpv]]. apply Hrange.
    apply (Permutation_in _ (order_of_perm _)), Hpv.
  Qed.

  (* C16 / C17: without pruning, ties included, the leaves of the two dendrograms correspond
     one to one *)
  Theorem grid_leaf_image t :
    In t (fnodes (run (nbrs shape per) np order)) -> is_leaf t = true ->
    exists t', In t' (fnodes (run (nbrs shape' per') np order')) /\ is_leaf t' = true /\
               forall z, topof t z -> topof t' (gpv g z).
  Proof.
    apply (leaf_image g (nbrs shape per) (nbrs shape' per') order order').
    - apply order_of_NoDup.
    - apply order_of_NoDup.
    - apply order_of_sorted.
    - apply order_of_sorted.
    - intros a b _ _. apply nbrs_sym, Hpos.
    - intros a b _ _. apply nbrs_sym, Hpos'.
    - exact grid_orders.
    - intros p q Hp Hq. apply (gi_adj _ _ _ _ _ Hiso); apply order_range; assumption.
  Qed.

  Theorem grid_leaf_preimage t' :
    In t' (fnodes (run (nbrs shape' per') np order')) -> is_leaf t' = true ->
    exists t, In t (fnodes (run (nbrs shape per) np order)) /\ is_leaf t = true /\
              forall z, topof t z -> topof t' (gpv g z).
  Proof.
    apply (leaf_preimage g (nbrs shape per) (nbrs shape' per') order order').
    - apply order_of_NoDup.
    - apply order_of_NoDup.
    - apply order_of_sorted.
    - apply order_of_sorted.
    - intros a b _ _. apply nbrs_sym, Hpos.
    - intros a b _ _. apply nbrs_sym, Hpos'.
    - exact grid_orders.
    - intros p q Hp Hq. apply (gi_adj _ _ _ _ _ Hiso); apply order_range; assumption.
  Qed.
End GridLeaves.
