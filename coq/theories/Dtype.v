(* Dtype.v — numpy fixed-width integer arithmetic as far as compute depends on it (C01, C15):
   the legacy expressions evaluated in the array's dtype wrap around; after the fixes the
   decisions are taken on Python ints / doubles, i.e. on exact integers for the values the
   model covers. *)
From Coq Require Import ZArith List Bool Lia.
Import ListNotations.
Open Scope Z_scope.

(* two's complement / modular wrap of an intN / uintN result *)
Definition wrap (bits : Z) (signed : bool) (x : Z) : Z :=
  if signed then (x + 2 ^ (bits - 1)) mod 2 ^ bits - 2 ^ (bits - 1) else x mod 2 ^ bits.

Definition in_range (bits : Z) (signed : bool) (x : Z) : Prop :=
  if signed then - 2 ^ (bits - 1) <= x < 2 ^ (bits - 1) else 0 <= x < 2 ^ bits.

Lemma wrap_id bits signed x : 0 < bits -> in_range bits signed x -> wrap bits signed x = x.
Proof.
  intros Hb H. unfold wrap, in_range in *. destruct signed.
  - assert (E : 2 ^ bits = 2 * 2 ^ (bits - 1)).
    { replace bits with (1 + (bits - 1)) at 1 by lia. rewrite Z.pow_add_r by lia. reflexivity. }
    rewrite Z.mod_small by lia. lia.
  - apply Z.mod_small. exact H.
Qed.

(* legacy (before fix F2): min_delta test with vmax - value evaluated in the input dtype *)
Definition legacy_delta_ok (bits : Z) (signed : bool) (vmax v delta : Z) : bool :=
  delta <=? wrap bits signed (vmax - v).
(* after the fix: on Python scalars *)
Definition delta_ok (vmax v delta : Z) : bool := delta <=? vmax - v.

Theorem legacy_int8_refuted :
  in_range 8 true 100 /\ in_range 8 true (-100) /\
  legacy_delta_ok 8 true 100 (-100) 150 = false /\ delta_ok 100 (-100) 150 = true.
Proof. cbn. repeat split; lia. Qed.

(* where the difference itself is representable the legacy test was right: the defect needs
   an overflowing difference *)
Theorem legacy_agrees_when_no_overflow bits signed vmax v delta :
  0 < bits -> in_range bits signed (vmax - v) ->
  legacy_delta_ok bits signed vmax v delta = delta_ok vmax v delta.
Proof. intros Hb H. unfold legacy_delta_ok, delta_ok. rewrite wrap_id by assumption. reflexivity. Qed.

(* legacy default threshold (before fix F1): min - 1 in the input dtype *)
Theorem legacy_default_threshold_refuted :
  wrap 8 false (0 - 1) = 255 /\ wrap 64 true (- 2 ^ 63 - 1) = 2 ^ 63 - 1.
Proof. split; reflexivity. Qed.

Theorem default_threshold_below_minimum m : m - 1 < m.
Proof. lia. Qed.

(* a value representable in a dtype is read back unchanged (.item()) *)
Theorem item_exact bits signed x : 0 < bits -> in_range bits signed x -> wrap bits signed x = x.
Proof. exact (wrap_id bits signed x). Qed.
