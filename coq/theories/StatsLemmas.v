(* StatsLemmas.v — C11 *)
From Coq Require Import ZArith List Bool QArith Qpower Lia.
From Dendro Require Import Moments MomentsLemmas Stats.
Import ListNotations.
Open Scope Q_scope.

(* an eigenvalue of the sky covariance is a root of x^2 - tr x + det: so major_sigma^2/dx^2 and
   minor_sigma^2/dx^2 (the variances along the eigenvectors, C10_eigenvector_variance) are the two
   roots, radius^4 = dx^4 det and area_ellipse^2 = pi^2 (2.3548/2)^4 dx^4 det *)
Theorem eigen_is_root m lam p q :
  eigen2 m lam p q -> (~ p == 0 \/ ~ q == 0) -> lam * lam - tr2 m * lam + det2 m == 0.
Proof.
  destruct m as [[a b] c]. unfold eigen2, tr2, det2. intros [H1 H2] Hne.
  assert (E1 : b * q == (lam - a) * p) by (rewrite <- (Qplus_inj_l _ _ (a * p)); rewrite H1; ring).
  assert (E2 : b * p == (lam - c) * q) by (rewrite <- (Qplus_inj_r _ _ (c * q)); rewrite H2; ring).
  (* (lam-a)(lam-c) - b^2 annihilates both p and q *)
  assert (Hp : (lam * lam - (a + c) * lam + (a * c - b * b)) * p == 0).
  { transitivity ((lam - c) * ((lam - a) * p) - b * (b * p)); [ring|]. rewrite <- E1, E2. ring. }
  assert (Hq : (lam * lam - (a + c) * lam + (a * c - b * b)) * q == 0).
  { transitivity ((lam - a) * ((lam - c) * q) - b * (b * q)); [ring|]. rewrite <- E2, E1. ring. }
  destruct Hne as [Hn|Hn].
  - apply Qmult_integral in Hp. destruct Hp as [Hp|Hp]; [exact Hp | contradiction].
  - apply Qmult_integral in Hq. destruct Hq as [Hq|Hq]; [exact Hq | contradiction].
Qed.

(* two different roots: their sum is the trace and their product the determinant *)
Theorem roots_sum_product t d l1 l2 :
  l1 * l1 - t * l1 + d == 0 -> l2 * l2 - t * l2 + d == 0 -> ~ l1 == l2 ->
  l1 + l2 == t /\ l1 * l2 == d.
Proof.
  intros H1 H2 Hne.
  assert (Hs : (l1 - l2) * (l1 + l2 - t) == 0) by (transitivity ((l1 * l1 - t * l1 + d) - (l2 * l2 - t * l2 + d)); [ring | rewrite H1, H2; ring]).
  apply Qmult_integral in Hs. destruct Hs as [Hs|Hs].
  - exfalso. apply Hne. rewrite <- (Qplus_inj_r _ _ (- l2)). rewrite Qplus_opp_r. exact Hs.
  - assert (Ht : t == l1 + l2) by (rewrite <- (Qplus_inj_r _ _ (- t)); rewrite Qplus_opp_r; rewrite <- Hs; ring).
    split; [symmetry; exact Ht|].
    rewrite Ht in H1. rewrite <- (Qplus_inj_l _ _ (l1 * l1 - (l1 + l2) * l1)). rewrite H1. ring.
Qed.

(* the sky covariance is positive semi-definite on its diagonal: variances are sums of
   non-negative terms when the weights are non-negative *)
Lemma qsum_nonneg {A} (f : A -> Q) l : (forall x, In x l -> 0 <= f x) -> 0 <= qsum (map f l).
Proof.
  induction l as [|x l IH]; intros H; cbn [map]; [rewrite qsum_nil; apply Qle_refl|].
  rewrite qsum_cons. rewrite <- (Qplus_0_l 0). apply Qplus_le_compat; [apply H; left; reflexivity|].
  apply IH. intros y Hy. apply H. right. exact Hy.
Qed.

Theorem variance_nonneg ps i :
  (forall p, In p ps -> 0 <= wt p) -> 0 < mom0 ps -> 0 <= mom2 ps i i.
Proof.
  intros Hw H0. unfold mom2. apply qsum_nonneg. intros p Hp.
  assert (Hq : 0 <= wt p / mom0 ps).
  { apply Qle_shift_div_l; [exact H0|]. rewrite Qmult_0_l. apply Hw, Hp. }
  set (z := coord i p - mom1 ps i).
  assert (Hz : 0 <= z * z).
  { pose proof (Qsqr_nonneg z) as H. cbn in H. setoid_replace (z * z) with (z * z * 1) by ring. rewrite Qmult_1_r. unfold Qpower, Qpower_positive, pow_pos in H. cbn in H. exact H. }
  setoid_replace (wt p / mom0 ps * z * z) with ((wt p / mom0 ps) * (z * z)) by ring.
  apply Qmult_le_0_compat; assumption.
Qed.

(* ---- the velocity axis can be any array axis *)
Lemma coord_move a p v y x :
  (a < 3)%nat -> px p = [v; y; x] ->
  coord a (move_vaxis a p) == v /\
  coord (fst (sky_axes a)) (move_vaxis a p) == y /\ coord (snd (sky_axes a)) (move_vaxis a p) == x.
Proof.
  intros Ha E. unfold move_vaxis, coord. rewrite E. destruct a as [|[|[|a]]]; try lia; cbn; repeat split; reflexivity.
Qed.

Definition cube3 (ps : list pt) : Prop := forall p, In p ps -> exists v y x, px p = [v; y; x].

Lemma wt_move a p : wt (move_vaxis a p) = wt p.
Proof. unfold move_vaxis. destruct (px p) as [|v [|y [|x [|? ?]]]]; reflexivity. Qed.

Lemma mom0_move a ps : mom0 (map (move_vaxis a) ps) == mom0 ps.
Proof. unfold mom0. rewrite map_map. apply qsum_ext. intros p _. rewrite wt_move. reflexivity. Qed.

(* index correspondence: array axis of the moved cube -> array axis of the vaxis = 0 cube *)
Definition src_axis (a : nat) (i : nat) : nat :=
  if Nat.eqb i a then 0%nat else if Nat.eqb i (fst (sky_axes a)) then 1%nat else 2%nat.

Lemma coord_src a ps p i :
  (a < 3)%nat -> cube3 ps -> In p ps -> (i < 3)%nat -> coord i (move_vaxis a p) == coord (src_axis a i) p.
Proof.
  intros Ha Hc Hp Hi. destruct (Hc p Hp) as [v [y [x E]]].
  destruct (coord_move a p v y x Ha E) as [H1 [H2 H3]].
  unfold src_axis. destruct (Nat.eqb i a) eqn:Ea.
  - apply Nat.eqb_eq in Ea. subst i. rewrite H1. unfold coord. rewrite E. reflexivity.
  - destruct (Nat.eqb i (fst (sky_axes a))) eqn:Eb.
    + apply Nat.eqb_eq in Eb. subst i. rewrite H2. unfold coord. rewrite E. reflexivity.
    + assert (i = snd (sky_axes a)).
      { apply Nat.eqb_neq in Ea, Eb. destruct a as [|[|[|a]]]; cbn in *; lia. }
      subst i. rewrite H3. unfold coord. rewrite E. reflexivity.
Qed.

Theorem mom1_move a ps i :
  (a < 3)%nat -> cube3 ps -> (i < 3)%nat -> mom1 (map (move_vaxis a) ps) i == mom1 ps (src_axis a i).
Proof.
  intros Ha Hc Hi. unfold mom1. rewrite mom0_move, map_map.
  rewrite (qsum_ext _ (fun p => coord (src_axis a i) p * wt p) ps); [reflexivity|].
  intros p Hp. rewrite wt_move, (coord_src a ps p i Ha Hc Hp Hi). reflexivity.
Qed.

Theorem mom2_move a ps i j :
  (a < 3)%nat -> cube3 ps -> (i < 3)%nat -> (j < 3)%nat ->
  mom2 (map (move_vaxis a) ps) i j == mom2 ps (src_axis a i) (src_axis a j).
Proof.
  intros Ha Hc Hi Hj. unfold mom2. rewrite map_map. apply qsum_ext. intros p Hp.
  rewrite wt_move, mom0_move, (mom1_move a ps i Ha Hc Hi), (mom1_move a ps j Ha Hc Hj).
  rewrite (coord_src a ps p i Ha Hc Hp Hi), (coord_src a ps p j Ha Hc Hp Hj). reflexivity.
Qed.

(* C11: declaring array axis a as the velocity axis, on the cube transposed accordingly, gives
   the same sky covariance, velocity variance and centroids as vaxis = 0 *)
Theorem vaxis_invariance a ps :
  (a < 3)%nat -> cube3 ps ->
  let ps' := map (move_vaxis a) ps in
  (let '(a1, b1, c1) := ppv_sky ps' a in let '(a0, b0, c0) := ppv_sky ps 0 in a1 == a0 /\ b1 == b0 /\ c1 == c0) /\
  v_var ps' a == v_var ps 0 /\
  ppv_v_cen ps' a == ppv_v_cen ps 0 /\ ppv_y_cen ps' a == ppv_y_cen ps 0 /\ ppv_x_cen ps' a == ppv_x_cen ps 0.
Proof.
  intros Ha Hc. cbn zeta.
  assert (H3 : forall i, (i < 3)%nat -> (i < 3)%nat) by auto.
  destruct a as [|[|[|a]]]; try lia; unfold ppv_sky, sky_cov, v_var, ppv_v_cen, ppv_y_cen, ppv_x_cen; cbn [sky_axes fst snd Nat.eqb];
    repeat split;
    first [ rewrite mom2_move by (assumption || lia); reflexivity
          | rewrite mom1_move by (assumption || lia); reflexivity ].
Qed.

(* ---- units and metadata *)
Theorem units_follow_metadata :
  unit_of_sigma true = USpatial /\ unit_of_sigma false = UPixel /\
  unit_of_vrms true = UVelocity /\ unit_of_vrms false = UPixel /\
  unit_of_area true = USpatial2 /\ unit_of_area false = UPixel2.
Proof. repeat split. Qed.

Theorem metadata_table :
  (forall s d r ok dok, ok = true -> metadata_get true s d r ok dok = MdValue) /\
  (forall s d dok, metadata_get true s d true false dok = MdTypeError) /\
  (forall d r ok dok, metadata_get false true d r ok dok = MdKeyError) /\
  (forall r ok, metadata_get false false false r ok true = MdNone) /\
  (forall ok, metadata_get false false true false ok true = MdDefault).
Proof. repeat split; intros; subst; cbn; try reflexivity; destruct r; reflexivity. Qed.
