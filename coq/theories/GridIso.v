(* GridIso.v — C16/C17: concrete relabellings of the pixels of an n-dimensional grid that are
   isomorphisms of the adjacency graph of Grid.v: a cyclic shift along a periodic axis, the
   flip of an axis, padding of a non-periodic axis, a length-one axis - along ANY axis, in
   any number of dimensions - and their compositions.

   Method: split off the outermost axis (p = c * s + p', s = size of the rest); adjacency in
   the decomposed form is "same rest and adjacent head coordinate, or same head coordinate
   and adjacent rest" (nbrs_decomp).  A map of the head coordinate that respects the
   one-dimensional adjacency is an isomorphism (giso_head); an isomorphism of the rest lifts
   under a further outer axis (giso_lift). *)
From Coq Require Import ZArith List Bool Lia.
From Dendro Require Import Base Grid GridLemmas.
Import ListNotations.
Open Scope Z_scope.

Definition allpos (l : list Z) : Prop := Forall (fun n => 0 < n) l.

Lemma size_pos shape : allpos shape -> 0 < size shape.
Proof. apply fold_mul_pos. Qed.

Lemma size_cons n r : size (n :: r) = n * size r.
Proof. reflexivity. Qed.

Lemma strides_cons n r : strides (n :: r) = size r :: strides r.
Proof. reflexivity. Qed.

(* ---- translation by a multiple of an axis period leaves the coordinate unchanged *)
Lemma coord_add_period p s n m : 0 < s -> 0 < n -> coord (m * (n * s) + p) s n = coord p s n.
Proof.
  intros Hs Hn. unfold coord. replace (m * (n * s) + p) with (p + (m * n) * s) by ring.
  rewrite Z.div_add by lia. rewrite Z.mul_comm. rewrite Z.add_comm, Z.mul_comm.
  rewrite Z.add_comm. apply Z.mod_add. lia.
Qed.

Lemma nb_axis_add hi p n s per :
  coord (hi + p) s n = coord p s n -> nb_axis (hi + p) n s per = map (Z.add hi) (nb_axis p n s per).
Proof.
  intros H. unfold nb_axis. rewrite H. rewrite map_app.
  f_equal.
  - destruct (coord p s n + 1 <? n); [cbn; f_equal; lia|]. destruct per; cbn; [f_equal; lia | reflexivity].
  - destruct (0 <=? coord p s n - 1); [cbn; f_equal; lia|]. destruct per; cbn; [f_equal; lia | reflexivity].
Qed.

Fixpoint periods (hi : Z) (shape strs : list Z) : Prop :=
  match shape, strs with
  | n :: shape', s :: strs' => (exists m, hi = m * (n * s)) /\ periods hi shape' strs'
  | _, _ => True
  end.

Lemma nb_axes_add hi shape : forall strs per p,
  allpos shape -> allpos strs -> periods hi shape strs ->
  nb_axes (hi + p) shape strs per = map (Z.add hi) (nb_axes p shape strs per).
Proof.
  induction shape as [|n shape IH]; intros strs per p Hsh Hst Hp; [reflexivity|].
  destruct strs as [|s strs]; [reflexivity|].
  cbn [nb_axes]. inversion Hsh; subst. inversion Hst; subst. destruct Hp as [[m Hm] Hp].
  rewrite map_app. f_equal.
  - apply nb_axis_add. rewrite Hm. apply coord_add_period; assumption.
  - apply IH; assumption.
Qed.

Lemma strides_periods shape : forall m, periods (m * size shape) shape (strides shape).
Proof.
  induction shape as [|n r IH]; intros m; [exact I|].
  rewrite strides_cons, size_cons. cbn [periods]. split.
  - exists m. reflexivity.
  - replace (m * (n * size r)) with ((m * n) * size r) by ring. apply IH.
Qed.

(* neighbours of p = c * s + p' in (n :: r): along the head axis, and the neighbours of p'
   in r carried along *)
Lemma nbrs_cons n r b pr c p' :
  allpos r ->
  nbrs (n :: r) (b :: pr) (c * size r + p')
  = nb_axis (c * size r + p') n (size r) b ++ map (Z.add (c * size r)) (nbrs r pr p').
Proof.
  intros Hr. unfold nbrs. rewrite strides_cons. cbn [nb_axes hd tl]. f_equal.
  apply nb_axes_add; [exact Hr | apply strides_pos, Hr | apply strides_periods].
Qed.

Lemma coord_head c s n p' : 0 < s -> 0 <= c < n -> 0 <= p' < s -> coord (c * s + p') s n = c.
Proof.
  intros Hs Hc Hp. unfold coord. rewrite Z.div_add_l by lia. rewrite (Z.div_small p') by lia.
  rewrite Z.add_0_r. apply Z.mod_small. lia.
Qed.

(* the one-dimensional adjacency of coordinates 0..n-1, periodic or not *)
Definition adj1 (n : Z) (b : bool) (c d : Z) : Prop :=
  (c + 1 < n /\ d = c + 1) \/ (c + 1 >= n /\ b = true /\ d = c + 1 - n) \/
  (1 <= c /\ d = c - 1) \/ (c < 1 /\ b = true /\ d = c + n - 1).

Lemma decomp_unique s c p' d q' : 0 < s -> 0 <= p' < s -> 0 <= q' < s -> c * s + p' = d * s + q' -> c = d /\ p' = q'.
Proof. intros Hs Hp Hq E. assert (c = d) by nia. subst. split; [reflexivity | lia]. Qed.

Lemma nb_axis_head n s b c p' q :
  0 < s -> 0 <= c < n -> 0 <= p' < s ->
  (In q (nb_axis (c * s + p') n s b) <-> exists d, adj1 n b c d /\ q = d * s + p').
Proof.
  intros Hs Hc Hp. rewrite nb_axis_spec, (coord_head c s n p' Hs Hc Hp). unfold adj1. split.
  - intros [[H1 ->]|[[H1 [H2 ->]]|[[H1 ->]|[H1 [H2 ->]]]]].
    + exists (c + 1). split; [left; lia | ring].
    + exists (c + 1 - n). split; [right; left; repeat split; [lia | exact H2] | ring].
    + exists (c - 1). split; [right; right; left; lia | ring].
    + exists (c + n - 1). split; [right; right; right; repeat split; [lia | exact H2] | ring].
  - intros [d [[[H1 ->]|[[H1 [H2 ->]]|[[H1 ->]|[H1 [H2 ->]]]]] ->]].
    + left. split; [lia | ring].
    + right; left. repeat split; [lia | exact H2 | ring].
    + right; right; left. split; [lia | ring].
    + right; right; right. repeat split; [lia | exact H2 | ring].
Qed.

Lemma adj1_range n b c d : 0 <= c < n -> adj1 n b c d -> 0 <= d < n.
Proof. unfold adj1. intros Hc H. lia. Qed.

(* neighbours stay inside the array *)
Lemma nbrs_range shape : forall per p q,
  allpos shape -> 0 <= p < size shape -> In q (nbrs shape per p) -> 0 <= q < size shape.
Proof.
  induction shape as [|n r IH]; intros per p q Hsh Hp Hq; [destruct Hq|].
  inversion Hsh as [|? ? Hn Hr]; subst.
  pose proof (size_pos r Hr) as Hs. rewrite size_cons in *.
  set (s := size r) in *.
  assert (Hc : 0 <= p / s < n).
  { split; [apply Z.div_pos; lia|]. apply Z.div_lt_upper_bound; lia. }
  assert (Hp' : 0 <= p mod s < s) by (apply Z.mod_pos_bound; lia).
  assert (E : p = (p / s) * s + p mod s) by (rewrite Z.mul_comm; apply Z.div_mod; lia).
  destruct per as [|b pr].
  - (* missing flags = not periodic *)
    unfold nbrs in Hq. rewrite strides_cons in Hq. cbn [nb_axes hd tl] in Hq.
    change (nb_axes p r (strides r) []) with (nbrs r [] p) in Hq.
    assert (Hq' : In q (nbrs (n :: r) [false] p)).
    { unfold nbrs. rewrite strides_cons. cbn [nb_axes hd tl]. exact Hq. }
    clear Hq. rewrite E in Hq'. fold s in Hq'. unfold s in Hq'. rewrite nbrs_cons in Hq' by exact Hr. fold s in Hq'.
    apply in_app_or in Hq'. destruct Hq' as [H|H].
    + apply (nb_axis_head n s false (p / s) (p mod s) q Hs Hc Hp') in H. destruct H as [d [Hd ->]].
      apply adj1_range in Hd; [|exact Hc]. nia.
    + apply in_map_iff in H. destruct H as [x [<- Hx]]. apply (IH [] (p mod s) x Hr Hp') in Hx. fold s in Hx. nia.
  - rewrite E in Hq. unfold s in Hq. rewrite nbrs_cons in Hq by exact Hr. fold s in Hq.
    apply in_app_or in Hq. destruct Hq as [H|H].
    + apply (nb_axis_head n s b (p / s) (p mod s) q Hs Hc Hp') in H. destruct H as [d [Hd ->]].
      apply adj1_range in Hd; [|exact Hc]. nia.
    + apply in_map_iff in H. destruct H as [x [<- Hx]]. apply (IH pr (p mod s) x Hr Hp') in Hx. fold s in Hx. nia.
Qed.

(* adjacency in decomposed form *)
Theorem nbrs_decomp n r b pr c p' d q' :
  allpos r -> 0 <= c < n -> 0 <= d < n -> 0 <= p' < size r -> 0 <= q' < size r ->
  (In (d * size r + q') (nbrs (n :: r) (b :: pr) (c * size r + p'))
   <-> (q' = p' /\ adj1 n b c d) \/ (d = c /\ In q' (nbrs r pr p'))).
Proof.
  intros Hr Hc Hd Hp Hq. pose proof (size_pos r Hr) as Hs.
  rewrite nbrs_cons by exact Hr. rewrite in_app_iff, (nb_axis_head n (size r) b c p' _ Hs Hc Hp), in_map_iff.
  split.
  - intros [[e [He E]]|[x [E Hx]]].
    + left. apply decomp_unique in E; try lia. destruct E as [-> ->]. split; [reflexivity | exact He].
    + right. pose proof (nbrs_range r pr p' x Hr Hp Hx) as Hxr.
      symmetry in E. apply decomp_unique in E; try lia. destruct E as [-> ->]. split; [reflexivity | exact Hx].
  - intros [[-> H]|[-> H]].
    + left. exists d. split; [exact H | reflexivity].
    + right. exists q'. split; [reflexivity | exact H].
Qed.

(* ---- isomorphisms between grids *)
Definition inrange (shape : list Z) (p : Z) : Prop := 0 <= p < size shape.

Record giso (shape : list Z) (per : list bool) (shape' : list Z) (per' : list bool) (g : Z -> Z) : Prop := {
  gi_range : forall p, inrange shape p -> inrange shape' (g p);
  gi_inj : forall p q, inrange shape p -> inrange shape q -> g p = g q -> p = q;
  gi_adj : forall p q, inrange shape p -> inrange shape q ->
           (In (g q) (nbrs shape' per' (g p)) <-> In q (nbrs shape per p))
}.

Lemma giso_id shape per : giso shape per shape per (fun p => p).
Proof. constructor; intros; tauto. Qed.

Lemma giso_compose s0 p0 s1 p1 s2 p2 g1 g2 :
  giso s0 p0 s1 p1 g1 -> giso s1 p1 s2 p2 g2 -> giso s0 p0 s2 p2 (fun p => g2 (g1 p)).
Proof.
  intros [R1 I1 A1] [R2 I2 A2]. constructor.
  - intros p Hp. apply R2, R1, Hp.
  - intros p q Hp Hq E. apply I1; [assumption | assumption|]. apply I2; [apply R1, Hp | apply R1, Hq | exact E].
  - intros p q Hp Hq. rewrite A2 by (apply R1; assumption). apply A1; assumption.
Qed.

Lemma giso_ext s0 p0 s1 p1 g g' :
  (forall p, inrange s0 p -> g' p = g p) -> giso s0 p0 s1 p1 g -> giso s0 p0 s1 p1 g'.
Proof.
  intros E [R I A]. constructor.
  - intros p Hp. rewrite E by exact Hp. apply R, Hp.
  - intros p q Hp Hq. rewrite !E by assumption. apply I; assumption.
  - intros p q Hp Hq. rewrite !E by assumption. apply A; assumption.
Qed.

(* splitting a pixel of (n :: r) *)
Lemma split_pixel n r p : allpos r -> 0 < n -> inrange (n :: r) p ->
  0 <= p / size r < n /\ 0 <= p mod size r < size r /\ p = (p / size r) * size r + p mod size r.
Proof.
  intros Hr Hn Hp. pose proof (size_pos r Hr) as Hs. unfold inrange in Hp. rewrite size_cons in Hp.
  repeat split.
  - apply Z.div_pos; lia.
  - apply Z.div_lt_upper_bound; lia.
  - apply Z.mod_pos_bound; lia.
  - apply Z.mod_pos_bound; lia.
  - rewrite Z.mul_comm. apply Z.div_mod. lia.
Qed.

Lemma join_pixel n r c p' : allpos r -> 0 <= c < n -> 0 <= p' < size r -> inrange (n :: r) (c * size r + p').
Proof. intros Hr Hc Hp. pose proof (size_pos r Hr). unfold inrange. rewrite size_cons. nia. Qed.

(* a map of the head coordinate and an isomorphism of the rest, together *)
Definition ghead (s s' : Z) (sigma : Z -> Z) (g' : Z -> Z) (p : Z) : Z := sigma (p / s) * s' + g' (p mod s).

Theorem giso_cons n b n' b' r pr r' pr' sigma g' :
  allpos r -> allpos r' -> 0 < n -> 0 < n' ->
  (forall c, 0 <= c < n -> 0 <= sigma c < n') ->
  (forall c d, 0 <= c < n -> 0 <= d < n -> sigma c = sigma d -> c = d) ->
  (forall c d, 0 <= c < n -> 0 <= d < n -> (adj1 n' b' (sigma c) (sigma d) <-> adj1 n b c d)) ->
  giso r pr r' pr' g' ->
  giso (n :: r) (b :: pr) (n' :: r') (b' :: pr') (ghead (size r) (size r') sigma g').
Proof.
  intros Hr Hr' Hn Hn' Srange Sinj Sadj [R I A].
  pose proof (size_pos r Hr) as Hs. pose proof (size_pos r' Hr') as Hs'.
  constructor.
  - intros p Hp. destruct (split_pixel n r p Hr Hn Hp) as [Hc [Hp' _]].
    unfold ghead. apply join_pixel; [exact Hr' | apply Srange, Hc | apply R, Hp'].
  - intros p q Hp Hq E.
    destruct (split_pixel n r p Hr Hn Hp) as [Hc [Hp' Ep]].
    destruct (split_pixel n r q Hr Hn Hq) as [Hd [Hq' Eq]].
    unfold ghead in E. apply decomp_unique in E; [|exact Hs'|apply R, Hp'|apply R, Hq'].
    destruct E as [E1 E2]. apply Sinj in E1; [|exact Hc|exact Hd]. apply I in E2; [|exact Hp'|exact Hq'].
    rewrite Ep, Eq, E1, E2. reflexivity.
  - intros p q Hp Hq.
    destruct (split_pixel n r p Hr Hn Hp) as [Hc [Hp' Ep]].
    destruct (split_pixel n r q Hr Hn Hq) as [Hd [Hq' Eq]].
    unfold ghead.
    rewrite (nbrs_decomp n' r' b' pr' (sigma (p / size r)) (g' (p mod size r)) (sigma (q / size r)) (g' (q mod size r)) Hr'
               (Srange _ Hc) (Srange _ Hd) (R _ Hp') (R _ Hq')).
    pose proof (nbrs_decomp n r b pr (p / size r) (p mod size r) (q / size r) (q mod size r) Hr Hc Hd Hp' Hq') as HR.
    rewrite <- Ep, <- Eq in HR. rewrite HR.
    rewrite (Sadj _ _ Hc Hd), (A _ _ Hp' Hq').
    split; intros [[H1 H2]|[H1 H2]].
    + left. split; [apply I; assumption | exact H2].
    + right. split; [apply Sinj; assumption | exact H2].
    + left. split; [rewrite H1; reflexivity | exact H2].
    + right. split; [rewrite H1; reflexivity | exact H2].
Qed.

(* lifting an isomorphism of the rest under an unchanged outer axis *)
Corollary giso_lift n b r pr r' pr' g' :
  allpos r -> allpos r' -> 0 < n -> giso r pr r' pr' g' ->
  giso (n :: r) (b :: pr) (n :: r') (b :: pr') (ghead (size r) (size r') (fun c => c) g').
Proof. intros Hr Hr' Hn H. apply giso_cons; try assumption; intros; tauto. Qed.

(* a map of the outermost coordinate alone *)
Corollary giso_head n b n' b' r pr sigma :
  allpos r -> 0 < n -> 0 < n' ->
  (forall c, 0 <= c < n -> 0 <= sigma c < n') ->
  (forall c d, 0 <= c < n -> 0 <= d < n -> sigma c = sigma d -> c = d) ->
  (forall c d, 0 <= c < n -> 0 <= d < n -> (adj1 n' b' (sigma c) (sigma d) <-> adj1 n b c d)) ->
  giso (n :: r) (b :: pr) (n' :: r) (b' :: pr) (ghead (size r) (size r) sigma (fun p => p)).
Proof. intros Hr Hn Hn' H1 H2 H3. apply giso_cons; try assumption. apply giso_id. Qed.

(* ---- the head-coordinate maps of the property *)
(* cyclic shift by one along a periodic axis *)
Definition rot1 (n c : Z) : Z := if c + 1 <? n then c + 1 else 0.

Lemma rot1_ok n : 0 < n ->
  (forall c, 0 <= c < n -> 0 <= rot1 n c < n) /\
  (forall c d, 0 <= c < n -> 0 <= d < n -> rot1 n c = rot1 n d -> c = d) /\
  (forall c d, 0 <= c < n -> 0 <= d < n -> (adj1 n true (rot1 n c) (rot1 n d) <-> adj1 n true c d)).
Proof.
  intros Hn. unfold rot1, adj1. repeat split; intros;
    destruct (c + 1 <? n) eqn:E1; try destruct (d + 1 <? n) eqn:E2;
    try apply Z.ltb_lt in E1; try apply Z.ltb_ge in E1; try apply Z.ltb_lt in E2; try apply Z.ltb_ge in E2; try lia.
  all: intuition lia.
Qed.

(* flip of an axis, periodic or not *)
Definition flip (n c : Z) : Z := n - 1 - c.

Lemma flip_ok n b : 0 < n ->
  (forall c, 0 <= c < n -> 0 <= flip n c < n) /\
  (forall c d, 0 <= c < n -> 0 <= d < n -> flip n c = flip n d -> c = d) /\
  (forall c d, 0 <= c < n -> 0 <= d < n -> (adj1 n b (flip n c) (flip n d) <-> adj1 n b c d)).
Proof. intros Hn. unfold flip, adj1. repeat split; intros; try lia; intuition lia. Qed.

(* padding a non-periodic axis by w cells before and w' cells after *)
Definition pad (w c : Z) : Z := c + w.

Lemma pad_ok n w w' : 0 < n -> 0 <= w -> 0 <= w' ->
  (forall c, 0 <= c < n -> 0 <= pad w c < n + w + w') /\
  (forall c d, 0 <= c < n -> 0 <= d < n -> pad w c = pad w d -> c = d) /\
  (forall c d, 0 <= c < n -> 0 <= d < n -> (adj1 (n + w + w') false (pad w c) (pad w d) <-> adj1 n false c d)).
Proof. intros Hn Hw Hw'. unfold pad, adj1. repeat split; intros; try lia; intuition (try lia; try discriminate). Qed.

Theorem giso_rot1 n r pr : allpos r -> 0 < n ->
  giso (n :: r) (true :: pr) (n :: r) (true :: pr) (ghead (size r) (size r) (rot1 n) (fun p => p)).
Proof. intros Hr Hn. destruct (rot1_ok n Hn) as [H1 [H2 H3]]. apply giso_head; assumption. Qed.

Theorem giso_flip n b r pr : allpos r -> 0 < n ->
  giso (n :: r) (b :: pr) (n :: r) (b :: pr) (ghead (size r) (size r) (flip n) (fun p => p)).
Proof. intros Hr Hn. destruct (flip_ok n b Hn) as [H1 [H2 H3]]. apply giso_head; assumption. Qed.

Theorem giso_pad n w w' r pr : allpos r -> 0 < n -> 0 <= w -> 0 <= w' ->
  giso (n :: r) (false :: pr) (n + w + w' :: r) (false :: pr) (ghead (size r) (size r) (pad w) (fun p => p)).
Proof.
  intros Hr Hn Hw Hw'. destruct (pad_ok n w w' Hn Hw Hw') as [H1 [H2 H3]].
  apply giso_head; try assumption. lia.
Qed.

(* a (non-periodic) axis of length one in front: the flat index does not change *)
Theorem giso_unit r pr : allpos r -> giso r pr (1 :: r) (false :: pr) (fun p => p).
Proof.
  intros Hr. pose proof (size_pos r Hr) as Hs. constructor.
  - intros p Hp. unfold inrange in *. rewrite size_cons. lia.
  - intros; assumption.
  - intros p q Hp Hq. unfold inrange in *.
    pose proof (nbrs_decomp 1 r false pr 0 p 0 q Hr ltac:(lia) ltac:(lia) Hp Hq) as H.
    cbn [Z.mul Z.add] in H. rewrite H. unfold adj1. split.
    + intros [[_ Ha]|[_ Hb]]; [exfalso; intuition (try lia; try discriminate) | exact Hb].
    + intros Hb. right. split; [reflexivity | exact Hb].
Qed.

(* k-fold cyclic shift *)
Fixpoint iter_map (k : nat) (f : Z -> Z) (p : Z) : Z := match k with O => p | S k' => f (iter_map k' f p) end.

Theorem giso_iter k shape per f : giso shape per shape per f -> giso shape per shape per (iter_map k f).
Proof.
  intros H. induction k as [|k IH]; cbn [iter_map]; [apply giso_id|].
  apply (giso_compose shape per shape per shape per (iter_map k f) f IH H).
Qed.

(* ---- exchanging the two outermost axes; under giso_lift: any two neighbouring axes, and by
   composition every permutation of the axes *)
Definition swap01 (n m s : Z) (p : Z) : Z :=
  let c := p / (m * s) in let i := p mod (m * s) in
  (i / s) * (n * s) + (c * s + i mod s).

Lemma nbrs_decomp2 n m r b1 b2 pr c d p' c2 d2 q' :
  allpos r -> 0 < n -> 0 < m -> 0 <= c < n -> 0 <= c2 < n -> 0 <= d < m -> 0 <= d2 < m ->
  0 <= p' < size r -> 0 <= q' < size r ->
  (In (c2 * (m * size r) + (d2 * size r + q')) (nbrs (n :: m :: r) (b1 :: b2 :: pr) (c * (m * size r) + (d * size r + p')))
   <-> (d2 = d /\ q' = p' /\ adj1 n b1 c c2) \/ (c2 = c /\ q' = p' /\ adj1 m b2 d d2) \/
       (c2 = c /\ d2 = d /\ In q' (nbrs r pr p'))).
Proof.
  intros Hr Hn Hm Hc Hc2 Hd Hd2 Hp Hq. pose proof (size_pos r Hr) as Hs.
  assert (Hmr : allpos (m :: r)) by (constructor; assumption).
  pose proof (join_pixel m r d p' Hr Hd Hp) as Hi. pose proof (join_pixel m r d2 q' Hr Hd2 Hq) as Hi2.
  unfold inrange in Hi, Hi2.
  pose proof (nbrs_decomp n (m :: r) b1 (b2 :: pr) c (d * size r + p') c2 (d2 * size r + q') Hmr Hc Hc2 Hi Hi2) as H.
  rewrite size_cons in H. rewrite H.
  rewrite (nbrs_decomp m r b2 pr d p' d2 q' Hr Hd Hd2 Hp Hq).
  split.
  - intros [[E Ha]|[E [[E2 Ha]|[E2 Hb]]]].
    + apply decomp_unique in E; try lia. left. intuition.
    + right; left. intuition.
    + right; right. intuition.
  - intros [[-> [-> Ha]]|[[-> [-> Ha]]|[-> [-> Hb]]]].
    + left. split; [reflexivity | exact Ha].
    + right. split; [reflexivity|]. left. split; [reflexivity | exact Ha].
    + right. split; [reflexivity|]. right. split; [reflexivity | exact Hb].
Qed.

Lemma split2 n m r p : allpos r -> 0 < n -> 0 < m -> inrange (n :: m :: r) p ->
  exists c d p', 0 <= c < n /\ 0 <= d < m /\ 0 <= p' < size r /\
                 p = c * (m * size r) + (d * size r + p') /\
                 swap01 n m (size r) p = d * (n * size r) + (c * size r + p').
Proof.
  intros Hr Hn Hm Hp. pose proof (size_pos r Hr) as Hs.
  assert (Hmr : allpos (m :: r)) by (constructor; assumption).
  destruct (split_pixel n (m :: r) p Hmr Hn Hp) as [Hc [Hi Ep]]. rewrite size_cons in *.
  destruct (split_pixel m r (p mod (m * size r)) Hr Hm) as [Hd [Hp' Ei]].
  { unfold inrange. rewrite size_cons. exact Hi. }
  exists (p / (m * size r)), (p mod (m * size r) / size r), (p mod (m * size r) mod size r).
  repeat split; try lia.
Qed.

Theorem giso_swap01 n m b1 b2 r pr : allpos r -> 0 < n -> 0 < m ->
  giso (n :: m :: r) (b1 :: b2 :: pr) (m :: n :: r) (b2 :: b1 :: pr) (swap01 n m (size r)).
Proof.
  intros Hr Hn Hm. pose proof (size_pos r Hr) as Hs. constructor.
  - intros p Hp. destruct (split2 n m r p Hr Hn Hm Hp) as [c [d [p' [Hc [Hd [Hp' [_ ->]]]]]]].
    unfold inrange. rewrite !size_cons.
    assert (H1 : 0 <= c * size r + p' < n * size r) by nia.
    assert (H0 : 0 < n * size r) by nia.
    assert (H2 : (d + 1) * (n * size r) <= m * (n * size r)) by (apply Z.mul_le_mono_nonneg_r; lia).
    assert (H3 : 0 <= d * (n * size r)) by (apply Z.mul_nonneg_nonneg; lia).
    lia.
  - intros p q Hp Hq E.
    destruct (split2 n m r p Hr Hn Hm Hp) as [c [d [p' [Hc [Hd [Hp' [-> Eg]]]]]]].
    destruct (split2 n m r q Hr Hn Hm Hq) as [c2 [d2 [q' [Hc2 [Hd2 [Hq' [-> Eg2]]]]]]].
    rewrite Eg, Eg2 in E.
    assert (H1 : 0 <= c * size r + p' < n * size r) by nia.
    assert (H2 : 0 <= c2 * size r + q' < n * size r) by nia.
    apply decomp_unique in E; try lia. destruct E as [-> E]. apply decomp_unique in E; try lia.
  - intros p q Hp Hq.
    destruct (split2 n m r p Hr Hn Hm Hp) as [c [d [p' [Hc [Hd [Hp' [-> Eg]]]]]]].
    destruct (split2 n m r q Hr Hn Hm Hq) as [c2 [d2 [q' [Hc2 [Hd2 [Hq' [-> Eg2]]]]]]].
    rewrite Eg, Eg2.
    rewrite (nbrs_decomp2 m n r b2 b1 pr d c p' d2 c2 q') by assumption.
    rewrite (nbrs_decomp2 n m r b1 b2 pr c d p' c2 d2 q') by assumption.
    tauto.
Qed.

(* ---- the same maps along ANY axis a (0 = outermost) *)
Fixpoint axis_map (a : nat) (shape shape' : list Z) (sigma : Z -> Z) (p : Z) : Z :=
  match a, shape, shape' with
  | O, _ :: r, _ :: r' => ghead (size r) (size r') sigma (fun x => x) p
  | S a', _ :: r, _ :: r' => ghead (size r) (size r') (fun c => c) (axis_map a' r r' sigma) p
  | _, _, _ => p
  end.

(* shape / shape' (flags per / per') agree except that axis a has length n (flag b) in the
   first and n' (flag b') in the second *)
Fixpoint axis_ok (a : nat) (shape shape' : list Z) (per per' : list bool) (n n' : Z) (b b' : bool) : Prop :=
  match a, shape, shape', per, per' with
  | O, m :: r, m' :: r', c :: pr, c' :: pr' =>
      m = n /\ m' = n' /\ c = b /\ c' = b' /\ r = r' /\ pr = pr' /\ allpos r
  | S a', m :: r, m' :: r', c :: pr, c' :: pr' =>
      m = m' /\ c = c' /\ 0 < m /\ axis_ok a' r r' pr pr' n n' b b'
  | _, _, _, _, _ => False
  end.

Definition sigma_ok (n : Z) (b : bool) (n' : Z) (b' : bool) (sigma : Z -> Z) : Prop :=
  0 < n /\ 0 < n' /\
  (forall c, 0 <= c < n -> 0 <= sigma c < n') /\
  (forall c d, 0 <= c < n -> 0 <= d < n -> sigma c = sigma d -> c = d) /\
  (forall c d, 0 <= c < n -> 0 <= d < n -> (adj1 n' b' (sigma c) (sigma d) <-> adj1 n b c d)).

Lemma axis_ok_allpos a : forall shape shape' per per' n n' b b',
  0 < n -> 0 < n' -> axis_ok a shape shape' per per' n n' b b' -> allpos shape /\ allpos shape'.
Proof.
  induction a as [|a IH]; intros shape shape' per per' n n' b b' Hn Hn' H;
    destruct shape as [|m r], shape' as [|m' r'], per as [|c pr], per' as [|c' pr']; try (destruct H; fail).
  - destruct H as [-> [-> [_ [_ [<- [_ Hr]]]]]]. split; constructor; assumption.
  - destruct H as [<- [_ [Hm H]]]. destruct (IH _ _ _ _ _ _ _ _ Hn Hn' H) as [H1 H2]. split; constructor; assumption.
Qed.

Theorem giso_axis_map a : forall shape shape' per per' n n' b b' sigma,
  sigma_ok n b n' b' sigma -> axis_ok a shape shape' per per' n n' b b' ->
  giso shape per shape' per' (axis_map a shape shape' sigma).
Proof.
  induction a as [|a IH]; intros shape shape' per per' n n' b b' sigma Hs H;
    destruct shape as [|m r], shape' as [|m' r'], per as [|c pr], per' as [|c' pr']; try (destruct H; fail).
  - destruct H as [-> [-> [-> [-> [<- [<- Hr]]]]]]. destruct Hs as [Hn [Hn' [S1 [S2 S3]]]].
    cbn [axis_map]. apply giso_head; assumption.
  - destruct H as [<- [<- [Hm H]]]. cbn [axis_map].
    destruct Hs as [Hn [Hn' Hrest]].
    destruct (axis_ok_allpos a r r' pr pr' n n' b b' Hn Hn' H) as [Hr Hr'].
    apply giso_lift; try assumption. apply (IH r r' pr pr' n n' b b' sigma); [|exact H].
    split; [exact Hn|]. split; [exact Hn'|]. exact Hrest.
Qed.

Lemma sigma_ok_rot1 n : 0 < n -> sigma_ok n true n true (rot1 n).
Proof. intros Hn. destruct (rot1_ok n Hn) as [H1 [H2 H3]]. split; [exact Hn|]. split; [exact Hn|]. split; [exact H1|]. split; [exact H2 | exact H3]. Qed.
Lemma sigma_ok_flip n b : 0 < n -> sigma_ok n b n b (flip n).
Proof. intros Hn. destruct (flip_ok n b Hn) as [H1 [H2 H3]]. split; [exact Hn|]. split; [exact Hn|]. split; [exact H1|]. split; [exact H2 | exact H3]. Qed.
Lemma sigma_ok_pad n w w' : 0 < n -> 0 <= w -> 0 <= w' -> sigma_ok n false (n + w + w') false (pad w).
Proof.
  intros Hn Hw Hw'. destruct (pad_ok n w w' Hn Hw Hw') as [H1 [H2 H3]].
  split; [exact Hn|]. split; [lia|]. split; [exact H1|]. split; [exact H2 | exact H3].
Qed.

(* iterating a head-coordinate map stays a head-coordinate map *)
Lemma sigma_ok_iter k n b sigma : sigma_ok n b n b sigma -> sigma_ok n b n b (iter_map k sigma).
Proof.
  intros H. induction k as [|k IH]; cbn [iter_map].
  - destruct H as [Hn _]. split; [exact Hn|]. split; [exact Hn|]. split; [intros; assumption|]. split; [intros; assumption | intros; tauto].
  - destruct H as [Hn [_ [S1 [S2 S3]]]]. destruct IH as [_ [_ [I1 [I2 I3]]]].
    split; [exact Hn|]. split; [exact Hn|]. split; [|split].
    + intros c Hc. apply S1, I1, Hc.
    + intros c d Hc Hd E. apply I2; try assumption. apply S2; try apply I1; assumption.
    + intros c d Hc Hd. rewrite S3 by (apply I1; assumption). apply I3; assumption.
Qed.

(* exchanging axes a and a+1 *)
Fixpoint swap_at (a : nat) (shape : list Z) (p : Z) : Z :=
  match a, shape with
  | O, n :: m :: r => swap01 n m (size r) p
  | S a', n :: r => ghead (size r) (size r) (fun c => c) (swap_at a' r) p
  | _, _ => p
  end.

Fixpoint swapped {A} (a : nat) (l : list A) : list A :=
  match a, l with
  | O, x :: y :: r => y :: x :: r
  | S a', x :: r => x :: swapped a' r
  | _, _ => l
  end.

Lemma size_swapped a : forall shape, size (swapped a shape) = size shape.
Proof.
  induction a as [|a IH]; intros [|n [|m r]]; try reflexivity.
  - cbn [swapped]. rewrite !size_cons. ring.
  - cbn [swapped]. rewrite !size_cons, IH. reflexivity.
  - cbn [swapped]. rewrite !size_cons, IH. reflexivity.
Qed.

Lemma allpos_swapped a : forall shape, allpos shape -> allpos (swapped a shape).
Proof.
  induction a as [|a IH]; intros [|n [|m r]] H; try exact H.
  - inversion H as [|? ? H1 H2]; subst. inversion H2; subst. repeat constructor; assumption.
  - inversion H; subst. cbn [swapped]. constructor; [assumption | apply IH; assumption].
  - inversion H; subst. cbn [swapped]. constructor; [assumption | apply IH; assumption].
Qed.

Theorem giso_swap_at a : forall shape per,
  allpos shape -> (S a < length shape)%nat -> length per = length shape ->
  giso shape per (swapped a shape) (swapped a per) (swap_at a shape).
Proof.
  induction a as [|a IH]; intros shape per Hpos Hlen Hper.
  - destruct shape as [|n [|m r]]; cbn [length] in Hlen; try lia.
    destruct per as [|b1 [|b2 pr]]; cbn [length] in Hper; try lia.
    inversion Hpos as [|? ? Hn Hmr]; subst. inversion Hmr as [|? ? Hm Hr]; subst.
    cbn [swapped swap_at]. apply giso_swap01; assumption.
  - destruct shape as [|n r]; cbn [length] in Hlen; [lia|].
    destruct per as [|b pr]; cbn [length] in Hper; [lia|].
    inversion Hpos as [|? ? Hn Hr]; subst.
    cbn [swapped swap_at]. replace (ghead (size r) (size r)) with (ghead (size r) (size (swapped a r))) by (rewrite size_swapped; reflexivity).
    apply giso_lift; [exact Hr | apply allpos_swapped, Hr | exact Hn|].
    apply IH; [exact Hr | lia | lia].
Qed.

(* a length-one axis inserted at position a *)
Fixpoint inserted {A} (a : nat) (x : A) (l : list A) : list A :=
  match a, l with
  | O, _ => x :: l
  | S a', y :: r => y :: inserted a' x r
  | S _, [] => [x]
  end.

Lemma size_inserted_one a : forall shape, size (inserted a 1 shape) = size shape.
Proof.
  induction a as [|a IH]; intros shape.
  - cbn [inserted]. rewrite size_cons. lia.
  - destruct shape as [|n r]; [reflexivity|]. cbn [inserted]. rewrite !size_cons, IH. reflexivity.
Qed.

Lemma ghead_id s p : 0 < s -> ghead s s (fun c => c) (fun x => x) p = p.
Proof. intros Hs. unfold ghead. rewrite Z.mul_comm. symmetry. apply Z.div_mod. lia. Qed.

Theorem giso_unit_at a : forall shape per,
  allpos shape -> length per = length shape ->
  giso shape per (inserted a 1 shape) (inserted a false per) (fun p => p).
Proof.
  induction a as [|a IH]; intros shape per Hpos Hper.
  - cbn [inserted]. apply giso_unit, Hpos.
  - destruct shape as [|n r], per as [|b pr]; cbn [length] in Hper; try lia.
    + cbn [inserted]. apply (giso_unit [] []). constructor.
    + inversion Hpos as [|? ? Hn Hr]; subst. cbn [inserted].
      assert (Hr' : allpos (inserted a 1 r)).
      { clear -Hr. revert r Hr. induction a as [|a IHa]; intros r Hr; cbn [inserted]; [constructor; [lia | exact Hr]|].
        destruct r as [|m r]; [repeat constructor|]. inversion Hr; subst. constructor; [assumption | apply IHa; assumption]. }
      apply (giso_ext _ _ _ _ (ghead (size r) (size (inserted a 1 r)) (fun c => c) (fun x => x))).
      * intros p _. rewrite size_inserted_one. symmetry. apply ghead_id, size_pos, Hr.
      * apply giso_lift; [exact Hr | exact Hr' | exact Hn|]. apply IH; [exact Hr | lia].
Qed.
