(* Newick.v — the textual tree encoding written by Structure.newick / Dendrogram.to_newick
   and read back by io/util.parse_newick (C09).  The text is modelled at two levels:
   characters (lexer, used by the tie) and tokens (writer, reference parser, round trip).
   Heights ("%.3f" renderings) are opaque payloads over the alphabet 0-9 . - ; identifiers
   are non-negative decimal integers. *)
From Coq Require Import ZArith List Bool Lia Ascii String Decimal DecimalString.
From Dendro Require Import Base Tree.
Import ListNotations.
Open Scope Z_scope.

(* what the text carries: identifiers, heights, nesting, child order *)
Inductive ntree : Type := NNode (id : Z) (h : string) (kids : list ntree).

Inductive tok : Type := TL | TR | TComma | TColon | TSemi | TId (n : Z) | TH (h : string).

(* ---- writer: "(%s)%s:%.3f" / "%i:%.3f", trunk "(%s);" *)
Fixpoint sep_comma (l : list (list tok)) : list tok :=
  match l with
  | [] => []
  | [x] => x
  | x :: r => x ++ TComma :: sep_comma r
  end.

Fixpoint toks_tree (t : ntree) : list tok :=
  match t with
  | NNode i h [] => [TId i; TColon; TH h]
  | NNode i h ks => TL :: sep_comma (map toks_tree ks) ++ [TR; TId i; TColon; TH h]
  end.

Definition toks_forest (f : list ntree) : list tok :=
  TL :: sep_comma (map toks_tree f) ++ [TR; TSemi].

(* ---- reference parser (recursive descent, fuel = number of tokens suffices) *)
Fixpoint parse_tree (fuel : nat) (ts : list tok) {struct fuel} : option (ntree * list tok) :=
  match fuel with
  | O => None
  | S fuel' =>
      match ts with
      | TId i :: TColon :: TH h :: rest => Some (NNode i h [], rest)
      | TL :: rest =>
          match parse_list fuel' rest with
          | Some (ks, TId i :: TColon :: TH h :: rest') => Some (NNode i h ks, rest')
          | _ => None
          end
      | _ => None
      end
  end
with parse_list (fuel : nat) (ts : list tok) {struct fuel} : option (list ntree * list tok) :=
  (* elements separated by commas, up to and including the closing parenthesis *)
  match fuel with
  | O => None
  | S fuel' =>
      match ts with
      | TR :: rest => Some ([], rest)
      | _ =>
          match parse_tree fuel' ts with
          | Some (t, TComma :: rest) =>
              match parse_list fuel' rest with
              | Some (l, rest') => Some (t :: l, rest')
              | None => None
              end
          | Some (t, TR :: rest) => Some ([t], rest)
          | _ => None
          end
      end
  end.

Definition parse_forest (ts : list tok) : option (list ntree) :=
  match ts with
  | TL :: rest =>
      match parse_list (S (List.length ts)) rest with
      | Some (f, [TSemi]) => Some f
      | _ => None
      end
  | _ => None
  end.

(* ---- characters *)
Definition is_digit (c : ascii) : bool :=
  let n := nat_of_ascii c in (48 <=? n)%nat && (n <=? 57)%nat.
(* "%.3f" % height writes digits, '.', '-' and - for infinite / undefined heights - the words
   inf, -inf, nan (letters i n f a) *)
Definition is_hchar (c : ascii) : bool :=
  is_digit c || Ascii.eqb c "."%char || Ascii.eqb c "-"%char
  || Ascii.eqb c "i"%char || Ascii.eqb c "n"%char || Ascii.eqb c "f"%char || Ascii.eqb c "a"%char.

Definition digit_val (c : ascii) : Z := Z.of_nat (nat_of_ascii c) - 48.

Fixpoint take_while (p : ascii -> bool) (s : list ascii) : list ascii * list ascii :=
  match s with
  | [] => ([], [])
  | c :: r => if p c then let '(a, b) := take_while p r in (c :: a, b) else ([], s)
  end.

Fixpoint string_of_chars (l : list ascii) : string :=
  match l with [] => EmptyString | c :: r => String c (string_of_chars r) end.
Fixpoint chars_of_string (s : string) : list ascii :=
  match s with EmptyString => [] | String c r => c :: chars_of_string r end.

(* decimal identifiers, through the standard library's decimal <-> string conversions *)
Definition print_id (n : Z) : string := NilZero.string_of_uint (N.to_uint (Z.to_N n)).
Definition parse_id (s : string) : option Z :=
  option_map (fun u => Z.of_N (N.of_uint u)) (NilZero.uint_of_string s).
Definition num_of_digits (ds : list ascii) : Z :=
  match parse_id (string_of_chars ds) with Some n => n | None => 0 end.

(* after ':' comes a height; otherwise a run of digits is an identifier *)
Fixpoint lex (fuel : nat) (after_colon : bool) (s : list ascii) : option (list tok) :=
  match fuel with
  | O => match s with [] => Some [] | _ => None end
  | S fuel' =>
      match s with
      | [] => Some []
      | c :: r =>
          if after_colon then
            let '(h, rest) := take_while is_hchar s in
            match h with
            | [] => None
            | _ => option_map (cons (TH (string_of_chars h))) (lex fuel' false rest)
            end
          else if Ascii.eqb c "("%char then option_map (cons TL) (lex fuel' false r)
          else if Ascii.eqb c ")"%char then option_map (cons TR) (lex fuel' false r)
          else if Ascii.eqb c ","%char then option_map (cons TComma) (lex fuel' false r)
          else if Ascii.eqb c ";"%char then option_map (cons TSemi) (lex fuel' false r)
          else if Ascii.eqb c ":"%char then option_map (cons TColon) (lex fuel' true r)
          else if is_digit c then
            let '(ds, rest) := take_while is_digit s in
            option_map (cons (TId (num_of_digits ds))) (lex fuel' false rest)
          else None
      end
  end.

Definition parse_text (s : string) : option (list ntree) :=
  let cs := chars_of_string s in
  match lex (S (List.length cs)) false cs with
  | Some ts => parse_forest ts
  | None => None
  end.

(* ---- rendering tokens as characters *)
Definition digits_of (n : Z) : list ascii := chars_of_string (print_id n).

Definition render_tok (t : tok) : list ascii :=
  match t with
  | TL => ["("%char] | TR => [")"%char] | TComma => [","%char] | TColon => [":"%char]
  | TSemi => [";"%char] | TId n => digits_of n | TH h => chars_of_string h
  end.
Definition render (ts : list tok) : string := string_of_chars (flat_map render_tok ts).

(* ---- the tree part of a dendrogram as a Newick tree, heights rendered by an oracle *)
Section OfTree.
  Variable hstr : tree -> string.          (* "%.3f" % structure.height *)
  Fixpoint ntree_of (t : tree) : ntree :=
    match t with Node i _ ks => NNode i (hstr t) (map ntree_of ks) end.
End OfTree.

(* identifiers, nesting and child order only *)
Inductive shape : Type := SNode (id : Z) (kids : list shape).
Fixpoint shape_of_ntree (t : ntree) : shape :=
  match t with NNode i _ ks => SNode i (map shape_of_ntree ks) end.
Fixpoint shape_of_tree (t : tree) : shape :=
  match t with Node i _ ks => SNode i (map shape_of_tree ks) end.

Fixpoint ntree_eqb (a b : ntree) : bool :=
  match a, b with
  | NNode i h ks, NNode j g ls =>
      (i =? j) && String.eqb h g &&
      (fix go (l1 l2 : list ntree) : bool :=
         match l1, l2 with
         | [], [] => true
         | x :: r1, y :: r2 => ntree_eqb x y && go r1 r2
         | _, _ => false
         end) ks ls
  end.
