(* Catalog.v — _make_catalog (analysis.py): one row per structure, sorted by identifier, and
   the heuristic that un-wraps a structure straddling the array edge on a periodic axis. *)
From Coq Require Import ZArith List Bool Lia.
From Dendro Require Import Base.
Import ListNotations.
Open Scope Z_scope.

Definition ptp (l : list Z) : Z := maxl l - minl l.

(* i2 = where(index < shape/2, index + shape, index); used iff its range is strictly smaller *)
Definition lift (n x : Z) : Z := if 2 * x <? n then x + n else x.
Definition unwrap (n : Z) (l : list Z) : list Z :=
  let l2 := map (lift n) l in if ptp l2 <? ptp l then l2 else l.

(* a structure on a cyclic axis of length n: pattern P of offsets placed at start a *)
Definition placed (n a : Z) (P : list Z) : list Z := map (fun d => (a + d) mod n) P.

(* rows: (identifier, row content); the catalog is sorted by identifier *)
Definition catalog {R} (rows : list (Z * R)) : list (Z * R) := sort_by fst rows.
