(* Moments.v — model of ScalarStatistic (analysis.py) over exact rationals: positions are
   coordinate lists, values are option Q (None = NaN, which nansum skips).  Definitions only. *)
From Coq Require Import ZArith List Bool QArith.
Import ListNotations.
Open Scope Q_scope.

Record pt : Type := { px : list Q; pw : option Q }.

(* np.nansum: a NaN term contributes nothing *)
Definition wt (p : pt) : Q := match pw p with Some w => w | None => 0 end.
Definition coord (i : nat) (p : pt) : Q := nth i (px p) 0.

Definition qsum (l : list Q) : Q := fold_right Qplus 0 l.

Definition mom0 (ps : list pt) : Q := qsum (map wt ps).

Definition mom1 (ps : list pt) (i : nat) : Q :=
  qsum (map (fun p => coord i p * wt p) ps) / mom0 ps.

Definition mom2 (ps : list pt) (i j : nat) : Q :=
  qsum (map (fun p => (wt p / mom0 ps) * (coord i p - mom1 ps i) * (coord j p - mom1 ps j)) ps).

Definition dot (u v : list Q) : Q := qsum (map (fun ab => fst ab * snd ab) (combine u v)).

(* u M v^T for the covariance matrix M of ps in nd dimensions *)
Definition quad (ps : list pt) (nd : nat) (u v : list Q) : Q :=
  qsum (map (fun i => qsum (map (fun j => nth i u 0 * mom2 ps i j * nth j v 0) (seq 0 nd))) (seq 0 nd)).

(* mom2_along(direction): the direction is normalised first, so the result is
   (u M u^T) / (u . u) - no square root needed for a single direction *)
Definition mom2_along (ps : list pt) (nd : nat) (u : list Q) : Q := quad ps nd u u / dot u u.

(* several directions: entry (a, b) is (u_a M u_b^T) / (|u_a| |u_b|); the model returns the
   numerator and the two squared norms *)
Definition mom2_along_entry (ps : list pt) (nd : nat) (ua ub : list Q) : Q * (Q * Q) :=
  (quad ps nd ua ub, (dot ua ua, dot ub ub)).

Definition count (ps : list pt) : nat := length ps.

(* ---- memoize: cache[instance][args] -> result *)
Section Memo.
  Variables K V : Type.
  Variable keqb : K -> K -> bool.
  Variable F : K -> V.                       (* the un-memoised method *)
  Fixpoint mlookup (c : list (K * V)) (k : K) : option V :=
    match c with
    | [] => None
    | (k', v) :: r => if keqb k' k then Some v else mlookup r k
    end.
  Definition mcall (c : list (K * V)) (k : K) : list (K * V) * V :=
    match mlookup c k with
    | Some v => (c, v)
    | None => ((k, F k) :: c, F k)
    end.
  Fixpoint mcalls (c : list (K * V)) (ks : list K) : list V :=
    match ks with
    | [] => []
    | k :: r => let '(c', v) := mcall c k in v :: mcalls c' r
    end.
End Memo.
