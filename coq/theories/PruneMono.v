(* PruneMono.v — absorption: after pruning with some criteria, pruning again with criteria
   that are no stricter changes nothing (C07 "coarsens to a fixpoint", C08 in the direction
   where the second call is the laxer one).  The order on the built-in parameters:
   min_delta d0 <= d1, min_npix n0/m0 <= n1/m1 (ratios with positive denominators), the same
   user criteria.  Lemmas only; statements in props/C07.v and props/C08.v. *)
From Coq Require Import ZArith List Bool Lia Sorted.
From Dendro Require Import Base BaseLemmas Tree TreeLemmas Criteria Prune PruneLemmas TrunkOrder.
Import ListNotations.
Open Scope Z_scope.

(* cs0 is no stricter than cs1, in the two situations prune evaluates criteria *)
Definition weaker (cs0 cs1 : list crit) : Prop :=
  (forall o h, indep_posthoc cs1 o h = true -> indep_posthoc cs0 o h = true) /\
  (forall o, indep_of cs1 o None = true -> indep_of cs0 o None = true).

Lemma weaker_refl cs : weaker cs cs.
Proof. split; auto. Qed.

Lemma weaker_trans a b c : weaker a b -> weaker b c -> weaker a c.
Proof. intros [H1 H2] [H3 H4]. split; auto. Qed.

Lemma npix_le_transfer n0 m0 n1 m1 L :
  0 < m0 -> 0 < m1 -> n0 * m1 <= n1 * m0 -> n1 <= L * m1 -> n0 <= L * m0.
Proof. intros. nia. Qed.

Lemma weaker_builtin d0 n0 m0 d1 n1 m1 user :
  d0 <= d1 -> 0 < m0 -> 0 < m1 -> n0 * m1 <= n1 * m0 ->
  weaker (MinDelta d0 :: MinNpix n0 m0 :: user) (MinDelta d1 :: MinNpix n1 m1 :: user).
Proof.
  intros Hd Hm0 Hm1 Hn. split.
  - intros o h. unfold indep_posthoc. cbn [forallb crit_posthoc crit_plain].
    rewrite !andb_true_iff, !Z.leb_le. intros [H1 [H2 H3]].
    repeat split; [lia | eapply npix_le_transfer; eassumption | exact H3].
  - intros o. unfold indep_of. cbn [forallb crit_final crit_plain].
    rewrite !andb_true_iff, !Z.leb_le. intros [H1 [H2 H3]].
    repeat split; [lia | eapply npix_le_transfer; eassumption | exact H3].
Qed.

(* a forest on which the stricter criteria find nothing to prune is left alone by the laxer *)
Theorem prune_absorbs cs0 cs1 f :
  weaker cs0 cs1 -> prune_struct cs0 (prune_struct cs1 f) = prune_struct cs1 f.
Proof.
  intros [Hp Hf].
  destruct (prune_struct_leaves_ok cs1 f) as [He Hr].
  rewrite (prune_struct_noop cs0 (prune_struct cs1 f)).
  - apply sort_by_sorted_id. apply prune_trunk_sorted.
  - intros w k Hwk Hl. unfold ph_ok. apply Hp. apply (He w k Hwk Hl).
  - intros r Hin Hl. apply Hf. apply (Hr r Hin Hl).
Qed.

(* the whole prune() call (parameter bookkeeping included): a second call whose EFFECTIVE
   parameters are no stricter than the effective parameters of the first leaves the
   structures alone and does not lower the recorded min_delta *)
Theorem prune_call_absorbs params a1d a1n a2d a2n user f :
  let d1 := eff_delta (fst params) a1d in
  let n1 := eff_npix (snd params) a1n in
  let r1 := prune params a1d a1n user f in
  let d2 := eff_delta (fst (fst r1)) a2d in
  let n2 := eff_npix (snd (fst r1)) a2n in
  d2 <= d1 -> 0 < snd n1 -> 0 < snd n2 -> fst n2 * snd n1 <= fst n1 * snd n2 ->
  snd (prune (fst r1) a2d a2n user (snd r1)) = snd r1 /\
  fst (fst (prune (fst r1) a2d a2n user (snd r1))) = fst (fst r1).
Proof.
  intros d1 n1 r1 d2 n2 Hd Hm1 Hm2 Hn.
  subst d1 n1 r1 d2 n2. unfold prune in *. cbn [fst snd] in *. split.
  - apply prune_absorbs. apply weaker_builtin; assumption.
  - unfold rec_delta in *.
    destruct (eff_delta (fst params) a1d <? fst params) eqn:E1;
    match goal with |- (if ?b then _ else _) = _ => destruct b eqn:E2 end; lia.
Qed.
