(* DEq.v — decision logic of Dendrogram.__eq__ (dendrogram.py), as it is after the NaN fix:
   the final "same structures" test fingerprints self.index_map twice and never looks at
   the other dendrogram's label map, so it is always true (known finding K5). *)
From Coq Require Import ZArith List Bool Lia.
From Dendro Require Import Base BaseLemmas.
Import ListNotations.
Open Scope Z_scope.

Record dview : Type := {
  v_shape : list Z;
  v_data : list (option Z);            (* None = NaN *)
  v_minv : Z;
  v_delta : Z;                          (* 0 = "not set" *)
  v_npix : Z * Z;                       (* ratio; numerator 0 = "not set" *)
  v_labels : list Z
}.

Definition data_eqb (a b : list (option Z)) : bool := list_eqb (option_eqb Z.eqb) a b.
Definition shape_eqb (a b : list Z) : bool := list_eqb Z.eqb a b.

Definition delta_compat (a b : Z) : bool := (a =? 0) || (b =? 0) || (a =? b).
Definition npix_compat (a b : Z * Z) : bool :=
  (fst a =? 0) || (fst b =? 0) || (fst a * snd b =? fst b * snd a).

(* np.unique(index_map, return_index=True): sorted first-occurrence positions *)
Fixpoint first_occ (seen : list Z) (pos : Z) (l : list Z) : list Z :=
  match l with
  | [] => []
  | x :: r => if memZ x seen then first_occ seen (pos + 1) r else pos :: first_occ (x :: seen) (pos + 1) r
  end.
Definition fingerprint (labels : list Z) : list Z := first_occ [] 0 labels.

(* other = None: the right operand is not a Dendrogram *)
Definition deq (a : dview) (other : option dview) : bool :=
  match other with
  | None => false
  | Some b =>
      shape_eqb (v_shape a) (v_shape b) && data_eqb (v_data a) (v_data b) &&
      (v_minv a =? v_minv b) && npix_compat (v_npix a) (v_npix b) && delta_compat (v_delta a) (v_delta b) &&
      list_eqb Z.eqb (fingerprint (v_labels a)) (fingerprint (v_labels a))
  end.

(* the repaired comparison: partitions really compared (same first-occurrence structure
   AND same block of every pixel) *)
Fixpoint canon_labels (seen : list (Z * Z)) (next : Z) (l : list Z) : list Z :=
  match l with
  | [] => []
  | x :: r =>
      match find (fun e => fst e =? x) seen with
      | Some e => snd e :: canon_labels seen next r
      | None => next :: canon_labels ((x, next) :: seen) (next + 1) r
      end
  end.
Definition partition_of (labels : list Z) : list Z := canon_labels [(-1, -1)] 0 labels.

Definition deq_repaired (a : dview) (other : option dview) : bool :=
  match other with
  | None => false
  | Some b =>
      shape_eqb (v_shape a) (v_shape b) && data_eqb (v_data a) (v_data b) &&
      (v_minv a =? v_minv b) && npix_compat (v_npix a) (v_npix b) && delta_compat (v_delta a) (v_delta b) &&
      list_eqb Z.eqb (partition_of (v_labels a)) (partition_of (v_labels b))
  end.
