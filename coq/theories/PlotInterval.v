(* PlotInterval.v — C18: every structure is drawn inside the interval spanned by its leaves
   (a branch sits at the mean of its children, a mean lies between the extremes), so together
   with the contiguous leaf blocks of PlotLemmas.v no vertical line of one subtree lies inside
   the block of another. *)
From Coq Require Import ZArith List Bool Lia QArith.
From Dendro Require Import Base BaseLemmas Tree TreeLemmas Plot PlotLemmas.
Import ListNotations.
Open Scope Q_scope.

Lemma qsum_bounds (l : list Q) (a b : Q) :
  (forall x, In x l -> a <= x /\ x <= b) ->
  inject_Z (Z.of_nat (length l)) * a <= fold_right Qplus 0 l /\ fold_right Qplus 0 l <= inject_Z (Z.of_nat (length l)) * b.
Proof.
  induction l as [|x l IH]; intros H.
  - cbn. split; ring_simplify; apply Qle_refl.
  - destruct (H x (or_introl eq_refl)) as [Hx1 Hx2].
    destruct IH as [I1 I2]; [intros y Hy; apply H; right; exact Hy|].
    cbn [length fold_right]. rewrite Nat2Z.inj_succ. unfold Z.succ. rewrite inject_Z_plus.
    split.
    + setoid_replace ((inject_Z (Z.of_nat (length l)) + inject_Z 1) * a) with (a + inject_Z (Z.of_nat (length l)) * a) by ring.
      apply Qplus_le_compat; assumption.
    + setoid_replace ((inject_Z (Z.of_nat (length l)) + inject_Z 1) * b) with (b + inject_Z (Z.of_nat (length l)) * b) by ring.
      apply Qplus_le_compat; assumption.
Qed.

Lemma qmean_between (l : list Q) (a b : Q) :
  l <> [] -> (forall x, In x l -> a <= x /\ x <= b) -> a <= qmean l /\ qmean l <= b.
Proof.
  intros Hne H. destruct (qsum_bounds l a b H) as [H1 H2]. unfold qmean.
  assert (Hpos : 0 < inject_Z (Z.of_nat (length l))).
  { destruct l; [congruence|]. cbn [length]. rewrite Nat2Z.inj_succ. unfold Qlt. cbn. lia. }
  split.
  - apply Qle_shift_div_l; [exact Hpos|]. rewrite Qmult_comm. exact H1.
  - apply Qle_shift_div_r; [exact Hpos|]. rewrite Qmult_comm. exact H2.
Qed.

(* C18: if every leaf below t is placed inside [a, b], so is t *)
Theorem pos_within lo (a b : Q) t :
  (forall l, In l (nodes t) -> is_leaf l = true -> a <= inject_Z (index_of (tid l) lo 0) /\ inject_Z (index_of (tid l) lo 0) <= b) ->
  a <= pos lo t /\ pos lo t <= b.
Proof.
  induction t as [i o ks IH] using tree_ind2. intros H.
  destruct ks as [|k ks].
  - rewrite pos_leaf. apply (H (Node i o [])); [apply nodes_self | reflexivity].
  - rewrite pos_branch. apply qmean_between; [discriminate|].
    intros x Hx. apply in_map_iff in Hx. destruct Hx as [c [<- Hc]].
    rewrite Forall_forall in IH. apply (IH c Hc). intros l Hl Hleaf. apply H; [|exact Hleaf].
    rewrite nodes_unfold. right. apply in_flat_map. exists c. split; assumption.
Qed.
