(* IOLemmas.v — C09: load (save d) is d up to the order of own pixels; format choice. *)
From Coq Require Import ZArith List Bool Lia String Permutation.
From Dendro Require Import Base BaseLemmas Tree TreeLemmas Index IndexLemmas Newick NewickLemmas Forest IO.
Import ListNotations.
Open Scope Z_scope.

(* same identifier, same own pixels with the same values (as a set), same children in
   the same order *)
Inductive tequiv : tree -> tree -> Prop :=
| tequiv_node i o1 o2 ks1 ks2 :
    Permutation o1 o2 -> Forall2 tequiv ks1 ks2 -> tequiv (Node i o1 ks1) (Node i o2 ks2).

Definition values_agree (vals : list (option Z)) (t : tree) : Prop :=
  forall p v, In (p, v) (town t) -> val_at vals p = v.

Lemma town_as_map vals t : values_agree vals t -> town t = map (fun p => (p, val_at vals p)) (opix t).
Proof.
  unfold values_agree, opix. induction (town t) as [|[p v] l IH]; intros H; [reflexivity|].
  cbn [map fst]. rewrite (H p v (or_introl eq_refl)). f_equal. apply IH. intros q w Hq. apply H. right. exact Hq.
Qed.

Lemma own_of_NoDup labels i : NoDup (own_of labels i).
Proof. unfold own_of. apply NoDup_filter. apply zseq_NoDup. Qed.

(* the structure rebuilt from label map and data equals the saved one up to pixel order *)
Lemma rebuild_equiv hstr vals labels t :
  (forall u, In u (nodes t) ->
     NoDup (opix u) /\ values_agree vals u /\ (forall p, In p (own_of labels (tid u)) <-> In p (opix u))) ->
  tequiv (rebuild vals labels (ntree_of hstr t)) t.
Proof.
  induction t as [i o ks IH] using tree_ind2. intros H.
  cbn [ntree_of rebuild]. constructor.
  - destruct (H (Node i o ks) (nodes_self _)) as [Hnd [Hva Hag]].
    change o with (town (Node i o ks)). rewrite (town_as_map vals _ Hva).
    unfold own_pv. apply Permutation_map. cbn [tid] in Hag.
    apply NoDup_Permutation; [apply own_of_NoDup | exact Hnd | exact Hag].
  - rewrite map_map. rewrite Forall_forall in IH.
    assert (Hk : forall k, In k ks -> tequiv (rebuild vals labels (ntree_of hstr k)) k).
    { intros k Hk. apply (IH k Hk). intros u Hu. apply H. cbn [nodes]. right. apply in_flat_map. exists k. split; assumption. }
    clear -Hk. induction ks as [|k ks IHk]; cbn [map]; constructor.
    + apply Hk. left. reflexivity.
    + apply IHk. intros x Hx. apply Hk. right. exact Hx.
Qed.

(* C09: load (save d) *)
Theorem load_save hstr d :
  (forall u, In u (fnodes (d_forest d)) ->
     NoDup (opix u) /\ values_agree (d_data d) u /\
     (forall p, In p (own_of (d_labels d) (tid u)) <-> In p (opix u))) ->
  exists d', load (save hstr d) = Some d' /\
             d_ndim d' = d_ndim d /\ d_data d' = d_data d /\ d_labels d' = d_labels d /\
             d_params d' = d_params d /\ d_wcs d' = d_wcs d /\
             Forall2 tequiv (d_forest d') (d_forest d).
Proof.
  intros H. unfold load, save. cbn [f_newick f_ndim f_data f_labels f_params f_wcs].
  rewrite parse_write_forest. eexists. split; [reflexivity|].
  cbn [d_ndim d_data d_labels d_params d_wcs d_forest]. repeat split.
  rewrite map_map.
  assert (Hk : forall t, In t (d_forest d) -> tequiv (rebuild (d_data d) (d_labels d) (ntree_of hstr t)) t).
  { intros t Ht. apply rebuild_equiv. intros u Hu. apply H. apply in_flat_map. exists t. split; assumption. }
  clear -Hk. induction (d_forest d) as [|t f IH]; cbn [map]; constructor.
  - apply Hk. left. reflexivity.
  - apply IH. intros x Hx. apply Hk. right. exact Hx.
Qed.

(* ---- equivalent structures give identical answers from the accessors *)
Lemma tequiv_tid a b : tequiv a b -> tid a = tid b.
Proof. destruct 1. reflexivity. Qed.

Lemma tequiv_town a b : tequiv a b -> Permutation (town a) (town b).
Proof. destruct 1. assumption. Qed.

Lemma perm_ext {A} (l1 l2 : list A) : Permutation l1 l2 -> forall x, In x l1 <-> In x l2.
Proof. intros P x. split; apply Permutation_in; [exact P | symmetry; exact P]. Qed.

Theorem tequiv_vmax a b : tequiv a b -> town a <> [] -> vmax a = vmax b.
Proof.
  intros E Hne. apply tequiv_town in E. unfold vmax, ovals. apply maxl_ext.
  - destruct (town a); [congruence | discriminate].
  - apply perm_ext, Permutation_map, E.
Qed.

Theorem tequiv_vmin a b : tequiv a b -> town a <> [] -> vmin a = vmin b.
Proof.
  intros E Hne. apply tequiv_town in E. unfold vmin, ovals. apply minl_ext.
  - destruct (town a); [congruence | discriminate].
  - apply perm_ext, Permutation_map, E.
Qed.

Theorem tequiv_npix a b : tequiv a b -> npix_own a = npix_own b.
Proof. intros E. apply tequiv_town in E. unfold npix_own, zlen. rewrite (Permutation_length E). reflexivity. Qed.

Theorem tequiv_peak_own a b : tequiv a b -> town a <> [] -> peak_own a = peak_own b.
Proof.
  intros E Hne. pose proof (tequiv_vmax a b E Hne) as Hm. apply tequiv_town in E.
  unfold peak_own. rewrite <- Hm. f_equal.
  set (m := vmax a).
  apply minl_ext.
  - assert (Hf : filter (fun pv => snd pv =? m) (town a) <> []) by (apply filter_max_nonempty, Hne).
    destruct (filter _ (town a)); [congruence | discriminate].
  - intros x. rewrite !in_map_iff. split; intros [pv [Ex Hpv]]; exists pv; (split; [exact Ex|]);
      apply filter_In in Hpv; apply filter_In; (split; [|tauto]);
      [apply (Permutation_in _ E) | apply (Permutation_in _ (Permutation_sym E))]; tauto.
Qed.

Theorem tequiv_regionv a b : tequiv a b -> Permutation (regionv a) (regionv b).
Proof.
  revert b. induction a as [i o ks IH] using tree_ind2. intros b E. inversion E as [? ? o2 ? ks2 Ho Hks]; subst.
  cbn [regionv]. apply Permutation_app; [exact Ho|].
  clear -IH Hks. revert ks2 Hks. induction ks as [|k ks IHk]; intros ks2 Hks; inversion Hks; subst; [reflexivity|].
  inversion IH; subst. cbn [flat_map]. apply Permutation_app; [auto | apply IHk; assumption].
Qed.

(* ---- format choice: decision table *)
Theorem choose_explicit f e c r : choose (Some f) e c r = Some f.
Proof. reflexivity. Qed.

(* writing: by extension only, whatever is (or is not) at the target *)
Theorem choose_write_by_extension e c :
  choose None e c false = match e with ExtFits => Some FITS | ExtHdf5 => Some HDF5 | ExtOther => None end.
Proof. destruct e, c; reflexivity. Qed.

(* reading an existing file: by content only, whatever the name *)
Theorem choose_read_by_content e c :
  file_exists c = true ->
  choose None e c true = match c with SigFits => Some FITS | SigHdf5 => Some HDF5 | _ => None end.
Proof. destruct e, c; cbn; intros H; try reflexivity; discriminate. Qed.

(* an unrecognisable target is refused *)
Theorem choose_unknown_refused :
  choose None ExtOther SigOther true = None /\ choose None ExtOther NoFile false = None /\
  choose None ExtFits SigOther true = None.
Proof. repeat split. Qed.
