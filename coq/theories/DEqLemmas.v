(* DEqLemmas.v — C20 *)
From Coq Require Import ZArith List Bool Lia.
From Dendro Require Import Base BaseLemmas DEq.
Import ListNotations.
Open Scope Z_scope.

Lemma zl_eqb_refl l : list_eqb Z.eqb l l = true.
Proof. apply list_eqb_eq; [intros x y; apply Z.eqb_eq | reflexivity]. Qed.

Lemma zl_eqb_sym a b : list_eqb Z.eqb a b = list_eqb Z.eqb b a.
Proof.
  revert b. induction a as [|x a IH]; destruct b as [|y b]; cbn [list_eqb]; try reflexivity.
  rewrite Z.eqb_sym, IH. reflexivity.
Qed.

Lemma opt_eqb_sym (x y : option Z) : option_eqb Z.eqb x y = option_eqb Z.eqb y x.
Proof. destruct x, y; cbn; try reflexivity. apply Z.eqb_sym. Qed.

Lemma data_eqb_sym a b : data_eqb a b = data_eqb b a.
Proof.
  unfold data_eqb. revert b. induction a as [|x a IH]; destruct b as [|y b]; cbn [list_eqb]; try reflexivity.
  rewrite opt_eqb_sym, IH. reflexivity.
Qed.

Lemma delta_compat_sym a b : delta_compat a b = delta_compat b a.
Proof. unfold delta_compat. rewrite (Z.eqb_sym a b). destruct (a =? 0), (b =? 0); reflexivity. Qed.

Lemma npix_compat_sym a b : npix_compat a b = npix_compat b a.
Proof.
  unfold npix_compat. rewrite (Z.eqb_sym (fst a * snd b)). destruct (fst a =? 0), (fst b =? 0); reflexivity.
Qed.

(* comparison with anything that is not a dendrogram is false *)
Theorem deq_not_dendrogram a : deq a None = false.
Proof. reflexivity. Qed.

(* the relation is symmetric *)
Theorem deq_sym a b : deq a (Some b) = deq b (Some a).
Proof.
  unfold deq. rewrite !zl_eqb_refl, !andb_true_r.
  unfold shape_eqb. rewrite (zl_eqb_sym (v_shape a)), (data_eqb_sym (v_data a)), (Z.eqb_sym (v_minv a)),
    (npix_compat_sym (v_npix a)), (delta_compat_sym (v_delta a)). reflexivity.
Qed.

Lemma data_eqb_eq a b : data_eqb a b = true <-> a = b.
Proof.
  unfold data_eqb. apply list_eqb_eq. intros x y. destruct x, y; cbn; split; intros H; try congruence; try discriminate.
  - apply Z.eqb_eq in H. congruence.
  - injection H as ->. apply Z.eqb_refl.
Qed.

(* equal only if: same shape, element-wise equal data with NaNs in the same places, same
   min_value, compatible min_delta / min_npix *)
Theorem deq_sound_partial a b :
  deq a (Some b) = true ->
  v_shape a = v_shape b /\ v_data a = v_data b /\ v_minv a = v_minv b /\
  (v_delta a = 0 \/ v_delta b = 0 \/ v_delta a = v_delta b) /\
  (fst (v_npix a) = 0 \/ fst (v_npix b) = 0 \/ fst (v_npix a) * snd (v_npix b) = fst (v_npix b) * snd (v_npix a)).
Proof.
  unfold deq. rewrite !andb_true_iff. intros [[[[[H1 H2] H3] H4] H5] _].
  split; [apply (list_eqb_eq Z.eqb Z.eqb_eq), H1|]. split; [apply data_eqb_eq, H2|].
  split; [apply Z.eqb_eq, H3|]. split.
  - unfold delta_compat in H5. rewrite !orb_true_iff, !Z.eqb_eq in H5. tauto.
  - unfold npix_compat in H4. rewrite !orb_true_iff, !Z.eqb_eq in H4. tauto.
Qed.

(* dendrograms agreeing in all of these compare equal (in particular a dendrogram and its
   saved-and-loaded copy, by C09_load_save) *)
Theorem deq_complete a b :
  v_shape a = v_shape b -> v_data a = v_data b -> v_minv a = v_minv b ->
  (v_delta a = 0 \/ v_delta b = 0 \/ v_delta a = v_delta b) ->
  (fst (v_npix a) = 0 \/ fst (v_npix b) = 0 \/ fst (v_npix a) * snd (v_npix b) = fst (v_npix b) * snd (v_npix a)) ->
  deq a (Some b) = true.
Proof.
  intros H1 H2 H3 H4 H5. unfold deq. rewrite !andb_true_iff. repeat split.
  - apply (list_eqb_eq Z.eqb Z.eqb_eq), H1.
  - apply data_eqb_eq, H2.
  - apply Z.eqb_eq, H3.
  - unfold npix_compat. rewrite !orb_true_iff, !Z.eqb_eq. tauto.
  - unfold delta_compat. rewrite !orb_true_iff, !Z.eqb_eq. tauto.
  - apply zl_eqb_refl.
Qed.

(* K5: "partition the pixels into the same structures" is NOT implied *)
Theorem deq_structures_refuted :
  exists a b, deq a (Some b) = true /\ partition_of (v_labels a) <> partition_of (v_labels b).
Proof.
  exists {| v_shape := [3]; v_data := [Some 3; Some 1; Some 2]; v_minv := 0; v_delta := 0; v_npix := (0, 1);
            v_labels := [0; 1; 2] |},
         {| v_shape := [3]; v_data := [Some 3; Some 1; Some 2]; v_minv := 0; v_delta := 3; v_npix := (0, 1);
            v_labels := [0; 0; 0] |}.
  split; [reflexivity | discriminate].
Qed.

(* even with the other label map, the first-occurrence fingerprint would be weaker than
   equality of partitions *)
Theorem fingerprint_weaker :
  fingerprint [0; 0; 1; 1] = fingerprint [0; 0; 1; 0] /\ partition_of [0; 0; 1; 1] <> partition_of [0; 0; 1; 0].
Proof. split; [reflexivity | discriminate]. Qed.

(* the repaired comparison is sound for the partition clause and still symmetric *)
Theorem deq_repaired_partition a b :
  deq_repaired a (Some b) = true -> partition_of (v_labels a) = partition_of (v_labels b).
Proof.
  unfold deq_repaired. rewrite !andb_true_iff. intros [_ H]. apply (list_eqb_eq Z.eqb Z.eqb_eq), H.
Qed.

Theorem deq_repaired_sym a b : deq_repaired a (Some b) = deq_repaired b (Some a).
Proof.
  unfold deq_repaired, shape_eqb.
  rewrite (zl_eqb_sym (v_shape a)), (data_eqb_sym (v_data a)), (Z.eqb_sym (v_minv a)),
    (npix_compat_sym (v_npix a)), (delta_compat_sym (v_delta a)), (zl_eqb_sym (partition_of (v_labels a))). reflexivity.
Qed.
