(* PlotLemmas.v — C18: properties of the layout model. *)
From Coq Require Import ZArith List Bool Lia QArith Permutation.
From Dendro Require Import Base BaseLemmas Tree TreeLemmas ComputeInv Plot.
Import ListNotations.
Open Scope Z_scope.

Section P.
  Variable keytb : list (Z * Z).
  Variable reverse : bool.
  Notation key := (key keytb).
  Notation psorted := (psorted keytb).
  Notation reorder := (reorder keytb).
  Notation sorted_leaves := (sorted_leaves keytb reverse).
  Notation leaf_order := (leaf_order keytb reverse).

  Lemma psorted_perm R l : Permutation (psorted R l) l.
  Proof. unfold Plot.psorted. destruct R; apply sort_by_perm. Qed.

  Lemma reorder_tid R t : tid (reorder R t) = tid t.
  Proof. destruct t; reflexivity. Qed.

  Lemma reorder_leaf R t : is_leaf (reorder R t) = is_leaf t.
  Proof.
    destruct t as [i o ks]. unfold is_leaf. cbn [Plot.reorder tkids].
    destruct ks as [|k ks]; [destruct R; reflexivity|].
    pose proof (Permutation_length (psorted_perm R (map (reorder R) (k :: ks)))) as H.
    destruct (psorted R (map (reorder R) (k :: ks))); [cbn in H; lia | reflexivity].
  Qed.

  Definition leaf_ids (l : list tree) : list Z := map tid (filter is_leaf l).

  Lemma leaf_ids_app l1 l2 : leaf_ids (l1 ++ l2) = leaf_ids l1 ++ leaf_ids l2.
  Proof. unfold leaf_ids. rewrite filter_app, map_app. reflexivity. Qed.

  Lemma filter_perm {A} (p : A -> bool) l1 l2 : Permutation l1 l2 -> Permutation (filter p l1) (filter p l2).
  Proof.
    intros P. induction P as [|x l l' _ IH|x y l|l l' l'' _ IH1 _ IH2]; cbn [filter].
    - constructor.
    - destruct (p x); [constructor|]; exact IH.
    - destruct (p x), (p y); try reflexivity. apply perm_swap.
    - etransitivity; eassumption.
  Qed.

  Lemma leaf_ids_perm l1 l2 : Permutation l1 l2 -> Permutation (leaf_ids l1) (leaf_ids l2).
  Proof. intros P. unfold leaf_ids. apply Permutation_map, filter_perm, P. Qed.

  (* reordering children does not change which leaves a subtree has *)
  Lemma reorder_leaf_ids R t : Permutation (leaf_ids (nodes (reorder R t))) (leaf_ids (nodes t)).
  Proof.
    induction t as [i o ks IH] using tree_ind2.
    cbn [Plot.reorder nodes]. unfold leaf_ids at 1 2. cbn [filter].
    assert (Hl : is_leaf (Node i o (psorted R (map (reorder R) ks))) = is_leaf (Node i o ks)).
    { exact (reorder_leaf R (Node i o ks)). }
    rewrite Hl.
    assert (Hk : Permutation (leaf_ids (flat_map nodes (psorted R (map (reorder R) ks)))) (leaf_ids (flat_map nodes ks))).
    { rewrite (leaf_ids_perm _ _ (Permutation_flat_map nodes (psorted_perm R (map (reorder R) ks)))).
      clear Hl. induction ks as [|k ks IHk]; [reflexivity|]. inversion IH; subst.
      cbn [map flat_map]. rewrite !leaf_ids_app. apply Permutation_app; [assumption | apply IHk; assumption]. }
    unfold leaf_ids in Hk. destruct (is_leaf (Node i o ks)); cbn [map]; [constructor|]; exact Hk.
  Qed.

  Lemma sorted_leaves_ids t : Permutation (map tid (sorted_leaves t)) (leaf_ids (nodes t)).
  Proof.
    unfold Plot.sorted_leaves. destruct (is_leaf t) eqn:El.
    - destruct t as [i o ks]. apply is_leaf_kids in El. cbn [tkids] in El. subst ks.
      cbn. reflexivity.
    - change (map tid (filter is_leaf (rev (nodes (reorder (negb reverse) t))))) with
        (leaf_ids (rev (nodes (reorder (negb reverse) t)))).
      rewrite (leaf_ids_perm _ _ (Permutation_sym (Permutation_rev _))). apply reorder_leaf_ids.
  Qed.

  (* C18: from left to right every leaf exactly once *)
  Theorem leaf_order_perm f : Permutation (leaf_order f) (leaf_ids (fnodes f)).
  Proof.
    unfold Plot.leaf_order.
    rewrite (Permutation_flat_map _ (psorted_perm reverse f)).
    unfold fnodes. induction f as [|t f IH]; [reflexivity|].
    cbn [flat_map]. rewrite leaf_ids_app. apply Permutation_app; [apply sorted_leaves_ids | exact IH].
  Qed.

  Theorem leaf_order_NoDup f : NoDup (map tid (fnodes f)) -> NoDup (leaf_order f).
  Proof.
    intros Hnd. eapply Permutation_NoDup; [symmetry; apply leaf_order_perm|].
    unfold leaf_ids. clear -Hnd. induction (fnodes f) as [|x l IH]; [constructor|].
    cbn [map] in Hnd. inversion Hnd as [|? ? Hn Hr]; subst. cbn [filter].
    destruct (is_leaf x); [|apply IH, Hr]. cbn [map]. constructor; [|apply IH, Hr].
    intros Hin. apply Hn. apply in_map_iff in Hin. destruct Hin as [y [E Hy]]. apply filter_In in Hy.
    rewrite <- E. apply in_map. tauto.
  Qed.

  (* positions of the leaves are their indices: distinct consecutive integers 0 .. L-1 *)
  Lemma index_of_spec i l k :
    In i l -> k <= index_of i l k < k + Z.of_nat (length l) /\
              nth_error l (Z.to_nat (index_of i l k - k)) = Some i.
  Proof.
    revert k. induction l as [|x l IH]; intros k Hi; [destruct Hi|].
    cbn [index_of length]. destruct (x =? i) eqn:E.
    - apply Z.eqb_eq in E. subst. replace (k - k) with 0 by lia. cbn. split; [lia | reflexivity].
    - destruct Hi as [->|Hi]; [rewrite Z.eqb_refl in E; discriminate|].
      destruct (IH (k + 1) Hi) as [H1 H2]. split; [lia|].
      replace (Z.to_nat (index_of i l (k + 1) - k)) with (S (Z.to_nat (index_of i l (k + 1) - (k + 1)))) by lia.
      exact H2.
  Qed.

  Theorem leaf_positions_distinct l i j :
    NoDup l -> In i l -> In j l -> index_of i l 0 = index_of j l 0 -> i = j.
  Proof.
    intros _ Hi Hj E. destruct (index_of_spec i l 0 Hi) as [_ H1]. destruct (index_of_spec j l 0 Hj) as [_ H2].
    rewrite E in H1. congruence.
  Qed.

  Theorem leaf_positions_range l i : In i l -> 0 <= index_of i l 0 < Z.of_nat (length l).
  Proof. intros Hi. destruct (index_of_spec i l 0 Hi) as [H _]. lia. Qed.

  Theorem leaf_positions_onto l k :
    NoDup l -> (k < length l)%nat -> exists i, In i l /\ index_of i l 0 = Z.of_nat k.
  Proof.
    intros Hnd Hk. destruct (nth_error l k) as [i|] eqn:E; [|apply nth_error_None in E; lia].
    exists i. assert (Hi : In i l) by (eapply nth_error_In; exact E). split; [exact Hi|].
    destruct (index_of_spec i l 0 Hi) as [Hr H2]. rewrite Z.sub_0_r in H2.
    assert (Z.to_nat (index_of i l 0) = k).
    { eapply (proj1 (NoDup_nth_error l) Hnd); [apply nth_error_Some; congruence | congruence]. }
    lia.
  Qed.

  (* a leaf sits at its index, a branch at the mean of its children *)
  Theorem pos_leaf lo i o : pos lo (Node i o []) = inject_Z (index_of i lo 0).
  Proof. reflexivity. Qed.

  Theorem pos_branch lo i o k ks : pos lo (Node i o (k :: ks)) = qmean (map (pos lo) (k :: ks)).
  Proof. reflexivity. Qed.

  (* get_lines: the segments of a structure *)
  Theorem segs_of_root lo ph t : In (tid t, node_segs lo ph t) (lines_from lo ph t).
  Proof. destruct t. cbn [lines_from tid]. left. reflexivity. Qed.

  Theorem segs_of_child lo t : forall ph u k,
    In (u, k) (edges t) -> In (tid k, node_segs lo (Some (height u)) k) (lines_from lo ph t).
  Proof.
    induction t as [i o ks IH] using tree_ind2. intros ph u k H.
    rewrite edges_unfold in H. cbn [tkids] in H. apply in_app_or in H. destruct H as [H|H].
    - apply in_map_iff in H. destruct H as [k' [E Hk]]. injection E as <- ->.
      cbn [lines_from]. right. apply in_flat_map. exists k. split; [exact Hk | apply segs_of_root].
    - apply in_flat_map in H. destruct H as [c [Hc H]]. rewrite Forall_forall in IH.
      cbn [lines_from]. right. apply in_flat_map. exists c. split; [exact Hc | apply IH; assumption].
  Qed.

  Theorem node_segs_leaf lo ph t :
    tkids t = [] ->
    node_segs lo ph t = [(tid t, ((pos lo t, match ph with Some h => h | None => vmin t end), (pos lo t, height t)))].
  Proof. intros H. unfold node_segs. rewrite H. reflexivity. Qed.

  Theorem node_segs_branch lo ph t :
    tkids t <> [] ->
    node_segs lo ph t =
    [(tid t, ((pos lo t, match ph with Some h => h | None => vmin t end), (pos lo t, height t)));
     (tid t, ((qmin (map (pos lo) (tkids t)), height t), (qmax (map (pos lo) (tkids t)), height t)))].
  Proof. intros H. unfold node_segs. destruct (tkids t); [congruence | reflexivity]. Qed.
End P.
