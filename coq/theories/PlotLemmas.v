(* PlotLemmas.v — C18: properties of the layout model. *)
From Coq Require Import ZArith List Bool Lia QArith Permutation.
From Dendro Require Import Base BaseLemmas Tree TreeLemmas ComputeInv Plot.
Import ListNotations.
Open Scope Z_scope.

Section P.
  Variable keytb : list (Z * Z).
  Variable reverse : bool.
  Notation key := (key keytb).
  Notation psorted := (psorted keytb).
  Notation reorder := (reorder keytb).
  Notation sorted_leaves := (sorted_leaves keytb reverse).
  Notation leaf_order := (leaf_order keytb reverse).

  Lemma psorted_perm R l : Permutation (psorted R l) l.
  Proof. unfold Plot.psorted. destruct R; apply sort_by_perm. Qed.

  Lemma reorder_tid R t : tid (reorder R t) = tid t.
  Proof. destruct t; reflexivity. Qed.

  Lemma reorder_leaf R t : is_leaf (reorder R t) = is_leaf t.
  Proof.
    destruct t as [i o ks]. unfold is_leaf. cbn [Plot.reorder tkids].
    destruct ks as [|k ks]; [destruct R; reflexivity|].
    pose proof (Permutation_length (psorted_perm R (map (reorder R) (k :: ks)))) as H.
    destruct (psorted R (map (reorder R) (k :: ks))); [cbn in H; lia | reflexivity].
  Qed.

  Definition leaf_ids (l : list tree) : list Z := map tid (filter is_leaf l).

  Lemma leaf_ids_app l1 l2 : leaf_ids (l1 ++ l2) = leaf_ids l1 ++ leaf_ids l2.
  Proof. unfold leaf_ids. rewrite filter_app, map_app. reflexivity. Qed.

  Lemma filter_perm {A} (p : A -> bool) l1 l2 : Permutation l1 l2 -> Permutation (filter p l1) (filter p l2).
  Proof.
    intros P. induction P as [|x l l' _ IH|x y l|l l' l'' _ IH1 _ IH2]; cbn [filter].
    - constructor.
    - destruct (p x); [constructor|]; exact IH.
    - destruct (p x), (p y); try reflexivity. apply perm_swap.
    - etransitivity; eassumption.
  Qed.

  Lemma leaf_ids_perm l1 l2 : Permutation l1 l2 -> Permutation (leaf_ids l1) (leaf_ids l2).
  Proof. intros P. unfold leaf_ids. apply Permutation_map, filter_perm, P. Qed.

  (* reordering children does not change which leaves a subtree has *)
  Lemma reorder_leaf_ids R t : Permutation (leaf_ids (nodes (reorder R t))) (leaf_ids (nodes t)).
  Proof.
    induction t as [i o ks IH] using tree_ind2.
    cbn [Plot.reorder nodes]. unfold leaf_ids at 1 2. cbn [filter].
    assert (Hl : is_leaf (Node i o (psorted R (map (reorder R) ks))) = is_leaf (Node i o ks)).
    { exact (reorder_leaf R (Node i o ks)). }
    rewrite Hl.
    assert (Hk : Permutation (leaf_ids (flat_map nodes (psorted R (map (reorder R) ks)))) (leaf_ids (flat_map nodes ks))).
    { rewrite (leaf_ids_perm _ _ (Permutation_flat_map nodes (psorted_perm R (map (reorder R) ks)))).
      clear Hl. induction ks as [|k ks IHk]; [reflexivity|]. inversion IH; subst.
      cbn [map flat_map]. rewrite !leaf_ids_app. apply Permutation_app; [assumption | apply IHk; assumption]. }
    unfold leaf_ids in Hk. destruct (is_leaf (Node i o ks)); cbn [map]; [constructor|]; exact Hk.
  Qed.

  Lemma sorted_leaves_ids t : Permutation (map tid (sorted_leaves t)) (leaf_ids (nodes t)).
  Proof.
    unfold Plot.sorted_leaves. destruct (is_leaf t) eqn:El.
    - destruct t as [i o ks]. apply is_leaf_kids in El. cbn [tkids] in El. subst ks.
      cbn. reflexivity.
    - change (map tid (filter is_leaf (rev (nodes (reorder (negb reverse) t))))) with
        (leaf_ids (rev (nodes (reorder (negb reverse) t)))).
      rewrite (leaf_ids_perm _ _ (Permutation_sym (Permutation_rev _))). apply reorder_leaf_ids.
  Qed.

  (* C18: from left to right every leaf exactly once *)
  Theorem leaf_order_perm f : Permutation (leaf_order f) (leaf_ids (fnodes f)).
  Proof.
    unfold Plot.leaf_order.
    rewrite (Permutation_flat_map _ (psorted_perm reverse f)).
    unfold fnodes. induction f as [|t f IH]; [reflexivity|].
    cbn [flat_map]. rewrite leaf_ids_app. apply Permutation_app; [apply sorted_leaves_ids | exact IH].
  Qed.

  Theorem leaf_order_NoDup f : NoDup (map tid (fnodes f)) -> NoDup (leaf_order f).
  Proof.
    intros Hnd. eapply Permutation_NoDup; [symmetry; apply leaf_order_perm|].
    unfold leaf_ids. clear -Hnd. induction (fnodes f) as [|x l IH]; [constructor|].
    cbn [map] in Hnd. inversion Hnd as [|? ? Hn Hr]; subst. cbn [filter].
    destruct (is_leaf x); [|apply IH, Hr]. cbn [map]. constructor; [|apply IH, Hr].
    intros Hin. apply Hn. apply in_map_iff in Hin. destruct Hin as [y [E Hy]]. apply filter_In in Hy.
    rewrite <- E. apply in_map. tauto.
  Qed.

  (* positions of the leaves are their indices: distinct consecutive integers 0 .. L-1 *)
  Lemma index_of_spec i l k :
    In i l -> k <= index_of i l k < k + Z.of_nat (length l) /\
              nth_error l (Z.to_nat (index_of i l k - k)) = Some i.
  Proof.
    revert k. induction l as [|x l IH]; intros k Hi; [destruct Hi|].
    cbn [index_of length]. destruct (x =? i) eqn:E.
    - apply Z.eqb_eq in E. subst. replace (k - k) with 0 by lia. cbn. split; [lia | reflexivity].
    - destruct Hi as [->|Hi]; [rewrite Z.eqb_refl in E; discriminate|].
      destruct (IH (k + 1) Hi) as [H1 H2]. split; [lia|].
      replace (Z.to_nat (index_of i l (k + 1) - k)) with (S (Z.to_nat (index_of i l (k + 1) - (k + 1)))) by lia.
      exact H2.
  Qed.

  Theorem leaf_positions_distinct l i j :
    NoDup l -> In i l -> In j l -> index_of i l 0 = index_of j l 0 -> i = j.
  Proof.
    intros _ Hi Hj E. destruct (index_of_spec i l 0 Hi) as [_ H1]. destruct (index_of_spec j l 0 Hj) as [_ H2].
    rewrite E in H1. congruence.
  Qed.

  Theorem leaf_positions_range l i : In i l -> 0 <= index_of i l 0 < Z.of_nat (length l).
  Proof. intros Hi. destruct (index_of_spec i l 0 Hi) as [H _]. lia. Qed.

  Theorem leaf_positions_onto l k :
    NoDup l -> (k < length l)%nat -> exists i, In i l /\ index_of i l 0 = Z.of_nat k.
  Proof.
    intros Hnd Hk. destruct (nth_error l k) as [i|] eqn:E; [|apply nth_error_None in E; lia].
    exists i. assert (Hi : In i l) by (eapply nth_error_In; exact E). split; [exact Hi|].
    destruct (index_of_spec i l 0 Hi) as [Hr H2]. rewrite Z.sub_0_r in H2.
    assert (Z.to_nat (index_of i l 0) = k).
    { eapply (proj1 (NoDup_nth_error l) Hnd); [apply nth_error_Some; congruence | congruence]. }
    lia.
  Qed.

  (* a leaf sits at its index, a branch at the mean of its children *)
  Theorem pos_leaf lo i o : pos lo (Node i o []) = inject_Z (index_of i lo 0).
  Proof. reflexivity. Qed.

  Theorem pos_branch lo i o k ks : pos lo (Node i o (k :: ks)) = qmean (map (pos lo) (k :: ks)).
  Proof. reflexivity. Qed.

  (* get_lines: the segments of a structure *)
  Theorem segs_of_root lo ph t : In (tid t, node_segs lo ph t) (lines_from lo ph t).
  Proof. destruct t. cbn [lines_from tid]. left. reflexivity. Qed.

  Theorem segs_of_child lo t : forall ph u k,
    In (u, k) (edges t) -> In (tid k, node_segs lo (Some (height u)) k) (lines_from lo ph t).
  Proof.
    induction t as [i o ks IH] using tree_ind2. intros ph u k H.
    rewrite edges_unfold in H. cbn [tkids] in H. apply in_app_or in H. destruct H as [H|H].
    - apply in_map_iff in H. destruct H as [k' [E Hk]]. injection E as <- ->.
      cbn [lines_from]. right. apply in_flat_map. exists k. split; [exact Hk | apply segs_of_root].
    - apply in_flat_map in H. destruct H as [c [Hc H]]. rewrite Forall_forall in IH.
      cbn [lines_from]. right. apply in_flat_map. exists c. split; [exact Hc | apply IH; assumption].
  Qed.

  Theorem node_segs_leaf lo ph t :
    tkids t = [] ->
    node_segs lo ph t = [(tid t, ((pos lo t, match ph with Some h => h | None => vmin t end), (pos lo t, height t)))].
  Proof. intros H. unfold node_segs. rewrite H. reflexivity. Qed.

  Theorem node_segs_branch lo ph t :
    tkids t <> [] ->
    node_segs lo ph t =
    [(tid t, ((pos lo t, match ph with Some h => h | None => vmin t end), (pos lo t, height t)));
     (tid t, ((qmin (map (pos lo) (tkids t)), height t), (qmax (map (pos lo) (tkids t)), height t)))].
  Proof. intros H. unfold node_segs. destruct (tkids t); [congruence | reflexivity]. Qed.

  (* ---- planarity: display order of the leaves below a (re-ordered) structure *)
  Definition LL (u : tree) : list Z := leaf_ids (rev (nodes u)).

  Lemma rev_flat_map {A B} (g : A -> list B) l : rev (flat_map g l) = flat_map (fun x => rev (g x)) (rev l).
  Proof.
    induction l as [|x l IH]; [reflexivity|]. cbn [flat_map rev]. rewrite rev_app_distr, IH, flat_map_app. cbn [flat_map].
    rewrite app_nil_r. reflexivity.
  Qed.

  Lemma leaf_ids_flat_map (g : tree -> list tree) l : leaf_ids (flat_map g l) = flat_map (fun x => leaf_ids (g x)) l.
  Proof. induction l as [|x l IH]; [reflexivity|]. cbn [flat_map]. rewrite leaf_ids_app, IH. reflexivity. Qed.

  (* the leaves below a structure, from left to right: its children's blocks in reversed child
     order (then the structure itself if it is a leaf) *)
  Lemma LL_unfold i o ks :
    LL (Node i o ks) = flat_map LL (rev ks) ++ leaf_ids [Node i o ks].
  Proof.
    unfold LL. cbn [nodes rev]. rewrite leaf_ids_app, rev_flat_map, leaf_ids_flat_map. reflexivity.
  Qed.

  (* C18: the leaves of every structure occupy one contiguous run of the leaves of any
     structure containing it *)
  Theorem subtree_leaves_contiguous u : forall w, In w (nodes u) -> exists X Z, LL u = X ++ LL w ++ Z.
  Proof.
    induction u as [i o ks IH] using tree_ind2. intros w Hw.
    cbn [nodes] in Hw. destruct Hw as [<-|Hw]; [exists [], []; rewrite app_nil_r; reflexivity|].
    apply in_flat_map in Hw. destruct Hw as [k [Hk Hw]].
    rewrite Forall_forall in IH. destruct (IH k Hk w Hw) as [X [Z E]].
    rewrite LL_unfold. apply in_rev in Hk. apply in_split in Hk. destruct Hk as [l1 [l2 El]].
    rewrite El, flat_map_app. cbn [flat_map]. rewrite E.
    exists (flat_map LL l1 ++ X), (Z ++ flat_map LL l2 ++ leaf_ids [Node i o ks]).
    rewrite <- !app_assoc. reflexivity.
  Qed.

  (* C18: of two children, all leaves of the later one (in the sorted child list) lie to the left
     of all leaves of the earlier one: blocks never interleave, so no lines cross *)
  Theorem sibling_blocks_ordered i o l1 a l2 b l3 :
    exists X Y Z, LL (Node i o (l1 ++ a :: l2 ++ b :: l3)) = X ++ LL b ++ Y ++ LL a ++ Z.
  Proof.
    rewrite LL_unfold. rewrite !rev_app_distr. cbn [rev]. rewrite !rev_app_distr. cbn [rev].
    rewrite <- !app_assoc. cbn [app]. rewrite !flat_map_app. cbn [flat_map]. rewrite !flat_map_app. cbn [flat_map].
    exists (flat_map LL (rev l3)), (flat_map LL (rev l2)), (flat_map LL (rev l1) ++ leaf_ids [Node i o (l1 ++ a :: l2 ++ b :: l3)]).
    rewrite <- !app_assoc. reflexivity.
  Qed.

  (* ... and the sorted child list is ordered by the requested key *)
  Lemma key_reorder R t : key (reorder R t) = key t.
  Proof. unfold Plot.key. rewrite reorder_tid. reflexivity. Qed.

  Lemma sorted_split_le {A} (k : A -> Z) l1 a l2 b l3 :
    Sorted.StronglySorted (key_le k) (l1 ++ a :: l2 ++ b :: l3) -> k a <= k b.
  Proof.
    induction l1 as [|x l1 IH]; intros H; cbn [app] in H.
    - inversion H as [|? ? _ Hall]; subst. rewrite Forall_forall in Hall. apply Hall. apply in_or_app. right. left. reflexivity.
    - inversion H; subst. apply IH. assumption.
  Qed.

  Theorem children_sorted_by_key R i o ks l1 a l2 b l3 :
    tkids (reorder R (Node i o ks)) = l1 ++ a :: l2 ++ b :: l3 ->
    if R then key b <= key a else key a <= key b.
  Proof.
    cbn [Plot.reorder tkids]. unfold Plot.psorted. intros E. destruct R.
    - pose proof (sort_by_sorted (fun t => - key t) (map (reorder true) ks)) as Hs. rewrite E in Hs.
      apply sorted_split_le in Hs. lia.
    - pose proof (sort_by_sorted key (map (reorder false) ks)) as Hs. rewrite E in Hs.
      apply sorted_split_le in Hs. exact Hs.
  Qed.

  (* the display order of the whole dendrogram: trunk structures in sorted order, each with the
     block of its own leaves *)
  Lemma sorted_leaves_LL t : map tid (sorted_leaves t) = LL (reorder (negb reverse) t).
  Proof.
    unfold Plot.sorted_leaves, LL. destruct (is_leaf t) eqn:El; [|reflexivity].
    destruct t as [i o ks]. apply is_leaf_kids in El. cbn [tkids] in El. subst ks.
    destruct reverse; reflexivity.
  Qed.

  Theorem leaf_order_blocks f :
    leaf_order f = flat_map (fun t => LL (reorder (negb reverse) t)) (psorted reverse f).
  Proof.
    unfold Plot.leaf_order. apply flat_map_ext_Forall. rewrite Forall_forall. intros t _. apply sorted_leaves_LL.
  Qed.
End P.
