(* LexerLemmas.v — C09: the character-level rendering of a well-formed token stream lexes
   back to that stream; hence the TEXT written for a forest parses back to the forest. *)
From Coq Require Import ZArith List Bool Lia Ascii String Decimal DecimalString DecimalN.
From Dendro Require Import Base Tree Newick NewickLemmas.
Import ListNotations.
Open Scope Z_scope.

Lemma chars_app s1 s2 : chars_of_string (s1 ++ s2)%string = (chars_of_string s1 ++ chars_of_string s2)%list.
Proof. induction s1 as [|c s1 IH]; cbn; [reflexivity | rewrite IH; reflexivity]. Qed.

Lemma chars_string_inv l : chars_of_string (string_of_chars l) = l.
Proof. induction l as [|c l IH]; cbn; [reflexivity | rewrite IH; reflexivity]. Qed.

(* every character of a printed identifier is a digit, and there is at least one *)
Lemma uint_digits d : forallb is_digit (chars_of_string (NilEmpty.string_of_uint d)) = true.
Proof. induction d; cbn [NilEmpty.string_of_uint chars_of_string forallb]; try rewrite IHd; reflexivity. Qed.

Lemma print_id_digits n : forallb is_digit (digits_of n) = true /\ digits_of n <> [].
Proof.
  unfold digits_of, print_id, NilZero.string_of_uint.
  destruct (N.to_uint (Z.to_N n)) eqn:E; try (split; [apply (uint_digits (N.to_uint (Z.to_N n))) || (rewrite <- E; apply uint_digits) | cbn; discriminate]).
  split; [reflexivity | cbn; discriminate].
Qed.

Lemma take_while_app (p : ascii -> bool) l r :
  forallb p l = true -> (match r with [] => True | c :: _ => p c = false end) ->
  take_while p (l ++ r)%list = (l, r).
Proof.
  intros Hl Hr. induction l as [|c l IH].
  - destruct r as [|c r]; [reflexivity|]. simpl in *. rewrite Hr. reflexivity.
  - simpl in *. apply andb_true_iff in Hl. destruct Hl as [Hc Hl]. rewrite Hc, (IH Hl). reflexivity.
Qed.

(* heights: non-empty, over the alphabet 0-9 . - and the letters i n f a (inf, -inf, nan) *)
Definition hok (h : string) : Prop := chars_of_string h <> [] /\ forallb is_hchar (chars_of_string h) = true.

(* token streams the writer produces: an identifier is followed by ':', a ':' by a height,
   a height by a separator or the end *)
Inductive wf : bool -> list tok -> Prop :=
| wf_nil : wf false []
| wf_L r : wf false r -> wf false (TL :: r)
| wf_R r : wf false r -> wf false (TR :: r)
| wf_C r : wf false r -> wf false (TComma :: r)
| wf_S r : wf false r -> wf false (TSemi :: r)
| wf_Id n r : 0 <= n -> wf true r -> wf false (TId n :: TColon :: r)
| wf_H h r : hok h -> wf false r -> (match r with TId _ :: _ | TH _ :: _ => False | _ => True end) -> wf true (TH h :: r).

Definition first_char_not (p : ascii -> bool) (l : list ascii) : Prop :=
  match l with [] => True | c :: _ => p c = false end.

Lemma render_head_not_hchar r :
  (match r with TId _ :: _ | TH _ :: _ => False | _ => True end) ->
  first_char_not is_hchar (flat_map render_tok r).
Proof. destruct r as [|[]]; cbn; try tauto; intros _; reflexivity. Qed.

Lemma lex_length_bound (ts : list tok) : True.
Proof. exact I. Qed.

Lemma fm_cons (x : tok) l : flat_map render_tok (x :: l) = (render_tok x ++ flat_map render_tok l)%list.
Proof. reflexivity. Qed.

Theorem lex_render : forall b ts, wf b ts ->
  forall fuel, (List.length (flat_map render_tok ts) <= fuel)%nat ->
  lex fuel b (flat_map render_tok ts) = Some ts.
Proof.
  intros b ts H. induction H as [|r _ IH|r _ IH|r _ IH|r _ IH|n r Hn _ IH|h r [Hne Hh] _ IH Hnext]; intros fuel Hf.
  - destruct fuel; reflexivity.
  - simpl in Hf. destruct fuel as [|fuel]; [lia|]. simpl. rewrite IH by lia. reflexivity.
  - simpl in Hf. destruct fuel as [|fuel]; [lia|]. simpl. rewrite IH by lia. reflexivity.
  - simpl in Hf. destruct fuel as [|fuel]; [lia|]. simpl. rewrite IH by lia. reflexivity.
  - simpl in Hf. destruct fuel as [|fuel]; [lia|]. simpl. rewrite IH by lia. reflexivity.
  - (* identifier, then ':' *)
    destruct (print_id_digits n) as [Hd Hnz].
    rewrite !fm_cons in *. change (render_tok (TId n)) with (digits_of n) in *.
    change (render_tok TColon) with [":"%char] in *. cbn [List.app] in *.
    destruct (digits_of n) as [|c ds] eqn:Ed; [congruence|].
    rewrite app_length in Hf. cbn [List.length] in Hf.
    destruct fuel as [|fuel]; [cbn in Hf; lia|].
    cbn [List.app]. cbn [lex].
    assert (Hc : is_digit c = true) by (cbn [forallb] in Hd; apply andb_true_iff in Hd; tauto).
    (* c is a digit, hence none of the separators *)
    assert (Hsep : Ascii.eqb c "(" = false /\ Ascii.eqb c ")" = false /\ Ascii.eqb c "," = false /\
                   Ascii.eqb c ";" = false /\ Ascii.eqb c ":" = false).
    { unfold is_digit in Hc. apply andb_true_iff in Hc. destruct Hc as [H1 H2].
      apply Nat.leb_le in H1, H2.
      repeat split; apply Ascii.eqb_neq; intros ->; cbn in H1, H2; lia. }
    destruct Hsep as [S1 [S2 [S3 [S4 S5]]]]. rewrite S1, S2, S3, S4, S5, Hc.
    change (c :: ds ++ ":"%char :: flat_map render_tok r) with ((c :: ds) ++ ":"%char :: flat_map render_tok r).
    rewrite (take_while_app is_digit (c :: ds) (":"%char :: flat_map render_tok r) Hd) by reflexivity.
    rewrite <- Ed, digits_roundtrip by exact Hn.
    (* the ':' *)
    destruct fuel as [|fuel]; [cbn in Hf; lia|]. cbn [lex]. cbn.
    rewrite IH; [reflexivity|]. cbn in Hf. lia.
  - (* height after ':' *)
    rewrite fm_cons in *. change (render_tok (TH h)) with (chars_of_string h) in *.
    destruct (chars_of_string h) as [|c hs] eqn:Eh; [congruence|].
    rewrite app_length in Hf. cbn [List.length] in Hf.
    destruct fuel as [|fuel]; [cbn in Hf; lia|].
    cbn [List.app lex].
    change (c :: hs ++ flat_map render_tok r) with ((c :: hs) ++ flat_map render_tok r).
    rewrite (take_while_app is_hchar (c :: hs) (flat_map render_tok r) Hh) by (apply render_head_not_hchar, Hnext).
    rewrite <- Eh, string_chars_inv. rewrite IH; [reflexivity | lia].
Qed.

(* ---- the writer's token streams are well-formed *)
Definition ids_ok_tree : ntree -> Prop :=
  fix go (t : ntree) : Prop := match t with NNode i h ks => 0 <= i /\ hok h /\ (fix all (l : list ntree) : Prop := match l with [] => True | x :: r => go x /\ all r end) ks end.

Fixpoint all_ok (l : list ntree) : Prop := match l with [] => True | x :: r => ids_ok_tree x /\ all_ok r end.

Lemma ids_ok_unfold i h ks : ids_ok_tree (NNode i h ks) <-> 0 <= i /\ hok h /\ all_ok ks.
Proof.
  cbn [ids_ok_tree]. split; intros [H1 [H2 H3]]; (split; [exact H1 | split; [exact H2|]]).
  - induction ks as [|k ks IH]; [exact I|]. destruct H3 as [Hk Hr]. split; [exact Hk | apply IH, Hr].
  - induction ks as [|k ks IH]; [exact I|]. destruct H3 as [Hk Hr]. split; [exact Hk | apply IH, Hr].
Qed.

(* appending a separator-led continuation to the tokens of a tree / list keeps them well-formed *)
Definition cont_ok (r : list tok) : Prop := wf false r /\ (match r with TId _ :: _ | TH _ :: _ => False | _ => True end).

Lemma wf_tree_cont t : ids_ok_tree t -> forall r, cont_ok r -> wf false (toks_tree t ++ r).
Proof.
  induction t as [i h ks IH] using ntree_ind2. intros Hok r [Hr Hnext].
  apply ids_ok_unfold in Hok. destruct Hok as [Hi [Hh Hks]].
  assert (Htail : forall r', cont_ok r' -> wf false ([TId i; TColon; TH h] ++ r')).
  { intros r' [Hr' Hn']. cbn [List.app]. apply wf_Id; [exact Hi|]. apply wf_H; assumption. }
  destruct ks as [|k ks].
  - cbn [toks_tree]. apply Htail. split; assumption.
  - change (toks_tree (NNode i h (k :: ks))) with (TL :: sep_comma (map toks_tree (k :: ks)) ++ [TR; TId i; TColon; TH h]).
    cbn [List.app]. apply wf_L. rewrite <- app_assoc.
    assert (Hlist : forall l, Forall (fun t => ids_ok_tree t -> forall r, cont_ok r -> wf false (toks_tree t ++ r)) l ->
                    all_ok l -> l <> [] -> forall r', cont_ok r' -> wf false (sep_comma (map toks_tree l) ++ r')).
    { clear. induction l as [|x l IHl]; intros Hall Hok Hne r' Hr'; [congruence|].
      inversion Hall as [|? ? Hx Hl]; subst. destruct Hok as [Hxo Hlo].
      destruct l as [|y l].
      - cbn [map sep_comma]. apply Hx; assumption.
      - cbn [map]. rewrite sep_comma_cons2. rewrite <- app_assoc. cbn [List.app].
        apply Hx; [exact Hxo|]. split; [|exact I]. apply wf_C. apply IHl; [exact Hl | exact Hlo | discriminate | exact Hr']. }
    apply (Hlist (k :: ks) IH Hks); [discriminate|]. split; [|exact I].
    cbn [List.app]. apply wf_R. apply (Htail r). split; assumption.
Qed.

Theorem wf_forest f : all_ok f -> wf false (toks_forest f).
Proof.
  intros Hok. unfold toks_forest. apply wf_L.
  destruct f as [|t f].
  - cbn. apply wf_R, wf_S, wf_nil.
  - assert (Hlist : forall l, all_ok l -> l <> [] -> forall r', cont_ok r' -> wf false (sep_comma (map toks_tree l) ++ r')).
    { induction l as [|x l IHl]; intros Hol Hne r' Hr'; [congruence|]. destruct Hol as [Hxo Hlo].
      destruct l as [|y l].
      - cbn [map sep_comma]. apply wf_tree_cont; assumption.
      - cbn [map]. rewrite sep_comma_cons2. rewrite <- app_assoc. cbn [List.app].
        apply wf_tree_cont; [exact Hxo|]. split; [|exact I]. apply wf_C. apply IHl; [exact Hlo | discriminate | exact Hr']. }
    apply Hlist; [exact Hok | discriminate|]. split; [|exact I]. apply wf_R, wf_S, wf_nil.
Qed.

(* C09: the TEXT written for a forest (non-negative identifiers, heights rendered over
   0-9 . -) parses back to exactly that forest *)
Theorem parse_text_render f : all_ok f -> parse_text (render (toks_forest f)) = Some f.
Proof.
  intros Hok. unfold parse_text, render. rewrite chars_string_inv.
  rewrite (lex_render false (toks_forest f) (wf_forest f Hok)) by lia.
  apply parse_write_forest.
Qed.
