(* Forest.v — navigation over a forest of structures (C02): the worklist iterator of
   Dendrogram.all_structures / prefix_visit, identifiers, lookup, level, descendants. *)
From Coq Require Import ZArith List Bool Lia Permutation.
From Dendro Require Import Base BaseLemmas Tree TreeLemmas Compute ComputeInv ComputeThm.
Import ListNotations.
Open Scope Z_scope.

(* todo = list(trunk); while todo: st = todo.pop(0); yield st; todo = st.children + todo *)
Fixpoint worklist (fuel : nat) (todo : list tree) : list tree :=
  match fuel with
  | O => []
  | S fuel' =>
      match todo with
      | [] => []
      | t :: r => t :: worklist fuel' (tkids t ++ r)
      end
  end.

Definition fsize (f : list tree) : nat := fold_right (fun k a => (tsize k + a)%nat) 0%nat f.

Lemma tsize_unfold t : tsize t = S (fsize (tkids t)).
Proof. destruct t; reflexivity. Qed.

Lemma fsize_app f g : fsize (f ++ g) = (fsize f + fsize g)%nat.
Proof. induction f as [|t f IH]; cbn [app fsize fold_right]; [reflexivity|]. fold (fsize (f ++ g)). fold (fsize f). lia. Qed.

Lemma fsize_cons t f : fsize (t :: f) = (tsize t + fsize f)%nat.
Proof. reflexivity. Qed.

(* C02: iteration = prefix order: every structure once, parents before children *)
Theorem worklist_prefix : forall fuel todo, (fsize todo <= fuel)%nat -> worklist fuel todo = fnodes todo.
Proof.
  induction fuel as [|fuel IH]; intros todo Hf.
  - destruct todo as [|t r]; [reflexivity|]. rewrite fsize_cons, tsize_unfold in Hf. lia.
  - destruct todo as [|t r]; [reflexivity|]. cbn [worklist].
    rewrite IH.
    + unfold fnodes. cbn [flat_map]. rewrite (nodes_unfold t), flat_map_app. reflexivity.
    + rewrite fsize_cons, tsize_unfold in Hf. rewrite fsize_app. lia.
Qed.

Lemma length_fnodes f : length (fnodes f) = fsize f.
Proof.
  assert (Ht : forall t, length (nodes t) = tsize t).
  { induction t as [i o ks IH] using tree_ind2. cbn [nodes tsize length]. f_equal.
    induction ks as [|k ks IHk]; [reflexivity|]. inversion IH; subst.
    cbn [flat_map fold_right]. rewrite app_length, IHk by assumption. lia. }
  induction f as [|t f IH]; [reflexivity|].
  unfold fnodes in *. cbn [flat_map]. rewrite app_length, IH, Ht. reflexivity.
Qed.

(* a parent is listed before each of its children *)
Theorem parent_before_child f u k :
  In (u, k) (fedges f) -> exists l1 l2 l3, fnodes f = l1 ++ u :: l2 ++ k :: l3.
Proof.
  assert (Htree : forall t, In (u, k) (edges t) -> exists l1 l2 l3, nodes t = l1 ++ u :: l2 ++ k :: l3).
  { induction t as [i o ks IH] using tree_ind2. intros H.
    rewrite edges_unfold in H. cbn [tkids] in H. apply in_app_or in H. destruct H as [H|H].
    - apply in_map_iff in H. destruct H as [k' [E Hk]]. injection E as <- ->.
      apply in_split in Hk. destruct Hk as [ks1 [ks2 ->]].
      exists [], (flat_map nodes ks1), (flat_map nodes (tkids k) ++ flat_map nodes ks2).
      cbn [nodes app]. f_equal. rewrite flat_map_app. cbn [flat_map]. rewrite (nodes_unfold k).
      cbn [app]. rewrite <- ?app_assoc. reflexivity.
    - apply in_flat_map in H. destruct H as [c [Hc H]].
      rewrite Forall_forall in IH. destruct (IH c Hc H) as [l1 [l2 [l3 E]]].
      apply in_split in Hc. destruct Hc as [ks1 [ks2 ->]].
      exists (Node i o (ks1 ++ c :: ks2) :: flat_map nodes ks1 ++ l1), l2, (l3 ++ flat_map nodes ks2).
      cbn [nodes]. rewrite flat_map_app. cbn [flat_map]. rewrite E.
      cbn [app]. f_equal. rewrite <- !app_assoc. cbn [app]. rewrite <- !app_assoc. reflexivity. }
  intros H. unfold fedges in H. apply in_flat_map in H. destruct H as [t [Ht H]].
  destruct (Htree t H) as [l1 [l2 [l3 E]]].
  apply in_split in Ht. destruct Ht as [f1 [f2 ->]].
  exists (fnodes f1 ++ l1), l2, (l3 ++ fnodes f2).
  unfold fnodes. rewrite flat_map_app. cbn [flat_map]. rewrite E.
  rewrite <- !app_assoc. cbn [app]. rewrite <- !app_assoc. reflexivity.
Qed.

(* every structure other than a trunk structure has exactly the parent whose child list
   contains it: children lists are disjoint when identifiers are unique *)
Theorem lookup_by_id f u :
  NoDup (map tid (fnodes f)) -> In u (fnodes f) -> lookup f (tid u) = Some u.
Proof.
  intros Hnd Hu. unfold lookup.
  destruct (find (fun t => tid t =? tid u) (fnodes f)) as [t|] eqn:E.
  - apply find_some in E. destruct E as [Ht He]. apply Z.eqb_eq in He.
    f_equal. clear -Hnd Hu Ht He. induction (fnodes f) as [|a l IH]; [destruct Hu|].
    cbn [map] in Hnd. inversion Hnd as [|? ? Hn Hr]; subst.
    destruct Hu as [->|Hu], Ht as [->|Ht].
    + reflexivity.
    + exfalso. apply Hn. rewrite <- He. apply in_map, Ht.
    + exfalso. apply Hn. rewrite He. apply in_map, Hu.
    + apply IH; assumption.
  - exfalso. apply (find_none _ _ E u) in Hu. rewrite Z.eqb_refl in Hu. discriminate.
Qed.

(* ---------- levels *)
Lemma levels_from_root lv t : In (tid t, lv) (levels_from lv t).
Proof. destruct t. cbn [levels_from tid]. left. reflexivity. Qed.

Lemma levels_from_edge t : forall lv u k,
  In (u, k) (edges t) -> exists l, In (tid u, l) (levels_from lv t) /\ In (tid k, l + 1) (levels_from lv t).
Proof.
  induction t as [i o ks IH] using tree_ind2. intros lv u k H.
  rewrite edges_unfold in H. cbn [tkids] in H. apply in_app_or in H. destruct H as [H|H].
  - apply in_map_iff in H. destruct H as [k' [E Hk]]. injection E as <- ->.
    exists lv. cbn [levels_from tid]. split; [left; reflexivity|]. right.
    apply in_flat_map. exists k. split; [exact Hk | apply levels_from_root].
  - apply in_flat_map in H. destruct H as [c [Hc H]].
    rewrite Forall_forall in IH. destruct (IH c Hc (lv + 1) u k H) as [l [H1 H2]].
    exists l. cbn [levels_from]. split; right; apply in_flat_map; exists c; split; assumption.
Qed.

(* C02: level is 0 on the trunk and one more than the parent's elsewhere *)
Theorem level_of_trunk f t : In t f -> In (tid t, 0) (level_table f).
Proof. intros H. unfold level_table. apply in_flat_map. exists t. split; [exact H | apply levels_from_root]. Qed.

Theorem level_of_child f u k :
  In (u, k) (fedges f) -> exists l, In (tid u, l) (level_table f) /\ In (tid k, l + 1) (level_table f).
Proof.
  intros H. unfold fedges in H. apply in_flat_map in H. destruct H as [t [Ht H]].
  destruct (levels_from_edge t 0 u k H) as [l [H1 H2]].
  exists l. unfold level_table. split; apply in_flat_map; exists t; split; assumption.
Qed.

Lemma levels_from_ids lv t : map fst (levels_from lv t) = map tid (nodes t).
Proof.
  revert lv. induction t as [i o ks IH] using tree_ind2. intros lv.
  cbn [levels_from nodes map fst tid]. f_equal.
  rewrite !map_flat_map'. apply flat_map_ext_Forall.
  eapply Forall_impl; [|exact IH]. intros k Hk. apply Hk.
Qed.

(* the level table has exactly one entry per structure *)
Theorem level_table_ids f : map fst (level_table f) = map tid (fnodes f).
Proof.
  unfold level_table, fnodes. rewrite !map_flat_map'. apply flat_map_ext_Forall.
  rewrite Forall_forall. intros t _. apply levels_from_ids.
Qed.

(* ---------- parents *)
Lemma parents_from_ids pid t : map fst (parents_from pid t) = map tid (nodes t).
Proof.
  revert pid. induction t as [i o ks IH] using tree_ind2. intros pid.
  cbn [parents_from nodes map fst tid]. f_equal.
  rewrite !map_flat_map'. apply flat_map_ext_Forall.
  eapply Forall_impl; [|exact IH]. intros k Hk. apply Hk.
Qed.

Theorem parent_table_ids f : map fst (parent_table f) = map tid (fnodes f).
Proof.
  unfold parent_table, fnodes. rewrite !map_flat_map'. apply flat_map_ext_Forall.
  rewrite Forall_forall. intros t _. apply parents_from_ids.
Qed.

Lemma parents_from_root pid t : In (tid t, pid) (parents_from pid t).
Proof. destruct t. cbn. left. reflexivity. Qed.

Lemma parents_from_edge t : forall pid u k, In (u, k) (edges t) -> In (tid k, tid u) (parents_from pid t).
Proof.
  induction t as [i o ks IH] using tree_ind2. intros pid u k H.
  rewrite edges_unfold in H. cbn [tkids] in H. apply in_app_or in H. destruct H as [H|H].
  - apply in_map_iff in H. destruct H as [k' [E Hk]]. injection E as <- ->.
    cbn [parents_from tid]. right. apply in_flat_map. exists k. split; [exact Hk | apply parents_from_root].
  - apply in_flat_map in H. destruct H as [c [Hc H]].
    rewrite Forall_forall in IH. cbn [parents_from]. right. apply in_flat_map. exists c.
    split; [exact Hc | apply IH; assumption].
Qed.

(* C02: the trunk is exactly the parentless structures; a child's parent is the
   structure whose child list contains it *)
Theorem parent_of_trunk f t : In t f -> In (tid t, -1) (parent_table f).
Proof. intros H. apply in_flat_map. exists t. split; [exact H | apply parents_from_root]. Qed.

Theorem parent_of_child f u k : In (u, k) (fedges f) -> In (tid k, tid u) (parent_table f).
Proof.
  intros H. unfold fedges in H. apply in_flat_map in H. destruct H as [t [Ht H]].
  apply in_flat_map. exists t. split; [exact Ht | apply parents_from_edge; exact H].
Qed.

(* ---------- descendants (breadth-first by generation) *)
Definition fdepth (l : list tree) : nat := fold_right (fun k a => Nat.max (depth k) a) 0%nat l.

Lemma depth_unfold t : depth t = S (fdepth (tkids t)).
Proof. destruct t; reflexivity. Qed.

Lemma fdepth_app l1 l2 : fdepth (l1 ++ l2) = Nat.max (fdepth l1) (fdepth l2).
Proof. induction l1 as [|a l1 IH]; cbn [app fdepth fold_right]; [reflexivity|]. fold (fdepth (l1 ++ l2)). fold (fdepth l1). lia. Qed.

Lemma fdepth_kids gen : (fdepth (flat_map tkids gen) <= pred (fdepth gen))%nat.
Proof.
  induction gen as [|g gen IH]; [cbn; lia|].
  cbn [flat_map]. rewrite fdepth_app. cbn [fdepth fold_right]. fold (fdepth gen).
  rewrite (depth_unfold g). lia.
Qed.

Lemma fdepth_filter p l : (fdepth (filter p l) <= fdepth l)%nat.
Proof.
  induction l as [|a l IH]; [cbn; lia|]. cbn [filter]. destruct (p a); cbn [fdepth fold_right];
    fold (fdepth l); fold (fdepth (filter p l)); lia.
Qed.

Lemma flat_map_cons_perm {A} (g : A -> list A) l :
  Permutation (flat_map (fun c => c :: g c) l) (l ++ flat_map g l).
Proof.
  induction l as [|a l IH]; cbn [flat_map app]; [reflexivity|].
  constructor. rewrite IH. rewrite !app_assoc. apply Permutation_app_tail. apply Permutation_app_comm.
Qed.

Lemma flat_map_filter_nonleaf (h : tree -> list tree) l :
  (forall c, is_leaf c = true -> h c = []) ->
  flat_map h (filter (fun b => negb (is_leaf b)) l) = flat_map h l.
Proof.
  intros Hh. induction l as [|a l IH]; [reflexivity|]. cbn [filter flat_map].
  destruct (is_leaf a) eqn:E; cbn [negb flat_map]; [rewrite (Hh a E), IH; reflexivity | rewrite IH; reflexivity].
Qed.

Lemma desc_gen_perm : forall fuel gen, (fdepth gen <= fuel)%nat ->
  Permutation (desc_gen fuel gen) (flat_map (fun g => flat_map nodes (tkids g)) gen).
Proof.
  induction fuel as [|fuel IH]; intros gen Hf.
  - assert (E : flat_map (fun g => flat_map nodes (tkids g)) gen = []).
    { induction gen as [|g gen IHg]; [reflexivity|]. cbn [fdepth fold_right] in Hf. rewrite depth_unfold in Hf. lia. }
    rewrite E. reflexivity.
  - cbn [desc_gen].
    assert (Hrhs : flat_map (fun g => flat_map nodes (tkids g)) gen = flat_map nodes (flat_map tkids gen))
      by (rewrite flat_map_flat_map; reflexivity).
    rewrite Hrhs.
    destruct (flat_map tkids gen) as [|c cs] eqn:Ec; [reflexivity|]. rewrite <- Ec.
    set (children := flat_map tkids gen).
    rewrite IH.
    + rewrite (flat_map_filter_nonleaf (fun g => flat_map nodes (tkids g))).
      * assert (E : flat_map nodes children = flat_map (fun c => c :: flat_map nodes (tkids c)) children).
        { apply flat_map_ext_Forall. rewrite Forall_forall. intros x _. apply nodes_unfold. }
        rewrite E. symmetry. apply flat_map_cons_perm.
      * intros x Hx. apply is_leaf_kids in Hx. rewrite Hx. reflexivity.
    + pose proof (fdepth_filter (fun b => negb (is_leaf b)) children).
      pose proof (fdepth_kids gen). fold children in H0. lia.
Qed.

Lemma depth_le_size t : (depth t <= tsize t)%nat.
Proof.
  induction t as [i o ks IH] using tree_ind2. cbn [depth tsize]. apply le_n_S.
  induction ks as [|k ks IHk]; [cbn; lia|]. inversion IH; subst. cbn [fold_right].
  specialize (IHk H2). lia.
Qed.

(* C02: descendants = all structures strictly below, each exactly once *)
Theorem descendants_perm t : Permutation (descendants t) (flat_map nodes (tkids t)).
Proof.
  unfold descendants. rewrite desc_gen_perm.
  - cbn [flat_map]. rewrite app_nil_r. reflexivity.
  - cbn [fdepth fold_right]. pose proof (depth_le_size t). lia.
Qed.

(* ---------- identifiers after compute are exactly 0..N-1 *)
Lemma filter_length_lt {A} (p q : A -> bool) l x :
  (forall y, p y = true -> q y = true) -> In x l -> p x = false -> q x = true ->
  (length (filter p l) < length (filter q l))%nat.
Proof.
  intros Hpq. induction l as [|a l IH]; intros Hx Hp Hq; [destruct Hx|].
  assert (Hle : forall l', (length (filter p l') <= length (filter q l'))%nat).
  { induction l' as [|b l' IHl]; [cbn; lia|]. cbn [filter].
    destruct (p b) eqn:E; [rewrite (Hpq b E); cbn [length]; lia|]. destruct (q b); cbn [length]; lia. }
  cbn [filter]. destruct Hx as [->|Hx].
  - rewrite Hp, Hq. cbn [length]. specialize (Hle l). lia.
  - specialize (IH Hx Hp Hq). destruct (p a) eqn:E; [rewrite (Hpq a E); cbn [length]; lia|].
    destruct (q a); cbn [length]; lia.
Qed.

Lemma newid_inj all u w :
  In u all -> In w all -> small u <> small w -> newid all u <> newid all w.
Proof.
  intros Hu Hw Hne. unfold newid, zlen.
  destruct (Z.lt_total (small u) (small w)) as [H|[H|H]]; [|congruence|].
  - assert ((length (filter (fun x => Z.ltb (small x) (small u)) all) < length (filter (fun x => Z.ltb (small x) (small w)) all))%nat).
    { apply (filter_length_lt _ _ all u); [| exact Hu | apply Z.ltb_irrefl | apply Z.ltb_lt; exact H].
      intros y Hy. apply Z.ltb_lt in Hy. apply Z.ltb_lt. lia. }
    lia.
  - assert ((length (filter (fun x => Z.ltb (small x) (small w)) all) < length (filter (fun x => Z.ltb (small x) (small u)) all))%nat).
    { apply (filter_length_lt _ _ all w); [| exact Hw | apply Z.ltb_irrefl | apply Z.ltb_lt; exact H].
      intros y Hy. apply Z.ltb_lt in Hy. apply Z.ltb_lt. lia. }
    lia.
Qed.

Lemma newid_range all u : In u all -> 0 <= newid all u < zlen all.
Proof.
  intros Hu. unfold newid, zlen. split; [lia|].
  assert ((length (filter (fun x => Z.ltb (small x) (small u)) all) < length (filter (fun _ => true) all))%nat).
  { apply (filter_length_lt _ _ all u); [reflexivity | exact Hu | apply Z.ltb_irrefl | reflexivity]. }
  assert (E : filter (fun _ : tree => true) all = all).
  { clear. induction all as [|a l IH]; [reflexivity|]. cbn [filter]. rewrite IH. reflexivity. }
  rewrite E in H. lia.
Qed.

Lemma NoDup_map_inj_on {A B} (g : A -> B) l :
  NoDup l -> (forall x y, In x l -> In y l -> x <> y -> g x <> g y) -> NoDup (map g l).
Proof.
  induction 1 as [|a l Hn Hl IH]; intros Hinj; cbn [map]; constructor.
  - intros Hin. apply in_map_iff in Hin. destruct Hin as [y [E Hy]].
    apply (Hinj y a); [right; exact Hy | left; reflexivity | intros ->; exact (Hn Hy) | exact E].
  - apply IH. intros x y Hx Hy. apply Hinj; right; assumption.
Qed.

Lemma zseq_In n x : In x (zseq n) <-> 0 <= x < Z.of_nat n.
Proof.
  unfold zseq. rewrite in_map_iff. split.
  - intros [k [<- Hk]]. apply in_seq in Hk. lia.
  - intros H. exists (Z.to_nat x). split; [lia|]. apply in_seq. lia.
Qed.

Lemma zseq_NoDup n : NoDup (zseq n).
Proof.
  unfold zseq. apply NoDup_map_inj_on; [apply seq_NoDup|]. intros x y _ _ H E. apply H. lia.
Qed.

(* C02: after compute the identifiers are exactly 0..N-1 *)
Theorem relabel_ids_exact f :
  NoDup (map small (fnodes f)) ->
  Permutation (map tid (fnodes (relabel_forest f))) (zseq (length (fnodes f))).
Proof.
  intros Hnd. rewrite relabel_forest_fnodes, map_map.
  set (all := fnodes f) in *.
  assert (Hall : NoDup all).
  { clear -Hnd. induction all as [|a l IH]; [constructor|]. cbn [map] in Hnd. inversion Hnd; subst.
    constructor; [intros Hi; apply H1, in_map, Hi | apply IH; assumption]. }
  assert (Hids : NoDup (map (fun x => tid (relabel all x)) all)).
  { apply NoDup_map_inj_on; [exact Hall|]. intros x y Hx Hy Hxy. rewrite !relabel_tid.
    apply newid_inj; try assumption. intros E. apply Hxy.
    clear -Hnd Hx Hy E. induction all as [|a l IH]; [destruct Hx|].
    cbn [map] in Hnd. inversion Hnd as [|? ? Hn Hr]; subst.
    destruct Hx as [->|Hx], Hy as [->|Hy]; try reflexivity.
    - exfalso. apply Hn. rewrite E. apply in_map, Hy.
    - exfalso. apply Hn. rewrite <- E. apply in_map, Hx.
    - apply IH; assumption. }
  apply NoDup_Permutation_bis; [exact Hids | rewrite map_length; unfold zseq; rewrite map_length, seq_length; lia|].
  intros x Hx. apply in_map_iff in Hx. destruct Hx as [u [<- Hu]]. rewrite relabel_tid.
  apply zseq_In. pose proof (newid_range all u Hu). unfold zlen in H. lia.
Qed.

(* a selector that picks a member of each (pairwise disjoint) list is injective *)
Lemma NoDup_select {A B} (g : A -> list B) (sel : list B -> B) l :
  NoDup (flat_map g l) -> (forall a, In a l -> In (sel (g a)) (g a)) ->
  NoDup (map (fun a => sel (g a)) l).
Proof.
  induction l as [|y l IH]; intros Hnd Hsel; cbn [map]; [constructor|].
  cbn [flat_map] in Hnd. constructor.
  - intros Hin. apply in_map_iff in Hin. destruct Hin as [a [E Ha]].
    apply (NoDup_app_disj _ _ (sel (g y)) Hnd); [apply Hsel; left; reflexivity|].
    apply in_flat_map. exists a. split; [exact Ha|]. rewrite <- E. apply Hsel. right. exact Ha.
  - apply IH; [eapply NoDup_app_r; exact Hnd | intros a Ha; apply Hsel; right; exact Ha].
Qed.

Theorem smalls_distinct f :
  NoDup (fregion f) -> Forall own_ok (fnodes f) -> NoDup (map small (fnodes f)).
Proof.
  intros Hnd Hown. rewrite fregion_fnodes in Hnd.
  apply (NoDup_select opix minl (fnodes f) Hnd).
  intros a Ha. rewrite Forall_forall in Hown. destruct (Hown a Ha) as [Hne _].
  apply minl_in. unfold opix. destruct (town a); [congruence | discriminate].
Qed.

Theorem relabel_arity all t : length (tkids (relabel all t)) = length (tkids t).
Proof. rewrite relabel_kids, map_length. reflexivity. Qed.
