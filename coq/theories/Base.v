(* Base.v — list helpers shared by all models (definitions only; lemmas in BaseLemmas.v) *)
From Coq Require Import ZArith List Bool Lia.
Import ListNotations.
Open Scope Z_scope.

(* membership test on Z lists *)
Definition memZ (x : Z) (l : list Z) : bool := existsb (Z.eqb x) l.

(* stable insertion sort, ascending by an integer key: [x] is placed before the
   first element whose key is >= its own, so equal keys keep their input order *)
Fixpoint insert_by {A} (key : A -> Z) (x : A) (l : list A) : list A :=
  match l with
  | [] => [x]
  | y :: l' => if key x <=? key y then x :: l else y :: insert_by key x l'
  end.

Fixpoint sort_by {A} (key : A -> Z) (l : list A) : list A :=
  match l with
  | [] => []
  | x :: l' => insert_by key x (sort_by key l')
  end.

(* minimum / maximum of a non-empty list (head as the seed; 0 for the empty
   list, which the invariants exclude wherever these are used) *)
Definition minl (l : list Z) : Z :=
  match l with [] => 0 | x :: r => fold_left Z.min r x end.
Definition maxl (l : list Z) : Z :=
  match l with [] => 0 | x :: r => fold_left Z.max r x end.
Definition sumZ (l : list Z) : Z := fold_left Z.add l 0.

(* index of the first element satisfying f *)
Fixpoint find_index {A} (f : A -> bool) (l : list A) : option nat :=
  match l with
  | [] => None
  | x :: r => if f x then Some 0%nat else option_map S (find_index f r)
  end.

Definition zlen {A} (l : list A) : Z := Z.of_nat (length l).

(* [0; 1; ...; n-1] as Z *)
Definition zseq (n : nat) : list Z := map Z.of_nat (seq 0 n).

Fixpoint list_eqb {A} (eqb : A -> A -> bool) (l1 l2 : list A) : bool :=
  match l1, l2 with
  | [], [] => true
  | x :: r1, y :: r2 => eqb x y && list_eqb eqb r1 r2
  | _, _ => false
  end.

Definition pair_eqb {A B} (ea : A -> A -> bool) (eb : B -> B -> bool) (x y : A * B) : bool :=
  ea (fst x) (fst y) && eb (snd x) (snd y).

Definition option_eqb {A} (ea : A -> A -> bool) (x y : option A) : bool :=
  match x, y with
  | None, None => true
  | Some a, Some b => ea a b
  | _, _ => false
  end.

(* remove duplicates keeping first occurrences *)
Fixpoint dedupZ (l : list Z) : list Z :=
  match l with
  | [] => []
  | x :: r => x :: filter (fun y => negb (y =? x)) (dedupZ r)
  end.
