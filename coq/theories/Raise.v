(* Raise.v — C16: with pairwise distinct values and no pruning, raising min_value only removes
   the pixels at or below the new threshold from every structure and drops the structures left
   empty.

   The pixels above the higher threshold are a PREFIX of the processing order, so the
   dendrogram of the higher threshold is an intermediate state of the loop for the lower one.
   With distinct values no leaf is ever absorbed (a leaf is absorbed without pruning only on a
   plateau), so from then on structures only GROW: a structure that is the root of its tree
   receives further pixels at the end of its own list; nothing else about it changes, and
   structures below a root never change again. *)
From Coq Require Import ZArith List Bool Lia Permutation Sorted.
From Dendro Require Import Base BaseLemmas Tree TreeLemmas Criteria Compute ComputeInv ComputeThm RegMax.
Import ListNotations.
Open Scope Z_scope.

(* u' is u grown by pixels of E *)
Definition grown (E : list (Z * Z)) (u u' : tree) : Prop :=
  tid u' = tid u /\ tkids u' = tkids u /\ exists ex, town u' = town u ++ ex /\ incl ex E.

Definition Grow (E : list (Z * Z)) (f f' : list tree) : Prop :=
  (forall u, In u (fnodes f) -> exists u', In u' (fnodes f') /\ grown E u u') /\
  (forall u', In u' (fnodes f') -> (exists u, In u (fnodes f) /\ grown E u u') \/ incl (town u') E).

Lemma grown_refl E u : grown E u u.
Proof. split; [reflexivity|]. split; [reflexivity|]. exists []. split; [rewrite app_nil_r; reflexivity | intros x []]. Qed.

Lemma grown_mono E E' u u' : incl E E' -> grown E u u' -> grown E' u u'.
Proof. intros Hi [H1 [H2 [ex [H3 H4]]]]. split; [exact H1|]. split; [exact H2|]. exists ex. split; [exact H3 | intros x Hx; apply Hi, H4, Hx]. Qed.

Lemma grown_trans E1 E2 u v w : grown E1 u v -> grown E2 v w -> grown (E1 ++ E2) u w.
Proof.
  intros [A1 [A2 [e1 [A3 A4]]]] [B1 [B2 [e2 [B3 B4]]]]. split; [congruence|]. split; [congruence|].
  exists (e1 ++ e2). split; [rewrite B3, A3, app_assoc; reflexivity|].
  intros x Hx. apply in_app_or in Hx. apply in_or_app. destruct Hx as [Hx|Hx]; [left; apply A4, Hx | right; apply B4, Hx].
Qed.

Lemma Grow_refl E f : Grow E f f.
Proof. split; [intros u Hu; exists u; split; [exact Hu | apply grown_refl] | intros u Hu; left; exists u; split; [exact Hu | apply grown_refl]]. Qed.

Lemma Grow_trans E1 E2 f g h : Grow E1 f g -> Grow E2 g h -> Grow (E1 ++ E2) f h.
Proof.
  intros [A1 A2] [B1 B2]. split.
  - intros u Hu. destruct (A1 u Hu) as [v [Hv Huv]]. destruct (B1 v Hv) as [w [Hw Hvw]].
    exists w. split; [exact Hw | apply (grown_trans E1 E2 u v w Huv Hvw)].
  - intros w Hw. destruct (B2 w Hw) as [[v [Hv Hvw]]|Hin].
    + destruct (A2 v Hv) as [[u [Hu Huv]]|Hin].
      * left. exists u. split; [exact Hu | apply (grown_trans E1 E2 u v w Huv Hvw)].
      * right. destruct Hvw as [_ [_ [ex [E Hex]]]]. rewrite E. intros x Hx. apply in_app_or in Hx. apply in_or_app.
        destruct Hx as [Hx|Hx]; [left; apply Hin, Hx | right; apply Hex, Hx].
    + right. intros x Hx. apply in_or_app. right. apply Hin, Hx.
Qed.

Section Raise.
  Variable adj : Z -> list Z.

  (* the join when nothing is absorbed *)
  Lemma filter_none_of {A} (p : A -> bool) l : (forall x, In x l -> p x = false) -> filter p l = [].
  Proof.
    induction l as [|x l IH]; intros H; [reflexivity|]. cbn [filter]. rewrite (H x (or_introl eq_refl)).
    apply IH. intros y Hy. apply H. right. exact Hy.
  Qed.

  Lemma filter_all_of {A} (p : A -> bool) l : (forall x, In x l -> p x = true) -> filter p l = l.
  Proof.
    induction l as [|x l IH]; intros H; [reflexivity|]. cbn [filter]. rewrite (H x (or_introl eq_refl)).
    f_equal. apply IH. intros y Hy. apply H. right. exact Hy.
  Qed.

  Lemma join_nomg tch pv :
    (forall t, In t tch -> mergeable np (snd pv) t = false) ->
    join np tch pv = match tch with
                     | [] => Node (fst pv) [pv] []
                     | [t] => Node (tid t) (town t ++ [pv]) (tkids t)
                     | _ => Node (fst pv) [pv] tch
                     end.
  Proof.
    intros H. destruct tch as [|t [|t2 r]]; try reflexivity.
    set (l := t :: t2 :: r) in *. unfold join. fold l.
    change (match l with [] => Node (fst pv) [pv] [] | [t0] => Node (tid t0) (town t0 ++ [pv]) (tkids t0) | _ => _ end)
      with (let mg := filter (mergeable np (snd pv)) l in
            let keep := filter (fun t0 => negb (mergeable np (snd pv) t0)) l in
            match keep with
            | [] => let taker := last mg dummy in Node (tid taker) (town taker ++ [pv] ++ flat_map town (removelast mg)) []
            | [k] => Node (tid k) (town k ++ [pv] ++ flat_map town mg) (tkids k)
            | _ => Node (fst pv) (pv :: flat_map town mg) keep
            end).
    cbn zeta. rewrite (filter_none_of _ l H).
    rewrite (filter_all_of (fun t0 => negb (mergeable np (snd pv) t0)) l) by (intros x Hx; rewrite (H x Hx); reflexivity).
    reflexivity.
  Qed.

  (* one step in which nothing is absorbed: structures only grow *)
  Lemma step_grow f pv :
    (forall t, In t (tchs adj f (fst pv)) -> mergeable np (snd pv) t = false) ->
    Grow [pv] f (step adj np f pv).
  Proof.
    intros Hno. set (tch := tchs adj f (fst pv)) in *. set (N := join np tch pv).
    assert (Hf' : fnodes (step adj np f pv) = fnodes (rests adj f (fst pv)) ++ nodes N).
    { rewrite step_eq. unfold fnodes. rewrite flat_map_app. cbn [flat_map]. rewrite app_nil_r. reflexivity. }
    pose proof (join_nomg tch pv Hno) as EN. fold N in EN.
    split.
    - intros u Hu. unfold fnodes in Hu. apply in_flat_map in Hu. destruct Hu as [r [Hr Hu]].
      destruct (touches (adj (fst pv)) r) eqn:Et.
      2:{ exists u. split; [|apply grown_refl]. rewrite Hf'. apply in_or_app. left. apply in_flat_map. exists r.
          split; [apply rests_In; split; assumption | exact Hu]. }
      assert (Hrt : In r tch) by (apply tchs_In; split; assumption).
      destruct tch as [|t [|t2 rr]] eqn:Etch; [destruct Hrt| |].
      + destruct Hrt as [<-|[]]. rewrite nodes_unfold in Hu. destruct Hu as [<-|Hu].
        * exists N. split; [rewrite Hf'; apply in_or_app; right; apply nodes_self|].
          rewrite EN. split; [reflexivity|]. split; [reflexivity|]. exists [pv]. split; [reflexivity | intros x Hx; exact Hx].
        * exists u. split; [|apply grown_refl]. rewrite Hf'. apply in_or_app. right. rewrite EN, nodes_unfold. right. exact Hu.
      + exists u. split; [|apply grown_refl]. rewrite Hf'. apply in_or_app. right. rewrite EN, nodes_unfold. right.
        apply in_flat_map. exists r. split; assumption.
    - intros u' Hu'. rewrite Hf' in Hu'. apply in_app_or in Hu'. destruct Hu' as [Hu'|Hu'].
      + left. exists u'. split; [|apply grown_refl]. apply in_flat_map in Hu'. destruct Hu' as [r [Hr Hu']].
        apply in_flat_map. exists r. split; [apply rests_In in Hr; tauto | exact Hu'].
      + rewrite nodes_unfold in Hu'. destruct Hu' as [<-|Hu'].
        * destruct tch as [|t [|t2 rr]] eqn:Etch.
          -- right. rewrite EN. cbn [town]. intros x Hx. exact Hx.
          -- left. exists t. split.
             ++ apply in_flat_map. exists t. split; [|apply nodes_self].
                assert (Ht : In t (tchs adj f (fst pv))) by (fold tch; rewrite Etch; left; reflexivity). apply tchs_In in Ht. tauto.
             ++ rewrite EN. split; [reflexivity|]. split; [reflexivity|]. exists [pv]. split; [reflexivity | intros x Hx; exact Hx].
          -- right. rewrite EN. cbn [town]. intros x Hx. exact Hx.
        * left. exists u'. split; [|apply grown_refl].
          assert (Hk : In u' (flat_map nodes tch)) by (apply (join_kid_nodes adj np tch pv), Hu').
          apply in_flat_map in Hk. destruct Hk as [r [Hr Hk]]. apply in_flat_map. exists r. split; [|exact Hk].
          apply tchs_In in Hr. tauto.
  Qed.

  (* with distinct values nothing is ever absorbed *)
  Lemma distinct_no_mergeable D f pv :
    Jinv adj np D f -> ~ In (snd pv) (map snd D) ->
    forall t, In t (tchs adj f (fst pv)) -> mergeable np (snd pv) t = false.
  Proof.
    intros HJ Hfresh t Ht. rewrite mergeable_np. destruct (is_leaf t); [|reflexivity]. cbn [andb].
    apply Z.eqb_neq. intros E. apply Hfresh.
    assert (Htn : In t (fnodes f)).
    { apply in_flat_map. exists t. split; [apply tchs_In in Ht; tauto | apply nodes_self]. }
    destruct (vmax_in adj D f HJ t Htn) as [z [Hz Ez]]. rewrite <- E, <- Ez. apply in_map.
    apply (town_in_D adj D f HJ t z Htn Hz).
  Qed.

  Variable pixels : list Z.
  Hypothesis Hsym : forall a b, In a pixels -> In b pixels -> In b (adj a) -> In a (adj b).

  Lemma run_grow U : forall D f,
    Jinv adj np D f -> NoDup (map fst (D ++ U)) -> incl (map fst (D ++ U)) pixels -> sorted_desc (D ++ U) ->
    NoDup (map snd (D ++ U)) ->
    Grow U f (fold_left (step adj np) U f).
  Proof.
    induction U as [|pv U IH]; intros D f HJ Hnd Hinc Hs Hdv; cbn [fold_left]; [apply Grow_refl|].
    replace (D ++ pv :: U) with ((D ++ [pv]) ++ U) in * by (rewrite <- app_assoc; reflexivity).
    assert (Hnd1 : NoDup (map fst (D ++ [pv]))) by (rewrite map_app in Hnd; eapply NoDup_app_l; exact Hnd).
    assert (Hinc1 : incl (map fst (D ++ [pv])) pixels).
    { intros x Hx. apply Hinc. rewrite map_app. apply in_or_app. left. exact Hx. }
    assert (Hlow : forall y vy, In (y, vy) D -> snd pv <= vy).
    { intros y vy Hy. rewrite <- app_assoc in Hs. cbn [app] in Hs. apply (sorted_desc_mid D pv U Hs (y, vy) Hy). }
    assert (Hfresh : ~ In (snd pv) (map snd D)).
    { rewrite map_app in Hdv. apply NoDup_app_l in Hdv. rewrite map_app in Hdv. cbn [map] in Hdv.
      intros Hin. apply (NoDup_app_disj _ _ (snd pv) Hdv Hin). left. reflexivity. }
    change (pv :: U) with ([pv] ++ U). apply (Grow_trans [pv] U f (step adj np f pv)).
    - apply step_grow. apply (distinct_no_mergeable D f pv HJ Hfresh).
    - apply (IH (D ++ [pv])); try assumption. apply (Jinv_step adj np pixels Hsym); assumption.
  Qed.
End Raise.

(* the pixels above a threshold t are a prefix of a descending order *)
Lemma sorted_split (t : Z) (l : list (Z * Z)) :
  sorted_desc l -> l = filter (fun pv => t <? snd pv) l ++ filter (fun pv => negb (t <? snd pv)) l.
Proof.
  unfold sorted_desc. induction 1 as [|a l Hs IH Hall]; [reflexivity|]. cbn [filter].
  destruct (t <? snd a) eqn:E; cbn [negb app].
  - f_equal. exact IH.
  - (* everything after a is not above t either *)
    assert (Hnone : filter (fun pv => t <? snd pv) l = []).
    { apply (filter_none_of (fun pv => t <? snd pv)). intros x Hx. rewrite Forall_forall in Hall. specialize (Hall x Hx).
      apply Z.ltb_ge in E. apply Z.ltb_ge. lia. }
    rewrite Hnone. cbn [app]. f_equal.
    rewrite (filter_all_of (fun pv => negb (t <? snd pv)) l); [reflexivity|].
    intros x Hx. rewrite Forall_forall in Hall. specialize (Hall x Hx). apply Z.ltb_ge in E.
    apply negb_true_iff. apply Z.ltb_ge. lia.
Qed.

Lemma StronglySorted_filter' {A} (R : A -> A -> Prop) p l : StronglySorted R l -> StronglySorted R (filter p l).
Proof.
  induction 1 as [|a l Hs IH Hall]; cbn [filter]; [constructor|]. destruct (p a); [|exact IH].
  constructor; [exact IH|]. rewrite Forall_forall in *. intros x Hx. apply filter_In in Hx. apply Hall. tauto.
Qed.

(* C16: the dendrogram of the higher threshold, structure by structure *)
Theorem raise_threshold adj (order : list (Z * Z)) (t : Z) :
  NoDup (map fst order) -> sorted_desc order -> NoDup (map snd order) ->
  (forall a b, In a (map fst order) -> In b (map fst order) -> In b (adj a) -> In a (adj b)) ->
  let hi := filter (fun pv => t <? snd pv) order in
  let lo := filter (fun pv => negb (t <? snd pv)) order in
  Grow lo (run adj np hi) (run adj np order) /\
  (forall pv, In pv lo -> snd pv <= t) /\ (forall pv, In pv hi -> t < snd pv).
Proof.
  intros Hnd Hs Hdv Hsym hi lo.
  assert (E : order = hi ++ lo) by apply (sorted_split t order Hs).
  split; [|split].
  - assert (Hhi : Jinv adj np hi (run adj np hi)).
    { apply (run_Jinv adj np (map fst order) Hsym).
      - rewrite E, map_app in Hnd. eapply NoDup_app_l. exact Hnd.
      - intros x Hx. apply in_map_iff in Hx. destruct Hx as [pv [<- Hpv]]. apply in_map. apply filter_In in Hpv. tauto.
      - apply StronglySorted_filter', Hs. }
    assert (ER : run adj np order = fold_left (step adj np) lo (run adj np hi)).
    { unfold run. rewrite E at 1. apply fold_left_app. }
    rewrite ER.
    apply (run_grow adj (map fst order) Hsym lo hi (run adj np hi) Hhi); rewrite <- E; try assumption. apply incl_refl.
  - intros pv Hpv. apply filter_In in Hpv. destruct Hpv as [_ H]. apply negb_true_iff, Z.ltb_ge in H. exact H.
  - intros pv Hpv. apply filter_In in Hpv. destruct Hpv as [_ H]. apply Z.ltb_lt in H. exact H.
Qed.

Lemma kept_NoDup' vals minv : NoDup (map fst (kept vals minv)).
Proof.
  apply (Permutation_NoDup (l := map fst (order_of (kept vals minv)))).
  - apply Permutation_map, order_of_perm.
  - apply order_of_NoDup.
Qed.

(* the prefix is what compute processes for the higher threshold *)
Lemma kept_raise vals (m : option Z) (t : Z) :
  (forall v, above (Some t) v = true -> above m v = true) ->
  forall pv, In pv (kept vals (Some t)) <-> In pv (kept vals m) /\ t < snd pv.
Proof.
  intros Hle [p v]. rewrite !kept_spec. cbn [snd]. split.
  - intros [i [H1 [H2 H3]]]. split; [exists i; repeat split; try assumption; apply Hle, H3|]. cbn [above] in H3. apply Z.ltb_lt in H3. exact H3.
  - intros [[i [H1 [H2 _]]] Hlt]. exists i. repeat split; try assumption. cbn [above]. apply Z.ltb_lt. exact Hlt.
Qed.

Theorem order_of_raise vals (m : option Z) (t : Z) :
  (forall v, above (Some t) v = true -> above m v = true) ->
  NoDup (map snd (kept vals m)) ->
  order_of (kept vals (Some t)) = filter (fun pv => t <? snd pv) (order_of (kept vals m)).
Proof.
  intros Hle Hdv. apply sorted_perm_unique.
  - apply order_of_sorted.
  - apply StronglySorted_filter', order_of_sorted.
  - apply NoDup_Permutation.
    + apply (NoDup_map_inv fst), order_of_NoDup.
    + apply NoDup_filter. apply (NoDup_map_inv fst), order_of_NoDup.
    + intros pv. rewrite filter_In. split.
      * intros H. apply (Permutation_in _ (order_of_perm _)) in H. apply (kept_raise vals m t Hle) in H. destruct H as [H1 H2].
        split; [apply (Permutation_in _ (Permutation_sym (order_of_perm _))), H1 | apply Z.ltb_lt, H2].
      * intros [H1 H2]. apply (Permutation_in _ (Permutation_sym (order_of_perm _))). apply (kept_raise vals m t Hle).
        split; [apply (Permutation_in _ (order_of_perm _)), H1 | apply Z.ltb_lt, H2].
  - (* distinct values among the pixels above the higher threshold *)
    assert (Hsub : forall l : list (Z * Z), NoDup (map snd l) -> forall p, NoDup (map snd (filter p l))).
    { induction l as [|a l IH]; intros Hn p; [constructor|]. cbn [map] in Hn. inversion Hn as [|? ? Ha Hl]; subst.
      cbn [filter]. destruct (p a); [|apply IH, Hl]. cbn [map]. constructor; [|apply IH, Hl].
      intros Hin. apply Ha. apply in_map_iff in Hin. destruct Hin as [x [Ex Hx]]. apply filter_In in Hx. rewrite <- Ex. apply in_map. tauto. }
    apply (Permutation_NoDup (l := map snd (filter (fun pv => t <? snd pv) (kept vals m)))).
    + apply Permutation_map. apply NoDup_Permutation.
      * apply NoDup_filter. apply (NoDup_map_inv fst), kept_NoDup'.
      * apply (NoDup_map_inv fst), order_of_NoDup.
      * intros pv. rewrite filter_In. split.
        -- intros [H1 H2]. apply (Permutation_in _ (Permutation_sym (order_of_perm _))). apply (kept_raise vals m t Hle).
           split; [exact H1 | apply Z.ltb_lt, H2].
        -- intros H. apply (Permutation_in _ (order_of_perm _)) in H. apply (kept_raise vals m t Hle) in H.
           destruct H as [H1 H2]. split; [exact H1 | apply Z.ltb_lt, H2].
    + apply Hsub, Hdv.
Qed.

(* C16: raising min_value from m to t (distinct values, no pruning) *)
Theorem compute_raise adj vals (m : option Z) (t : Z) :
  (forall v, above (Some t) v = true -> above m v = true) ->
  NoDup (map snd (kept vals m)) ->
  (forall a b, In a (map fst (kept vals m)) -> In b (map fst (kept vals m)) -> In b (adj a) -> In a (adj b)) ->
  let lo := filter (fun pv => negb (t <? snd pv)) (order_of (kept vals m)) in
  Grow lo (run adj np (order_of (kept vals (Some t)))) (run adj np (order_of (kept vals m))) /\
  (forall pv, In pv lo -> snd pv <= t).
Proof.
  intros Hle Hdv Hsym lo. rewrite (order_of_raise vals m t Hle Hdv).
  assert (Hperm : forall x, In x (map fst (order_of (kept vals m))) <-> In x (map fst (kept vals m))).
  { intros x. split; apply Permutation_in, Permutation_map; [apply order_of_perm | apply Permutation_sym, order_of_perm]. }
  destruct (raise_threshold adj (order_of (kept vals m)) t) as [H1 [H2 _]].
  - apply order_of_NoDup.
  - apply order_of_sorted.
  - apply (Permutation_NoDup (l := map snd (kept vals m))); [apply Permutation_map, Permutation_sym, order_of_perm | exact Hdv].
  - intros a b Ha Hb. apply Hsym; apply Hperm; assumption.
  - split; [exact H1 | exact H2].
Qed.

(* non-vacuity: [5; 1; 7; 2; 9; 3] with thresholds 0 and 2 *)
Example raise_example :
  let vals := [Some 5; Some 1; Some 7; Some 2; Some 9; Some 3] in
  let adj := Grid.nbrs [6] [false] in
  map (fun t => (tid t, town t)) (fnodes (run adj np (order_of (kept vals (Some 0)))))
  = [(1, [(1, 1)]); (0, [(0, 5)]); (3, [(3, 2)]); (2, [(2, 7)]); (4, [(4, 9); (5, 3)])] /\
  map (fun t => (tid t, town t)) (fnodes (run adj np (order_of (kept vals (Some 2)))))
  = [(2, [(2, 7)]); (0, [(0, 5)]); (4, [(4, 9); (5, 3)])].
Proof. split; vm_compute; reflexivity. Qed.
