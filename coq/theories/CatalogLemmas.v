(* CatalogLemmas.v — C12 *)
From Coq Require Import ZArith List Bool Lia Permutation Sorted.
From Dendro Require Import Base BaseLemmas Catalog.
Import ListNotations.
Open Scope Z_scope.

(* ---- rows *)
Theorem catalog_one_row_each {R} (rows : list (Z * R)) : Permutation (catalog rows) rows.
Proof. apply sort_by_perm. Qed.

Theorem catalog_length {R} (rows : list (Z * R)) : length (catalog rows) = length rows.
Proof. apply sort_by_length. Qed.

Theorem catalog_sorted {R} (rows : list (Z * R)) : StronglySorted (key_le fst) (catalog rows).
Proof. apply sort_by_sorted. Qed.

Theorem catalog_idx_column {R} (rows : list (Z * R)) : Permutation (map fst (catalog rows)) (map fst rows).
Proof. apply Permutation_map, sort_by_perm. Qed.

(* each field of a row is the statistic of that structure alone: the row of structure s is a
   function of s only (map) - rows of other structures do not influence it *)
Theorem catalog_rows_are_per_structure {S R} (row : S -> Z * R) (ss : list S) r :
  In r (catalog (map row ss)) <-> exists s, In s ss /\ r = row s.
Proof.
  unfold catalog. rewrite sort_by_In, in_map_iff. split; intros [s [H1 H2]]; exists s; split; auto.
Qed.

(* ---- the un-wrapping heuristic *)
Lemma ptp_ge l x y : In x l -> In y l -> x - y <= ptp l.
Proof. intros Hx Hy. unfold ptp. pose proof (maxl_ge l x Hx). pose proof (minl_le l y Hy). lia. Qed.

Lemma ptp_bounds l lo hi : l <> [] -> (forall x, In x l -> lo <= x <= hi) -> ptp l <= hi - lo.
Proof.
  intros Hne H. unfold ptp. pose proof (H _ (maxl_in l Hne)). pose proof (H _ (minl_in l Hne)). lia.
Qed.

Section Pattern.
  Variables n e a : Z.
  Variable P : list Z.
  Hypothesis Hn : 0 < n.
  Hypothesis He : 0 <= e /\ 2 * e < n.             (* narrower than half the axis *)
  Hypothesis Ha : 0 <= a < n.
  Hypothesis HP : forall d, In d P -> 0 <= d <= e.
  Hypothesis H0 : In 0 P.
  Hypothesis HeP : In e P.

  Let shifted := map (fun d => a + d) P.

  Lemma shifted_ptp : ptp shifted = e.
  Proof.
    assert (Hne : shifted <> []) by (unfold shifted; destruct P; [destruct H0 | discriminate]).
    apply Z.le_antisymm.
    - replace e with ((a + e) - a) by lia. apply ptp_bounds; [exact Hne|].
      intros x Hx. unfold shifted in Hx. apply in_map_iff in Hx. destruct Hx as [d [<- Hd]]. specialize (HP d Hd). lia.
    - replace e with ((a + e) - (a + 0)) by lia. apply ptp_ge; unfold shifted; apply in_map_iff; [exists e | exists 0]; split; auto.
  Qed.

  (* wherever the structure lies relative to the array edge, the coordinates handed to the
     statistics are the pattern translated by a *)
  Theorem unwrap_placed : unwrap n (placed n a P) = shifted.
  Proof.
    unfold unwrap.
    destruct (Z_lt_ge_dec (a + e) n) as [Hnw|Hw].
    - (* the structure does not straddle the edge *)
      assert (El : placed n a P = shifted).
      { unfold placed, shifted. apply map_ext_in. intros d Hd. specialize (HP d Hd). apply Z.mod_small. lia. }
      rewrite El. rewrite shifted_ptp.
      assert (Hge : e <= ptp (map (lift n) shifted)).
      { destruct (Z_lt_ge_dec (2 * a) n) as [Hla|Hla].
        - destruct (Z_lt_ge_dec (2 * (a + e)) n) as [Hle|Hle].
          + (* everything is lifted *)
            replace e with ((a + e + n) - (a + 0 + n)) by lia. apply ptp_ge; apply in_map_iff.
            * exists (a + e). split; [unfold lift; replace (2 * (a + e) <? n) with true by (symmetry; apply Z.ltb_lt; lia); reflexivity|].
              unfold shifted. apply in_map_iff. exists e. split; auto.
            * exists (a + 0). split; [unfold lift; replace (2 * (a + 0) <? n) with true by (symmetry; apply Z.ltb_lt; lia); reflexivity|].
              unfold shifted. apply in_map_iff. exists 0. split; auto.
          + (* the first pixel is lifted, the last is not *)
            assert (H1 : In (a + 0 + n) (map (lift n) shifted)).
            { apply in_map_iff. exists (a + 0). split; [unfold lift; replace (2 * (a + 0) <? n) with true by (symmetry; apply Z.ltb_lt; lia); reflexivity|].
              unfold shifted. apply in_map_iff. exists 0. split; auto. }
            assert (H2 : In (a + e) (map (lift n) shifted)).
            { apply in_map_iff. exists (a + e). split; [unfold lift; replace (2 * (a + e) <? n) with false by (symmetry; apply Z.ltb_ge; lia); reflexivity|].
              unfold shifted. apply in_map_iff. exists e. split; auto. }
            pose proof (ptp_ge _ _ _ H1 H2). lia.
        - (* nothing is lifted *)
          assert (Eid : map (lift n) shifted = shifted).
          { rewrite <- (map_id shifted) at 2. apply map_ext_in. intros x Hx. unfold shifted in Hx. apply in_map_iff in Hx.
            destruct Hx as [d [<- Hd]]. specialize (HP d Hd). unfold lift.
            replace (2 * (a + d) <? n) with false by (symmetry; apply Z.ltb_ge; lia). reflexivity. }
          rewrite Eid, shifted_ptp. lia. }
      replace (ptp (map (lift n) shifted) <? e) with false by (symmetry; apply Z.ltb_ge; lia). reflexivity.
    - (* the structure straddles the edge: lifting glues it together again *)
      assert (El2 : map (lift n) (placed n a P) = shifted).
      { unfold placed, shifted. rewrite map_map. apply map_ext_in. intros d Hd. specialize (HP d Hd).
        destruct (Z_lt_ge_dec (a + d) n) as [Hs|Hs].
        - rewrite Z.mod_small by lia. unfold lift. replace (2 * (a + d) <? n) with false by (symmetry; apply Z.ltb_ge; lia). reflexivity.
        - assert (Em : (a + d) mod n = a + d - n).
          { symmetry. apply (Z.mod_unique _ _ 1); [left; lia | lia]. }
          rewrite Em. unfold lift. replace (2 * (a + d - n) <? n) with true by (symmetry; apply Z.ltb_lt; lia). lia. }
      rewrite El2, shifted_ptp.
      assert (Hbig : e < ptp (placed n a P)).
      { assert (H1 : In a (placed n a P)).
        { unfold placed. apply in_map_iff. exists 0. split; [rewrite Z.add_0_r; apply Z.mod_small; lia | exact H0]. }
        assert (H2 : In (a + e - n) (placed n a P)).
        { unfold placed. apply in_map_iff. exists e. split; [|exact HeP].
          symmetry. apply (Z.mod_unique _ _ 1); [left; lia | lia]. }
        pose proof (ptp_ge _ _ _ H1 H2). lia. }
      replace (e <? ptp (placed n a P)) with true by (symmetry; apply Z.ltb_lt; lia). reflexivity.
  Qed.
End Pattern.

(* a structure that does not touch the wrap at all is left alone *)
Theorem unwrap_identity_when_compact n l :
  (forall x, In x l -> 2 * x >= n) -> unwrap n l = l.
Proof.
  intros H. unfold unwrap.
  assert (E : map (lift n) l = l).
  { rewrite <- (map_id l) at 2. apply map_ext_in. intros x Hx. unfold lift.
    replace (2 * x <? n) with false by (symmetry; apply Z.ltb_ge; specialize (H x Hx); lia). reflexivity. }
  rewrite E. rewrite Z.ltb_irrefl. reflexivity.
Qed.
