(* TrunkOrder.v — the trunk list of a computed dendrogram is in the order of the final
   identifiers (fix F35), hence a prune that has nothing to remove returns the very same list:
   same trunk order, same iteration order, same Newick text. *)
From Coq Require Import ZArith List Bool Permutation Sorted.
From Dendro Require Import Base BaseLemmas Tree Criteria Compute ComputeInv Prune PruneLemmas.
Import ListNotations.
Open Scope Z_scope.

Lemma compute_trunk_sorted shape a vals minv cs :
  StronglySorted (key_le tid) (compute shape a vals minv cs).
Proof. unfold compute. apply sort_by_sorted. Qed.

Theorem prune_noop_after_compute shape a vals minv cs0 cs :
  let G := compute shape a vals minv cs0 in
  (forall w k, In (w, k) (fedges G) -> is_leaf k = true -> ph_ok cs (height w) k = true) ->
  (forall r, In r G -> is_leaf r = true -> indep_of cs (town r) None = true) ->
  prune_struct cs G = G.
Proof.
  intros G H1 H2. rewrite (prune_struct_noop cs G H1 H2).
  apply sort_by_of_sorted, compute_trunk_sorted.
Qed.

(* pruning always leaves the trunk in identifier order *)
Lemma prune_trunk_sorted cs f : StronglySorted (key_le tid) (prune_struct cs f).
Proof. unfold prune_struct, trunk_of. apply StronglySorted_filter, sort_by_sorted. Qed.

(* non-vacuity: the input of finding F35, [[1,0,3],[2,0,0]] with min_value 0.5 (halves): the
   structure with the smaller identifier comes first although its peak is processed later *)
Example trunk_order_example :
  map tid (compute [2; 3] (AdjGrid [false; false]) [Some 2; Some 0; Some 6; Some 4; Some 0; Some 0] (Some 1) []) = [0; 1].
Proof. vm_compute. reflexivity. Qed.
