(* IO.v — logical model of save_to / load_from (io/__init__.py, io/util.py, the logical
   content of io/fits.py and io/hdf5.py).  A file is the record of what the exporters
   store: n_dim, data, label map, Newick text, parameters, WCS header.  Byte formats,
   astropy and h5py are outside the model.  Definitions only. *)
From Coq Require Import ZArith List Bool Lia String.
From Dendro Require Import Base Tree Index Newick.
Import ListNotations.
Open Scope Z_scope.

Definition val_at (vals : list (option Z)) (p : Z) : Z :=
  match nth (Z.to_nat p) vals None with Some v => v | None => 0 end.

(* _slow_reader: pixels of each label in C order, with the data values *)
Definition own_pv (vals : list (option Z)) (labels : list Z) (i : Z) : list (Z * Z) :=
  map (fun p => (p, val_at vals p)) (own_of labels i).

(* _construct_tree *)
Fixpoint rebuild (vals : list (option Z)) (labels : list Z) (t : ntree) : tree :=
  match t with NNode i _ ks => Node i (own_pv vals labels i) (map (rebuild vals labels) ks) end.

Record dfile : Type := {
  f_ndim : Z;
  f_data : list (option Z);
  f_labels : list Z;
  f_newick : list tok;
  f_params : Z * (Z * (Z * Z));           (* min_value, min_delta, min_npix num/den *)
  f_wcs : option string
}.

Record dendro : Type := {
  d_ndim : Z;
  d_data : list (option Z);
  d_labels : list Z;
  d_forest : list tree;
  d_params : Z * (Z * (Z * Z));
  d_wcs : option string
}.

Section Save.
  Variable hstr : tree -> string.     (* "%.3f" % height: opaque, never read back *)
  Definition save (d : dendro) : dfile :=
    {| f_ndim := d_ndim d; f_data := d_data d; f_labels := d_labels d;
       f_newick := toks_forest (map (ntree_of hstr) (d_forest d));
       f_params := d_params d; f_wcs := d_wcs d |}.
End Save.

Definition load (f : dfile) : option dendro :=
  match parse_forest (f_newick f) with
  | Some nf => Some {| d_ndim := f_ndim f; d_data := f_data f; d_labels := f_labels f;
                       d_forest := map (rebuild (f_data f) (f_labels f)) nf;
                       d_params := f_params f; d_wcs := f_wcs f |}
  | None => None
  end.

(* ---- choosing the format (io/__init__.py, is_fits, is_hdf5) *)
Inductive fmt : Type := FITS | HDF5.
Inductive extension : Type := ExtFits | ExtHdf5 | ExtOther.
Inductive content : Type := NoFile | SigFits | SigHdf5 | SigOther.

Definition file_exists (c : content) : bool := match c with NoFile => false | _ => true end.

Definition identify (h : fmt) (e : extension) (c : content) (reading : bool) : bool :=
  if reading && file_exists c then
    match h, c with FITS, SigFits => true | HDF5, SigHdf5 => true | _, _ => false end
  else
    match h, e with FITS, ExtFits => true | HDF5, ExtHdf5 => true | _, _ => false end.

(* None = IOError "Could not automatically identify file format" *)
Definition choose (format : option fmt) (e : extension) (c : content) (reading : bool) : option fmt :=
  match format with
  | Some f => Some f
  | None => if identify FITS e c reading then Some FITS
            else if identify HDF5 e c reading then Some HDF5 else None
  end.
