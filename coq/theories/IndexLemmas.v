(* IndexLemmas.v — C06: the TreeIndex slices and the accessors agree with the label map,
   the data and the tree. *)
From Coq Require Import ZArith List Bool Lia Permutation.
From Dendro Require Import Base BaseLemmas Tree TreeLemmas Index.
Import ListNotations.
Open Scope Z_scope.

Definition blocks (labels : list Z) (l : list tree) : list Z :=
  flat_map (fun t => own_of labels (tid t)) l.

Lemma zlen_flat_blocks labels l :
  zlen (blocks labels l) = sumZ (map (ct labels) l).
Proof.
  induction l as [|t l IH]; [reflexivity|].
  unfold blocks in *. cbn [flat_map map]. rewrite zlen_app, sumZ_cons, IH. reflexivity.
Qed.

(* the bottom-up count equals the number of pixels labelled with the subtree's ids *)
Theorem sub_ct_spec labels t : sub_ct labels t = zlen (blocks labels (nodes t)).
Proof.
  induction t as [i o ks IH] using tree_ind2.
  cbn [sub_ct nodes]. unfold blocks. cbn [flat_map]. rewrite zlen_app. unfold ct at 1. f_equal.
  fold (blocks labels (flat_map nodes ks)).
  induction ks as [|k ks IHk]; [reflexivity|].
  inversion IH as [|? ? Hk Hks]; subst.
  cbn [map flat_map]. rewrite sumZ_cons. unfold blocks. rewrite flat_map_app.
  rewrite zlen_app. fold (blocks labels (nodes k)). fold (blocks labels (flat_map nodes ks)).
  rewrite Hk, (IHk Hks). reflexivity.
Qed.

(* in prefix order every subtree is a contiguous run *)
Theorem subtree_contiguous f u :
  In u (fnodes f) -> exists l1 l2, fnodes f = l1 ++ nodes u ++ l2.
Proof.
  assert (Ht : forall t, In u (nodes t) -> exists l1 l2, nodes t = l1 ++ nodes u ++ l2).
  { induction t as [i o ks IH] using tree_ind2. intros H.
    cbn [nodes] in H. destruct H as [<-|H].
    - exists [], []. rewrite app_nil_r. reflexivity.
    - apply in_flat_map in H. destruct H as [c [Hc H]].
      rewrite Forall_forall in IH. destruct (IH c Hc H) as [l1 [l2 E]].
      apply in_split in Hc. destruct Hc as [k1 [k2 ->]].
      exists (Node i o (k1 ++ c :: k2) :: flat_map nodes k1 ++ l1), (l2 ++ flat_map nodes k2).
      cbn [nodes]. rewrite flat_map_app. cbn [flat_map]. rewrite E.
      cbn [app]. f_equal. rewrite <- !app_assoc. reflexivity. }
  intros H. unfold fnodes in H. apply in_flat_map in H. destruct H as [t [Htf H]].
  destruct (Ht t H) as [l1 [l2 E]].
  apply in_split in Htf. destruct Htf as [f1 [f2 ->]].
  exists (fnodes f1 ++ l1), (l2 ++ fnodes f2).
  unfold fnodes. rewrite flat_map_app. cbn [flat_map]. rewrite E. rewrite <- !app_assoc. reflexivity.
Qed.

Lemma offset_in_app labels l1 u r pos :
  ~ In (tid u) (map tid l1) ->
  offset_in labels (l1 ++ u :: r) (tid u) pos = Some (pos + zlen (blocks labels l1)).
Proof.
  revert pos. induction l1 as [|t l1 IH]; intros pos Hn.
  - cbn [app offset_in]. rewrite Z.eqb_refl. f_equal. unfold blocks, zlen. cbn. lia.
  - cbn [app offset_in]. cbn [map] in Hn.
    destruct (tid t =? tid u) eqn:E; [apply Z.eqb_eq in E; exfalso; apply Hn; left; exact E|].
    rewrite IH by (intros H; apply Hn; right; exact H).
    f_equal. unfold blocks. cbn [flat_map]. rewrite zlen_app. unfold ct. lia.
Qed.

Lemma slice_mid {A} (a b c : list A) : slice (a ++ b ++ c) (zlen a) (zlen b) = b.
Proof.
  unfold slice, zlen. rewrite !Nat2Z.id.
  rewrite skipn_app, skipn_all, Nat.sub_diag. cbn [skipn app].
  rewrite firstn_app, firstn_all, Nat.sub_diag. cbn [firstn]. apply app_nil_r.
Qed.

Lemma NoDup_app_head_notin {A} (l1 l2 : list A) x : NoDup (l1 ++ x :: l2) -> ~ In x l1.
Proof. intros H Hx. apply NoDup_remove_2 in H. apply H. apply in_or_app. left. exact Hx. Qed.

(* C06: the slice of the index array belonging to a structure (+ subtree) *)
Theorem ti_indices_subtree labels f u :
  NoDup (map tid (fnodes f)) -> In u (fnodes f) ->
  ti_indices labels f u true = blocks labels (nodes u).
Proof.
  intros Hnd Hu. destruct (subtree_contiguous f u Hu) as [l1 [l2 E]].
  unfold ti_indices, index_array. rewrite E.
  rewrite (nodes_unfold u) at 1. cbn [app].
  rewrite offset_in_app.
  - rewrite sub_ct_spec. cbn [Z.add].
    rewrite !flat_map_app. fold (blocks labels l1). fold (blocks labels (nodes u)). fold (blocks labels l2).
    apply slice_mid.
  - rewrite E, (nodes_unfold u) in Hnd. cbn [app] in Hnd. rewrite map_app in Hnd. cbn [map] in Hnd.
    eapply NoDup_app_head_notin. exact Hnd.
Qed.

Theorem ti_indices_own labels f u :
  NoDup (map tid (fnodes f)) -> In u (fnodes f) ->
  ti_indices labels f u false = own_of labels (tid u).
Proof.
  intros Hnd Hu. destruct (subtree_contiguous f u Hu) as [l1 [l2 E]].
  unfold ti_indices, index_array. rewrite E.
  rewrite (nodes_unfold u) at 1. cbn [app].
  rewrite offset_in_app.
  - cbn [Z.add]. rewrite (nodes_unfold u). cbn [app]. rewrite flat_map_app. cbn [flat_map].
    fold (blocks labels l1). unfold ct. apply slice_mid.
  - rewrite E, (nodes_unfold u) in Hnd. cbn [app] in Hnd. rewrite map_app in Hnd. cbn [map] in Hnd.
    eapply NoDup_app_head_notin. exact Hnd.
Qed.

(* what "labelled i" means *)
Theorem own_of_spec labels i p :
  In p (own_of labels i) <-> 0 <= p < zlen labels /\ lab_at labels p = i.
Proof.
  unfold own_of. rewrite filter_In, Z.eqb_eq.
  assert (H : In p (zseq (length labels)) <-> 0 <= p < zlen labels).
  { unfold zseq, zlen. rewrite in_map_iff. split.
    - intros [k [<- Hk]]. apply in_seq in Hk. lia.
    - intros Hp. exists (Z.to_nat p). split; [lia | apply in_seq; lia]. }
  rewrite H. reflexivity.
Qed.

(* C06: with a label map that agrees with the own-pixel lists, the subtree slice is
   exactly the region of the structure and its descendants *)
Definition labels_agree (labels : list Z) (f : list tree) : Prop :=
  forall t, In t (fnodes f) -> forall p, In p (own_of labels (tid t)) <-> In p (opix t).

Theorem ti_indices_region labels f u p :
  NoDup (map tid (fnodes f)) -> labels_agree labels f -> In u (fnodes f) ->
  (In p (ti_indices labels f u true) <-> In p (region u)).
Proof.
  intros Hnd Hag Hu. rewrite ti_indices_subtree by assumption.
  unfold blocks. rewrite in_flat_map, In_region_nodes.
  assert (Hsub : forall w, In w (nodes u) -> In w (fnodes f)).
  { intros w Hw. unfold fnodes in *. apply in_flat_map in Hu. destruct Hu as [r [Hr Hu]].
    apply in_flat_map. exists r. split; [exact Hr | eapply nodes_trans; eassumption]. }
  split; intros [w [Hw Hp]]; exists w; (split; [exact Hw|]); apply (Hag w (Hsub w Hw)); exact Hp.
Qed.

(* ---------- peaks *)
Lemma peak_own_spec t :
  town t <> [] -> In (peak_own t) (town t) -> True.
Proof. trivial. Qed.

Lemma filter_max_nonempty (o : list (Z * Z)) :
  o <> [] -> filter (fun pv => snd pv =? maxl (map snd o)) o <> [].
Proof.
  intros Hne.
  assert (Hin : In (maxl (map snd o)) (map snd o)) by (apply maxl_in; destruct o; [congruence | discriminate]).
  apply in_map_iff in Hin. destruct Hin as [pv [E Hpv]].
  intros Hf. assert (Hx : In pv (filter (fun pv => snd pv =? maxl (map snd o)) o)).
  { apply filter_In. split; [exact Hpv | apply Z.eqb_eq; exact E]. }
  rewrite Hf in Hx. destruct Hx.
Qed.

(* get_peak(subtree=False): an own pixel attaining the own maximum (the smallest such) *)
Theorem peak_own_in t :
  town t <> [] ->
  snd (peak_own t) = vmax t /\ In (peak_own t) (town t) /\
  (forall p v, In (p, v) (town t) -> v <= snd (peak_own t)) /\
  (forall p, In (p, vmax t) (town t) -> fst (peak_own t) <= p).
Proof.
  intros Hne. unfold peak_own. cbn [fst snd].
  set (m := vmax t). set (best := filter (fun pv => snd pv =? m) (town t)).
  assert (Hb : best <> []) by (apply filter_max_nonempty, Hne).
  assert (Hin : In (minl (map fst best)) (map fst best)).
  { apply minl_in. destruct best; [congruence | discriminate]. }
  apply in_map_iff in Hin. destruct Hin as [[p v] [E Hpv]]. cbn [fst] in E.
  apply filter_In in Hpv. destruct Hpv as [Hpv Hv]. cbn [snd] in Hv. apply Z.eqb_eq in Hv. subst v.
  split; [reflexivity|]. split; [rewrite <- E; exact Hpv|]. split.
  - intros q v Hq. unfold m, vmax, ovals. apply maxl_ge. apply in_map_iff. exists (q, v). split; [reflexivity | exact Hq].
  - intros q Hq. apply minl_le. apply in_map_iff. exists (q, m). split; [reflexivity|].
    apply filter_In. split; [exact Hq | apply Z.eqb_refl].
Qed.

Lemma first_max_spec l : forall best,
  (In (first_max l best) (best :: l)) /\
  (forall x, In x (best :: l) -> snd x <= snd (first_max l best)).
Proof.
  induction l as [|y l IH]; intros best; cbn [first_max].
  - split; [left; reflexivity | intros x [<-|[]]; lia].
  - destruct (snd best <? snd y) eqn:E.
    + apply Z.ltb_lt in E. destruct (IH y) as [H1 H2]. split.
      * right. exact H1.
      * intros x [<-|Hx]; [specialize (H2 y (or_introl eq_refl)); lia | apply H2, Hx].
    + apply Z.ltb_ge in E. destruct (IH best) as [H1 H2]. split.
      * destruct H1 as [H1|H1]; [left; exact H1 | right; right; exact H1].
      * intros x [<-|[<-|Hx]]; [apply H2; left; reflexivity | specialize (H2 best (or_introl eq_refl)); lia | apply H2; right; exact Hx].
Qed.

Lemma peak_sub_unfold t :
  peak_sub t = match map peak_sub (tkids t) with
               | [] => peak_own t
               | c :: cs => let cb := first_max cs c in
                            if snd cb <? snd (peak_own t) then peak_own t else cb
               end.
Proof. destruct t; reflexivity. Qed.

(* get_peak(subtree=True): a pixel of the region attaining the region's maximum *)
Theorem peak_sub_spec t :
  (forall u, In u (nodes t) -> town u <> []) ->
  In (peak_sub t) (regionv t) /\ (forall p v, In (p, v) (regionv t) -> v <= snd (peak_sub t)).
Proof.
  induction t as [i o ks IH] using tree_ind2. intros Hne.
  assert (Hown : town (Node i o ks) <> []) by (apply Hne, nodes_self).
  destruct (peak_own_in (Node i o ks) Hown) as [_ [Hoin [Hoge _]]].
  rewrite peak_sub_unfold. cbn [tkids].
  assert (Hkids : forall k, In k ks -> In (peak_sub k) (regionv k) /\ (forall p v, In (p, v) (regionv k) -> v <= snd (peak_sub k))).
  { intros k Hk. rewrite Forall_forall in IH. apply IH; [exact Hk|].
    intros u Hu. apply Hne. cbn [nodes]. right. apply in_flat_map. exists k. split; assumption. }
  rewrite regionv_unfold. cbn [town tkids].
  destruct (map peak_sub ks) as [|c cs] eqn:Em.
  - assert (ks = []) by (destruct ks; [reflexivity | discriminate]). subst ks.
    cbn [flat_map]. rewrite app_nil_r. split; [exact Hoin | exact Hoge].
  - cbn zeta. destruct (first_max_spec cs c) as [Hin Hge].
    rewrite <- Em in Hin, Hge.
    assert (Hcb : In (first_max cs c) (flat_map regionv ks)).
    { apply in_map_iff in Hin. destruct Hin as [k [E Hk]]. apply in_flat_map. exists k.
      split; [exact Hk | rewrite <- E; apply (Hkids k Hk)]. }
    assert (Hall : forall p v, In (p, v) (flat_map regionv ks) -> v <= snd (first_max cs c)).
    { intros p v Hpv. apply in_flat_map in Hpv. destruct Hpv as [k [Hk Hpv]].
      destruct (Hkids k Hk) as [_ Hkge]. specialize (Hkge p v Hpv).
      specialize (Hge (peak_sub k) (in_map peak_sub ks k Hk)). lia. }
    destruct (snd (first_max cs c) <? snd (peak_own (Node i o ks))) eqn:E.
    + apply Z.ltb_lt in E. split; [apply in_or_app; left; exact Hoin|].
      intros p v Hpv. apply in_app_or in Hpv. destruct Hpv as [Hpv|Hpv]; [eapply Hoge; exact Hpv|].
      specialize (Hall p v Hpv). lia.
    + apply Z.ltb_ge in E. split; [apply in_or_app; right; exact Hcb|].
      intros p v Hpv. apply in_app_or in Hpv. destruct Hpv as [Hpv|Hpv]; [specialize (Hoge p v Hpv); lia|].
      apply (Hall p v Hpv).
Qed.

(* vmin / vmax / height are what their names say *)
Theorem vmax_spec t : town t <> [] ->
  (exists p, In (p, vmax t) (town t)) /\ forall p v, In (p, v) (town t) -> v <= vmax t.
Proof.
  intros Hne. split.
  - assert (Hin : In (vmax t) (ovals t)) by (apply maxl_in; unfold ovals; destruct (town t); [congruence | discriminate]).
    apply in_map_iff in Hin. destruct Hin as [[p v] [E H]]. cbn in E. subst v. exists p. exact H.
  - intros p v H. apply maxl_ge. apply in_map_iff. exists (p, v). split; [reflexivity | exact H].
Qed.

Theorem vmin_spec t : town t <> [] ->
  (exists p, In (p, vmin t) (town t)) /\ forall p v, In (p, v) (town t) -> vmin t <= v.
Proof.
  intros Hne. split.
  - assert (Hin : In (vmin t) (ovals t)) by (apply minl_in; unfold ovals; destruct (town t); [congruence | discriminate]).
    apply in_map_iff in Hin. destruct Hin as [[p v] [E H]]. cbn in E. subst v. exists p. exact H.
  - intros p v H. apply minl_le. apply in_map_iff. exists (p, v). split; [reflexivity | exact H].
Qed.

Theorem height_leaf t : tkids t = [] -> height t = vmax t.
Proof. intros H. unfold height. rewrite H. reflexivity. Qed.

Theorem height_branch t : tkids t <> [] ->
  (exists k, In k (tkids t) /\ height t = vmin k) /\ forall k, In k (tkids t) -> height t <= vmin k.
Proof.
  intros Hne. unfold height. destruct (tkids t) as [|k ks] eqn:E; [congruence|].
  split.
  - assert (Hin : In (minl (map vmin (k :: ks))) (map vmin (k :: ks))) by (apply minl_in; discriminate).
    apply in_map_iff in Hin. destruct Hin as [c [Ec Hc]]. exists c. split; [exact Hc | symmetry; exact Ec].
  - intros c Hc. apply minl_le. apply in_map. exact Hc.
Qed.
