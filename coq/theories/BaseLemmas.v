(* BaseLemmas.v — facts about the helpers of Base.v *)
From Coq Require Import ZArith List Bool Lia Permutation Sorted.
From Dendro Require Import Base.
Import ListNotations.
Open Scope Z_scope.

Lemma memZ_In x l : memZ x l = true <-> In x l.
Proof.
  unfold memZ. rewrite existsb_exists. split.
  - intros [y [Hy He]]. apply Z.eqb_eq in He. subst. exact Hy.
  - intros H. exists x. split; [exact H | apply Z.eqb_refl].
Qed.

Lemma memZ_false x l : memZ x l = false <-> ~ In x l.
Proof.
  rewrite <- memZ_In. destruct (memZ x l); split; intros H.
  - discriminate.
  - exfalso; apply H; reflexivity.
  - discriminate.
  - reflexivity.
Qed.

(* ---- insertion sort *)
Lemma insert_by_perm {A} (key : A -> Z) x l : Permutation (insert_by key x l) (x :: l).
Proof.
  induction l as [|y l IH]; cbn [insert_by]; [reflexivity|].
  destruct (key x <=? key y); [reflexivity|].
  rewrite IH. apply perm_swap.
Qed.

Lemma sort_by_perm {A} (key : A -> Z) l : Permutation (sort_by key l) l.
Proof.
  induction l as [|x l IH]; cbn [sort_by]; [reflexivity|].
  rewrite insert_by_perm. constructor. exact IH.
Qed.

Lemma sort_by_In {A} (key : A -> Z) l x : In x (sort_by key l) <-> In x l.
Proof.
  split; apply Permutation_in; [apply sort_by_perm | symmetry; apply sort_by_perm].
Qed.

Lemma sort_by_length {A} (key : A -> Z) (l : list A) : length (sort_by key l) = length l.
Proof. apply Permutation_length, sort_by_perm. Qed.

Definition key_le {A} (key : A -> Z) (a b : A) : Prop := key a <= key b.

Lemma insert_by_sorted {A} (key : A -> Z) x l :
  StronglySorted (key_le key) l -> StronglySorted (key_le key) (insert_by key x l).
Proof.
  induction l as [|y l IH]; intros Hs; cbn [insert_by].
  - repeat constructor.
  - inversion Hs as [|? ? Hs' Hall]; subst.
    destruct (key x <=? key y) eqn:E.
    + apply Z.leb_le in E. constructor; [exact Hs|].
      constructor; [exact E|].
      eapply Forall_impl; [|exact Hall]. intros a Ha. unfold key_le in *. lia.
    + apply Z.leb_gt in E. constructor; [apply IH; exact Hs'|].
      rewrite Forall_forall. intros a Ha.
      apply (Permutation_in _ (insert_by_perm key x l)) in Ha.
      destruct Ha as [<-|Ha]; [unfold key_le; lia|].
      rewrite Forall_forall in Hall. apply Hall, Ha.
Qed.

Lemma sort_by_sorted {A} (key : A -> Z) l : StronglySorted (key_le key) (sort_by key l).
Proof.
  induction l as [|x l IH]; cbn [sort_by]; [constructor|].
  apply insert_by_sorted, IH.
Qed.

(* stability: elements with equal keys keep their relative order *)
Lemma insert_by_filter_eq {A} (key : A -> Z) x l k :
  StronglySorted (key_le key) l ->
  filter (fun a => key a =? k) (insert_by key x l) =
  filter (fun a => key a =? k) (x :: l).
Proof.
  induction l as [|y l IH]; intros Hs; cbn [insert_by]; [reflexivity|].
  inversion Hs as [|? ? Hs' Hall]; subst.
  destruct (key x <=? key y) eqn:E; [reflexivity|].
  apply Z.leb_gt in E.
  cbn [filter]. rewrite (IH Hs'). cbn [filter].
  destruct (key y =? k) eqn:Ey, (key x =? k) eqn:Ex; try reflexivity.
  apply Z.eqb_eq in Ey, Ex. lia.
Qed.

Lemma sort_by_stable {A} (key : A -> Z) l k :
  filter (fun a => key a =? k) (sort_by key l) = filter (fun a => key a =? k) l.
Proof.
  induction l as [|x l IH]; cbn [sort_by]; [reflexivity|].
  rewrite insert_by_filter_eq by apply sort_by_sorted.
  cbn [filter]. rewrite IH. reflexivity.
Qed.

(* ---- filter / partition *)
Lemma filter_split_perm {A} (f : A -> bool) l :
  Permutation (filter f l ++ filter (fun x => negb (f x)) l) l.
Proof.
  induction l as [|x l IH]; cbn [filter]; [reflexivity|].
  destruct (f x); cbn [negb app].
  - constructor. exact IH.
  - rewrite <- Permutation_middle. constructor. exact IH.
Qed.

Lemma filter_length_le {A} (f : A -> bool) l : (length (filter f l) <= length l)%nat.
Proof. induction l as [|x l IH]; cbn [filter]; [lia|]. destruct (f x); cbn [length]; lia. Qed.

(* ---- minl / maxl *)
Lemma fold_max_ge l a : a <= fold_left Z.max l a /\ (forall x, In x l -> x <= fold_left Z.max l a).
Proof.
  revert a. induction l as [|y l IH]; intros a; cbn [fold_left].
  - split; [lia | intros x []].
  - destruct (IH (Z.max a y)) as [H1 H2]. split; [lia|].
    intros x [<-|Hx]; [lia | apply H2, Hx].
Qed.

Lemma fold_max_in l a : fold_left Z.max l a = a \/ In (fold_left Z.max l a) l.
Proof.
  revert a. induction l as [|y l IH]; intros a; cbn [fold_left]; [left; reflexivity|].
  destruct (IH (Z.max a y)) as [H|H].
  - rewrite H. destruct (Z.max_spec a y) as [[_ E]|[_ E]]; rewrite E; [right; left; reflexivity | left; reflexivity].
  - right. right. exact H.
Qed.

Lemma fold_min_le l a : fold_left Z.min l a <= a /\ (forall x, In x l -> fold_left Z.min l a <= x).
Proof.
  revert a. induction l as [|y l IH]; intros a; cbn [fold_left].
  - split; [lia | intros x []].
  - destruct (IH (Z.min a y)) as [H1 H2]. split; [lia|].
    intros x [<-|Hx]; [lia | apply H2, Hx].
Qed.

Lemma fold_min_in l a : fold_left Z.min l a = a \/ In (fold_left Z.min l a) l.
Proof.
  revert a. induction l as [|y l IH]; intros a; cbn [fold_left]; [left; reflexivity|].
  destruct (IH (Z.min a y)) as [H|H].
  - rewrite H. destruct (Z.min_spec a y) as [[_ E]|[_ E]]; rewrite E; [left; reflexivity | right; left; reflexivity].
  - right. right. exact H.
Qed.

Lemma maxl_ge l x : In x l -> x <= maxl l.
Proof.
  destruct l as [|a l]; [intros []|]. cbn [maxl]. intros [<-|H]; [apply (proj1 (fold_max_ge l a)) | apply (proj2 (fold_max_ge l a)); exact H].
Qed.

Lemma maxl_in l : l <> [] -> In (maxl l) l.
Proof.
  destruct l as [|a l]; [congruence|]. intros _. cbn [maxl].
  destruct (fold_max_in l a) as [H|H]; [rewrite H; left; reflexivity | right; exact H].
Qed.

Lemma minl_le l x : In x l -> minl l <= x.
Proof.
  destruct l as [|a l]; [intros []|]. cbn [minl]. intros [<-|H]; [apply (proj1 (fold_min_le l a)) | apply (proj2 (fold_min_le l a)); exact H].
Qed.

Lemma minl_in l : l <> [] -> In (minl l) l.
Proof.
  destruct l as [|a l]; [congruence|]. intros _. cbn [minl].
  destruct (fold_min_in l a) as [H|H]; [rewrite H; left; reflexivity | right; exact H].
Qed.

(* maxl / minl depend only on the set of elements *)
Lemma maxl_ext l1 l2 : l1 <> [] -> (forall x, In x l1 <-> In x l2) -> maxl l1 = maxl l2.
Proof.
  intros Hne Hiff.
  assert (Hne2 : l2 <> []).
  { destruct l1 as [|a l1]; [congruence|]. intros ->. apply (Hiff a). left; reflexivity. }
  apply Z.le_antisymm.
  - apply maxl_ge, Hiff, maxl_in, Hne.
  - apply maxl_ge, Hiff, maxl_in, Hne2.
Qed.

Lemma minl_ext l1 l2 : l1 <> [] -> (forall x, In x l1 <-> In x l2) -> minl l1 = minl l2.
Proof.
  intros Hne Hiff.
  assert (Hne2 : l2 <> []).
  { destruct l1 as [|a l1]; [congruence|]. intros ->. apply (Hiff a). left; reflexivity. }
  apply Z.le_antisymm.
  - apply minl_le, Hiff, minl_in, Hne2.
  - apply minl_le, Hiff, minl_in, Hne.
Qed.

Lemma sumZ_from l a : fold_left Z.add l a = a + sumZ l.
Proof.
  unfold sumZ. revert a. induction l as [|x l IH]; intros a; cbn [fold_left]; [lia|].
  rewrite IH, (IH (0 + x)). lia.
Qed.

Lemma sumZ_cons x l : sumZ (x :: l) = x + sumZ l.
Proof. unfold sumZ at 1. cbn [fold_left]. rewrite sumZ_from. lia. Qed.

Lemma sumZ_app l1 l2 : sumZ (l1 ++ l2) = sumZ l1 + sumZ l2.
Proof.
  induction l1 as [|x l1 IH]; cbn [app]; [unfold sumZ at 2; cbn; lia|].
  rewrite !sumZ_cons, IH. lia.
Qed.

Lemma zlen_app {A} (l1 l2 : list A) : zlen (l1 ++ l2) = zlen l1 + zlen l2.
Proof. unfold zlen. rewrite app_length. lia. Qed.

Lemma zlen_nonneg {A} (l : list A) : 0 <= zlen l.
Proof. unfold zlen. lia. Qed.

Lemma list_eqb_eq {A} (eqb : A -> A -> bool) :
  (forall x y, eqb x y = true <-> x = y) ->
  forall l1 l2, list_eqb eqb l1 l2 = true <-> l1 = l2.
Proof.
  intros H. induction l1 as [|x l1 IH]; destruct l2 as [|y l2]; cbn [list_eqb]; split; try congruence.
  - intros E. apply andb_true_iff in E. destruct E as [E1 E2].
    apply H in E1. apply IH in E2. subst. reflexivity.
  - intros E. injection E as -> ->. apply andb_true_iff. split; [apply H; reflexivity | apply IH; reflexivity].
Qed.

Lemma NoDup_app_iff {A} (l1 l2 : list A) :
  NoDup (l1 ++ l2) <-> NoDup l1 /\ NoDup l2 /\ (forall x, In x l1 -> ~ In x l2).
Proof.
  induction l1 as [|a l1 IH]; cbn [app].
  - split; [intros H; repeat split; [constructor | exact H | intros x []] | intros [_ [H _]]; exact H].
  - split.
    + intros H. inversion H as [|? ? Hn Hr]; subst. apply IH in Hr. destruct Hr as [H1 [H2 H3]].
      split; [constructor; [intros Hi; apply Hn, in_or_app; left; exact Hi | exact H1]|].
      split; [exact H2|]. intros x [<-|Hx]; [intros Hi; apply Hn, in_or_app; right; exact Hi | apply H3, Hx].
    + intros [H1 [H2 H3]]. inversion H1 as [|? ? Hn Hr]; subst. constructor.
      * intros Hi. apply in_app_or in Hi. destruct Hi as [Hi|Hi]; [exact (Hn Hi) | apply (H3 a); [left; reflexivity | exact Hi]].
      * apply IH. split; [exact Hr|]. split; [exact H2|]. intros x Hx. apply H3. right. exact Hx.
Qed.

Lemma NoDup_app_l {A} (l1 l2 : list A) : NoDup (l1 ++ l2) -> NoDup l1.
Proof. intros H. apply NoDup_app_iff in H. tauto. Qed.
Lemma NoDup_app_r {A} (l1 l2 : list A) : NoDup (l1 ++ l2) -> NoDup l2.
Proof. intros H. apply NoDup_app_iff in H. tauto. Qed.
Lemma NoDup_app_disj {A} (l1 l2 : list A) x : NoDup (l1 ++ l2) -> In x l1 -> In x l2 -> False.
Proof. intros H. apply NoDup_app_iff in H. destruct H as [_ [_ H]]. exact (H x). Qed.

(* sorting a sorted list changes nothing *)
Lemma insert_by_le_all {A} (key : A -> Z) x l :
  Forall (key_le key x) l -> insert_by key x l = x :: l.
Proof.
  destruct l as [|y l]; intros H; cbn [insert_by]; [reflexivity|].
  inversion H as [|? ? Hy _]; subst. unfold key_le in Hy.
  destruct (key x <=? key y) eqn:E; [reflexivity|]. apply Z.leb_gt in E. lia.
Qed.

Lemma sort_by_of_sorted {A} (key : A -> Z) l :
  StronglySorted (key_le key) l -> sort_by key l = l.
Proof.
  induction 1 as [|x l Hs IH Hx]; cbn [sort_by]; [reflexivity|].
  rewrite IH. apply insert_by_le_all. exact Hx.
Qed.

Lemma sort_by_idem {A} (key : A -> Z) l : sort_by key (sort_by key l) = sort_by key l.
Proof. apply sort_by_of_sorted, sort_by_sorted. Qed.
