(* FluxReal.v — the per-beam constant of the code, 1.1331, against the textbook value
   pi / (4 ln 2) of the solid angle of a 2-D Gaussian beam in units of FWHM^2.
   This is the only file that uses the real numbers (standard-library axioms of Reals). *)
From Coq Require Import Reals.
From Interval Require Import Tactic.
Open Scope R_scope.

Theorem beam_constant_close : Rabs (11331 / 10000 - PI / (4 * ln 2)) < 2 / 100000.
Proof. interval with (i_prec 80). Qed.
