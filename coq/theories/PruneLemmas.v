(* PruneLemmas.v — C07: what prune preserves, that it terminates in a fixpoint, idempotence,
   no-op, parameter monotonicity. *)
From Coq Require Import ZArith List Bool Lia Permutation Sorted.
From Dendro Require Import Base BaseLemmas Tree TreeLemmas Criteria Compute ComputeInv Prune.
Import ListNotations.
Open Scope Z_scope.

Section P.
  Variable cs : list crit.
  Notation ph_ok := (ph_ok cs).
  Notation prune_once := (prune_once cs).
  Notation scan := (scan cs).

  (* a child that the scan passes over *)
  Definition passes (po : tree -> option tree) (h : Z) (x : tree) : Prop :=
    (is_leaf x = true /\ ph_ok h x = true) \/ (is_leaf x = false /\ po x = None).

  Lemma scan_none po i o h : forall rest pre,
    scan po i o h pre rest = None <-> forall x, In x rest -> passes po h x.
  Proof.
    induction rest as [|k rest IH]; intros pre; cbn [Prune.scan].
    - split; [intros _ x [] | reflexivity].
    - destruct (is_leaf k) eqn:El.
      + destruct (ph_ok h k) eqn:Eo.
        * rewrite IH. split.
          -- intros H x [<-|Hx]; [left; split; assumption | apply H, Hx].
          -- intros H x Hx. apply H. right. exact Hx.
        * split; [discriminate|]. intros H. destruct (H k (or_introl eq_refl)) as [[_ E]|[E _]]; congruence.
      + destruct (po k) as [k'|] eqn:Ep.
        * split; [discriminate|]. intros H. destruct (H k (or_introl eq_refl)) as [[E _]|[_ E]]; congruence.
        * rewrite IH. split.
          -- intros H x [<-|Hx]; [right; split; assumption | apply H, Hx].
          -- intros H x Hx. apply H. right. exact Hx.
  Qed.

  Lemma scan_some po i o h : forall rest pre u',
    scan po i o h pre rest = Some u' ->
    (exists p1 k r1, rest = p1 ++ k :: r1 /\ is_leaf k = true /\ ph_ok h k = false /\
                     u' = merged i o (pre ++ p1) k r1) \/
    (exists p1 k k' r1, rest = p1 ++ k :: r1 /\ is_leaf k = false /\ po k = Some k' /\
                        u' = Node i o ((pre ++ p1) ++ k' :: r1)).
  Proof.
    induction rest as [|k rest IH]; intros pre u' H; cbn [Prune.scan] in H; [discriminate|].
    destruct (is_leaf k) eqn:El.
    - destruct (ph_ok h k) eqn:Eo.
      + apply IH in H. destruct H as [[p1 [k0 [r1 [E [H1 [H2 H3]]]]]]|[p1 [k0 [k' [r1 [E [H1 [H2 H3]]]]]]]].
        * left. exists (k :: p1), k0, r1. rewrite E. split; [reflexivity|]. repeat split; try assumption.
          rewrite H3. rewrite <- app_assoc. reflexivity.
        * right. exists (k :: p1), k0, k', r1. rewrite E. split; [reflexivity|]. repeat split; try assumption.
          rewrite H3. rewrite <- !app_assoc. reflexivity.
      + injection H as <-. left. exists [], k, rest. rewrite app_nil_r. repeat split; assumption.
    - destruct (po k) as [k'|] eqn:Ep.
      + injection H as <-. right. exists [], k, k', rest. rewrite app_nil_r. repeat split; assumption.
      + apply IH in H. destruct H as [[p1 [k0 [r1 [E [H1 [H2 H3]]]]]]|[p1 [k0 [k' [r1 [E [H1 [H2 H3]]]]]]]].
        * left. exists (k :: p1), k0, r1. rewrite E. split; [reflexivity|]. repeat split; try assumption.
          rewrite H3. rewrite <- app_assoc. reflexivity.
        * right. exists (k :: p1), k0, k', r1. rewrite E. split; [reflexivity|]. repeat split; try assumption.
          rewrite H3. rewrite <- !app_assoc. reflexivity.
  Qed.

  Lemma prune_once_unfold i o ks :
    prune_once (Node i o ks) = scan prune_once i o (minl (map vmin ks)) [] ks.
  Proof. reflexivity. Qed.

  (* ---------- the merged parent *)
  Lemma flat_map_regionv_kids ks :
    Permutation (flat_map regionv ks) (flat_map town ks ++ flat_map regionv (flat_map tkids ks)).
  Proof.
    induction ks as [|k ks IH]; [reflexivity|].
    cbn [flat_map]. rewrite flat_map_app. rewrite (regionv_unfold k). rewrite IH.
    rewrite <- !app_assoc. apply Permutation_app_head.
    rewrite !app_assoc. apply Permutation_app_tail. apply Permutation_app_comm.
  Qed.

  Lemma merged_regionv i o pre k rest :
    is_leaf k = true ->
    Permutation (regionv (merged i o pre k rest)) (regionv (Node i o (pre ++ k :: rest))).
  Proof.
    intros Hl. unfold merged. destruct (Nat.eqb (length (pre ++ k :: rest)) 2).
    - cbn [regionv]. rewrite <- app_assoc. apply Permutation_app_head.
      symmetry. apply flat_map_regionv_kids.
    - cbn [regionv]. rewrite !flat_map_app. cbn [flat_map]. rewrite (leaf_regionv k Hl).
      rewrite <- !app_assoc. apply Permutation_app_head.
      rewrite !app_assoc. apply Permutation_app_tail. apply Permutation_app_comm.
  Qed.

  Lemma merged_tid i o pre k rest : tid (merged i o pre k rest) = i.
  Proof. unfold merged. destruct (Nat.eqb _ _); reflexivity. Qed.

  (* children of the merged parent are old children or old grandchildren *)
  Lemma merged_kids i o pre k rest c :
    In c (tkids (merged i o pre k rest)) ->
    In c (pre ++ k :: rest) \/ exists b, In b (pre ++ k :: rest) /\ In c (tkids b).
  Proof.
    unfold merged. destruct (Nat.eqb _ _); cbn [tkids]; intros H.
    - right. apply in_flat_map in H. exact H.
    - left. apply in_app_or in H. apply in_or_app. destruct H as [H|H]; [left; exact H | right; right; exact H].
  Qed.

  (* ---------- one pruning step inside a tree *)
  Theorem prune_once_spec u : forall u',
    prune_once u = Some u' ->
    tid u' = tid u /\ Permutation (regionv u') (regionv u) /\ (tsize u' < tsize u)%nat /\
    (forall w', In w' (nodes u') -> exists w, In w (nodes u) /\ tid w = tid w' /\
                                          Permutation (regionv w') (regionv w)).
  Proof.
    induction u as [i o ks IH] using tree_ind2. intros u' H.
    rewrite prune_once_unfold in H. apply scan_some in H. cbn [app] in H.
    destruct H as [[p1 [k [r1 [E [Hl [_ ->]]]]]]|[p1 [k [k' [r1 [E [_ [Hk ->]]]]]]]].
    - (* a failing leaf child is merged *)
      subst ks. split; [apply merged_tid|]. split; [apply merged_regionv, Hl|]. split.
      + unfold merged. destruct (Nat.eqb (length (p1 ++ k :: r1)) 2) eqn:E2.
        * cbn [tsize]. apply -> Nat.succ_lt_mono.
          assert (Hgen : forall l, (fold_right (fun k a => (tsize k + a)%nat) 0%nat (flat_map tkids l)
                                    < fold_right (fun k a => (tsize k + a)%nat) 0%nat l)%nat \/ l = []).
          { induction l as [|a l IHl]; [right; reflexivity|]. left. cbn [flat_map fold_right].
            assert (Happ : forall l1 l2, fold_right (fun k a => (tsize k + a)%nat) 0%nat (l1 ++ l2) =
                                          (fold_right (fun k a => (tsize k + a)%nat) 0%nat l1 +
                                           fold_right (fun k a => (tsize k + a)%nat) 0%nat l2)%nat).
            { induction l1 as [|x l1 IH1]; intros l2; cbn [app fold_right]; [reflexivity | rewrite IH1; lia]. }
            rewrite Happ. destruct a as [j p cs0]. cbn [tkids tsize]. destruct IHl as [IHl| ->]; [lia | cbn; lia]. }
          destruct (Hgen (p1 ++ k :: r1)) as [Hlt|Hnil]; [exact Hlt | destruct p1; discriminate].
        * cbn [tsize]. apply -> Nat.succ_lt_mono.
          assert (Happ : forall l1 l2, fold_right (fun k a => (tsize k + a)%nat) 0%nat (l1 ++ l2) =
                                        (fold_right (fun k a => (tsize k + a)%nat) 0%nat l1 +
                                         fold_right (fun k a => (tsize k + a)%nat) 0%nat l2)%nat).
          { induction l1 as [|x l1 IH1]; intros l2; cbn [app fold_right]; [reflexivity | rewrite IH1; lia]. }
          rewrite !Happ. cbn [fold_right]. destruct k. cbn [tsize]. lia.
      + intros w' Hw'. rewrite nodes_unfold in Hw'. destruct Hw' as [<-|Hw'].
        * exists (Node i o (p1 ++ k :: r1)). split; [apply nodes_self|]. split; [symmetry; apply merged_tid|].
          apply merged_regionv, Hl.
        * apply in_flat_map in Hw'. destruct Hw' as [c [Hc Hw']].
          exists w'. split; [|split; reflexivity].
          apply merged_kids in Hc. destruct Hc as [Hc|[b [Hb Hc]]].
          -- cbn [nodes]. right. apply in_flat_map. exists c. split; assumption.
          -- cbn [nodes]. right. apply in_flat_map. exists b. split; [exact Hb|].
             rewrite nodes_unfold. right. apply in_flat_map. exists c. split; assumption.
    - (* a step inside the subtree of a branch child *)
      subst ks. rewrite Forall_forall in IH.
      assert (Hkin : In k (p1 ++ k :: r1)) by (apply in_or_app; right; left; reflexivity).
      destruct (IH k Hkin k' Hk) as [Hid [Hperm [Hsize Hsurv]]].
      split; [reflexivity|]. split; [|split].
      + cbn [regionv]. apply Permutation_app_head. rewrite !flat_map_app. cbn [flat_map].
        apply Permutation_app_head. apply Permutation_app_tail. exact Hperm.
      + cbn [tsize]. apply -> Nat.succ_lt_mono.
        assert (Happ : forall l1 l2, fold_right (fun k a => (tsize k + a)%nat) 0%nat (l1 ++ l2) =
                                      (fold_right (fun k a => (tsize k + a)%nat) 0%nat l1 +
                                       fold_right (fun k a => (tsize k + a)%nat) 0%nat l2)%nat).
        { induction l1 as [|x l1 IH1]; intros l2; cbn [app fold_right]; [reflexivity | rewrite IH1; lia]. }
        rewrite !Happ. cbn [fold_right]. lia.
      + intros w' Hw'. cbn [nodes] in Hw'. destruct Hw' as [<-|Hw'].
        * exists (Node i o (p1 ++ k :: r1)). split; [apply nodes_self|]. split; [reflexivity|].
          cbn [regionv]. apply Permutation_app_head. rewrite !flat_map_app. cbn [flat_map].
          apply Permutation_app_head. apply Permutation_app_tail. exact Hperm.
        * apply in_flat_map in Hw'. destruct Hw' as [c [Hc Hw']].
          apply in_app_or in Hc. destruct Hc as [Hc|[<-|Hc]].
          -- exists w'. split; [|split; reflexivity]. cbn [nodes]. right. apply in_flat_map. exists c.
             split; [apply in_or_app; left; exact Hc | exact Hw'].
          -- destruct (Hsurv w' Hw') as [w [Hw [Hwid Hwp]]].
             exists w. split; [|split; assumption]. cbn [nodes]. right. apply in_flat_map. exists k.
             split; [exact Hkin | exact Hw].
          -- exists w'. split; [|split; reflexivity]. cbn [nodes]. right. apply in_flat_map. exists c.
             split; [apply in_or_app; right; right; exact Hc | exact Hw'].
  Qed.

  (* nothing to prune in a tree <-> every leaf with a parent passes the post-hoc criteria *)
  Theorem prune_once_none u :
    prune_once u = None <->
    forall w k, In (w, k) (edges u) -> is_leaf k = true -> ph_ok (height w) k = true.
  Proof.
    induction u as [i o ks IH] using tree_ind2.
    rewrite prune_once_unfold, scan_none. rewrite Forall_forall in IH. split.
    - intros H w k Hwk Hl. rewrite edges_unfold in Hwk. cbn [tkids] in Hwk.
      apply in_app_or in Hwk. destruct Hwk as [Hwk|Hwk].
      + apply in_map_iff in Hwk. destruct Hwk as [k0 [E Hk0]]. injection E as <- <-.
        destruct (H k0 Hk0) as [[_ Ho]|[Hnl _]]; [|congruence].
        unfold height. cbn [tkids]. destruct ks as [|a ks']; [destruct Hk0|]. exact Ho.
      + apply in_flat_map in Hwk. destruct Hwk as [c [Hc Hwk]].
        destruct (H c Hc) as [[Hcl _]|[_ Hn]].
        * apply is_leaf_kids in Hcl. rewrite edges_unfold, Hcl in Hwk. destruct Hwk.
        * apply (proj1 (IH c Hc) Hn w k Hwk Hl).
    - intros H x Hx. destruct (is_leaf x) eqn:El.
      + left. split; [exact El|].
        specialize (H (Node i o ks) x). unfold height in H. cbn [tkids] in H.
        destruct ks as [|a ks']; [destruct Hx|]. apply H; [|exact El].
        rewrite edges_unfold. apply in_or_app. left. apply in_map_iff. exists x. split; [reflexivity | exact Hx].
      + right. split; [exact El|]. apply (IH x Hx). intros w k Hwk Hl. apply H; [|exact Hl].
        rewrite edges_unfold. apply in_or_app. right. apply in_flat_map. exists x. split; assumption.
  Qed.

  (* ---------- branch arity is preserved *)
  Lemma merged_arity i o pre k rest :
    is_leaf k = true -> (2 <= length (pre ++ k :: rest))%nat ->
    (forall c, In c (pre ++ k :: rest) -> arity_ok c) ->
    arity_ok (merged i o pre k rest).
  Proof.
    intros Hl Hlen Hall. unfold merged, arity_ok.
    destruct (Nat.eqb (length (pre ++ k :: rest)) 2) eqn:E.
    - apply Nat.eqb_eq in E. cbn [tkids].
      (* two children: one is the failing leaf, the other contributes its own children *)
      assert (Hone : forall a b, pre ++ k :: rest = [a; b] ->
                flat_map tkids [a; b] = tkids a \/ flat_map tkids [a; b] = tkids b).
      { intros a b Eab. apply is_leaf_kids in Hl.
        destruct pre as [|x [|y pre']]; cbn [app] in Eab.
        - injection Eab as -> _. right. cbn [flat_map]. rewrite Hl. cbn [app]. rewrite app_nil_r. reflexivity.
        - injection Eab as -> -> _. left. cbn [flat_map]. rewrite Hl. rewrite !app_nil_r. reflexivity.
        - exfalso. injection Eab as _ _ Ebad. destruct pre'; discriminate. }
      destruct (pre ++ k :: rest) as [|a [|b [|c l]]] eqn:Eks; cbn [length] in E; try lia.
      destruct (Hone a b eq_refl) as [Ha|Hb].
      + rewrite Ha. apply (Hall a). left. reflexivity.
      + rewrite Hb. apply (Hall b). right. left. reflexivity.
    - apply Nat.eqb_neq in E. cbn [tkids]. right.
      rewrite app_length in *. cbn [length] in *. lia.
  Qed.

  Theorem prune_once_arity u : forall u',
    (forall w, In w (nodes u) -> arity_ok w) -> prune_once u = Some u' ->
    forall w', In w' (nodes u') -> arity_ok w'.
  Proof.
    induction u as [i o ks IH] using tree_ind2. intros u' Hall H.
    rewrite prune_once_unfold in H. apply scan_some in H. cbn [app] in H.
    assert (Hself : arity_ok (Node i o ks)) by (apply Hall, nodes_self).
    assert (Hkids : forall c, In c ks -> forall w, In w (nodes c) -> arity_ok w).
    { intros c Hc w Hw. apply Hall. cbn [nodes]. right. apply in_flat_map. exists c. split; assumption. }
    destruct H as [[p1 [k [r1 [E [Hl [_ ->]]]]]]|[p1 [k [k' [r1 [E [Hnl [Hk ->]]]]]]]]; subst ks.
    - intros w' Hw'. rewrite nodes_unfold in Hw'. destruct Hw' as [<-|Hw'].
      + apply merged_arity; [exact Hl | |].
        * destruct Hself as [Hs|Hs]; cbn [tkids] in Hs; [destruct p1; discriminate | exact Hs].
        * intros c Hc. apply (Hkids c Hc), nodes_self.
      + apply in_flat_map in Hw'. destruct Hw' as [c [Hc Hw']].
        apply merged_kids in Hc. destruct Hc as [Hc|[b [Hb Hc]]].
        * apply (Hkids c Hc w' Hw').
        * apply (Hkids b Hb). rewrite nodes_unfold. right. apply in_flat_map. exists c. split; assumption.
    - rewrite Forall_forall in IH.
      assert (Hkin : In k (p1 ++ k :: r1)) by (apply in_or_app; right; left; reflexivity).
      intros w' Hw'. cbn [nodes] in Hw'. destruct Hw' as [<-|Hw'].
      + destruct Hself as [Hs|Hs]; cbn [tkids] in Hs; [destruct p1; discriminate|].
        right. cbn [tkids]. rewrite app_length in *. cbn [length] in *. exact Hs.
      + apply in_flat_map in Hw'. destruct Hw' as [c [Hc Hw']].
        apply in_app_or in Hc. destruct Hc as [Hc|[<-|Hc]].
        * apply (Hkids c); [apply in_or_app; left; exact Hc | exact Hw'].
        * apply (IH k Hkin k' (Hkids k Hkin) Hk w' Hw').
        * apply (Hkids c); [apply in_or_app; right; right; exact Hc | exact Hw'].
  Qed.

  (* ---------- the forest and the loop *)
  Notation pfo := (prune_forest_once cs).
  Notation ploop := (prune_loop cs).

  Lemma pfo_none f : pfo f = None <-> forall t, In t f -> prune_once t = None.
  Proof.
    induction f as [|t f IH]; cbn [Prune.prune_forest_once].
    - split; [intros _ t [] | reflexivity].
    - destruct (prune_once t) as [t'|] eqn:E.
      + split; [discriminate|]. intros H. specialize (H t (or_introl eq_refl)). congruence.
      + destruct (pfo f) as [f'|] eqn:Ef; cbn [option_map].
        * split; [discriminate|]. intros H. assert (Hn : Some f' = None) by (apply IH; intros x Hx; apply H; right; exact Hx). discriminate.
        * split; [|reflexivity]. intros _ x [<-|Hx]; [exact E | apply (proj1 IH eq_refl), Hx].
  Qed.

  Lemma pfo_some f f' :
    pfo f = Some f' ->
    exists f1 t t' f2, f = f1 ++ t :: f2 /\ f' = f1 ++ t' :: f2 /\ prune_once t = Some t'.
  Proof.
    revert f'. induction f as [|t f IH]; intros f' H; cbn [Prune.prune_forest_once] in H; [discriminate|].
    destruct (prune_once t) as [t'|] eqn:E.
    - injection H as <-. exists [], t, t', f. repeat split. exact E.
    - destruct (pfo f) as [g|] eqn:Ef; cbn [option_map] in H; [|discriminate]. injection H as <-.
      destruct (IH g eq_refl) as [f1 [t0 [t' [f2 [E1 [E2 E3]]]]]].
      exists (t :: f1), t0, t', f2. rewrite E1, E2. repeat split. exact E3.
  Qed.

  Lemma length_nodes_tsize t : length (nodes t) = tsize t.
  Proof.
    induction t as [i o ks IH] using tree_ind2. cbn [nodes tsize length]. f_equal.
    induction ks as [|k ks IHk]; [reflexivity|]. inversion IH; subst.
    cbn [flat_map fold_right]. rewrite app_length, IHk by assumption. lia.
  Qed.

  Lemma pfo_size f f' : pfo f = Some f' -> (fsize' f' < fsize' f)%nat.
  Proof.
    intros H. apply pfo_some in H. destruct H as [f1 [t [t' [f2 [-> [-> E]]]]]].
    apply prune_once_spec in E. destruct E as [_ [_ [Hs _]]].
    unfold fsize', fnodes. rewrite !flat_map_app. cbn [flat_map]. rewrite !app_length, !length_nodes_tsize. lia.
  Qed.

  (* C07: the loop terminates in a state where nothing is left to prune *)
  Theorem prune_loop_fixpoint : forall fuel f, (fsize' f <= fuel)%nat -> pfo (ploop fuel f) = None.
  Proof.
    induction fuel as [|fuel IH]; intros f Hf; cbn [Prune.prune_loop].
    - destruct (pfo f) as [f'|] eqn:E; [|reflexivity]. apply pfo_size in E. lia.
    - destruct (pfo f) as [f'|] eqn:E; [|exact E]. apply IH. apply pfo_size in E. lia.
  Qed.

  Lemma ploop_stable fuel f : pfo f = None -> ploop fuel f = f.
  Proof. intros H. destruct fuel; cbn [Prune.prune_loop]; [reflexivity | rewrite H; reflexivity]. Qed.

  (* what the loop preserves: pixels, identifiers with their regions, arity *)
  Definition fpv' (f : list tree) := flat_map regionv f.

  Lemma pfo_preserves f f' :
    pfo f = Some f' ->
    Permutation (fpv' f') (fpv' f) /\
    (forall w', In w' (fnodes f') -> exists w, In w (fnodes f) /\ tid w = tid w' /\
                                             Permutation (regionv w') (regionv w)) /\
    ((forall w, In w (fnodes f) -> arity_ok w) -> forall w', In w' (fnodes f') -> arity_ok w').
  Proof.
    intros H. apply pfo_some in H. destruct H as [f1 [t [t' [f2 [-> [-> E]]]]]].
    pose proof (prune_once_spec t t' E) as [_ [Hp [_ Hs]]].
    split; [|split].
    - unfold fpv'. rewrite !flat_map_app. cbn [flat_map]. apply Permutation_app_head, Permutation_app_tail, Hp.
    - intros w' Hw'. unfold fnodes in *. rewrite flat_map_app in Hw'. cbn [flat_map] in Hw'.
      apply in_app_or in Hw'. destruct Hw' as [Hw'|Hw']; [|apply in_app_or in Hw'; destruct Hw' as [Hw'|Hw']].
      + exists w'. split; [rewrite flat_map_app; apply in_or_app; left; exact Hw' | split; reflexivity].
      + destruct (Hs w' Hw') as [w [Hw Hrest]]. exists w. split; [|exact Hrest].
        rewrite flat_map_app. cbn [flat_map]. apply in_or_app. right. apply in_or_app. left. exact Hw.
      + exists w'. split; [|split; reflexivity]. rewrite flat_map_app. cbn [flat_map].
        apply in_or_app. right. apply in_or_app. right. exact Hw'.
    - intros Hall w' Hw'. unfold fnodes in *. rewrite flat_map_app in Hw'. cbn [flat_map] in Hw'.
      apply in_app_or in Hw'. destruct Hw' as [Hw'|Hw']; [|apply in_app_or in Hw'; destruct Hw' as [Hw'|Hw']].
      + apply Hall. rewrite flat_map_app. apply in_or_app. left. exact Hw'.
      + apply (prune_once_arity t t'); [|exact E | exact Hw'].
        intros w Hw. apply Hall. rewrite flat_map_app. cbn [flat_map]. apply in_or_app. right. apply in_or_app. left. exact Hw.
      + apply Hall. rewrite flat_map_app. cbn [flat_map]. apply in_or_app. right. apply in_or_app. right. exact Hw'.
  Qed.

  Theorem prune_loop_preserves : forall fuel f,
    Permutation (fpv' (ploop fuel f)) (fpv' f) /\
    (forall w', In w' (fnodes (ploop fuel f)) -> exists w, In w (fnodes f) /\ tid w = tid w' /\
                                                          Permutation (regionv w') (regionv w)) /\
    ((forall w, In w (fnodes f) -> arity_ok w) -> forall w', In w' (fnodes (ploop fuel f)) -> arity_ok w').
  Proof.
    induction fuel as [|fuel IH]; intros f; cbn [Prune.prune_loop].
    - split; [reflexivity|]. split; [intros w' Hw'; exists w'; repeat split; [exact Hw' | reflexivity] | intros H; exact H].
    - destruct (pfo f) as [f'|] eqn:E.
      + destruct (pfo_preserves f f' E) as [P1 [P2 P3]]. destruct (IH f') as [Q1 [Q2 Q3]].
        split; [rewrite Q1; exact P1|]. split.
        * intros w' Hw'. destruct (Q2 w' Hw') as [w1 [Hw1 [E1 Pm1]]]. destruct (P2 w1 Hw1) as [w [Hw [E2 Pm2]]].
          exists w. split; [exact Hw|]. split; [congruence | rewrite Pm1; exact Pm2].
        * intros Hall. apply Q3, P3, Hall.
      + split; [reflexivity|]. split; [intros w' Hw'; exists w'; repeat split; [exact Hw' | reflexivity] | intros H; exact H].
  Qed.

  (* ---------- the trunk: sorted by identifier, failing parentless leaves dropped *)
  Notation trunk_of := (trunk_of cs).

  Lemma trunk_of_In f t :
    In t (trunk_of f) <-> In t f /\ (is_leaf t = false \/ indep_of cs (town t) None = true).
  Proof.
    unfold Prune.trunk_of. rewrite filter_In, sort_by_In, orb_true_iff, negb_true_iff. reflexivity.
  Qed.

  Lemma insert_by_head {A} (key : A -> Z) x l :
    (forall y, In y l -> key x <= key y) -> insert_by key x l = x :: l.
  Proof.
    destruct l as [|y l]; intros H; cbn [insert_by]; [reflexivity|].
    assert (E : key x <=? key y = true) by (apply Z.leb_le, H; left; reflexivity). rewrite E. reflexivity.
  Qed.

  Lemma sort_by_sorted_id {A} (key : A -> Z) l : StronglySorted (key_le key) l -> sort_by key l = l.
  Proof.
    induction 1 as [|x l Hs IH Hall]; cbn [sort_by]; [reflexivity|].
    rewrite IH. apply insert_by_head. rewrite Forall_forall in Hall. exact Hall.
  Qed.

  Lemma StronglySorted_filter {A} (R : A -> A -> Prop) p l : StronglySorted R l -> StronglySorted R (filter p l).
  Proof.
    induction 1 as [|x l Hs IH Hall]; cbn [filter]; [constructor|].
    destruct (p x); [|exact IH]. constructor; [exact IH|].
    rewrite Forall_forall in *. intros y Hy. apply filter_In in Hy. apply Hall, Hy.
  Qed.

  Lemma filter_idem {A} (p : A -> bool) l : filter p (filter p l) = filter p l.
  Proof.
    induction l as [|x l IH]; [reflexivity|]. cbn [filter]. destruct (p x) eqn:E; [cbn [filter]; rewrite E, IH; reflexivity | exact IH].
  Qed.

  Lemma trunk_of_idem f : trunk_of (trunk_of f) = trunk_of f.
  Proof.
    unfold Prune.trunk_of. rewrite sort_by_sorted_id.
    - apply filter_idem.
    - apply StronglySorted_filter, sort_by_sorted.
  Qed.

  Notation prune_struct := (prune_struct cs).

  (* C07: pruning again with the same criteria changes nothing *)
  Theorem prune_struct_idempotent f : prune_struct (prune_struct f) = prune_struct f.
  Proof.
    unfold Prune.prune_struct.
    set (g := ploop (fsize' f) f).
    assert (Hg : pfo g = None) by (apply prune_loop_fixpoint; lia).
    assert (Ht : pfo (trunk_of g) = None).
    { apply pfo_none. intros t Ht. apply trunk_of_In in Ht. apply (proj1 (pfo_none g) Hg). tauto. }
    rewrite (ploop_stable _ _ Ht). apply trunk_of_idem.
  Qed.

  (* C07: after pruning every leaf satisfies the requested criteria *)
  Theorem prune_struct_leaves_ok f :
    (forall w k, In (w, k) (fedges (prune_struct f)) -> is_leaf k = true -> ph_ok (height w) k = true) /\
    (forall r, In r (prune_struct f) -> is_leaf r = true -> indep_of cs (town r) None = true).
  Proof.
    unfold Prune.prune_struct. set (g := ploop (fsize' f) f).
    assert (Hg : pfo g = None) by (apply prune_loop_fixpoint; lia).
    split.
    - intros w k Hwk Hl. unfold fedges in Hwk. apply in_flat_map in Hwk. destruct Hwk as [t [Ht Hwk]].
      apply trunk_of_In in Ht. destruct Ht as [Ht _].
      apply (proj1 (prune_once_none t) (proj1 (pfo_none g) Hg t Ht) w k Hwk Hl).
    - intros r Hr Hl. apply trunk_of_In in Hr. destruct Hr as [_ [H|H]]; [congruence | exact H].
  Qed.

  (* C07: criteria every leaf already meets change nothing (the trunk is re-sorted by id) *)
  Theorem prune_struct_noop f :
    (forall w k, In (w, k) (fedges f) -> is_leaf k = true -> ph_ok (height w) k = true) ->
    (forall r, In r f -> is_leaf r = true -> indep_of cs (town r) None = true) ->
    prune_struct f = sort_by tid f.
  Proof.
    intros Hedges Hroots. unfold Prune.prune_struct.
    assert (Hf : pfo f = None).
    { apply pfo_none. intros t Ht. apply prune_once_none. intros w k Hwk. apply Hedges.
      unfold fedges. apply in_flat_map. exists t. split; assumption. }
    rewrite (ploop_stable _ _ Hf). unfold Prune.trunk_of.
    assert (Hall : forall x, In x (sort_by tid f) -> negb (is_leaf x) || indep_of cs (town x) None = true).
    { intros x Hx. apply sort_by_In in Hx. destruct (is_leaf x) eqn:E; [cbn; apply Hroots; assumption | reflexivity]. }
    clear -Hall. induction (sort_by tid f) as [|x l IH]; [reflexivity|]. cbn [filter].
    rewrite (Hall x (or_introl eq_refl)). f_equal. apply IH. intros y Hy. apply Hall. right. exact Hy.
  Qed.

  (* C07: survivors keep identifier and region; pixels are only lost with dropped trunk leaves *)
  Theorem prune_struct_survivors f w' :
    In w' (fnodes (prune_struct f)) ->
    exists w, In w (fnodes f) /\ tid w = tid w' /\ Permutation (regionv w') (regionv w).
  Proof.
    intros H. unfold Prune.prune_struct in H.
    destruct (prune_loop_preserves (fsize' f) f) as [_ [P2 _]]. apply P2.
    unfold fnodes in *. apply in_flat_map in H. destruct H as [t [Ht H]].
    apply in_flat_map. exists t. split; [|exact H]. apply trunk_of_In in Ht. tauto.
  Qed.

  Theorem prune_struct_arity f :
    (forall w, In w (fnodes f) -> arity_ok w) -> forall w', In w' (fnodes (prune_struct f)) -> arity_ok w'.
  Proof.
    intros Hall w' H. unfold Prune.prune_struct in H.
    destruct (prune_loop_preserves (fsize' f) f) as [_ [_ P3]]. apply (P3 Hall).
    unfold fnodes in *. apply in_flat_map in H. destruct H as [t [Ht H]].
    apply in_flat_map. exists t. split; [|exact H]. apply trunk_of_In in Ht. tauto.
  Qed.

  (* every pixel assigned before is assigned after, unless its whole (pruned) trunk tree is a
     parentless leaf failing the criteria, which is dropped as a whole *)
  Theorem prune_struct_pixels f :
    let g := ploop (fsize' f) f in
    Permutation (fpv' g) (fpv' f) /\
    forall t, In t g -> In t (prune_struct f) \/ (is_leaf t = true /\ indep_of cs (town t) None = false).
  Proof.
    intros g. split; [apply prune_loop_preserves|].
    intros t Ht. destruct (is_leaf t) eqn:El.
    - destruct (indep_of cs (town t) None) eqn:Ei.
      + left. apply trunk_of_In. split; [exact Ht | right; exact Ei].
      + right. split; reflexivity.
    - left. apply trunk_of_In. split; [exact Ht | left; exact El].
  Qed.
End P.

(* ---------- parameter bookkeeping *)
Theorem rec_delta_monotone cur arg : cur <= rec_delta cur arg.
Proof. unfold rec_delta. destruct (eff_delta cur arg <? cur) eqn:E; [lia | apply Z.ltb_ge in E; exact E]. Qed.

Theorem rec_npix_monotone cur arg :
  0 < snd cur -> 0 < snd (rec_npix cur arg) ->
  fst cur * snd (rec_npix cur arg) <= fst (rec_npix cur arg) * snd cur.
Proof.
  intros Hc Hr. unfold rec_npix in *. destruct (npix_lt (eff_npix cur arg) cur) eqn:E; [lia|].
  unfold npix_lt in E. apply Z.ltb_ge in E. lia.
Qed.

Theorem eff_delta_inherit cur : eff_delta cur 0 = cur.
Proof. reflexivity. Qed.
