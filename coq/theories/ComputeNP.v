(* ComputeNP.v — C05: the regional-maximum theorems read on Dendrogram.compute itself (no
   pruning parameters): the final renaming of identifiers and the sorting of the trunk change
   neither which structures are leaves nor their own pixels. *)
From Coq Require Import ZArith List Bool Lia Permutation Sorted.
From Dendro Require Import Base BaseLemmas Tree TreeLemmas Grid GridLemmas Criteria Compute ComputeInv ComputeThm RegMax.
Import ListNotations.
Open Scope Z_scope.

Lemma make_trunk_nil R : make_trunk (indep_of []) R = sort_by tid R.
Proof.
  unfold make_trunk. induction (sort_by tid R) as [|t l IH]; [reflexivity|]. cbn [filter].
  replace (negb (is_leaf t) || indep_of [] (town t) None) with true by (cbn; rewrite orb_true_r; reflexivity).
  rewrite IH. reflexivity.
Qed.

Lemma perm_fnodes f f' : Permutation f f' -> Permutation (fnodes f) (fnodes f').
Proof.
  unfold fnodes. induction 1 as [|x l l' _ IH|x y l|l l' l'' _ IH1 _ IH2]; cbn [flat_map].
  - constructor.
  - apply Permutation_app_head, IH.
  - rewrite !app_assoc. apply Permutation_app_tail, Permutation_app_comm.
  - eapply Permutation_trans; eassumption.
Qed.

Theorem compute_nil_nodes shape a vals minv :
  let R := run (adj_of shape a) np (order_of (kept vals minv)) in
  forall t', In t' (fnodes (compute shape a vals minv [])) <->
             exists t, In t (fnodes R) /\ t' = relabel (fnodes (sort_by tid R)) t.
Proof.
  intros R t'. unfold compute. rewrite (run_ext (adj_of shape a) (indep_of []) np _ indep_nil). fold R.
  rewrite make_trunk_nil.
  assert (Hfin : forall f, In t' (fnodes (sort_by tid f)) <-> In t' (fnodes f)).
  { intros f. split; apply Permutation_in; [|symmetry]; apply perm_fnodes, sort_by_perm. }
  rewrite Hfin, relabel_forest_fnodes, in_map_iff. split.
  - intros [t [E Ht]]. exists t. split; [|symmetry; exact E].
    apply (Permutation_in _ (perm_fnodes _ _ (sort_by_perm tid R))), Ht.
  - intros [t [Ht E]]. exists t. split; [symmetry; exact E|].
    apply (Permutation_in _ (Permutation_sym (perm_fnodes _ _ (sort_by_perm tid R)))), Ht.
Qed.

Lemma relabel_leaf all t : is_leaf (relabel all t) = is_leaf t.
Proof. unfold is_leaf. rewrite relabel_kids. destruct (tkids t); reflexivity. Qed.

Lemma topof_relabel all t z : topof (relabel all t) z <-> topof t z.
Proof. unfold topof, vmax, ovals. rewrite relabel_leaf, relabel_town. reflexivity. Qed.

(* C05 on compute, grid adjacency (default or periodic), no pruning parameters *)
Theorem compute_leaves_are_regional_maxima shape per vals minv :
  Forall (fun n => 0 < n) shape ->
  let order := order_of (kept vals minv) in
  let adj := nbrs shape per in
  (forall t', In t' (fnodes (compute shape (AdjGrid per) vals minv [])) -> is_leaf t' = true ->
     (exists z, topof t' z) /\
     (forall z, topof t' z -> regmax adj order z /\ forall b, sim adj order z b -> topof t' b) /\
     (forall z1 z2, topof t' z1 -> topof t' z2 -> sim adj order z1 z2)) /\
  (forall a, regmax adj order a ->
     exists t', In t' (fnodes (compute shape (AdjGrid per) vals minv [])) /\ topof t' a).
Proof.
  intros Hpos order adj.
  assert (Hnd : NoDup (map fst order)) by apply order_of_NoDup.
  assert (Hs : sorted_desc order) by apply order_of_sorted.
  assert (Hsym : forall a b, In a (map fst order) -> In b (map fst order) -> In b (adj a) -> In a (adj b)).
  { intros a b _ _. apply nbrs_sym, Hpos. }
  split.
  - intros t' Ht' Hl'. apply (compute_nil_nodes shape (AdjGrid per) vals minv) in Ht'. cbn [adj_of] in Ht'.
    destruct Ht' as [t [Ht ->]]. rewrite relabel_leaf in Hl'. split; [|split].
    + destruct (leaf_has_top adj order Hnd Hs Hsym t Ht Hl') as [z Hz]. exists z. apply topof_relabel, Hz.
    + intros z Hz. apply topof_relabel in Hz. destruct (leaf_top_regmax adj order Hnd Hs Hsym t z Ht Hz) as [H1 H2].
      split; [exact H1|]. intros b Hb. apply topof_relabel, H2, Hb.
    + intros z1 z2 H1 H2. apply topof_relabel in H1, H2. exact (leaf_top_one_plateau adj order Hnd Hs Hsym t z1 z2 Ht H1 H2).
  - intros a Ha. destruct (regmax_in_leaf adj order Hnd Hs Hsym a Ha) as [t [Ht Htop]].
    exists (relabel (fnodes (sort_by tid (run adj np order))) t). split.
    + apply (compute_nil_nodes shape (AdjGrid per) vals minv). cbn [adj_of]. exists t. split; [exact Ht | reflexivity].
    + apply topof_relabel, Htop.
Qed.
