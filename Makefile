# /verif top-level: builds the Coq development from clean (full .vo build)
.PHONY: setup coq clean
setup: clean coq
coq:
	cd coq && coq_makefile -f _CoqProject -o Makefile.coq >/dev/null && timeout 3000 $(MAKE) -f Makefile.coq -j16 > build.log 2>&1 || (tail -40 build.log; exit 1)
	@echo "coq build ok"
clean:
	cd coq && (test -f Makefile.coq && $(MAKE) -f Makefile.coq cleanall >/dev/null 2>&1 || true) && rm -f Makefile.coq Makefile.coq.conf .*.aux theories/.*.aux props/.*.aux build.log && find . -name '*.vo' -o -name '*.vok' -o -name '*.vos' -o -name '*.glob' | xargs rm -f
