"""C13 — flux conversion is linear, unit-consistent and physically correct."""
import math, warnings, itertools
from fractions import Fraction
import numpy as np
from astropy import units as u
from .. import common, impl, gen, tie, oracles
from ..common import cz, clist, copt, cbool
from .c01 import TRUSTED
from .c10 import cq, close
from astrodendro.flux import compute_flux, UnitMetadataWarning

RULE = ('random value arrays (dyadic) in all five input unit families, each in 3-4 equivalent units, metadata given in '
        'several equivalent units (arcsec / arcmin / deg / rad, m / cm / micron / mm, Hz / GHz), output in Jy / mJy / '
        'erg/cm2/s/Hz; every way of omitting or mis-typing each required item, unsupported input units, non-flux output '
        'units (which check fires first); model result c * pi^a * ln2^b evaluated in floats and compared at 1e-10; '
        'linearity, additivity over random splits, unit invariance, textbook conversion computed independently '
        '(per-beam within 2e-5 because of the constant 1.1331); non-trivial = a successful conversion other than Jy -> Jy')
EXPLANATION = ('Theorems in props/C13.v on the exact unit algebra (linear, additive, unit invariant, output unit, the five '
               'textbook conversions incl. beam independence for K, |1.1331 - pi/(4 ln 2)| < 2e-5 over the reals, error '
               'branches) + tie of value / error code with compute_flux + oracle')
ASSUMPTIONS = ['astropy unit parser / equivalencies are libraries: every unit used is mapped by hand to (scalar, dimension)',
               'floats compared with the exact model at relative tolerance 1e-10']
HEADER = """From Coq Require Import ZArith List Bool QArith.
From Dendro Require Import Base Plot Flux Corr.
Import ListNotations.
Open Scope Q_scope.
"""

# unit -> (rational coefficient, power of pi, (L, T, M, K, A, B))
F = Fraction
D_FNU, D_FLAM, D_SB, D_PB, D_K = (0, -2, 1, 0, 0, 0), (-1, -3, 1, 0, 0, 0), (0, -2, 1, 0, -2, 0), (0, -2, 1, 0, 0, -1), (0, 0, 0, 1, 0, 0)
D_LEN, D_FREQ, D_ANG, D_TIME, D_MASS = (1, 0, 0, 0, 0, 0), (0, -1, 0, 0, 0, 0), (0, 0, 0, 0, 1, 0), (0, 1, 0, 0, 0, 0), (0, 0, 1, 0, 0, 0)
UNITS = {
    'Jy': (u.Jy, F(1, 10 ** 26), 0, D_FNU), 'mJy': (u.mJy, F(1, 10 ** 29), 0, D_FNU),
    'erg/cm2/s/Hz': (u.erg / u.cm ** 2 / u.s / u.Hz, F(1, 1000), 0, D_FNU), 'W/m2/Hz': (u.W / u.m ** 2 / u.Hz, F(1), 0, D_FNU),
    'erg/cm2/s/micron': (u.erg / u.cm ** 2 / u.s / u.micron, F(1000), 0, D_FLAM), 'W/m2/m': (u.W / u.m ** 2 / u.m, F(1), 0, D_FLAM),
    'erg/cm2/s/cm': (u.erg / u.cm ** 2 / u.s / u.cm, F(1, 10), 0, D_FLAM), 'erg/cm2/s/AA': (u.erg / u.cm ** 2 / u.s / u.AA, F(10 ** 7), 0, D_FLAM),
    'MJy/sr': (u.MJy / u.sr, F(1, 10 ** 20), 0, D_SB), 'Jy/arcsec2': (u.Jy / u.arcsec ** 2, F(648000 ** 2, 10 ** 26), -2, D_SB),
    'Jy/deg2': (u.Jy / u.deg ** 2, F(180 ** 2, 10 ** 26), -2, D_SB),
    'Jy/beam': (u.Jy / u.beam, F(1, 10 ** 26), 0, D_PB), 'mJy/beam': (u.mJy / u.beam, F(1, 10 ** 29), 0, D_PB),
    'K': (u.K, F(1), 0, D_K), 'mK': (u.mK, F(1, 1000), 0, D_K),
    'm': (u.m, F(1), 0, D_LEN), 'cm': (u.cm, F(1, 100), 0, D_LEN), 'micron': (u.micron, F(1, 10 ** 6), 0, D_LEN), 'mm': (u.mm, F(1, 1000), 0, D_LEN),
    'Hz': (u.Hz, F(1), 0, D_FREQ), 'GHz': (u.GHz, F(10 ** 9), 0, D_FREQ),
    'arcsec': (u.arcsec, F(1, 648000), 1, D_ANG), 'arcmin': (u.arcmin, F(1, 10800), 1, D_ANG), 'deg': (u.deg, F(1, 180), 1, D_ANG), 'rad': (u.rad, F(1), 0, D_ANG),
    's': (u.s, F(1), 0, D_TIME), 'kg': (u.kg, F(1), 0, D_MASS), 'erg/cm2/s': (u.erg / u.cm ** 2 / u.s, F(1, 1000), 0, (0, -3, 1, 0, 0, 0)),
}
FAMILIES = {'fnu': ['Jy', 'mJy', 'erg/cm2/s/Hz', 'W/m2/Hz'], 'flam': ['erg/cm2/s/micron', 'W/m2/m', 'erg/cm2/s/cm', 'erg/cm2/s/AA'],
            'sb': ['MJy/sr', 'Jy/arcsec2', 'Jy/deg2'], 'perbeam': ['Jy/beam', 'mJy/beam'], 'temp': ['K', 'mK']}
LENGTHS, FREQS, ANGLES = ['m', 'cm', 'micron', 'mm'], ['Hz', 'GHz'], ['arcsec', 'arcmin', 'deg', 'rad']
OUT_OK, OUT_BAD = ['Jy', 'mJy', 'erg/cm2/s/Hz'], ['K', 'Jy/beam', 'erg/cm2/s', 'm']
ERRS = [('wavelength should be a physical length', 1), ('wavelength is needed', 2), ('spatial_scale should be an angle', 3),
        ('spatial_scale is needed', 4), ('beam_major should be an angle', 5), ('beam_major is needed', 6),
        ('beam_minor should be an angle', 7), ('beam_minor is needed', 8), ('not yet supported', 9), ('output_unit has to be', 10)]


def coq_unit(name):
    _, c, p, d = UNITS[name]
    return '{| u_sq := {| sc := %s; spi := %d; sln := 0 |}; u_dim := mkdim %s |}' % (cq(c), p, ' '.join(cz(x) for x in d))


def coq_q(q):
    if q is None:
        return 'None'
    return '(Some (%s, %s))' % (cq(q[0]), coq_unit(q[1]))


def aq(q):
    return None if q is None else float(q[0]) * UNITS[q[1]][0]


def same_physical(q, rng, pool):
    """The same physical quantity in another unit of the pool."""
    v, name = q
    other = rng.choice(pool)
    c0, c1 = UNITS[name][1], UNITS[other][1]
    return (Fraction(v) * c0 / c1, other)


def run_impl(vals, uin, uout, meta):
    kw = {k: aq(v) for k, v in meta.items()}
    with warnings.catch_warnings():
        warnings.simplefilter('ignore')
        try:
            q = np.array([float(x) for x in vals]) * UNITS[uin][0]
            q0v, q0u = q.value.copy(), q.unit
            kw0 = {k: (None if v is None else (v.value, v.unit)) for k, v in kw.items()}
            r = compute_flux(q, UNITS[uout][0], **kw)
            # the caller's quantities are inputs: they must come back untouched, and asking again (the caller may
            # sum the same array, or views of it, several times) must give the same answer
            if q.unit != q0u or not np.array_equal(q.value, q0v) or \
                    any(v is not None and (v.value, v.unit) != kw0[k] for k, v in kw.items()):
                return ('exc', 'InputModified', 'compute_flux changed its input: %r %s -> %r %s' % (q0v.tolist(), q0u, q.value.tolist(), q.unit))
            r2 = compute_flux(q, UNITS[uout][0], **kw)
            if float(r2.value) != float(r.value) or r2.unit != r.unit:
                return ('exc', 'NotRepeatable', 'second call on the same array gives %r, first %r' % (r2, r))
            return ('ok', float(r.value), str(r.unit))
        except ValueError as e:
            for msg, code in ERRS:
                if msg in str(e):
                    return ('err', code, str(e))
            return ('err', -1, str(e))
        except Exception as e:
            return ('exc', type(e).__name__, str(e))


def textbook(vals, uin, uout, meta):
    """The conversion computed independently in floats (SI), None if not applicable."""
    c, kB = 299792458.0, 1.380649e-23
    def si(q):
        v, name = q
        _, cc, p, _ = UNITS[name]
        return float(v) * float(cc) * math.pi ** p
    s = sum(float(x) for x in vals) * float(UNITS[uin][1]) * math.pi ** UNITS[uin][2]
    fam = [f for f, l in FAMILIES.items() if uin in l][0]
    if fam == 'fnu':
        t = s
    elif fam == 'flam':
        lam = si(meta['wavelength'])
        t = s * lam ** 2 / c
    elif fam == 'sb':
        t = s * si(meta['spatial_scale']) ** 2
    elif fam == 'perbeam':
        omega = math.pi / (4 * math.log(2)) * si(meta['beam_major']) * si(meta['beam_minor'])
        t = s * si(meta['spatial_scale']) ** 2 / omega
    else:
        w = meta['wavelength']
        nu = si(w) if UNITS[w[1]][3] == D_FREQ else c / si(w)
        t = 2 * kB * nu ** 2 / c ** 2 * s * si(meta['spatial_scale']) ** 2
    return t / float(UNITS[uout][1])


def magnitude_stream(ctx):
    """Logarithmic units are equivalent to Jy: equal physical inputs expressed in AB magnitudes (or dB / dex of Jy) must
    give the same total, and the total is additive over a split (oracle only: the unit algebra of the model is linear)."""
    rng = ctx.rng('c13-mag')
    for it in range(40 if ctx.quick else 400):
        vals = np.array([rng.uniform(1e-3, 50.0) for _ in range(rng.randint(1, 6))])
        q = vals * u.Jy
        want = float(vals.sum())
        fails = []
        for name, unit in (('ABmag', u.ABmag), ('dB(Jy)', u.dB(u.Jy)), ('dex(Jy)', u.dex(u.Jy))):
            try:
                qm = q.to(unit)
                got = float(compute_flux(qm, u.Jy).value)
                k = rng.randint(0, len(vals))
                parts = float(compute_flux(qm[:k], u.Jy).value if k else 0.0) + float(compute_flux(qm[k:], u.Jy).value if k < len(vals) else 0.0)
                if abs(got - want) > 1e-9 * want:
                    fails.append('%s Jy expressed in %s sum to %r Jy, in Jy to %r' % (vals.tolist(), name, got, want))
                elif abs(parts - got) > 1e-9 * want:
                    fails.append('in %s the total %r is not the sum %r of the totals of a split at %d' % (name, got, parts, k))
            except Exception as e:
                fails.append('compute_flux on %s raised %r' % (name, e))
        # the total asked for in a logarithmic unit: the magnitude of the summed flux density, not a sum of magnitudes
        for name, unit in (('ABmag', u.ABmag), ('dex(Jy)', u.dex(u.Jy))):
            try:
                got = compute_flux(q, unit)
                back = float(got.to(u.Jy).value)
                if not str(got.unit) == str(unit):
                    fails.append('%s Jy asked for in %s come back in %s' % (vals.tolist(), name, got.unit))
                elif abs(back - want) > 1e-9 * want:
                    fails.append('%s Jy asked for in %s: %r, which is %r Jy; the pixels sum to %r Jy' % (vals.tolist(), name, float(got.value), back, want))
            except Exception as e:
                fails.append('compute_flux(..., %s) raised %r' % (name, e))
        ctx.count('magnitude_cases')
        ctx.case_done(None, ('mag', it))
        if fails:
            ctx.oracle_failure({'stream': 'magnitudes', 'values_Jy': vals.tolist()}, fails[:3])


def statistic_flux_stream(ctx):
    """The flux as the catalog reaches it: PPStatistic / PPVStatistic.flux on pixel values of any floating width, with
    data_unit given as a unit or as a scaled quantity (mJy written as 0.001 Jy).  Expected: the double-precision sum
    of exactly these pixel values times the physical size of one data unit in Jy."""
    import warnings
    from fractions import Fraction
    from astrodendro.analysis import ScalarStatistic, PPStatistic, PPVStatistic
    rng = ctx.rng('c13-stat')
    for it in range(60 if ctx.quick else 600):
        n = rng.randint(3, 40)
        dt = rng.choice(['float64', 'float32', 'float32', 'float16'])
        raw = [rng.choice([1, 3, 5, 9, 11, 13]) / 7.0 * rng.choice([1, 1, 64, 4096 if dt != 'float16' else 8]) for _ in range(n)]
        vals = np.array(raw).astype(dt)
        exact = float(sum(Fraction(float(x)) for x in vals))          # the pixel values as stored, added exactly
        ppv = rng.random() < 0.5
        idx = tuple(np.array([rng.randint(0, 5) for _ in range(n)]) for _ in range(3 if ppv else 2))
        du, per_unit, dtext = rng.choice([(u.Jy, 1.0, 'Jy'), (u.mJy, 1e-3, 'mJy'), (0.001 * u.Jy, 1e-3, '0.001 Jy (a quantity)'),
                                          (2.5 * u.mJy, 2.5e-3, '2.5 mJy (a quantity)'), (1e3 * u.uJy, 1e-3, '1000 uJy (a quantity)')])
        info = {'stream': 'statistic flux', 'dtype': dt, 'values': [float(x) for x in vals], 'data_unit': dtext, 'ppv': ppv}
        fails = []
        try:
            with warnings.catch_warnings():
                warnings.simplefilter('ignore')
                st = (PPVStatistic if ppv else PPStatistic)(ScalarStatistic(vals, idx), {'data_unit': du})
                fl = st.flux
            got = float(fl.to(u.Jy).value)
            want = exact * per_unit
            if str(fl.unit) != 'Jy':
                fails.append('flux is expressed in %s, not Jy' % fl.unit)
            if abs(got - want) > 1e-12 * abs(want):
                fails.append('%s pixels in units of %s: flux %r Jy, the pixel values sum to %r Jy' % (dt, dtext, got, want))
        except Exception as e:
            fails.append('flux raised %r' % (e,))
        # the metadata dictionary edited in place between two reads: the flux follows, and an item that is taken away
        # or given the wrong kind of unit is an error again
        try:
            with warnings.catch_warnings():
                warnings.simplefilter('ignore')
                mdd = {'data_unit': u.MJy / u.sr, 'spatial_scale': 2 * u.arcsec}
                cls = PPVStatistic if ppv else PPStatistic
                f1 = float(cls(ScalarStatistic(vals, idx), mdd).flux.to(u.Jy).value)
                mdd['spatial_scale'] = 4 * u.arcsec
                f2 = float(cls(ScalarStatistic(vals, idx), mdd).flux.to(u.Jy).value)
                if abs(f2 - 4 * f1) > 1e-9 * abs(f1):
                    fails.append('MJy/sr pixels: flux %r with spatial_scale 2 arcsec, %r after the same dictionary was given 4 arcsec (expected four times as much)' % (f1, f2))
                for what, edit in (('spatial_scale removed', lambda m: m.pop('spatial_scale')),
                                   ('spatial_scale = 3 m', lambda m: m.__setitem__('spatial_scale', 3 * u.m))):
                    m2 = dict(mdd)
                    cls(ScalarStatistic(vals, idx), m2).flux
                    edit(m2)
                    try:
                        got2 = cls(ScalarStatistic(vals, idx), m2).flux
                        fails.append('MJy/sr pixels, %s in the dictionary used a moment ago: flux %s instead of an error' % (what, got2))
                    except Exception:
                        pass
        except Exception as e:
            fails.append('edited metadata: raised %r' % (e,))
        # every way of omitting a required item, through both statistic classes (the catalog's way to the conversion)
        try:
            full = {'data_unit': rng.choice([u.Jy / u.beam, u.K]), 'spatial_scale': 2 * u.arcsec, 'beam_major': 4 * u.arcsec,
                    'beam_minor': 3 * u.arcsec, 'wavelength': 3 * u.mm}
            for cls in (PPStatistic, PPVStatistic):
                with warnings.catch_warnings():
                    warnings.simplefilter('ignore')
                    idx3 = idx if len(idx) == (3 if cls is PPVStatistic else 2) else tuple(np.array([rng.randint(0, 5) for _ in range(n)]) for _ in range(3 if cls is PPVStatistic else 2))
                    float(cls(ScalarStatistic(vals, idx3), dict(full)).flux.to(u.Jy).value)          # complete metadata: a number
                    need = ['spatial_scale', 'beam_major', 'beam_minor'] + (['wavelength'] if full['data_unit'] == u.K else [])
                    for item in need:
                        md_ = {k_: v_ for k_, v_ in full.items() if k_ != item}
                        try:
                            got3 = cls(ScalarStatistic(vals, idx3), md_).flux
                            fails.append('%s data without %s: %s.flux = %s instead of an error' % (full['data_unit'], item, cls.__name__, got3))
                        except Exception:
                            pass
        except Exception as e:
            fails.append('complete metadata: raised %r' % (e,))
        ctx.count('statistic_flux=%s' % dt)
        ctx.case_done(None, ('statflux', it))
        if fails:
            ctx.oracle_failure(info, fails)


def explore(ctx):
    statistic_flux_stream(ctx)
    magnitude_stream(ctx)
    rng = ctx.rng('c13')
    terms, expect = [], []
    n = 500 if ctx.quick else 5000
    for it in range(n):
        fam = rng.choice(list(FAMILIES))
        uin = rng.choice(FAMILIES[fam])
        vals = [Fraction(rng.randint(1, 64), 8) for _ in range(rng.randint(1, 6))]
        meta = {}
        need = {'fnu': [], 'flam': ['wavelength'], 'sb': ['spatial_scale'], 'perbeam': ['spatial_scale', 'beam_major', 'beam_minor'],
                'temp': ['spatial_scale', 'beam_major', 'beam_minor', 'wavelength']}[fam]
        for k in ['wavelength', 'spatial_scale', 'beam_major', 'beam_minor']:
            if k in need or rng.random() < 0.3:
                if k == 'wavelength':
                    pool = LENGTHS + (FREQS if fam == 'temp' else [])
                    name = rng.choice(pool)
                    meta[k] = (Fraction(rng.randint(1, 40), 4) * (1 if UNITS[name][3] == D_LEN else 25), name)
                else:
                    meta[k] = (Fraction(rng.randint(1, 40), 4), rng.choice(ANGLES))
        uout = rng.choice(OUT_OK)
        mode = rng.choice(['ok', 'ok', 'ok', 'omit', 'mistype', 'badout', 'unsupported'])
        if mode == 'omit' and need:
            meta.pop(rng.choice(need), None)
        elif mode == 'mistype':
            k = rng.choice(['wavelength', 'spatial_scale', 'beam_major', 'beam_minor'])
            meta[k] = (Fraction(rng.randint(1, 9)), rng.choice(['s', 'kg', 'Jy'] + (['deg'] if k == 'wavelength' else ['m'])))
        elif mode == 'badout':
            uout = rng.choice(OUT_BAD)
        elif mode == 'unsupported':
            uin = rng.choice(['m', 'kg', 'erg/cm2/s', 's'])
        if mode in ('omit', 'mistype', 'badout', 'unsupported') and rng.random() < 0.2:
            vals = []                       # nothing to sum: what is wrong with the call is still wrong
        info = {'values': [str(v) for v in vals], 'input_unit': uin, 'output_unit': uout,
                'metadata': {k: [str(v[0]), v[1]] for k, v in meta.items()}}
        obs = run_impl(vals, uin, uout, meta)
        fails = []
        ctx.count('family=%s/%s' % (fam if mode != 'unsupported' else 'unsupported', obs[0]))
        nontrivial = obs[0] == 'ok' and not (fam == 'fnu' and uin == uout)
        ctx.case_done(info, str(info) if nontrivial else None, sample=dict(info, result=obs) if nontrivial else None)
        if obs[0] == 'exc':
            fails.append('compute_flux raised %s: %s (an error other than ValueError, or a number, was expected)' % (obs[1], obs[2][:200]))
        if obs[0] == 'ok':
            if obs[2] != str(UNITS[uout][0]):
                fails.append('result is in %s, requested %s' % (obs[2], UNITS[uout][0]))
            if mode in ('badout',):
                fails.append('a non-flux output unit produced a number')
            if mode == 'unsupported':
                fails.append('an unsupported input unit (%s) produced a number: %r %s' % (uin, obs[1], obs[2]))
                ctx.oracle_failure(info, fails)
                continue
            try:
                tb = textbook(vals, uin, uout, meta)
                tol = 3e-5 if fam == 'perbeam' else 1e-9
                if not close(obs[1], tb, tol):
                    fails.append('result %r, textbook conversion %r' % (obs[1], tb))
            except KeyError:
                fails.append('a number was produced although required metadata is missing')
            # linear
            c_ = Fraction(rng.randint(2, 9), 2)
            o2 = run_impl([c_ * v for v in vals], uin, uout, meta)
            if o2[0] != 'ok' or not close(o2[1], float(c_) * obs[1], 1e-10):
                fails.append('not proportional to the input values: %r vs %r * %r' % (o2, float(c_), obs[1]))
            # additive over a split
            if len(vals) >= 2:
                k = rng.randint(1, len(vals) - 1)
                a, b = run_impl(vals[:k], uin, uout, meta), run_impl(vals[k:], uin, uout, meta)
                if a[0] != 'ok' or b[0] != 'ok' or not close(a[1] + b[1], obs[1], 1e-10):
                    fails.append('not additive over a split of the pixels')
            # unit invariance: the same physical inputs in other units
            fam_units = FAMILIES.get(fam, [uin])
            uin2 = rng.choice(fam_units)
            ratio = UNITS[uin][1] / UNITS[uin2][1] * Fraction(1)
            if UNITS[uin][2] == UNITS[uin2][2]:
                vals2 = [v * ratio for v in vals]
                meta2 = {}
                for k, q in meta.items():
                    pool = ANGLES if UNITS[q[1]][3] == D_ANG else (LENGTHS if UNITS[q[1]][3] == D_LEN else (FREQS if UNITS[q[1]][3] == D_FREQ else [q[1]]))
                    pool = [p_ for p_ in pool if UNITS[p_][2] == UNITS[q[1]][2]] or [q[1]]
                    meta2[k] = same_physical(q, rng, pool)
                o3 = run_impl(vals2, uin2, uout, meta2)
                if o3[0] != 'ok' or not close(o3[1], obs[1], 1e-9):
                    fails.append('depends on the units of equal physical inputs: %r in (%s, %s) vs %r' % (o3, uin2, meta2, obs[1]))
            # the same NUMBERS in other units are other physical inputs: a second call must not remember the first
            if meta:
                meta3, changed = {}, False
                for k, q in meta.items():
                    pool = ANGLES if UNITS[q[1]][3] == D_ANG else (LENGTHS if UNITS[q[1]][3] == D_LEN else (FREQS if UNITS[q[1]][3] == D_FREQ else [q[1]]))
                    other = [p_ for p_ in pool if p_ != q[1] and UNITS[p_][2] == UNITS[q[1]][2]]
                    if other and k in need:
                        meta3[k] = (q[0], rng.choice(other))
                        changed = True
                    else:
                        meta3[k] = q
                if changed:
                    o4 = run_impl(vals, uin, uout, meta3)
                    try:
                        tb4 = textbook(vals, uin, uout, meta3)
                        if o4[0] != 'ok' or not close(o4[1], tb4, 3e-5 if fam == 'perbeam' else 1e-9):
                            fails.append('after a call with %s, the call with the same numbers in other units %s gives %r, textbook %r' % (
                                {k: meta[k][1] for k in meta}, {k: meta3[k][1] for k in meta3}, o4, tb4))
                    except KeyError:
                        pass
        if fails:
            ctx.oracle_failure(info, fails)
            continue
        terms.append('flux_view (compute_flux %s %s %s %s %s %s %s)' % (
            clist(vals, cq), coq_unit(uin), coq_unit(uout), coq_q(meta.get('wavelength')), coq_q(meta.get('spatial_scale')),
            coq_q(meta.get('beam_major')), coq_q(meta.get('beam_minor'))))
        expect.append((info, obs))
    vals_, errs = common.coq_dump_many('c13_flux', HEADER, terms, batch=60)
    ctx.errors.extend(errs)
    for (info, obs), out in zip(expect, vals_):
        if out is None:
            continue
        code, (cn, cd, (pe, le)) = out
        if code != 0:
            ok = obs[0] == 'err' and obs[1] == code
        else:
            val = float(Fraction(int(cn), int(cd))) * math.pi ** int(pe) * math.log(2) ** int(le)
            ok = obs[0] == 'ok' and close(obs[1], val, 1e-10)
        if not ok:
            ctx.tie_mismatch('compute_flux (value or which error)', info, obs, str(out))


def matches_known(k, case, fails, extra):
    return False


def replay(path):
    import json
    r = json.load(open(path))
    print(json.dumps(r, indent=1)[:4000])
    return 1
