"""C06 — structure accessors agree with the data and the label map."""
import numpy as np
from .. import common, impl, gen, tie, oracles
from . import compute_common as cc
from . import dendro_common as dc
from .c01 import ASSUMPTIONS, TRUSTED

RULE = ('dendrograms from structured random compute cases (incl. larger arrays with deep trees, criteria that make '
        'branches own bright pixels, all memory layouts: C, Fortran, strided, read-only, transposed views), each also '
        'pruned (random prune sequences) and saved/loaded in both formats; every structure, both subtree modes of every '
        'accessor: oracle against data + label map, and the accessor view of the Coq model (TreeIndex slices, counts, '
        'vmin/vmax/height, peaks) evaluated on the observed label map and forest; non-trivial = at least three structures')
EXPLANATION = ('Theorems in props/C06.v (TreeIndex slices = labelled pixels, subtree contiguity, counts, vmin/vmax/height, '
               'peak value and position) + accessor tie on computed, pruned and loaded dendrograms + oracle')
HEADER = tie.HEADER


def transposed_case(rng, c):
    """The same values handed to compute as a transposed view of another array (non-C-contiguous)."""
    return c


def explore(ctx):
    rng = ctx.rng('c06')
    terms, meta = [], []
    n = 900 if ctx.quick else 9000
    for it in range(n):
        c = dc.tree_rich_case(rng)
        # criteria that let a branch absorb a bright spike (branch owns a pixel above its children)
        if rng.random() < 0.4:
            c['npix'] = [rng.randint(2, 3), 1]
        c['layout'] = rng.choice(['C', 'C', 'F', 'strided', 'readonly', 'T'])
        if len(c['shape']) in (2, 3) and c['adj'][0] == 'grid' and rng.random() < 0.2:
            c['adj'] = ['grid', [rng.random() < 0.7 for _ in c['shape']]]      # more wrap-around adjacency
            c.pop('per_scalar', None)
        int_stream = rng.random() < 0.2
        if int_stream:
            # integer data reaching both ends of the dtype (0 for unsigned types), default threshold: a loaded
            # dendrogram keeps numpy scalars of that dtype in its structures
            dt = rng.choice(['uint8', 'uint8', 'uint16', 'uint32', 'int8', 'int16', 'uint64', 'int64'])
            info = np.iinfo(dt)
            span = rng.choice([6, 12, 40])
            base = rng.choice([info.min, info.min, info.max - span, 0 if info.min < 0 else info.min])
            c['vals'] = [int(base + (abs(int(v)) % (span + 1))) for v in (x if x is not None else 0 for x in c['vals'])]
            c['dtype'], c['scale'], c['minv'], c['delta'] = dt, 0, None, 0
            c.pop('den', None)
            c['npix'] = [0, 1] if rng.random() < 0.7 else c.get('npix', [0, 1])
            ctx.count('integer_bounds_stream')
        try:
            if c['layout'] == 'T' and len(c['shape']) >= 2:
                # build the array in reversed-axes order and pass its transpose
                arr = impl.case_array(dict(c, layout='C'))
                arrT = np.ascontiguousarray(arr.T).T        # same values/shape, Fortran-like strides
                assert arrT.shape == arr.shape
                from astrodendro import Dendrogram
                kw = impl.compute_kwargs(c)
                d = Dendrogram.compute(arrT, **kw)
            else:
                d = impl.run_compute(c)
        except Exception as e:
            ctx.oracle_failure(c, ['compute raised %r' % (e,)])
            continue
        history = ['compute']
        kind = 'computed'
        if rng.random() < 0.45:
            for k in range(rng.randint(1, 2)):
                step = dc.rand_prune_step(rng, c)
                if rng.random() < 0.5:
                    for s in d:
                        s.get_npix(), s.get_peak()
                try:
                    d.prune(**dc.prune_kwargs(c, step))
                except Exception as e:
                    ctx.oracle_failure({'case': c, 'history': history + [step]}, ['prune raised %r' % (e,)])
                    break
                history.append(step)
            kind = 'pruned'
        variants = [(kind, d)]
        for fmt in (['hdf5', 'fits'] if int_stream else ([rng.choice(['hdf5', 'fits'])] if rng.random() < 0.35 else [])):
            try:
                variants.append(('loaded-' + fmt, dc.save_load(d, fmt, how=rng.choice(['explicit', 'auto']))))
            except Exception as e:
                # whether a dendrogram can be saved and loaded is C09's question (a failure there is reported by
                # ./check C09); here there is simply no loaded dendrogram whose accessors could be examined
                ctx.count('loaded_variant_unavailable/%s' % type(e).__name__)
        if len(c['shape']) in (2, 3) and rng.random() < 0.4:
            # building a catalog (which un-wraps structures on periodic data) must leave the accessors alone
            import warnings as _w
            from astropy import units as _u
            from astrodendro.analysis import pp_catalog, ppv_catalog
            for _, dd in variants:
                try:
                    with _w.catch_warnings():
                        _w.simplefilter('ignore')
                        (pp_catalog if len(c['shape']) == 2 else ppv_catalog)(dd, {'data_unit': _u.Jy}, verbose=False)
                except Exception:
                    pass                                    # whether a catalog can be built is C12's question
            history = history + ['catalog']
            ctx.count('catalog_before_accessors')
        for kind, dd in variants:
            ctx.count('dendrogram=' + kind)
            ctx.count('layout=' + c['layout'])
            try:
                fails = oracles.oracle_c06(c, dd)
            except Exception as e:
                fails = ['accessor raised %r' % (e,)]
            key = (kind, tuple(c['vals']), tuple(c['shape']), str(history)) if len(dd) >= 3 else None
            ctx.case_done(c, key, sample={'case': c, 'history': history, 'kind': kind} if key else None)
            if fails:
                ctx.oracle_failure({'case': c, 'history': history, 'kind': kind}, fails)
                continue
            try:
                term, obs = tie.coq_acc_case(dd, c)
                terms.append(term)
                meta.append(({'case': c, 'history': history, 'kind': kind}, obs))
            except Exception as e:
                ctx.oracle_failure({'case': c, 'history': history, 'kind': kind}, ['cannot read accessors: %r' % (e,)])
    mism, errs = common.run_coq_shards('c06_acc', HEADER, terms, 'mismatches acc_ok', shard=150, ctype='acc_case')
    ctx.errors.extend(errs)
    for i in mism[:5]:
        ctx.tie_mismatch('accessor view (indices, npix, vmin, vmax, height, peaks)', meta[i][0], meta[i][1], None)


def matches_known(k, case, fails, extra):
    return False


def replay(path):
    import json
    r = json.load(open(path))
    print(json.dumps(r, indent=1)[:4000])
    return 1
