"""C03 — each structure is a connected component of a superlevel set."""
from .. import common, impl, gen, tie, oracles
from . import compute_common as cc
from .c01 import matches_known, ASSUMPTIONS, TRUSTED

RULE = ('structured random compute cases as for C01 with more periodic / diagonal adjacency, plus the neighbour '
        'functions themselves tabulated through the padded label map against Grid.v on every pixel of small shapes; '
        'non-trivial = at least two structures')
EXPLANATION = ('Theorems C03_connected / C03_contour / C03_trunk_components on the Coq model + correspondence of model '
               'and /repo (order, label map, structures, neighbour tables) + BFS/boundary-scan oracle on the implementation')


def oracle(case, d):
    return oracles.oracle_c03(case, d)


def explore(ctx):
    cc.explore_compute(ctx, oracle, n_random_quick=2500, n_random_thorough=30000,
                       exhaustive=(5, 5) if ctx.quick else (7, 8))
    from . import grid_common
    grid_common.neighbour_tie(ctx, max_len=3 if ctx.quick else 4)
    grid_common.reused_adjacency_stream(ctx, 120 if ctx.quick else 1200)
    long_axis_stream(ctx)


def long_axis_stream(ctx):
    """Axes longer than 2**15 and 2**16 (a spectrum of 40000 / 70000 channels): a few bright features far out on the
    axis, everything else at or below the threshold; oracle only."""
    rng = ctx.rng('long-axis')
    shapes = [[40000], [2, 40000]] if ctx.quick else [[40000], [2, 40000], [70000], [3, 2, 33000], [40000, 2]]
    for shape in shapes:
        n = gen.nprod(shape)
        long_ax = max(range(len(shape)), key=lambda a: shape[a])
        vals = [0] * n
        strides = [gen.nprod(shape[a + 1:]) for a in range(len(shape))]
        for _ in range(rng.randint(3, 6)):
            centre = rng.randint(shape[long_ax] // 2, shape[long_ax] - 6)
            other = [rng.randrange(s) for s in shape]
            for off in range(-rng.randint(1, 4), rng.randint(2, 5)):
                coord = list(other)
                coord[long_ax] = centre + off
                vals[sum(c * st for c, st in zip(coord, strides))] = rng.randint(1, 9)
        case = {'shape': shape, 'vals': vals, 'scale': 0, 'dtype': 'float64', 'adj': ['grid', [False] * len(shape)],
                'minv': 0, 'delta': 0, 'npix': [0, 1], 'crit': []}
        try:
            d = impl.run_compute(case)
            fails = oracle(case, d) + oracles.oracle_c01(case, d)
        except Exception as e:
            fails = ['compute raised %r' % (e,)]
        ctx.count('long_axis_cases')
        ctx.case_done(None, ('long', tuple(shape)))
        if fails:
            small = dict(case, vals='(%d pixels; non-zero: %s)' % (n, {i: v for i, v in enumerate(vals) if v}))
            ctx.oracle_failure(small, fails[:4])


def shrink(case, fails, extra):
    def pred(c):
        d, _ = impl.compute_obs(c)
        return bool(oracle(c, d))
    return cc.shrink_compute(case, pred)


def replay(path):
    import json
    r = json.load(open(path))
    case = r.get('case')
    if case and 'vals' in case:
        d, obs = impl.compute_obs(case)
        fails = oracle(case, d)
        print('implementation:', obs)
        print('model:', tie.model_compute_view(case, 'c03_replay'))
        print('oracle failures:', fails)
        return 1 if fails else 0
    print(json.dumps(r, indent=1)[:3000])
    return 1
