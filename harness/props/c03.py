"""C03 — each structure is a connected component of a superlevel set."""
from .. import common, impl, gen, tie, oracles
from . import compute_common as cc
from .c01 import matches_known, ASSUMPTIONS, TRUSTED

RULE = ('structured random compute cases as for C01 with more periodic / diagonal adjacency, plus the neighbour '
        'functions themselves tabulated through the padded label map against Grid.v on every pixel of small shapes; '
        'non-trivial = at least two structures')
EXPLANATION = ('Theorems C03_connected / C03_contour / C03_trunk_components on the Coq model + correspondence of model '
               'and /repo (order, label map, structures, neighbour tables) + BFS/boundary-scan oracle on the implementation')


def oracle(case, d):
    return oracles.oracle_c03(case, d)


def explore(ctx):
    cc.explore_compute(ctx, oracle, n_random_quick=2500, n_random_thorough=30000,
                       exhaustive=(5, 5) if ctx.quick else (7, 8))
    from . import grid_common
    grid_common.neighbour_tie(ctx, max_len=3 if ctx.quick else 4)


def shrink(case, fails, extra):
    def pred(c):
        d, _ = impl.compute_obs(c)
        return bool(oracle(c, d))
    return cc.shrink_compute(case, pred)


def replay(path):
    import json
    r = json.load(open(path))
    case = r.get('case')
    if case and 'vals' in case:
        d, obs = impl.compute_obs(case)
        fails = oracle(case, d)
        print('implementation:', obs)
        print('model:', tie.model_compute_view(case, 'c03_replay'))
        print('oracle failures:', fails)
        return 1 if fails else 0
    print(json.dumps(r, indent=1)[:3000])
    return 1
