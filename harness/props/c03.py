"""C03 — each structure is a connected component of a superlevel set."""
from .. import common, impl, gen, tie, oracles
from . import compute_common as cc
from .c01 import matches_known, ASSUMPTIONS, TRUSTED

RULE = ('structured random compute cases as for C01 with more periodic / diagonal adjacency, plus the neighbour '
        'functions themselves tabulated through the padded label map against Grid.v on every pixel of small shapes; '
        'non-trivial = at least two structures')
EXPLANATION = ('Theorems C03_connected / C03_contour / C03_trunk_components on the Coq model + correspondence of model '
               'and /repo (order, label map, structures, neighbour tables) + BFS/boundary-scan oracle on the implementation')


def oracle(case, d):
    return oracles.oracle_c03(case, d)


def explore(ctx):
    cc.explore_compute(ctx, oracle, n_random_quick=2500, n_random_thorough=30000,
                       exhaustive=(5, 5) if ctx.quick else (7, 8))
    from . import grid_common
    grid_common.neighbour_tie(ctx, max_len=3 if ctx.quick else 4)
    grid_common.reused_adjacency_stream(ctx, 120 if ctx.quick else 1200)
    long_axis_stream(ctx)
    infinity_stream(ctx)
    narrow_threshold_stream(ctx)
    cc.infinity_tie_stream(ctx, 200 if ctx.quick else 2000, 'c03_inf_tie')


def against_definition(d, arr, mv, shape, fails):
    """C03 read directly on one dendrogram (no pruning): every structure's region is connected, no pixel above the
    threshold that touches a region from outside is brighter than a pixel inside, the trunk regions are the connected
    components of the pixels above the threshold (compared exactly, as Python numbers)."""
    import numpy as np
    flat = arr.ravel()
    kept = set(int(i) for i in np.flatnonzero(~np.isnan(flat) & (flat > mv)))

    def nbrs(p):
        c = np.unravel_index(p, shape)
        for a in range(len(shape)):
            for dlt in (-1, 1):
                cc_ = list(c)
                cc_[a] += dlt
                if 0 <= cc_[a] < shape[a]:
                    yield int(np.ravel_multi_index(cc_, shape))

    def component(start, allowed):
        seen, todo = {start}, [start]
        while todo:
            x = todo.pop()
            for y in nbrs(x):
                if y in allowed and y not in seen:
                    seen.add(y)
                    todo.append(y)
        return seen
    for s_ in d:
        reg = set(oracles.flat_indices(shape, s_.indices(subtree=True)))
        if component(next(iter(reg)), reg) != reg:
            fails.append('structure %d is not connected: %s' % (s_.idx, sorted(reg)))
        lo = min(flat[p] for p in reg)
        for p in reg:
            for q in nbrs(p):
                if q in kept and q not in reg and flat[q] > lo:
                    fails.append('pixel %d (value %r) touches structure %d from outside and is brighter than its faintest pixel (%r)' % (q, float(flat[q]), s_.idx, float(lo)))
                    break
            else:
                continue
            break
    comps, left = [], set(kept)
    while left:
        c_ = component(next(iter(left)), kept)
        comps.append(sorted(c_))
        left -= c_
    trunk = sorted(sorted(oracles.flat_indices(shape, t.indices(subtree=True))) for t in d.trunk)
    if trunk != sorted(comps):
        fails.append('trunk regions %s are not the connected components %s of the pixels above the threshold' % (trunk, sorted(comps)))



def infinity_stream(ctx):
    """+inf is a number above every threshold: images with saturated (+inf) pixels, NaN holes, no pruning.  Checked
    against the definition directly: every structure's region is connected, no pixel above the threshold that touches a
    region from outside is brighter than a pixel inside, and the trunk regions are the connected components of the pixels
    above the threshold.  Oracle only (the integer model has no infinities)."""
    import numpy as np
    from astrodendro import Dendrogram
    rng = ctx.rng('c03-inf')
    for it in range(120 if ctx.quick else 1200):
        shape = rng.choice([(rng.randint(4, 10),), (3, 4), (4, 4), (2, 6)])
        n = int(np.prod(shape))
        vals = [rng.choice([1.0, 2.0, 3.0, 4.0, 5.0, 0.5, np.inf, np.inf, np.nan]) for _ in range(n)]
        if not any(np.isfinite(v) for v in vals):
            vals[0] = 1.0
        arr = np.array(vals).reshape(shape)
        mv = rng.choice([0.0, 0.75, 2.5])
        info = {'stream': 'infinite pixels', 'shape': list(shape), 'data': repr(vals), 'min_value': mv}
        fails = []
        try:
            d = Dendrogram.compute(arr.copy(), min_value=mv)
            against_definition(d, arr, mv, shape, fails)
        except Exception as e:
            fails.append('raised %r' % (e,))
        ctx.count('infinite_pixel_cases')
        ctx.case_done(None, ('c03-inf', repr(vals), shape, mv))
        if fails:
            ctx.oracle_failure(info, fails[:3])


def narrow_threshold_stream(ctx):
    """Single / half precision images with a decimal threshold given as a Python number: np.float32(0.1) is above 0.1,
    np.float32(0.7) below 0.7 - the comparison is between the numbers, not between their roundings."""
    import numpy as np
    from astrodendro import Dendrogram
    rng = ctx.rng('c03-narrow-threshold')
    for it in range(80 if ctx.quick else 800):
        shape = rng.choice([(rng.randint(4, 10),), (3, 4), (2, 6)])
        n = int(np.prod(shape))
        dt = rng.choice(['float32', 'float32', 'float16', '>f4'])
        ks = [rng.randint(0, 12) for _ in range(n)]
        arr = np.array([k * 0.1 for k in ks]).astype(dt).reshape(shape)
        mv = 0.1 * rng.choice(ks)
        info = {'stream': 'narrow dtype, decimal threshold', 'dtype': dt, 'shape': list(shape), 'data': [float(x) for x in arr.ravel()], 'min_value': mv}
        fails = []
        try:
            d = Dendrogram.compute(arr.copy(), min_value=mv)
            against_definition(d, arr.astype('float64'), mv, shape, fails)
        except Exception as e:
            fails.append('raised %r' % (e,))
        ctx.count('narrow_threshold_cases')
        ctx.case_done(None, ('c03-narrow', tuple(ks), shape, dt, mv))
        if fails:
            ctx.oracle_failure(info, fails[:3])


def long_axis_stream(ctx):
    """Axes longer than 2**15 and 2**16 (a spectrum of 40000 / 70000 channels): a few bright features far out on the
    axis, everything else at or below the threshold; oracle only."""
    rng = ctx.rng('long-axis')
    shapes = [[40000], [2, 40000]] if ctx.quick else [[40000], [2, 40000], [70000], [3, 2, 33000], [40000, 2]]
    for shape in shapes:
        n = gen.nprod(shape)
        long_ax = max(range(len(shape)), key=lambda a: shape[a])
        vals = [0] * n
        strides = [gen.nprod(shape[a + 1:]) for a in range(len(shape))]
        for _ in range(rng.randint(3, 6)):
            centre = rng.randint(shape[long_ax] // 2, shape[long_ax] - 6)
            other = [rng.randrange(s) for s in shape]
            for off in range(-rng.randint(1, 4), rng.randint(2, 5)):
                coord = list(other)
                coord[long_ax] = centre + off
                vals[sum(c * st for c, st in zip(coord, strides))] = rng.randint(1, 9)
        case = {'shape': shape, 'vals': vals, 'scale': 0, 'dtype': 'float64', 'adj': ['grid', [False] * len(shape)],
                'minv': 0, 'delta': 0, 'npix': [0, 1], 'crit': []}
        try:
            d = impl.run_compute(case)
            fails = oracle(case, d) + oracles.oracle_c01(case, d)
        except Exception as e:
            fails = ['compute raised %r' % (e,)]
        ctx.count('long_axis_cases')
        ctx.case_done(None, ('long', tuple(shape)))
        if fails:
            small = dict(case, vals='(%d pixels; non-zero: %s)' % (n, {i: v for i, v in enumerate(vals) if v}))
            ctx.oracle_failure(small, fails[:4])


def shrink(case, fails, extra):
    def pred(c):
        d, _ = impl.compute_obs(c)
        return bool(oracle(c, d))
    return cc.shrink_compute(case, pred)


def replay(path):
    import json
    r = json.load(open(path))
    case = r.get('case')
    if case and 'vals' in case:
        d, obs = impl.compute_obs(case)
        fails = oracle(case, d)
        print('implementation:', obs)
        print('model:', tie.model_compute_view(case, 'c03_replay'))
        print('oracle failures:', fails)
        return 1 if fails else 0
    print(json.dumps(r, indent=1)[:3000])
    return 1
