"""C12 — catalogs have one faithful row per structure."""
import io, contextlib, itertools, warnings
from fractions import Fraction
import numpy as np
from astropy import units as u
from .. import common, impl, gen, tie, oracles
from ..common import cz, clist, copt, cbool
from . import dendro_common as dc
from .c01 import TRUSTED
from .c10 import close
from astrodendro import Dendrogram, periodic_neighbours
from astrodendro.analysis import pp_catalog, ppv_catalog, PPStatistic, PPVStatistic, ScalarStatistic

RULE = ('pp_catalog / ppv_catalog on 2-D / 3-D dendrograms (computed and pruned: gaps in the ids), on lists of structures '
        'in arbitrary order, for the default field lists and random field subsets (incl. centroid-only subsets), several '
        'metadata sets, verbose on/off; every row against the statistic computed for that structure alone on indices '
        'un-wrapped by the Coq model of the heuristic; periodic data: structures narrower than half the axis under every '
        'cyclic shift along one and along two periodic axes (corners) must keep their shape statistics while the centroid '
        'moves with them; non-trivial = catalog with at least three rows')
EXPLANATION = ('Theorems in props/C12.v (one row per structure, sorted, per-structure rows; the un-wrap heuristic hands the '
               'statistics the same pattern translated, for every position on the cyclic axis, when 2e < n) + tie of the '
               'heuristic (Catalog.unwrap) + oracle')
ASSUMPTIONS = ['floats compared at relative tolerance 1e-8', 'astropy Table / units are libraries']
HEADER = tie.HEADER.replace('Compute Corr.', 'Compute Catalog Corr.')

PP_FIELDS = ['major_sigma', 'minor_sigma', 'radius', 'area_ellipse', 'area_exact', 'position_angle', 'x_cen', 'y_cen', 'flux']
PPV_FIELDS = ['major_sigma', 'minor_sigma', 'radius', 'area_ellipse', 'area_exact', 'position_angle', 'v_rms', 'x_cen', 'y_cen', 'v_cen', 'flux']


def py_unwrap(n, l):
    l2 = [x + n if 2 * x < n else x for x in l]
    return l2 if (max(l2) - min(l2)) < (max(l) - min(l)) else list(l)


def expected_row(s, shape, metadata, cls, fields, unwrap_terms):
    vals = s.values(subtree=True)
    idx = [np.array(a, copy=True) for a in s.indices(subtree=True)]
    new = []
    for a, n in zip(idx, shape):
        l = [int(x) for x in a]
        un = py_unwrap(n, l)
        unwrap_terms.append((n, l, un))
        new.append(np.array(un))
    st = cls(ScalarStatistic(vals, tuple(new)), metadata)
    row = {}
    for f in fields:
        v = getattr(st, f)
        q = 1 * v
        row[f] = (float(q.value), str(q.unit)) if hasattr(q, 'unit') else (float(q), '')
    # centroids also independently of the statistic classes (no WCS in these metadata sets): the weighted mean pixel
    # position along the right array axis - x is the last sky axis, y the first, v the declared velocity axis
    if metadata.get('wcs') is None:
        w = np.asarray(vals, dtype=float)
        w = np.where(np.isnan(w), 0.0, w)
        means = [float((np.asarray(a_, dtype=float) * w).sum() / w.sum()) for a_ in new]
        if cls is PPVStatistic:
            va = int(metadata.get('vaxis', 0))
            sky = [i for i in range(3) if i != va]
            row['independent centroids'] = {'x_cen': means[sky[1]], 'y_cen': means[sky[0]], 'v_cen': means[va]}
        else:
            row['independent centroids'] = {'x_cen': means[1], 'y_cen': means[0]}
    return row


def check_catalog(ctx, d, structures, shape, metadata, fields, ppv, verbose, info, unwrap_terms):
    fails = []
    cat_fn, cls = (ppv_catalog, PPVStatistic) if ppv else (pp_catalog, PPStatistic)
    buf = io.StringIO()
    with warnings.catch_warnings():
        warnings.simplefilter('ignore')
        with contextlib.redirect_stdout(buf):
            cat = cat_fn(structures, metadata, fields=fields, verbose=verbose)
    flds = fields or (PPV_FIELDS if ppv else PP_FIELDS)
    slist = list(structures)
    ids = [int(s.idx) for s in slist]
    if len(cat) != len(slist):
        fails.append('%d rows for %d structures' % (len(cat), len(slist)))
        return fails
    if [int(x) for x in cat['_idx']] != sorted(ids):
        fails.append('_idx column %s is not the sorted identifiers %s' % (list(cat['_idx']), sorted(ids)))
        return fails
    if sorted(cat.colnames) != sorted(flds + ['_idx']):
        fails.append('columns %s, requested %s' % (cat.colnames, flds))
    byid = {int(s.idx): s for s in slist}
    first = slist[0]
    for r in cat:
        s = byid[int(r['_idx'])]
        with warnings.catch_warnings():
            warnings.simplefilter('ignore')
            want = expected_row(s, shape, metadata, cls, flds, unwrap_terms)
        for f in flds:
            g = float(r[f])
            w, unit = want[f]
            if f == 'position_angle':
                if abs((g - w + 90) % 180 - 90) > 1e-6:
                    fails.append('row %d field %s = %r, statistic of that structure %r' % (s.idx, f, g, w))
            elif not (close(g, w, 1e-8) or (g != g and w != w)):
                fails.append('row %d field %s = %r, statistic of that structure %r' % (s.idx, f, g, w))
            if f in ('x_cen', 'y_cen', 'v_cen') and 'independent centroids' in want:
                wc_ = want['independent centroids'][f]
                if not close(g, wc_, 1e-9):
                    fails.append('row %d %s = %r, weighted mean pixel position along that axis %r' % (s.idx, f, g, wc_))
            if f == 'area_exact':
                # independently of the statistic classes: the number of distinct sky positions times the pixel area
                ax = [i for i in range(len(shape))] if not ppv else [i for i in range(3) if i != int(metadata.get('vaxis', 0))]
                idx_ = s.indices(subtree=True)
                nsky = len(set(zip(*[[int(x) for x in idx_[i]] for i in ax])))
                ss_ = metadata.get('spatial_scale')
                want_area = nsky * (float(ss_.value) ** 2 if ss_ is not None else 1.0)
                if not close(g, want_area, 1e-9):
                    fails.append('row %d area_exact = %r, %d distinct sky pixels x pixel area = %r' % (s.idx, g, nsky, want_area))
            if f == 'flux' and metadata.get('data_unit') == u.Jy:
                # independently of the statistic classes: the flux of Jy pixels is their sum, in double precision
                tot = float(np.sum(np.asarray(s.values(subtree=True), dtype=np.float64)))
                if not close(g, tot, 1e-9):
                    fails.append('row %d flux = %r Jy, the pixels sum to %r Jy' % (s.idx, g, tot))
    with warnings.catch_warnings():
        warnings.simplefilter('ignore')
        want0 = expected_row(first, shape, metadata, cls, flds, [])
    for f in flds:
        cu = str(cat[f].unit) if cat[f].unit is not None else ''
        if cu != want0[f][1]:
            fails.append('column %s carries unit %r, the statistic has %r' % (f, cu, want0[f][1]))
    return fails


def explore(ctx):
    rng = ctx.rng('c12')
    import sys, os
    unwrap_terms = []
    n = 90 if ctx.quick else 900
    md_pp = [{'data_unit': u.Jy}, {'data_unit': u.Jy, 'spatial_scale': 2 * u.arcsec},
             {'data_unit': u.MJy / u.sr, 'spatial_scale': 0.5 * u.deg}]
    md_ppv = [{'data_unit': u.Jy}, {'data_unit': u.Jy, 'spatial_scale': 2 * u.arcsec, 'velocity_scale': 2 * u.km / u.s, 'vaxis': 0},
              {'data_unit': u.Jy, 'vaxis': 1}, {'data_unit': u.Jy, 'vaxis': 2, 'velocity_scale': 500 * u.m / u.s}]
    for it in range(n):
        ppv = rng.random() < 0.5
        shape = [rng.randint(2, 4), rng.randint(3, 6), rng.randint(3, 6)] if ppv else [rng.randint(3, 7), rng.randint(3, 7)]
        npx = gen.nprod(shape)
        vals = list(range(1, npx + 1))
        rng.shuffle(vals)
        if rng.random() < 0.4:
            vals = [v // 2 + 1 for v in vals]
        per_ = [rng.random() < 0.5 for _ in shape] if rng.random() < 0.5 else [False] * len(shape)
        c = {'shape': shape, 'vals': vals, 'scale': 0, 'dtype': 'float64', 'adj': ['grid', per_],
             'minv': rng.choice([0, npx // 4]), 'delta': 0, 'npix': [rng.choice([0, 2]), 1], 'crit': []}
        if rng.random() < 0.25:
            # single / half precision pixels that are not short binary fractions (sevenths)
            c['dtype'], c['den'] = rng.choice(['float32', 'float32', 'float16']), 7
            c['minv'] = c['minv'] * 7
        try:
            d = impl.run_compute(c)
            kind = 'computed'
            if rng.random() < 0.4:
                d.prune(**dc.prune_kwargs(c, {'delta': rng.randint(1, 4) * (c.get('den') or 1), 'npix': [rng.randint(0, 3), 1]}))
                kind = 'pruned'
            if rng.random() < 0.3:
                d = dc.save_load(d, 'hdf5' if c['dtype'] == 'float16' else rng.choice(['hdf5', 'fits']))   # FITS has no half floats
                kind += '+loaded'
        except Exception as e:
            ctx.oracle_failure(c, ['building the dendrogram raised %r' % (e,)])
            continue
        if len(d) == 0:
            continue
        metadata = dict(rng.choice(md_ppv if ppv else md_pp))
        allf = PPV_FIELDS if ppv else PP_FIELDS
        mode = rng.choice(['default', 'subset', 'subset', 'centroids'])
        if mode == 'default':
            fields = None
        elif mode == 'centroids':
            fields = [f for f in ('x_cen', 'y_cen', 'v_cen') if f in allf]
            rng.shuffle(fields)
            fields = fields[:rng.randint(1, len(fields))]
        else:
            fields = rng.sample(allf, rng.randint(1, 3))
        what = rng.choice(['dendrogram', 'list', 'list-shuffled'])
        structures = d
        if what != 'dendrogram':
            structures = list(d._structures_dict.values())
            if what == 'list-shuffled':
                rng.shuffle(structures)
                structures = structures[:max(1, rng.randint(1, len(structures)))]
        info = {'case': c, 'kind': kind, 'ppv': ppv, 'fields': fields, 'metadata': str(metadata), 'structures': what}
        try:
            # a plain list has no .data: no un-wrapping is attempted for it
            sh = shape if what == 'dendrogram' else None
            if sh is None:
                fails = check_catalog(ctx, d, structures, [10 ** 9] * len(shape), metadata, fields, ppv, rng.random() < 0.3, info, [])
            else:
                fails = check_catalog(ctx, d, structures, shape, metadata, fields, ppv, rng.random() < 0.3, info, unwrap_terms)
        except Exception as e:
            fails = ['catalog raised %r' % (e,)]
        ctx.count('catalog=%s/%s' % ('ppv' if ppv else 'pp', what))
        key = (tuple(vals), tuple(shape), str(fields), what, kind) if len(list(structures)) >= 3 else None
        ctx.case_done(c, key, sample=info if key else None)
        if fails:
            ctx.oracle_failure(info, fails[:6])
    periodic_shifts(ctx, unwrap_terms)
    periodic_shifts_ppv(ctx)
    independent_rows(ctx)
    handmade_structures(ctx)
    empty_catalogs(ctx)
    terms = ['(%s, %s, %s)' % (cz(n_), clist(l), clist(un)) for n_, l, un in unwrap_terms]
    # distinct terms only
    terms = sorted(set(terms))
    mism, errs = common.run_coq_shards('c12_unwrap', HEADER, terms, 'mismatches unwrap_ok', shard=400, ctype='unwrap_case')
    ctx.errors.extend(errs)
    ctx.notes['unwrap cases tied'] = len(terms)
    for i in mism[:5]:
        ctx.tie_mismatch('un-wrap heuristic (Catalog.unwrap)', {'term': terms[i]}, None, None)


def independent_rows(ctx):
    """Rows checked without the statistic classes: centroids through rotated / projected / distorted WCS against the
    transformed mean pixel position; Jy/beam fluxes against the textbook conversion with beam and pixel sizes given in
    different angular units; one long periodic axis (129..300 pixels) with a structure across its ends."""
    import math
    from . import wcs_common as wc
    rng = ctx.rng('c12-independent')
    for it in range(40 if ctx.quick else 400):
        shape = (rng.randint(4, 8), rng.randint(4, 8))
        vals = list(range(1, shape[0] * shape[1] + 1))
        rng.shuffle(vals)
        arr = np.array(vals, dtype=float).reshape(shape)
        info = {'stream': 'independent rows', 'shape': list(shape), 'data': vals}
        fails = []
        try:
            d = Dendrogram.compute(arr, min_value=rng.choice([0, 5]), min_npix=rng.choice([0, 2]))
            w, expect, desc = rng.choice([wc.rotated_linear, lambda r: wc.celestial(r, False), lambda r: wc.celestial(r, True)])(rng)
            info['wcs'] = desc
            with warnings.catch_warnings():
                warnings.simplefilter('ignore')
                cat = pp_catalog(d, {'data_unit': u.Jy, 'wcs': w}, fields=rng.choice([['x_cen', 'y_cen'], None]), verbose=False)
            for r in cat:
                s_ = d[int(r['_idx'])]
                cy, cx = wc.centroid(s_)
                e = expect([cx, cy])
                if not (close(float(r['x_cen']), e[0], 1e-9) and close(float(r['y_cen']), e[1], 1e-9)):
                    fails.append('row %d: (x_cen, y_cen) = (%r, %r) through a WCS with %s; the transformed mean pixel position is (%r, %r)'
                                 % (s_.idx, float(r['x_cen']), float(r['y_cen']), desc, float(e[0]), float(e[1])))
                    break
            ctx.count('independent_wcs=' + desc.split(' rotated')[0])
            # surface brightness per beam: beam in one angular unit, pixel in another
            ss = rng.choice([2.0, 7.2, 0.5]) * rng.choice([u.arcsec, u.arcmin])
            bmaj = rng.choice([0.002, 0.01, 0.05]) * rng.choice([u.deg, u.arcmin])
            bmin = bmaj * rng.choice([1.0, 0.5])
            with warnings.catch_warnings():
                warnings.simplefilter('ignore')
                cat = pp_catalog(d, {'data_unit': u.Jy / u.beam, 'spatial_scale': ss, 'beam_major': bmaj, 'beam_minor': bmin},
                                 fields=['flux'], verbose=False)
            pix = ss.to(u.deg).value ** 2
            beam = math.pi / (4 * math.log(2)) * bmaj.to(u.deg).value * bmin.to(u.deg).value
            for r in cat:
                s_ = d[int(r['_idx'])]
                want = float(np.sum(s_.values(subtree=True))) * pix / beam
                if str(cat['flux'].unit) != 'Jy' or not close(float(r['flux']), want, 1e-4):      # the code rounds pi/(4 ln 2) to 1.1331
                    fails.append('row %d: flux %r %s for Jy/beam pixels of %s and a %s x %s beam; sum x pixel area / beam area = %r Jy'
                                 % (s_.idx, float(r['flux']), cat['flux'].unit, ss, bmaj, bmin, want))
                    break
            ctx.count('independent_jy_per_beam')
            # the caller's metadata dictionary edited between two catalogs (another pixel scale, another data unit):
            # the second catalog is that of the edited metadata
            mdd = {'data_unit': u.Jy, 'spatial_scale': 2 * u.arcsec}
            with warnings.catch_warnings():
                warnings.simplefilter('ignore')
                c1 = pp_catalog(d, mdd, fields=['major_sigma', 'flux'], verbose=False)
                if rng.random() < 0.5:
                    mdd['spatial_scale'] = 2 * u.arcmin
                else:
                    mdd['data_unit'] = u.mJy
                c2 = pp_catalog(d, mdd, fields=['major_sigma', 'flux'], verbose=False)
                c3 = pp_catalog(d, dict(mdd), fields=['major_sigma', 'flux'], verbose=False)
            for f in ('major_sigma', 'flux'):
                if str(c2[f].unit) != str(c3[f].unit) or not np.allclose(np.asarray(c2[f], dtype=float), np.asarray(c3[f], dtype=float), rtol=1e-12, atol=0, equal_nan=True):
                    fails.append('column %s of a catalog made after the metadata dictionary was edited to %s: %s %s; with a new dictionary of the same content: %s %s'
                                 % (f, {k_: str(v_) for k_, v_ in mdd.items()}, list(c2[f])[:3], c2[f].unit, list(c3[f])[:3], c3[f].unit))
            ctx.count('metadata_edited_between_catalogs')
        except Exception as e:
            fails.append('raised %r' % (e,))
        ctx.case_done(None, ('independent', it))
        if fails:
            ctx.oracle_failure(info, fails)
    for it in range(6 if ctx.quick else 60):
        n = rng.choice([rng.randint(129, 255), rng.randint(236, 255), rng.randint(236, 255), rng.randint(256, 300)])
        ny = rng.randint(2, 3)
        wdt = rng.randint(3, 6) if n < 236 else rng.randint(22, 30)      # un-wrapped columns run up to n + wdt - 3
        blob = [[rng.randint(3, 40) for _ in range(wdt)] for _ in range(ny)]
        info = {'stream': 'long periodic axis', 'axis_length': n, 'blob': blob}
        rows = {}
        fails = []
        try:
            for x0 in (n // 2, n - 2, n - wdt + 1, 0):
                arr = np.zeros((ny, n))
                for y in range(ny):
                    for k in range(wdt):
                        arr[y, (x0 + k) % n] = blob[y][k]
                d = Dendrogram.compute(arr, min_value=1, neighbours=periodic_neighbours(1))
                with warnings.catch_warnings():
                    warnings.simplefilter('ignore')
                    cat = pp_catalog(d, {'data_unit': u.Jy}, fields=['major_sigma', 'minor_sigma', 'x_cen', 'y_cen', 'flux'], verbose=False)
                tr = [r for r in cat if d[int(r['_idx'])].parent is None]
                if len(tr) != 1:
                    fails.append('blob at %d: %d trunk rows' % (x0, len(tr)))
                    break
                r = tr[0]
                rows[x0] = (float(r['major_sigma']), float(r['minor_sigma']), (float(r['x_cen']) - x0) % n, float(r['y_cen']), float(r['flux']))
            ref = rows.get(n // 2)
            for x0, row in rows.items():
                if not all(abs(a_ - b_) < 1e-6 for a_, b_ in zip(row, ref)):
                    fails.append('the same blob placed at column %d of a periodic axis of length %d has (major, minor, x_cen - start, y_cen, flux) = %s; '
                                 'in the middle of the axis %s' % (x0, n, row, ref))
                    break
        except Exception as e:
            fails.append('raised %r' % (e,))
        ctx.count('long_periodic_axis')
        ctx.case_done(None, ('long-axis', it))
        if fails:
            ctx.oracle_failure(info, fails)


def handmade_structures(ctx):
    """Catalogs of plain lists of Structure objects that belong to no indexed dendrogram (a tree put together by hand from
    another segmentation): every row against the statistics of the pooled pixel lists, computed here."""
    from astrodendro.structure import Structure
    rng = ctx.rng('c12-handmade')
    for it in range(40 if ctx.quick else 400):
        # random tree shape over 3..7 structures, each with 1..4 own pixels at distinct positions
        nstruct = rng.randint(3, 7)
        kids = {i: [] for i in range(nstruct)}
        for i in range(1, nstruct):
            kids[rng.randrange(i)].append(i)
        cells = [(y, x) for y in range(8) for x in range(8)]
        rng.shuffle(cells)
        pix = {}
        for i in range(nstruct):
            npx = rng.randint(1, 4)
            pix[i] = ([cells.pop() for _ in range(npx)], [rng.randint(1, 40) / 4.0 for _ in range(npx)])
        objs = {}
        for i in reversed(range(nstruct)):
            ch = [objs[c] for c in kids[i]]
            objs[i] = Structure(list(pix[i][0]), list(pix[i][1]), children=ch, idx=i) if ch else Structure(list(pix[i][0]), list(pix[i][1]), idx=i)

        def members(i):
            out = [i]
            for c in kids[i]:
                out += members(c)
            return out
        order = list(range(nstruct))
        rng.shuffle(order)
        info = {'stream': 'hand-made structures', 'children': kids, 'pixels': {i: [list(map(list, pix[i][0])), pix[i][1]] for i in pix}}
        fails = []
        try:
            with warnings.catch_warnings():
                warnings.simplefilter('ignore')
                cat = pp_catalog([objs[i] for i in order], {'data_unit': u.Jy}, fields=['flux', 'x_cen', 'y_cen', 'major_sigma', 'minor_sigma', 'area_exact'], verbose=False)
            if [int(x) for x in cat['_idx']] != list(range(nstruct)):
                fails.append('_idx column %s' % list(cat['_idx']))
            for r in cat:
                i = int(r['_idx'])
                yx = np.array([p_ for m_ in members(i) for p_ in pix[m_][0]], dtype=float)
                w = np.array([v_ for m_ in members(i) for v_ in pix[m_][1]], dtype=float)
                cen = (yx * w[:, None]).sum(0) / w.sum()
                dd = yx - cen
                cov = (dd[:, :, None] * dd[:, None, :] * w[:, None, None]).sum(0) / w.sum()
                ev = np.linalg.eigvalsh(cov)
                want = {'flux': w.sum(), 'y_cen': cen[0], 'x_cen': cen[1], 'area_exact': float(len(w)),
                        'major_sigma': float(np.sqrt(max(ev[1], 0))), 'minor_sigma': float(np.sqrt(max(ev[0], 0)))}
                for k_, v_ in want.items():
                    tol = 1e-6 * max(1.0, float(np.sqrt(max(ev[1], 0)))) if 'sigma' in k_ else 1e-9 * max(1.0, abs(v_))
                    if abs(float(r[k_]) - v_) > tol:
                        fails.append('structure %d: %s = %r, from its pixel lists %r' % (i, k_, float(r[k_]), float(v_)))
        except Exception as e:
            fails.append('raised %r' % (e,))
        ctx.count('handmade_structure_catalogs')
        ctx.case_done(None, ('handmade', it))
        if fails:
            ctx.oracle_failure(info, fails[:4])


def empty_catalogs(ctx):
    fails = []
    for fn, shape, flds in ((pp_catalog, (3, 3), PP_FIELDS), (ppv_catalog, (2, 3, 3), PPV_FIELDS)):
        d = Dendrogram.compute(np.ones(shape), min_value=5)
        for fields in (None, flds[:2]):
            try:
                with warnings.catch_warnings():
                    warnings.simplefilter('ignore')
                    cat = fn(d, {'data_unit': u.Jy}, fields=fields, verbose=False)
                if len(cat) != 0 or sorted(cat.colnames) != sorted((fields or flds) + ['_idx']):
                    fails.append('catalog of an empty dendrogram has %d rows, columns %s' % (len(cat), cat.colnames))
            except Exception as e:
                fails.append('catalog of a dendrogram without structures raised %r' % (e,))
    ctx.case_done(None, ('empty',))
    if fails:
        ctx.oracle_failure({'stream': 'empty dendrogram'}, fails)


def periodic_shifts(ctx, unwrap_terms):
    """A structure narrower than half the axis keeps its shape statistics under every cyclic shift."""
    rng = ctx.rng('c12-shift')
    for it in range(25 if ctx.quick else 250):
        two_axes = rng.random() < 0.5
        shape = (rng.randint(7, 10), rng.randint(7, 11))
        base = np.zeros(shape)
        # a few blobs, each narrower than half of either axis
        blobs = []
        for b in range(rng.randint(1, 2)):
            h, w = rng.randint(1, (shape[0] - 1) // 2 - 1), rng.randint(1, (shape[1] - 1) // 2 - 1)
            y0, x0 = rng.randint(0, shape[0] - 1), rng.randint(0, shape[1] - 1)
            for dy in range(h + 1):
                for dx in range(w + 1):
                    if rng.random() < 0.8 or (dy, dx) in ((0, 0), (h, w)):
                        base[(y0 + dy) % shape[0], (x0 + dx) % shape[1]] = 1          # filled in below with distinct values
        nz = np.flatnonzero(base)
        vals_ = list(range(3, 3 + len(nz)))
        rng.shuffle(vals_)
        base.ravel()[nz] = vals_
        per = [0, 1] if two_axes else [1]
        md = {'data_unit': u.Jy}
        fields = ['major_sigma', 'minor_sigma', 'radius', 'area_ellipse', 'area_exact', 'x_cen', 'y_cen']
        ref = None
        fails = []
        for sy in (range(shape[0]) if two_axes else [0]):
            for sx in range(shape[1]):
                arr = np.roll(np.roll(base, sy, axis=0), sx, axis=1)
                try:
                    d = Dendrogram.compute(arr, min_value=1, neighbours=periodic_neighbours(per))
                    with warnings.catch_warnings():
                        warnings.simplefilter('ignore')
                        cat = pp_catalog(d, md, fields=fields, verbose=False)
                except Exception as e:
                    fails.append('shift (%d,%d): raised %r' % (sy, sx, e))
                    break
                rows = []
                for r in cat:
                    s = d[int(r['_idx'])]
                    # the guarantee is for structures narrower than half of every periodic axis
                    narrow = True
                    for ax in per:
                        cs = sorted(set(int(x) for x in s.indices(subtree=True)[ax]))
                        gaps = [(cs[(i + 1) % len(cs)] - cs[i]) % shape[ax] for i in range(len(cs))] if len(cs) > 1 else [shape[ax]]
                        extent = shape[ax] - max(gaps) if len(cs) > 1 else 0
                        if not 2 * (extent + 1) < shape[ax]:
                            narrow = False
                    if not narrow:
                        continue
                    for a_, n_ in zip(s.indices(subtree=True), shape):
                        l = [int(x) for x in a_]
                        unwrap_terms.append((n_, l, py_unwrap(n_, l)))
                    rows.append(tuple(round(float(r[f]), 7) for f in fields[:5]) +
                                (round((float(r['x_cen']) - sx) % shape[1], 6) % shape[1], round((float(r['y_cen']) - sy) % shape[0], 6) % shape[0]))
                rows = sorted(rows)
                ctx.count('periodic_shifts')
                # a field means the same whichever other fields are requested with it
                sub = rng.choice([['x_cen'], ['y_cen'], ['y_cen', 'x_cen'], ['area_exact', 'x_cen']])
                with warnings.catch_warnings():
                    warnings.simplefilter('ignore')
                    cat2 = pp_catalog(d, md, fields=sub, verbose=False)
                for f in sub:
                    if not np.allclose(np.asarray(cat2[f], dtype=float), np.asarray(cat[f], dtype=float), rtol=1e-9, atol=1e-9):
                        fails.append('shift (%d,%d): column %s differs when requested as part of %s' % (sy, sx, f, sub))
                if fails:
                    break
                if ref is None:
                    ref = rows
                elif len(rows) != len(ref) or any(not all(abs(a - b) < 1e-5 or abs(abs(a - b) - n_) < 1e-5 for a, b, n_ in zip(x, y, [1e18] * 5 + [shape[1], shape[0]])) for x, y in zip(rows, ref)):
                    fails.append('shift (%d,%d): shape statistics / shifted centroids %s differ from the unshifted ones %s' % (sy, sx, rows, ref))
                    break
            if fails:
                break
        ctx.case_done(None, ('shift', it))
        if fails:
            ctx.oracle_failure({'stream': 'periodic shifts', 'shape': list(shape), 'periodic_axes': per, 'data': base.tolist()}, fails)


def periodic_shifts_ppv(ctx):
    """A cube that is periodic along its velocity axis (whichever array axis that is): a structure narrower than half
    that axis keeps v_rms and its sky statistics under every cyclic shift along it, and v_cen moves along."""
    rng = ctx.rng('c12-shift-ppv')
    for it in range(12 if ctx.quick else 120):
        vaxis = rng.randrange(3)
        nv, ny, nx = rng.randint(7, 10), rng.randint(3, 4), rng.randint(3, 5)
        base = np.zeros((nv, ny, nx))
        ext = rng.randint(1, (nv - 1) // 2 - 1)
        v0 = rng.randrange(nv)
        for dv in range(ext + 1):
            for y in range(ny):
                for x in range(nx):
                    if rng.random() < 0.5 or (dv in (0, ext) and (y, x) == (1, 1)):
                        base[(v0 + dv) % nv, y, x] = 1
        nz = np.flatnonzero(base)
        vals_ = list(range(3, 3 + len(nz)))
        rng.shuffle(vals_)
        base.ravel()[nz] = vals_
        cube = np.moveaxis(base, 0, vaxis)            # velocity axis at array position vaxis
        md = {'data_unit': u.Jy, 'vaxis': vaxis}
        fields = ['v_rms', 'major_sigma', 'minor_sigma', 'area_exact', 'x_cen', 'y_cen', 'v_cen']
        ref, fails = None, []
        for k in range(nv):
            arr = np.ascontiguousarray(np.roll(cube, k, axis=vaxis))
            try:
                d = Dendrogram.compute(arr, min_value=1, neighbours=periodic_neighbours(vaxis))
                with warnings.catch_warnings():
                    warnings.simplefilter('ignore')
                    cat = ppv_catalog(d, md, fields=fields, verbose=False)
            except Exception as e:
                fails.append('shift %d: raised %r' % (k, e))
                break
            rows = []
            for r in cat:
                s = d[int(r['_idx'])]
                cs = sorted(set(int(x) for x in s.indices(subtree=True)[vaxis]))
                gaps = [(cs[(i + 1) % len(cs)] - cs[i]) % nv for i in range(len(cs))] if len(cs) > 1 else [nv]
                extent = nv - max(gaps) if len(cs) > 1 else 0
                if not 2 * (extent + 1) < nv:
                    continue
                rows.append(tuple(round(float(r[f]), 7) for f in fields[:6]) + (round((float(r['v_cen']) - k) % nv, 6) % nv,))
            rows = sorted(rows)
            ctx.count('periodic_shifts_ppv')
            if ref is None:
                ref = rows
            elif len(rows) != len(ref) or any(not all(abs(a - b) < 1e-5 or abs(abs(a - b) - n_) < 1e-5
                                                      for a, b, n_ in zip(x, y, [1e18] * 6 + [nv])) for x, y in zip(rows, ref)):
                fails.append('shift %d along the periodic velocity axis (array axis %d): statistics / shifted v_cen %s differ from the '
                             'unshifted ones %s' % (k, vaxis, rows, ref))
                break
        ctx.case_done(None, ('shift-ppv', it))
        if fails:
            ctx.oracle_failure({'stream': 'periodic shifts ppv', 'vaxis': vaxis, 'shape': list(cube.shape), 'data': cube.tolist()}, fails)


def matches_known(k, case, fails, extra):
    return False


def replay(path):
    import json
    r = json.load(open(path))
    print(json.dumps(r, indent=1)[:4000])
    return 1
