"""Tie of the neighbour functions (Dendrogram.neighbours, periodic_neighbours) resolved through
the padded label map against Grid.v's nbrs, on every pixel of every small shape."""
import itertools
import numpy as np
from .. import common, impl, oracles
from ..common import clist, cbool

HEADER = """From Coq Require Import ZArith List Bool.
From Dendro Require Import Base Grid Corr.
Import ListNotations.
Open Scope Z_scope.
Definition nb_ok (c : list Z * list bool * list (list Z)) : bool :=
  let '(shape, per, tb) := c in
  list_eqb (list_eqb Z.eqb) (map (fun p => sort_by (fun x => x) (nbrs shape per p)) (zseq (length tb))) tb.
"""


def neighbour_tie(ctx, max_len=3):
    shapes = []
    for nd in (1, 2, 3, 4):
        for shape in itertools.product(range(1, max_len + 1), repeat=nd):
            if nd == 4 and max(shape) > 2 and ctx.quick:
                continue
            shapes.append(list(shape))
    shapes += [[5], [7], [6, 2], [2, 5], [1, 5, 1]]
    terms, meta = [], []
    for shape in shapes:
        pers = list(itertools.product([False, True], repeat=len(shape)))
        if len(pers) > 8 and ctx.quick:
            pers = pers[::3]
        for per in pers:
            case = {'shape': shape, 'adj': ['grid', list(per)]}
            if any(per):
                table = impl.adjacency_table(case)
            else:
                # default Dendrogram.neighbours resolved through the padding
                class D: pass
                from astrodendro import Dendrogram
                dd = D(); dd.n_dim = len(shape)
                table = []
                for p in range(int(np.prod(shape))):
                    c = np.unravel_index(p, tuple(shape))
                    res = []
                    for q in Dendrogram.neighbours(dd, c):
                        q = tuple(int(x) if x >= 0 else int(x) + shape[i] + 1 for i, x in enumerate(q))
                        if all(0 <= x < shape[i] for i, x in enumerate(q)):
                            res.append(impl.ravel(shape, q))
                    table.append(res)
            table = [sorted(r) for r in table]
            ref = [sorted(r) for r in oracles.grid_neighbours(shape, list(per))]
            ctx.case_done(case, ('nb', tuple(shape), tuple(per)))
            ctx.count('neighbour_tables')
            if table != ref:
                ctx.oracle_failure({'shape': shape, 'periodic': list(per), 'stream': 'neighbours'},
                                   ['neighbour table of the implementation %s differs from +-1-in-one-axis adjacency %s' % (table, ref)])
            terms.append('(%s, %s, %s)' % (clist(shape), clist(per, cbool), clist(table, clist)))
            meta.append((shape, per, table))
    mism, errs = common.run_coq_shards(ctx.pid.lower() + '_nb', HEADER, terms, 'mismatches nb_ok', shard=400)
    ctx.errors.extend(errs)
    for i in mism[:3]:
        ctx.tie_mismatch('neighbour table (Grid.nbrs)', {'shape': meta[i][0], 'periodic': list(meta[i][1])}, meta[i][2], None)


def reused_adjacency_stream(ctx, n):
    """One periodic_neighbours object used for several arrays of different extents (and, between them, for the
    same array again): every run must equal the run with a fresh adjacency object for that array alone."""
    from astrodendro import Dendrogram
    from astrodendro.dendrogram import periodic_neighbours
    rng = ctx.rng('reused-adjacency')
    for _ in range(n):
        nd = rng.choice([1, 1, 2, 2, 3])
        axes = [a for a in range(nd) if rng.random() < 0.6] or [rng.randrange(nd)]
        arg = axes[0] if (len(axes) == 1 and rng.random() < 0.5) else axes
        if isinstance(arg, list) and rng.random() < 0.5:
            # the caller's work list: handed over, then edited (another axis appended, or emptied) - the adjacency
            # object keeps the axes it was made with
            work = list(arg)
            nb = periodic_neighbours(work)
            if rng.random() < 0.5:
                work.append(rng.randrange(nd))
            else:
                del work[:]
        else:
            nb = periodic_neighbours(arg)
        history = []
        for step in range(rng.randint(2, 4)):
            shape = [rng.randint(1, 9) if nd == 1 else rng.randint(1, 5) for _ in range(nd)]
            if step and rng.random() < 0.3:
                shape = history[rng.randrange(len(history))]['shape']
            npix = int(np.prod(shape))
            vals = list(range(1, npix + 1))
            rng.shuffle(vals)
            if rng.random() < 0.4:
                vals = [v // 2 for v in vals]
            arr = np.array(vals, dtype=float).reshape(shape)
            minv = float(rng.choice([0, 0, npix // 3]))
            history.append({'shape': shape, 'vals': vals, 'min_value': minv})
            d1 = d2 = None                     # earlier dendrograms are gone (their addresses may be reused)
            import gc
            gc.collect()
            try:
                d1 = Dendrogram.compute(arr, min_value=minv, neighbours=nb)
                d2 = Dendrogram.compute(arr.copy(), min_value=minv, neighbours=periodic_neighbours(arg))
            except Exception as e:
                ctx.oracle_failure({'stream': 'reused-adjacency', 'axes': arg, 'history': history}, ['compute raised %r' % (e,)])
                break
            ctx.count('reused_adjacency_runs')
            ctx.case_done(None, ('reuse', tuple(shape), tuple(vals), str(arg)) if len(d2) >= 3 else None)
            h1, h2 = impl.impl_hierarchy(d1, tuple(shape)), impl.impl_hierarchy(d2, tuple(shape))
            if h1 != h2 or d1.index_map.tolist() != d2.index_map.tolist():
                ctx.oracle_failure({'stream': 'reused-adjacency', 'axes': arg, 'history': history},
                                   ['with a periodic_neighbours object used before for other arrays the hierarchy is %s, with a '
                                    'fresh one %s' % (h1, h2)])
                break
