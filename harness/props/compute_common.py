"""Shared exploration for the properties decided on the compute model
(C01-C05): generate cases, run /repo, evaluate the property oracle, run the tie
against the Coq model."""
import itertools
from .. import common, impl, gen, tie, oracles, pymodel
from ..common import cz


def nontrivial_key(case, obs):
    return (tuple(case['shape']), tuple(case['vals']), case.get('minv'), case.get('delta'), tuple(case.get('npix', [0, 1])),
            str(case.get('crit')), str(case['adj']))


def is_nontrivial(obs):
    return len(obs['structs']) >= 2


def exhaustive_cases(ctx, npix_perm, alpha_cells):
    """All value orderings on every grid shape with up to npix_perm cells, and all
    3-letter arrays on shapes with up to alpha_cells cells (default parameters and a
    few boundary parameter sets)."""
    out = []
    for n in range(1, npix_perm + 1):
        for shape in gen.shapes_with(n):
            for vals in gen.all_orderings(shape):
                out.append({'shape': shape, 'vals': vals, 'scale': 0, 'dtype': 'float64',
                            'adj': ['grid', [False] * len(shape)], 'minv': None, 'delta': 0, 'npix': [0, 1], 'crit': []})
    rng = ctx.rng('exh')
    for n in range(2, alpha_cells + 1):
        for shape in gen.shapes_with(n):
            for vals in gen.all_alphabet(shape, 3):
                delta = rng.choice([0, 0, 1, 2])
                npx = rng.choice([[0, 1], [0, 1], [2, 1], [3, 2]])
                per = [rng.random() < 0.3 for _ in shape]
                out.append({'shape': shape, 'vals': vals, 'scale': 0, 'dtype': 'float64',
                            'adj': ['grid', per], 'minv': rng.choice([None, None, 1]), 'delta': delta, 'npix': npx, 'crit': []})
    return out


def explore_compute(ctx, oracle, n_random_quick=2500, n_random_thorough=25000, exhaustive=None,
                    case_filter=None, extra_cases=None, projection='compute (order, label map, structures)'):
    rng = ctx.rng('random')
    cases = []
    # corpus of minimised past failures runs first
    cases.extend(load_corpus(ctx.pid))
    if extra_cases:
        cases.extend(extra_cases)
    if exhaustive:
        cases.extend(exhaustive_cases(ctx, *exhaustive))
    n = n_random_quick if ctx.quick else n_random_thorough
    for _ in range(n):
        c = gen.rand_case(rng)
        if case_filter and not case_filter(c):
            continue
        cases.append(c)
    good_cases, observations = [], []
    for c in cases:
        try:
            d, obs = impl.compute_obs(c)
        except Exception as e:
            ctx.oracle_failure(c, ['implementation raised %r' % (e,)])
            continue
        ctx.count('ndim=%d' % len(c['shape']))
        ctx.count('adj=%s' % (c['adj'][0] if c['adj'][0] != 'grid' else ('periodic' if any(c['adj'][1]) else 'default')))
        ctx.count('structures=%s' % (len(obs['structs']) if len(obs['structs']) < 6 else '6+'))
        ctx.count('ties' if len(set(v for v in c['vals'] if v is not None)) < sum(1 for v in c['vals'] if v is not None) else 'distinct')
        if c.get('crit'):
            ctx.count('user_criteria')
        fails = oracle(c, d) if oracle else []
        if fails:
            ctx.oracle_failure(c, fails)
        ctx.case_done(c, nontrivial_key(c, obs) if is_nontrivial(obs) else None,
                      sample={'case': {k: v for k, v in c.items() if k != 'adj_table'}, 'observed': obs} if is_nontrivial(obs) else None)
        good_cases.append(c)
        observations.append(obs)
    mism, errs = tie.run_compute_tie(ctx.pid.lower() + '_tie', good_cases, observations)
    ctx.errors.extend(errs)
    for i in mism[:5]:
        ctx.tie_mismatch(projection, {k: v for k, v in good_cases[i].items() if k != 'adj_table'}, observations[i],
                         tie.model_compute_view(good_cases[i], ctx.pid.lower() + '_dump'))
    for i in mism[5:]:
        ctx.tie_mismatch(projection, good_cases[i], None, None)
    return good_cases, observations


def load_corpus(pid):
    import os, json, glob
    out = []
    for p in sorted(glob.glob(os.path.join(common.CORPUS, pid + '-*.json'))) + sorted(glob.glob(os.path.join(common.CORPUS, 'compute-*.json'))):
        try:
            out.append(json.load(open(p))['case'])
        except Exception:
            pass
    return out


def shrink_compute(case, predicate, budget=60):
    """Greedy shrinking of a compute case: blank pixels (NaN), zero parameters, drop
    criteria, lower values; keeps a change whenever `predicate(case)` still holds."""
    import copy
    cur = copy.deepcopy(case)
    cur.pop('adj_table', None)
    tries = 0

    def attempt(c):
        nonlocal tries, cur
        if tries >= budget:
            return False
        tries += 1
        try:
            if predicate(c):
                cur = c
                return True
        except Exception:
            pass
        return False
    for key, val in (('crit', []), ('delta', 0), ('npix', [0, 1])):
        if cur.get(key) != val:
            c = copy.deepcopy(cur)
            c[key] = val
            c.pop('crit_single', None)
            attempt(c)
    changed = True
    while changed and tries < budget:
        changed = False
        for i in range(len(cur['vals'])):
            if cur['vals'][i] is not None and sum(v is not None for v in cur['vals']) > 1:
                c = copy.deepcopy(cur)
                c['vals'][i] = None
                if attempt(c):
                    changed = True
    return cur


def float_reference_hierarchy(case, order_pixels=None):
    """The documented construction evaluated in IEEE double arithmetic (Python floats):
    reference for data that is not integer-scaled (decimal fractions)."""
    den = float(case.get('den') or 2 ** case.get('scale', 0))
    fc = dict(case)
    fc['vals'] = [None if v is None else v / den for v in case['vals']]
    fc['minv'] = None if case.get('minv') is None else case['minv'] / den
    fc['delta'] = case.get('delta', 0) / den
    fc['crit'] = [[c[0], c[1] / den] if c[0] in ('peak', 'sum') else c for c in case.get('crit', [])]
    adj = oracles.ref_adjacency(case)
    if order_pixels is not None:
        order = [(p, fc['vals'][p]) for p in order_pixels]
    else:
        order = None
    trunk = pymodel.compute(fc, adj, order)
    return pymodel.hierarchy(trunk)


def decimal_stream(ctx, n, oracle=None, sum_negative=False):
    """Cases with decimal-fraction data and parameters (tenths): compared with the documented
    construction evaluated in double arithmetic, on the recorded order."""
    rng = ctx.rng('decimal' + ('-sum' if sum_negative else ''))
    for _ in range(n):
        c = gen.rand_case(rng, maxpix=16, scale=0, dtype='float64')
        c['den'] = rng.choice([10, 10, 5, 3, 100])
        # sums of decimal fractions depend on the summation order (np.nansum vs any reference):
        # min_sum is only exercised on exactly representable data
        c['crit'] = [x for x in c.get('crit', []) if x[0] != 'sum']
        if sum_negative:
            c['den'] = 1
            vals = [v for v in c['vals']]
            c['vals'] = [None if v is None else (v - rng.randint(0, 6)) for v in vals]
            nums = [v for v in c['vals'] if v is not None]
            c['minv'] = min(nums) - 1
            c['crit'] = [['sum', rng.randint(-2, 12)]]
            c['delta'] = 0
            c['npix'] = [0, 1]
        try:
            d, obs = impl.compute_obs(c)
        except Exception as e:
            ctx.oracle_failure(c, ['implementation raised %r' % (e,)])
            continue
        ih = impl.impl_hierarchy(d, tuple(c['shape']))
        rh = float_reference_hierarchy(c, obs['order'])
        ctx.count('decimal_stream' + ('/min_sum-negative' if sum_negative else ''))
        ctx.case_done(c, cc_key(c) if len(obs['structs']) >= 2 else None)
        if ih != rh:
            ctx.oracle_failure(c, ['hierarchy differs from the documented construction evaluated in double arithmetic on the same order: impl %s, reference %s' % (ih, rh)])
        elif oracle:
            fails = oracle(c, d)
            if fails:
                ctx.oracle_failure(c, fails)


def cc_key(c):
    return ('dec', tuple(c['shape']), tuple(c['vals']), c.get('den'), c.get('minv'), c.get('delta'), str(c.get('crit')), str(c['adj']))


def reused_criteria_stream(ctx, n):
    """The caller's list of criteria is the caller's: the same list object handed to two computes (the first with
    stricter built-in parameters) gives, the second time, what a fresh list gives, and comes back unchanged."""
    import numpy as np
    from astrodendro import Dendrogram
    rng = ctx.rng('reused-criteria')
    for it in range(n):
        c = gen.rand_case(rng, maxpix=30, allow_user=True)
        if not c.get('crit'):
            c['crit'] = [['peak', max([v for v in c['vals'] if v is not None] or [1]) - 1]]
        c.pop('crit_single', None)
        shape = tuple(c['shape'])
        try:
            arr = impl.case_array(dict(c, layout='C'))
            kw = impl.compute_kwargs(c)
            fs = list(kw.pop('is_independent'))
            mine = list(fs)
            strict = dict(kw, min_delta=float(np.nanmax(arr)) + 1.0 if np.isfinite(arr).any() else 1.0, min_npix=arr.size + 1)
            Dendrogram.compute(arr.copy(), is_independent=mine, **strict)
            d2 = Dendrogram.compute(arr.copy(), is_independent=mine, **kw)
            ref = Dendrogram.compute(arr.copy(), is_independent=list(fs), **kw)
            fails = []
            if len(mine) != len(fs) or any(a is not b for a, b in zip(mine, fs)):
                fails.append('the list of criteria handed to compute came back with %d entries instead of %d' % (len(mine), len(fs)))
            h2, hr = impl.impl_hierarchy(d2, shape), impl.impl_hierarchy(ref, shape)
            if h2 != hr:
                fails.append('second compute with the same list object gives %s, a fresh list gives %s' % (h2, hr))
        except Exception as e:
            fails = ['raised %r' % (e,)]
        # the criteria as a tuple, and as one-shot iterables (a generator expression, map): if they are accepted at all,
        # they mean what the list means
        if not fails:
            try:
                # ... and criteria that answer with a count (e.g. the number of catalogue positions in the leaf) instead
                # of True / False: any non-zero count means yes
                counting = [(lambda f_: (lambda *a_, **k_: (2 if f_(*a_, **k_) else 0)))(f_) for f_ in fs]
                forms = [('tuple', tuple(fs)), ('generator', (f_ for f_ in fs)), ('map', map(lambda f_: f_, fs)),
                         ('list of criteria answering 2 / 0', counting)]
                for name, obj in forms:
                    try:
                        d3 = Dendrogram.compute(arr.copy(), is_independent=obj, **kw)
                    except TypeError:
                        continue                       # refusing such an argument is no violation
                    h3 = impl.impl_hierarchy(d3, shape)
                    if h3 != hr:
                        fails.append('criteria given as a %s give %s, as a list %s' % (name, h3, hr))
                        break
            except Exception as e:
                fails.append('raised %r' % (e,))
        ctx.count('reused_criteria_lists')
        ctx.case_done(None, ('reused-criteria', it))
        if fails:
            ctx.oracle_failure({'stream': 'criteria list reused', 'case': {k: v for k, v in c.items() if k != 'adj_table'}}, fails)


SENTINEL = 2 ** 200      # stands for +inf on the model side (ExtVal.v: the embedding keeps every comparison the loop makes)


def infinity_tie_stream(ctx, n, name):
    """Saturated pixels in the tie: the implementation runs on data with +inf, the Coq model on the same data with +inf
    replaced by a finite number far above everything else (2**200).  ExtVal.v proves that this embedding keeps every
    comparison the construction makes (order of the pixels, plateaus, rise >= min_delta with inf - inf counted as no rise,
    threshold); here the two runs are compared (order, label map, structures)."""
    import numpy as np
    rng = ctx.rng('infinity-tie')
    cases, model_cases, observations = [], [], []
    for it in range(n):
        c = gen.rand_case(rng, maxpix=24, dtype='float64', allow_user=False, scale=0)
        c.pop('layout', None)
        vals = list(c['vals'])
        k = rng.randint(1, max(1, len(vals) // 4))
        for j in rng.sample(range(len(vals)), min(k, len(vals))):
            vals[j] = float('inf')
        if not any(v is not None and v != float('inf') for v in vals):
            vals[0] = 1
        c['vals'] = vals
        if c.get('minv') is None:
            c['minv'] = min(v for v in vals if v is not None and v != float('inf')) - 1      # (the default ignores infinities too)
        try:
            d, obs = impl.compute_obs(c)
        except Exception as e:
            ctx.oracle_failure({k_: v_ for k_, v_ in c.items() if k_ != 'adj_table'}, ['implementation raised %r' % (e,)])
            continue
        ctx.count('infinity_tie_cases')
        ctx.case_done(None, ('inf-tie', it) if len(obs['structs']) >= 2 else None)
        cases.append(c)
        model_cases.append(dict(c, vals=[SENTINEL if v == float('inf') else v for v in vals]))
        observations.append(obs)
    mism, errs = tie.run_compute_tie(name, model_cases, observations)
    ctx.errors.extend(errs)
    for i in mism[:5]:
        show = dict(cases[i], vals=['inf' if v == float('inf') else v for v in cases[i]['vals']])
        ctx.tie_mismatch('compute with +inf pixels (model: +inf embedded as 2**200)', {k_: v_ for k_, v_ in show.items() if k_ != 'adj_table'},
                         observations[i], tie.model_compute_view(model_cases[i], name + '_dump'))


def rounding_tie(ctx, n, name):
    """Rounding.to_double (the conversion numpy applies when a 64-bit integer meets a double) against Python's
    float(int), on integers around the powers of two from 2**52 to 2**64, both signs, and on halfway cases."""
    rng = ctx.rng('rounding-tie')
    terms, meta = [], []
    for it in range(n):
        e = rng.randint(52, 63)
        kind = rng.random()
        if kind < 0.5:
            z = 2 ** e + rng.randint(-2 ** 12, 2 ** 12)
        elif kind < 0.8:
            z = rng.randint(2 ** 52, 2 ** 64 - 1)
        else:
            step = 2 ** max(0, e - 52)                    # spacing of doubles in [2**e, 2**(e+1))
            z = 2 ** e + step * rng.randint(0, 2 ** 10) + step // 2      # exactly halfway (ties to even)
        if rng.random() < 0.4:
            z = -z
        z = max(-2 ** 63, min(2 ** 64 - 1, z))
        terms.append('(%s, %s)' % (cz(z), cz(int(float(z)))))
        meta.append({'integer': z, 'float(integer)': int(float(z))})
        ctx.count('rounding_cases')
        ctx.case_done(None, ('rounding', z) if int(float(z)) != z else None)
    mism, errs = common.run_coq_shards(name, tie.HEADER, terms, 'mismatches rounding_ok', shard=500, ctype='rounding_case')
    ctx.errors.extend(errs)
    for i in mism[:5]:
        ctx.tie_mismatch('integer -> double conversion (Rounding.to_double vs float(int))', meta[i], meta[i]['float(integer)'], 'rounding_ok = false')
