"""C20 — dendrogram equality means same data, same parameters, same structures.
Known finding K5: __eq__ never looks at the other dendrogram's label map."""
import copy
import numpy as np
from fractions import Fraction
from .. import common, impl, gen, tie, oracles
from ..common import cz, clist, copt, cbool
from . import dendro_common as dc
from .c01 import ASSUMPTIONS, TRUSTED
from astrodendro import Dendrogram

RULE = ('pairs of dendrograms: same data with different parameters / criteria (incl. exactly one side 0), data differing in '
        'one pixel, different shapes holding the same values, NaN-masked data, computed vs loaded (both formats) vs pruned, '
        'min_value equal / different (incl. 0), non-dendrogram operands; both directions, == and !=; model deq on '
        '(shape, data, params, label map) must give the observed result; non-trivial = pair of two different objects')
EXPLANATION = ('Theorems in props/C20.v (deq mirrors __eq__; symmetric; false for non-dendrograms; sound for every clause '
               'except the partition clause; complete; partition clause refuted = K5; repaired variant) + tie + oracle')
HEADER = tie.HEADER.replace('Compute Corr.', 'Compute DEq Corr.')


class OffGrid(Exception):
    pass


def view(d, case):
    den = case.get('den') or 2 ** case.get('scale', 0)
    shape = list(d.data.shape)
    data = [None if (isinstance(x, float) and x != x) else tie.to_scaled(x, case) for x in np.asarray(d.data, dtype=float).ravel().tolist()]
    mv = Fraction(float(d.params['min_value'])) * den
    md = Fraction(float(d.params['min_delta'])) * den
    mn = Fraction(float(d.params['min_npix'])).limit_denominator(1000)
    if mv.denominator != 1 or md.denominator != 1:
        # bring to a common integer grid: scale everything by the denominators
        raise OffGrid()
    labels = [int(x) for x in d.index_map.ravel().tolist()]
    return {'shape': shape, 'data': data, 'minv': int(mv), 'delta': int(md), 'npix': (mn.numerator, mn.denominator), 'labels': labels}


def coq_view(v):
    return '{| v_shape := %s; v_data := %s; v_minv := %s; v_delta := %s; v_npix := (%s, %s); v_labels := %s |}' % (
        clist(v['shape']), clist(v['data'], copt), cz(v['minv']), cz(v['delta']), cz(v['npix'][0]), cz(v['npix'][1]), clist(v['labels']))


def partition(labels):
    m, out = {-1: -1}, []
    for x in labels:
        if x not in m:
            m[x] = len(m) - 1
        out.append(m[x])
    return out


def expected(va, vb):
    """The property: equal iff same shape, data (NaNs in place), min_value, compatible params, same partition."""
    same = va['shape'] == vb['shape'] and va['data'] == vb['data'] and va['minv'] == vb['minv']
    dcomp = va['delta'] == 0 or vb['delta'] == 0 or va['delta'] == vb['delta']
    ncomp = va['npix'][0] == 0 or vb['npix'][0] == 0 or va['npix'][0] * vb['npix'][1] == vb['npix'][0] * va['npix'][1]
    part = partition(va['labels']) == partition(vb['labels'])
    return same and dcomp and ncomp, part


def variants(rng, c):
    """Dendrograms related to case c in the ways the property enumerates."""
    out = []
    d = impl.run_compute(c)
    out.append(('base', c, d))
    # other parameters on the same data
    for _ in range(2):
        c2 = copy.deepcopy(c)
        nums, diffs = gen.value_steps(c['vals'])
        which = rng.choice(['delta', 'npix', 'minv', 'delta0', 'crit'])
        if which == 'delta':
            c2['delta'] = rng.choice(diffs) if diffs else 1
        elif which == 'delta0':
            c2['delta'] = 0
        elif which == 'npix':
            c2['npix'] = [rng.randint(1, 4), 1]
        elif which == 'minv':
            c2['minv'] = rng.choice(nums) + rng.choice([-1, 0, 1]) if nums else 0
            if rng.random() < 0.3:
                c2['minv'] = 0
        else:
            c2['crit'] = [['peak', rng.choice(nums)]] if nums else []
        try:
            out.append(('params:' + which, c2, impl.run_compute(c2)))
        except Exception:
            pass
    # one pixel changed
    c3 = copy.deepcopy(c)
    i = rng.randrange(len(c3['vals']))
    if c3['vals'][i] is not None:
        c3['vals'][i] += rng.choice([1, -1])
        try:
            out.append(('pixel', c3, impl.run_compute(c3)))
        except Exception:
            pass
        # the same two inputs as planes of one parent array (slices of a cube share their memory)
        try:
            from astrodendro import Dendrogram
            ax = rng.choice([0, -1])                  # consecutive planes, or interleaved channels
            parent = np.stack([impl.case_array(dict(c, layout='C')), impl.case_array(dict(c3, layout='C'))], axis=ax)
            out.append(('plane0-of-cube', c, Dendrogram.compute(parent[0] if ax == 0 else parent[..., 0], **impl.compute_kwargs(c))))
            out.append(('plane1-of-cube', c3, Dendrogram.compute(parent[1] if ax == 0 else parent[..., 1], **impl.compute_kwargs(c3))))
        except Exception:
            pass
    # NaN moved / added
    c4 = copy.deepcopy(c)
    j = rng.randrange(len(c4['vals']))
    if sum(v is not None for v in c4['vals']) > 1 and c4['dtype'] == 'float64':
        c4['vals'][j] = None if c4['vals'][j] is not None else 1
        try:
            out.append(('nan', c4, impl.run_compute(c4)))
        except Exception:
            pass
    # the blanked pixels filled with zeros (same structures when nothing at or below zero is kept): different data
    if c.get('dtype', 'float64') == 'float64' and any(v is None for v in c['vals']) and (c.get('minv') is not None and c['minv'] >= 0):
        c6 = copy.deepcopy(c)
        c6['vals'] = [0 if v is None else v for v in c6['vals']]
        try:
            out.append(('nan-filled-with-zero', c6, impl.run_compute(c6)))
        except Exception:
            pass
    # same values, different shape
    if len(c['shape']) >= 2:
        c5 = copy.deepcopy(c)
        c5['shape'] = [gen.nprod(c['shape'])]
        c5['adj'] = ['grid', [False]]
        c5.pop('per_scalar', None)
        try:
            out.append(('shape', c5, impl.run_compute(c5)))
        except Exception:
            pass
    # pruned copy, loaded copy
    dp = impl.run_compute(c)
    step = dc.rand_prune_step(rng, c)
    step.pop('crit', None)
    try:
        dp.prune(**dc.prune_kwargs(c, step))
        out.append(('pruned', c, dp))
    except Exception:
        pass
    for fmt in (['fits', 'hdf5'] if np.dtype(c.get('dtype', 'float64')).kind in 'iu' else [rng.choice(['hdf5', 'fits'])]):
        try:
            out.append(('loaded', c, dc.save_load(d, fmt)))
        except Exception:
            pass
    return out


def mixed_dtype_stream(ctx):
    """The same numbers stored as int64 and as float64 (K9: beyond 2**53 the float array holds other numbers, and
    numpy compares the two arrays after rounding the integers).  Below 2**53 the two must compare equal, beyond they must
    not."""
    from astrodendro import Dendrogram
    rng = ctx.rng('c20-mixed')
    for it in range(12 if ctx.quick else 120):
        big = it % 2 == 0
        base = 2 ** 53 if big else rng.choice([0, 1000, 2 ** 40])
        offs = [1, 5, 1, 7, 3] if it == 0 else [rng.randint(1, 9) for _ in range(rng.randint(3, 6))]
        a = np.array([base + o for o in offs], dtype=np.int64)
        b = a.astype(np.float64)
        same = [int(x) for x in b] == [int(x) for x in a]
        mv = base - 10
        info = {'stream': 'int64 vs float64', 'int64_data': [int(x) for x in a], 'float64_data': [int(x) for x in b], 'min_value': mv}
        try:
            da, db = Dendrogram.compute(a, min_value=mv), Dendrogram.compute(b, min_value=mv)
            r, rs = bool(da == db), bool(db == da)
        except Exception as e:
            ctx.oracle_failure(info, ['raised %r' % (e,)], {})
            continue
        ctx.count('mixed_dtype_pairs')
        ctx.case_done(None, ('mixed', it))
        fails = []
        if r != rs:
            fails.append('not symmetric: %r / %r' % (r, rs))
        if same and not r and (da.index_map == db.index_map).all():
            fails.append('the same numbers stored as int64 and as float64 compare unequal')
        if not same and r:
            fails.append('compare equal although the data differ (%s vs %s)' % (info['int64_data'], info['float64_data']))
        if fails:
            ctx.oracle_failure(info, fails, {'mixed_dtype_rounding': (not same) and r and len(fails) == 1})


def big_integer_copy_stream(ctx):
    """64-bit integer data beyond 2**53 (time stamps, counters), default or explicit integer threshold: a dendrogram equals
    its own saved-and-loaded copy, in both formats and both directions."""
    from astrodendro import Dendrogram
    rng = ctx.rng('c20-bigint')
    for it in range(10 if ctx.quick else 100):
        dt = rng.choice(['int64', 'int64', 'uint64'])
        base = rng.choice([2 ** 53, 2 ** 60, 2 ** 62]) + rng.randint(1, 999)
        vals = [base + rng.randint(1, 40) for _ in range(rng.randint(4, 9))]
        arr = np.array(vals, dtype=dt)
        kw = {} if rng.random() < 0.5 else {'min_value': base + rng.randint(0, 5)}
        info = {'stream': 'big integers', 'dtype': dt, 'data': vals, 'min_value': kw.get('min_value', 'default')}
        try:
            d = Dendrogram.compute(arr, **kw)
            for fmt in ('hdf5', 'fits'):
                d2 = dc.save_load(d, fmt)
                ctx.count('big_integer_copies')
                if any(d2.params.get(k_) != d.params.get(k_) for k_ in ('min_value', 'min_delta', 'min_npix')):
                    if fmt == 'fits':
                        continue                   # a FITS card keeps 20 characters of a number (C09, K6)
                if not (bool(d == d2) and bool(d2 == d)):
                    ctx.oracle_failure(dict(info, format=fmt), ['the dendrogram does not compare equal to its own saved-and-loaded copy (min_value %r -> %r)'
                                                                % (d.params['min_value'], d2.params['min_value'])], {})
        except Exception as e:
            ctx.oracle_failure(info, ['raised %r' % (e,)], {})
        ctx.case_done(None, ('bigint', it))


def narrow_parameter_copy_stream(ctx):
    """Single-precision images with parameters that are single-precision numbers (min_value = image.mean(), min_delta =
    3 * image.std()): a dendrogram equals its own saved-and-loaded copy, in both formats and both directions."""
    from astrodendro import Dendrogram
    rng = ctx.rng('c20-narrow-params')
    for it in range(16 if ctx.quick else 160):
        shape = rng.choice([(rng.randint(5, 12),), (3, 4), (4, 4)])
        arr = np.array([rng.randint(1, 97) / 97.0 for _ in range(int(np.prod(shape)))], dtype=np.float32).reshape(shape)
        kw = {'min_value': arr.mean() * np.float32(0.5)}
        if rng.random() < 0.5:
            kw['min_delta'] = np.float32(0.1) * arr.std()
        info = {'stream': 'single-precision parameters', 'shape': list(shape), 'data': [float(x) for x in arr.ravel()],
                'parameters': {k_: '%s(%r)' % (type(v_).__name__, float(v_)) for k_, v_ in kw.items()}}
        try:
            d = Dendrogram.compute(arr, **kw)
            for fmt in ('hdf5', 'fits'):
                d2 = dc.save_load(d, fmt)
                ctx.count('narrow_parameter_copies')
                # (a single-precision number is written to a FITS card with its shortest text, at most 9 digits: nothing is cut off)
                if not (bool(d == d2) and bool(d2 == d)):
                    ctx.oracle_failure(dict(info, format=fmt), ['the dendrogram does not compare equal to its own saved-and-loaded copy (parameters %r -> %r)'
                                                                % (dict(d.params), dict(d2.params))], {})
        except Exception as e:
            ctx.oracle_failure(info, ['raised %r' % (e,)], {})
        ctx.case_done(None, ('narrow-params', it))


def listed_finding_k5(ctx):
    """The minimal input of K5 (known_findings.json), run on every run."""
    from astrodendro import Dendrogram
    try:
        a = Dendrogram.compute(np.array([3., 1., 2.]), min_value=0, min_delta=0)
        b = Dendrogram.compute(np.array([3., 1., 2.]), min_value=0, min_delta=3)
        if bool(a == b) and sorted(np.unique(a.index_map).tolist()) != sorted(np.unique(b.index_map).tolist()):
            ctx.oracle_failure({'stream': 'listed findings', 'finding': 'K5', 'data': [3, 1, 2], 'min_value': 0, 'a': {'min_delta': 0}, 'b': {'min_delta': 3}},
                               ['compare equal although the pixels are partitioned into different structures'], {'only_partition_differs': True})
    except Exception as e:
        ctx.oracle_failure({'stream': 'listed findings', 'finding': 'K5'}, ['raised %r' % (e,)], {})
    ctx.case_done(None, ('listed', 'K5'))


def explore(ctx):
    listed_finding_k5(ctx)
    mixed_dtype_stream(ctx)
    from . import compute_common as cc_
    cc_.rounding_tie(ctx, 400 if ctx.quick else 4000, 'c20_rounding')
    big_integer_copy_stream(ctx)
    narrow_parameter_copy_stream(ctx)
    rng = ctx.rng('c20')
    terms, meta = [], []
    n = 120 if ctx.quick else 1200
    for it in range(n):
        c = dc.tree_rich_case(rng, maxpix=24)
        c['dtype'] = 'float64'
        if rng.random() < 0.3:
            # the same integers on a very fine grid: pixels then differ by 2**-40 only
            c['scale'] = 40
            c.pop('den', None)
        if rng.random() < 0.3:
            c['vals'] = [None if (rng.random() < 0.2 and i > 0) else v for i, v in enumerate(c['vals'])]
        if c.get('scale', 0) == 0 and not c.get('den') and all(v is not None for v in c['vals']) and rng.random() < 0.4:
            # integer pixels (FITS stores unsigned types and int8 with an offset): the reloaded copy must still be equal
            c['dtype'] = rng.choice(['uint8', 'uint16', 'uint32', 'int8', 'int16', 'uint16'])
            c['vals'] = [abs(int(v)) % 120 for v in c['vals']]
            if c.get('minv') is not None:
                c['minv'] = abs(int(c['minv'])) % 120
            ctx.count('integer_dtype_cases')
        try:
            vs = variants(rng, c)
            views = []
            for name, cc_, d in vs:
                try:
                    views.append((name, cc_, d, view(d, c)))
                except OffGrid:
                    # a FITS round trip keeps 20 characters of a parameter (C09, K6): such a dendrogram is not
                    # on the integer grid of the model; it is left out of the pairs (nothing about __eq__ is decided by it)
                    ctx.count('variant_off_grid_dropped')
        except Exception as e:
            ctx.oracle_failure(c, ['could not build the variants: %r' % (e,)], {})
            continue
        # "a dendrogram equals its own saved-and-loaded copy"
        base = vs[0][2]
        for name, cc_, dd in vs:
            if name != 'loaded':
                continue
            if any(dd.params.get(k_) != base.params.get(k_) for k_ in ('min_value', 'min_delta', 'min_npix')):
                ctx.count('loaded_copy_with_other_parameters(C09,K6)')     # a FITS header keeps 20 characters of a float
                continue
            try:
                if not (bool(base == dd) and bool(dd == base)):
                    ctx.oracle_failure({'case': c, 'a': 'base', 'b': 'loaded'},
                                       ['a dendrogram does not compare equal to its own saved-and-loaded copy (data dtype %s -> %s)' % (base.data.dtype, dd.data.dtype)], {})
            except Exception as e:
                ctx.oracle_failure({'case': c, 'a': 'base', 'b': 'loaded'}, ['== with the loaded copy raised %r' % (e,)], {})
        for ia, (na, ca, da, va) in enumerate(views):
            for other in (5, 'x', None, da.data):
                r = (da == other)
                rn = (da != other)
                if isinstance(r, np.ndarray) or r is not False or rn is not True:
                    ctx.oracle_failure({'case': c, 'a': na, 'other': repr(type(other))}, ['comparison with a non-dendrogram gives %r / != gives %r' % (r, rn)], {})
            terms.append('(%s, None, false)' % coq_view(va))
            meta.append({'case': c, 'a': na, 'b': 'not a dendrogram'})
            for ib, (nb, cb, db, vb) in enumerate(views):
                try:
                    r = bool(da == db)
                    rn = bool(da != db)
                except Exception as e:
                    ctx.oracle_failure({'case': c, 'a': na, 'b': nb}, ['== raised %r' % (e,)], {})
                    continue
                ctx.count('pair=%s' % ('same-object' if ia == ib else 'different'))
                key = (tuple(c['vals']), na, nb, ia, ib) if ia != ib else None
                ctx.case_done(c, key, sample={'a': na, 'b': nb, 'equal': r} if key and r else None)
                fails, extra = [], {}
                if rn == r:
                    fails.append('== gives %r and != gives %r' % (r, rn))
                try:
                    rs = bool(db == da)
                    if rs != r:
                        fails.append('not symmetric: a == b is %r, b == a is %r' % (r, rs))
                except Exception as e:
                    fails.append('b == a raised %r' % (e,))
                must, part = expected(va, vb)
                if r and not must:
                    fails.append('compare equal although data / min_value / parameters disagree')
                if (not r) and must and part:
                    fails.append('compare unequal although data, min_value, parameters and structures all agree')
                if r and must and not part:
                    fails.append('compare equal although the pixels are partitioned into different structures')
                    extra = {'only_partition_differs': True}
                if fails:
                    ctx.oracle_failure({'case': c, 'a': na, 'b': nb, 'va': va, 'vb': vb}, fails, extra)
                terms.append('(%s, Some %s, %s)' % (coq_view(va), coq_view(vb), cbool(r)))
                meta.append({'case': c, 'a': na, 'b': nb, 'equal': r})
    mism, errs = common.run_coq_shards('c20_eq', HEADER, terms, 'mismatches deq_ok', shard=200, ctype='deq_case')
    ctx.errors.extend(errs)
    for i in mism[:5]:
        ctx.tie_mismatch('__eq__ decision (DEq.deq)', meta[i], None, None)


def matches_known(k, case, fails, extra):
    if k['id'] == 'K9':
        return bool(extra) and extra.get('mixed_dtype_rounding') is True and len(fails) == 1
    return k['id'] == 'K5' and bool(extra) and extra.get('only_partition_differs') and len(fails) == 1


def replay(path):
    import json
    r = json.load(open(path))
    print(json.dumps(r, indent=1)[:4000])
    return 1
