"""C10 — intensity-weighted moments are the mathematical moments."""
import itertools, gc
from fractions import Fraction
import numpy as np
from .. import common, impl, gen, tie, oracles
from ..common import cz, clist, copt, cbool
from .c01 import TRUSTED
from astrodendro.analysis import ScalarStatistic

RULE = ('random pixel sets in 1-4 D (integer positions, dyadic positive weights, some NaN, off-diagonal covariance, '
        'non-uniform weights), all methods (mom0, mom1, mom2, mom2_along for single directions incl. scaled and negated, '
        'multi-row projections with rows of unequal length, paxes, projected_paxes, count); the Coq model gives exact '
        'fractions, compared at relative tolerance 1e-9; textbook moments recomputed with exact Fractions; eigenvectors '
        'validated against the exact matrix; random call orders over three live statistic objects (some sharing values or '
        'index prefixes) compared with fresh un-memoised evaluation; non-trivial = at least three points, two dimensions, '
        'non-zero off-diagonal covariance')
EXPLANATION = ('Theorems in props/C10.v over exact rationals (symmetry, textbook form, NaN = zero weight, translation, '
               'direction scaling, eigenvector link, memoisation transparency) + tie of the exact model values with the '
               'float results + oracle')
ASSUMPTIONS = ['floats are compared with exact rationals at relative tolerance 1e-9',
               'existence / realness / orthonormality of eigenvectors is LAPACK\'s: validated on every case, not proved',
               'garbage collection of the weak-reference memo cache is not modelled']
HEADER = """From Coq Require Import ZArith List Bool QArith.
From Dendro Require Import Base Tree Plot Moments Corr.
Import ListNotations.
Open Scope Q_scope.
"""


def cq(fr):
    fr = Fraction(fr)
    return '(%s # %d)' % (cz(fr.numerator), fr.denominator)


def make_points(rng):
    nd = rng.choice([1, 2, 2, 3, 3, 4])
    n = rng.randint(1, 9)
    pts = []
    for _ in range(n):
        pos = [rng.randint(0, 6) for _ in range(nd)]
        w = None if rng.random() < 0.1 else Fraction(rng.randint(1, 24), 8)
        pts.append((pos, w))
    if all(w is None for _, w in pts):
        pts[0] = (pts[0][0], Fraction(1))
    # narrow input dtypes: weights that are exactly representable there but whose sums and quotients are not
    # (the statistic must still be the double-precision one of exactly these values)
    r = rng.random()
    if r < 0.2:
        # 12 significant bits: exact in float32, and small enough for the exact model to stay fast
        pts = [(p, None if w is None else Fraction(rng.randint(2048, 4095), 2048) * 2 ** rng.randint(-2, 6)) for p, w in pts]
        DTYPE[0] = 'float32'
    elif r < 0.3:
        pts = [(p, None if w is None else Fraction(rng.randint(1024, 2047), 1024) * 2 ** rng.randint(-2, 4)) for p, w in pts]
        DTYPE[0] = 'float16'
    elif r < 0.4 and all(w is not None for _, w in pts):
        pts = [(p, Fraction(rng.randint(1, 200))) for p, w in pts]
        DTYPE[0] = rng.choice(['uint8', 'int16', 'int32', 'int64'])
    else:
        DTYPE[0] = 'float64'
    return nd, pts


DTYPE = ['float64']      # dtype of the values array handed to ScalarStatistic for the points made last


def stat_of(pts, nd):
    vals = np.array([np.nan if w is None else float(w) for _, w in pts]).astype(DTYPE[0])
    idx = tuple(np.array([p[i] for p, _ in pts]) for i in range(nd))
    return ScalarStatistic(vals, idx)


def exact_moments(pts, nd):
    ws = [(p, w) for p, w in pts if w is not None]
    m0 = sum(w for _, w in ws)
    m1 = [sum(w * p[i] for p, w in ws) / m0 for i in range(nd)]
    m2 = [[sum(w * (p[i] - m1[i]) * (p[j] - m1[j]) for p, w in ws) / m0 for j in range(nd)] for i in range(nd)]
    return m0, m1, m2


def close(a, b, tol=1e-9):
    a, b = float(a), float(b)
    return abs(a - b) <= tol * max(1.0, abs(a), abs(b))


def explore(ctx):
    rng = ctx.rng('c10')
    terms, expect = [], []
    n = 500 if ctx.quick else 5000
    for it in range(n):
        nd, pts = make_points(rng)
        info = {'nd': nd, 'points': [[p, None if w is None else str(w)] for p, w in pts]}
        fails = []
        try:
            st = stat_of(pts, nd)
            m0, m1, m2 = exact_moments(pts, nd)
            o0, o1, o2 = st.mom0(), st.mom1(), st.mom2()
            if not close(o0, m0):
                fails.append('mom0 %r, sum of the values %s' % (o0, m0))
            if len(o1) != nd or not all(close(a, b) for a, b in zip(o1, m1)):
                fails.append('mom1 %r, weighted mean %s' % (o1, [float(x) for x in m1]))
            o2 = np.asarray(o2)
            if o2.shape != (nd, nd) or not all(close(o2[i, j], m2[i][j]) for i in range(nd) for j in range(nd)):
                fails.append('mom2 %r, weighted covariance %s' % (o2.tolist(), [[float(x) for x in r] for r in m2]))
            if st.count() != len(pts):
                fails.append('count')
            # directions
            dirs = []
            for _ in range(3):
                u = [rng.randint(-4, 4) for _ in range(nd)]
                if not any(u):
                    u[rng.randrange(nd)] = 1
                dirs.append(u)
            for u in dirs:
                uu = sum(x * x for x in u)
                want = sum(u[i] * m2[i][j] * u[j] for i in range(nd) for j in range(nd)) / uu
                # ... also nearly, but not exactly, of unit length (a direction typed with five decimals)
                # ... and very short / very long (a step of a finite-difference scheme, a vector in other units): the
                # length of the direction must not matter at all
                for c in (1, rng.choice([2, 7, 0.5]), -1, -3, (1 + rng.choice([3e-6, -4e-6, 8e-6, -9e-6])) / float(uu) ** 0.5,
                          2.0 ** -35, -1e-11, 3e-13, 2.0 ** 45):
                    got = st.mom2_along(tuple(c * x for x in u))
                    if not close(got, want):
                        fails.append('mom2_along(%s * %s) = %r, quadratic form for the normalised direction %s' % (c, u, got, float(want)))
            # projections: rows of unequal length
            if nd >= 2:
                rows = [dirs[0], dirs[1]]
                if rows[0] != rows[1]:
                    scaled = [tuple(3 * x for x in rows[0]), tuple(rows[1])]
                    g1 = np.asarray(st.mom2_along(tuple(tuple(r) for r in rows)))
                    g2 = np.asarray(st.mom2_along(tuple(scaled)))
                    want = [[float(sum(a[i] * m2[i][j] * b[j] for i in range(nd) for j in range(nd))) /
                             (float(sum(x * x for x in a)) ** 0.5 * float(sum(x * x for x in b)) ** 0.5) for b in rows] for a in rows]
                    for g in (g1, g2):
                        if g.shape != (2, 2) or not all(close(g[a][b], want[a][b], 1e-8) for a in range(2) for b in range(2)):
                            fails.append('mom2_along(rows) = %r, expected W M W^T with normalised rows %s' % (g.tolist(), want))
                            break
            # rows along the coordinate axes, with signs and lengths (what v_rms and the sky projections pass, mirrored)
            if nd >= 2:
                ax_ = rng.sample(range(nd), 2)
                rows = [[0] * nd, [0] * nd]
                rows[0][ax_[0]] = rng.choice([1, -1, -2, 3])
                rows[1][ax_[1]] = rng.choice([1, -1, 2, -3])
                g = np.asarray(st.mom2_along(tuple(tuple(r) for r in rows)))
                sg = [1 if r[a_] > 0 else -1 for r, a_ in zip(rows, ax_)]
                want = [[float(m2[ax_[i]][ax_[j]]) * sg[i] * sg[j] for j in range(2)] for i in range(2)]
                if g.shape != (2, 2) or not all(close(g[i][j], want[i][j], 1e-9) for i in range(2) for j in range(2)):
                    fails.append('mom2_along(%s) = %r, expected the signed covariance entries %s' % (rows, g.tolist(), want))
            # principal axes: real, orthonormal, eigenvectors, ordered
            ax = st.paxes()
            A = np.array([[float(x) for x in r] for r in m2])
            V = np.array([np.asarray(a, dtype=complex) for a in ax])
            if np.iscomplexobj(np.asarray(ax[0])) or not np.isrealobj(np.asarray(ax[0])):
                fails.append('principal axes are not real')
            else:
                V = V.real
                if not np.allclose(V @ V.T, np.eye(nd), atol=1e-8):
                    fails.append('principal axes are not orthonormal')
                lam = [float(v @ A @ v) for v in V]
                if not all(np.allclose(A @ v, l * v, atol=1e-7 * max(1.0, abs(A).max())) for v, l in zip(V, lam)):
                    fails.append('principal axes are not eigenvectors of the covariance')
                if any(lam[i] < lam[i + 1] - 1e-9 * max(1.0, abs(lam[0])) for i in range(nd - 1)):
                    fails.append('principal axes are not ordered by decreasing variance')
            # translation
            t = [rng.randint(-5, 9) for _ in range(nd)]
            if rng.random() < 0.3:
                # far from the origin of the array: centring must come before squaring
                t = [rng.choice([10 ** 6, 2 ** 26, -(10 ** 7), 2 ** 30, 12345678]) + x for x in t]
            st2 = stat_of([([a + b for a, b in zip(p, t)], w) for p, w in pts], nd)
            if not all(close(a, b + c) for a, b, c in zip(st2.mom1(), o1, t)):
                fails.append('first moment does not move with a translation')
            if not np.allclose(st2.mom2(), o2, atol=1e-9 * max(1.0, abs(o2).max())):
                fails.append('second moment changes under a translation')
        except Exception as e:
            fails.append('statistic raised %r' % (e,))
        offdiag = nd >= 2 and len(pts) >= 3 and any(m2[i][j] != 0 for i in range(nd) for j in range(nd) if i != j) if not fails else False
        key = str(info) if offdiag else None
        ctx.count('nd=%d' % nd)
        ctx.case_done(info, key, sample=info if key else None)
        if fails:
            ctx.oracle_failure(info, fails)
            continue
        ps = '[' + '; '.join('{| px := %s; pw := %s |}' % (clist(p, cq), 'None' if w is None else '(Some %s)' % cq(w)) for p, w in pts) + ']'
        terms.append('moments_view %s %d%%nat %s' % (ps, nd, clist(dirs, lambda u: clist(u, cq))))
        expect.append((info, float(o0), [float(x) for x in o1], o2.tolist(), [float(st.mom2_along(tuple(u))) for u in dirs], dirs))
    memo_histories(ctx)
    vals, errs = common.coq_dump_many('c10_mom', HEADER, terms, batch=40)
    ctx.errors.extend(errs)
    if True:
        val = [v for v in vals]
        k0, B = 0, len(terms)
        expect_ = [(e, v) for e, v in zip(expect, vals) if v is not None]
        for (info, o0, o1, o2, oal, dirs), out in expect_:
            n0_, d0_, (q1, (q2, qal)) = out      # Coq prints left-nested pairs flat
            q0 = (n0_, d0_)
            qal = [((a, b), c) for a, b, c in qal]
            fr = lambda v: Fraction(int(v[0]), int(v[1]))
            ok = close(o0, fr(q0)) and all(close(a, fr(b)) for a, b in zip(o1, q1)) and \
                all(close(o2[i][j], fr(q2[i][j])) for i in range(len(q2)) for j in range(len(q2)))
            if ok:
                for got, (qq, qd) in zip(oal, qal):
                    if fr(qd) != 0 and not close(got, fr(qq) / fr(qd)):
                        ok = False
            if not ok:
                ctx.tie_mismatch('moments (Moments.mom0/mom1/mom2/quad)', info, {'mom0': o0, 'mom1': o1, 'mom2': o2, 'along': oal}, str(out)[:600])


def memo_histories(ctx):
    """Random call orders over several live statistic objects."""
    rng = ctx.rng('c10-memo')
    for it in range(150 if ctx.quick else 1500):
        nd = rng.choice([2, 3])
        base = make_points(rng)[1]
        DTYPE[0] = 'float64'          # (the nearly identical weights below are not representable in the narrow types)
        base = [(p[:nd] + [0] * (nd - len(p)), w) for p, w in base]
        # objects that share values / index prefixes, to tempt a value-keyed cache
        objs_pts = [base, [(p, w) for p, w in base], [(p[:nd - 1], w) for p, w in base] if nd >= 2 else base,
                    [([x + 1 for x in p], w) for p, w in base],
                    # the same footprint in a nearly identical map (weights that differ in the tenth digit)
                    [(p, None if w is None else w * (1 + Fraction(k_ + 1, 2 ** 30))) for k_, (p, w) in enumerate(base)]]
        nds = [nd, nd, max(1, nd - 1), nd, nd]
        live = [stat_of(pp, d) for pp, d in zip(objs_pts, nds)]
        calls = []
        fails = []
        for _ in range(rng.randint(4, 14)):
            k = rng.randrange(len(live))
            meth = rng.choice(['mom0', 'mom1', 'mom2', 'mom2_along', 'paxes', 'count'])
            args = ()
            if meth == 'mom2_along':
                u = tuple(rng.randint(-3, 3) or 1 for _ in range(nds[k]))
                # the direction as a tuple, or in a form that cannot be a dictionary key (list, array): the first
                # call on an object must behave like any later one
                args = (rng.choice([u, u, list(u), np.array(u, dtype=float)]),)
            try:
                got = getattr(live[k], meth)(*args)
                want = getattr(stat_of(objs_pts[k], nds[k]), meth)(*args)
                g, w = np.asarray(got, dtype=float), np.asarray(want, dtype=float)
                if g.shape != w.shape or not np.allclose(g, w, rtol=1e-12, atol=1e-12, equal_nan=True):
                    fails.append('%s%s on object %d after %s returns %r, a fresh object returns %r' % (meth, args, k, calls, got, want))
                    break
            except Exception as e:
                fails.append('%s raised %r' % (meth, e))
                break
            calls.append((k, meth, args))
        if not fails:
            # two live objects on nearly identical maps: each answers for its own values (expected values computed here,
            # outside the library, so that no cache can be shared with them)
            order_ = [0, 4] if rng.random() < 0.5 else [4, 0]
            for k in order_:
                ex0 = float(sum(w for _, w in objs_pts[k] if w is not None))
                g0 = float(live[k].mom0())
                if abs(g0 - ex0) > 1e-13 * abs(ex0):
                    fails.append('mom0 of object %d is %r, its values sum to %r (another live object holds nearly the same values)' % (k, g0, ex0))
                    break
                m0_, m1_, _ = exact_moments(objs_pts[k], nds[k])
                g1 = [float(x) for x in live[k].mom1()]
                if any(abs(a - float(b)) > 1e-12 * max(1.0, abs(float(b))) for a, b in zip(g1, m1_)):
                    fails.append('mom1 of object %d is %r, the weighted mean of its own values is %r' % (k, g1, [float(b) for b in m1_]))
                    break
        if not fails and rng.random() < 0.5:
            # array directions that print alike: a tiny tilt below the printed precision, and long stacks of rows of
            # which numpy prints the first and last three only
            k = rng.randrange(len(live))
            ndk = nds[k]
            u = np.array([rng.randint(1, 3) for _ in range(ndk)], dtype=float)
            tilt = u.copy()
            tilt[0] += 3e-9
            rows = np.array([[rng.randint(-3, 3) or 1 for _ in range(ndk)] for _ in range(1100 // ndk + 1)], dtype=float)
            rows2 = rows.copy()
            rows2[len(rows) // 2] = rows2[len(rows) // 2][::-1] * 2 + 1
            for a1, a2, what in ((u, tilt, 'tilted by 3e-9'), (rows, rows2, 'with another middle row')):
                try:
                    live[k].mom2_along(a1)
                    got = np.asarray(live[k].mom2_along(a2), dtype=float)
                    want = np.asarray(stat_of(objs_pts[k], ndk).mom2_along(a2), dtype=float)
                    if got.shape != want.shape or not np.allclose(got, want, rtol=1e-13, atol=0, equal_nan=True):
                        fails.append('mom2_along(array %s) on object %d after the call with the original array differs from a fresh object (largest difference %r)'
                                     % (what, k, float(np.nanmax(np.abs(got - want))) if got.shape == want.shape else 'shape'))
                        break
                except Exception as e:
                    fails.append('mom2_along(array) raised %r' % (e,))
                    break
            ctx.count('memo_lookalike_arrays')
        ctx.count('memo_histories')
        ctx.case_done(None, ('memo', it))
        if fails:
            ctx.oracle_failure({'stream': 'memoisation', 'points': [[p, None if w is None else str(w)] for p, w in base], 'calls': calls}, fails)


def matches_known(k, case, fails, extra):
    return False


def replay(path):
    import json
    r = json.load(open(path))
    print(json.dumps(r, indent=1)[:4000])
    return 1
