"""Dendrograms obtained by compute, by sequences of prune, and by save/load (both formats),
shared by C02, C06, C07, C09, C14."""
import os, copy, tempfile, shutil
import numpy as np
from .. import common, impl, gen
from astrodendro import Dendrogram, pruning

SCRATCH = '/var/tmp'


def prune_kwargs(case, step):
    s = float(case.get('den') or 2 ** case.get('scale', 0))
    kw = {}
    isint = np.dtype(case.get('dtype', 'float64')).kind in 'iu'
    d = step.get('delta', 0)
    kw['min_delta'] = int(d) if (isint and s == 1) else d / s
    num, den = step.get('npix', [0, 1])
    kw['min_npix'] = num // den if num % den == 0 else num / float(den)
    fs = impl.criteria_functions({'scale': case.get('scale', 0), 'den': case.get('den'), 'shape': case['shape'],
                                  'crit': step.get('crit', [])})
    if fs and step.get('crit_counting'):
        fs = [(lambda f_: (lambda *a_, **k_: (2 if f_(*a_, **k_) else 0)))(f_) for f_ in fs]
    if fs:
        kw['is_independent'] = fs[0] if (len(fs) == 1 and step.get('crit_single')) else fs
    return kw


def rand_prune_step(rng, case, cur_delta=0, cur_npix=(0, 1)):
    nums, diffs = gen.value_steps(case['vals'])
    step = {}
    r = rng.random()
    if r < 0.25 or not diffs:
        step['delta'] = 0
    elif r < 0.85:
        step['delta'] = max(0, rng.choice(diffs) + rng.choice([-1, 0, 0, 1]))
    else:
        step['delta'] = max(0, cur_delta - rng.randint(0, 2))     # sometimes less strict than before
    r = rng.random()
    if r < 0.35:
        step['npix'] = [0, 1]
    elif r < 0.9:
        step['npix'] = [rng.randint(1, 6), 1]
    else:
        step['npix'] = [rng.randint(1, 9), 2]
    if rng.random() < 0.2 and nums:
        c = rng.choice(['peak', 'sum', 'seeds'])
        if c == 'peak':
            step['crit'] = [['peak', rng.choice(nums) + rng.choice([-1, 0, 1])]]
        elif c == 'sum':
            step['crit'] = [['sum', rng.choice(nums) * rng.randint(1, 3)]]
        else:
            n = gen.nprod(case['shape'])
            step['crit'] = [['seeds', sorted(rng.sample(range(n), rng.randint(1, min(3, n))))]]
        r2 = rng.random()
        if r2 < 0.5:
            step['crit_single'] = True
        elif r2 < 0.8:
            # the criterion answers with a count (2 / 0) instead of True / False: any non-zero count means yes
            step['crit_counting'] = True
    return step


def save_load(d, fmt, rng=None, how='explicit', pathlib_path=False):
    """Round trip through a real file; returns the loaded dendrogram."""
    tmp = tempfile.mkdtemp(prefix='verif-io-', dir=SCRATCH)
    try:
        ext = {'hdf5': '.hdf5', 'fits': '.fits'}[fmt]
        path = os.path.join(tmp, 'd' + ext)
        if pathlib_path:
            import pathlib
            path = pathlib.Path(path)
        if how == 'explicit':
            d.save_to(path, format=fmt)
            return Dendrogram.load_from(path, format=fmt)
        d.save_to(path)
        return Dendrogram.load_from(path)
    finally:
        shutil.rmtree(tmp, ignore_errors=True)


def tree_rich_case(rng, maxpix=40):
    """Compute cases biased towards several structures (low thresholds, mild pruning)."""
    c = gen.rand_case(rng, maxpix=maxpix, dtype='float64', allow_user=False)
    if rng.random() < 0.5:
        # larger arrays of (mostly) distinct values: many leaves, deep nesting
        shape = rng.choice([[rng.randint(16, 70)], [rng.randint(3, 7), rng.randint(4, 9)], [2, 3, rng.randint(3, 6)]])
        n = gen.nprod(shape)
        vals = list(range(1, n + 1))
        rng.shuffle(vals)
        if rng.random() < 0.3:
            vals = [v // 2 + 1 for v in vals]
        c['shape'], c['vals'] = shape, vals
        c['adj'] = ['grid', [rng.random() < 0.15 for _ in shape]]
        c.pop('per_scalar', None)
        c['minv'] = rng.choice([None, None, rng.randint(0, n // 4)])
        c['scale'] = 0
    if rng.random() < 0.8:
        c['minv'] = None
    if rng.random() < 0.7:
        c['delta'] = 0
    if rng.random() < 0.7:
        c['npix'] = [0, 1]
    return c


def peeking(structure, index=None, value=None):
    """A user criterion that accepts everything but reads cached tree quantities while the tree is being rewritten."""
    structure.level, structure.descendants, structure.get_npix(), structure.ancestor
    if structure.parent is not None:
        structure.parent.level, structure.parent.descendants
    return True


def with_peeking(kw):
    """Add the peeking criterion to the keyword arguments of compute / prune."""
    cur = kw.get('is_independent')
    kw = dict(kw)
    kw['is_independent'] = ([] if cur is None else (list(cur) if isinstance(cur, (list, tuple)) else [cur])) + [peeking]
    return kw


def other_dendrogram_activity(rng):
    """Unrelated work on other dendrograms (kept alive by the caller): must not influence the one under test."""
    from astrodendro import Dendrogram
    n = rng.randint(3, 9)
    vals = list(range(1, n + 1))
    rng.shuffle(vals)
    o = Dendrogram.compute(np.array(vals, dtype=float), min_value=0, min_delta=rng.choice([0, 1, 2, 5]), min_npix=rng.choice([0, 2, 3, 4]))
    if rng.random() < 0.6:
        o.prune(min_delta=rng.choice([0, 3, 6]), min_npix=rng.choice([0, 2, 5]))
    return o
