"""C16 — hierarchy invariant under axis relabelling and order-preserving value maps."""
import copy, itertools
import numpy as np
from .. import common, impl, gen, tie, oracles
from . import compute_common as cc
from . import dendro_common as dc
from . import relabel_common as rc
from .c01 import ASSUMPTIONS, TRUSTED
from astrodendro import Dendrogram

RULE = ('pairs of runs of /repo related by: every axis permutation and flip (1-4 D), insertion of a length-one axis at every '
        'position, padding by 0-2 cells of below-threshold or NaN values per side, exact affine value maps (power-of-two '
        'scale incl. < 1, positive/negative/large integer offsets, min_value and min_delta mapped along), arbitrary strictly '
        'increasing maps without pruning, and pairs of thresholds; distinct values: identical hierarchy (own pixel sets + '
        'parent relation) on the mapped pixels; ties: same trunk regions, same assigned set and, without pruning, same number '
        'of leaves; the base run of every pair is tied to the Coq model; non-trivial = base dendrogram with >= 3 structures')
EXPLANATION = ('Theorems in props/C16.v (value maps and every isomorphism of the adjacency graph commute with the construction; '
               'flips, padding, unit axes and exchanges of neighbouring axes along any axis are isomorphisms and compose; root '
               'regions do not depend on the order) + compute tie of the base runs + tie of the relabelling maps to numpy '
               '(flip / pad / swapaxes / expand_dims) + metamorphic oracle on the implementation')


def hierarchy_mapped(d, shape, pixmap):
    """Canonical hierarchy with every pixel p replaced by pixmap[p] (pixels of the base array)."""
    out = []
    for s in d:
        own = tuple(sorted(pixmap[impl.ravel(shape, i)] for i in s._indices))
        par = None if s.parent is None else min(pixmap[impl.ravel(shape, i)] for i in s.parent._indices)
        out.append((own, par))
    return sorted(out)


def coarse(d, shape, pixmap):
    """What must be preserved even with ties: trunk regions, assigned set, number of leaves."""
    trunk = sorted(tuple(sorted(pixmap[p] for p in oracles.flat_indices(shape, s.indices(subtree=True)))) for s in d.trunk)
    assigned = sorted(pixmap[p] for p, l in enumerate(d.index_map.ravel().tolist()) if l >= 0)
    leaves = sum(1 for s in d if not s.children)
    return trunk, assigned, leaves


def base_array(c):
    return impl.case_array(dict(c, layout='C'))


def run(arr, c, minv=None, delta=None, per=None):
    kw = impl.compute_kwargs(c)
    if minv is not None:
        kw['min_value'] = minv
    if delta is not None:
        kw['min_delta'] = delta
    return Dendrogram.compute(arr, **kw)


def explore(ctx):
    rng = ctx.rng('c16')
    cases, refs = [], []
    n = 260 if ctx.quick else 2600
    for it in range(n):
        c = dc.tree_rich_case(rng, maxpix=36)
        c['adj'] = ['grid', [False] * len(c['shape'])]
        c.pop('per_scalar', None)
        c['crit'] = []
        distinct_mode = rng.random() < 0.6
        n_pix = gen.nprod(c['shape'])
        if distinct_mode:
            vals = list(range(1, n_pix + 1))
            rng.shuffle(vals)
            c['vals'] = [None if (v is None) else w for v, w in zip(c['vals'], vals)] if rng.random() < 0.3 else vals
        c['scale'] = 0
        c['dtype'] = 'float64'
        if c.get('minv') is None:
            c['minv'] = min(v for v in c['vals'] if v is not None) - 1
        shape = tuple(c['shape'])
        try:
            d0, obs0 = impl.compute_obs(c)
        except Exception as e:
            ctx.oracle_failure(c, ['compute raised %r' % (e,)])
            continue
        cases.append(c)
        refs.append(obs0)
        ident = list(range(n_pix))
        kept_vals = [v for v in c['vals'] if v is not None and v > c['minv']]
        distinct = len(set(kept_vals)) == len(kept_vals)
        nopruning = c.get('delta', 0) == 0 and c.get('npix', [0, 1])[0] == 0
        h0 = hierarchy_mapped(d0, shape, ident)
        c0 = coarse(d0, shape, ident)
        key = (tuple(c['vals']), shape, c['minv'], c.get('delta'), str(c.get('npix'))) if len(d0) >= 3 else None
        ctx.case_done(c, key, sample={'case': c, 'distinct': distinct} if key else None)
        ctx.count('distinct' if distinct else 'ties')
        arr = base_array(c)
        idx = np.arange(n_pix).reshape(shape)

        def check(name, arr2, idx2, **over):
            """arr2: transformed data, idx2: array of the same shape holding the base pixel index (-1 = new pixel)."""
            try:
                d = run(arr2, c, **over)
            except Exception as e:
                ctx.oracle_failure({'case': c, 'transform': name}, ['compute raised %r' % (e,)])
                return
            pm = [int(x) for x in idx2.ravel().tolist()]
            if any(pm[p] < 0 for p, l in enumerate(d.index_map.ravel().tolist()) if l >= 0):
                ctx.oracle_failure({'case': c, 'transform': name}, ['a padding pixel was assigned to a structure'])
                return
            ctx.count('transform=' + name.split(':')[0])
            fails = []
            if distinct or (name.startswith('value') and False):
                h = hierarchy_mapped(d, arr2.shape, pm)
                if h != h0:
                    fails.append('hierarchy differs after %s: %s vs base %s' % (name, h, h0))
            cz_ = coarse(d, arr2.shape, pm)
            if cz_[0] != c0[0]:
                fails.append('trunk regions differ after %s' % name)
            if cz_[1] != c0[1]:
                fails.append('assigned pixels differ after %s' % name)
            if nopruning and cz_[2] != c0[2]:
                fails.append('number of leaves differs after %s (%d vs %d)' % (name, cz_[2], c0[2]))
            if fails:
                ctx.oracle_failure({'case': c, 'transform': name}, fails)

        nd = len(shape)
        # axis permutations and flips
        perms = list(itertools.permutations(range(nd)))
        for perm in (perms if len(perms) <= 6 else rng.sample(perms, 6)):
            flips = [rng.random() < 0.5 for _ in range(nd)]
            a2, i2 = arr.transpose(perm), idx.transpose(perm)
            sl = tuple(slice(None, None, -1) if f else slice(None) for f in flips)
            if rng.random() < 0.5:
                # hand over the strided view itself (what arr.T / arr[::-1] give a user), not a contiguous copy
                check('axes:view perm=%s flips=%s' % (perm, flips), a2[sl], np.ascontiguousarray(i2[sl]))
            else:
                check('axes:perm=%s flips=%s' % (perm, flips), np.ascontiguousarray(a2[sl]), np.ascontiguousarray(i2[sl]))
        # length-one axis
        if nd < 4:
            pos = rng.randint(0, nd)
            check('newaxis:%d' % pos, np.expand_dims(arr, pos).copy(), np.expand_dims(idx, pos).copy())
        # padding
        if nd <= 3:
            widths = [(rng.randint(0, 2), rng.randint(0, 2)) for _ in range(nd)]
            padval = rng.choice([np.nan, float(c['minv']), float(c['minv']) - 3])
            check('pad:%s value=%s' % (widths, padval), np.pad(arr, widths, constant_values=padval),
                  np.pad(idx, widths, constant_values=-1))
        # affine maps v -> a*v + b (exact: power-of-two a, integer b)
        a = rng.choice([0.25, 0.5, 2.0, 4.0, 8.0, 1.0])
        b = rng.choice([0, 7, -7, 2 ** 22, -1000, 10 ** 6, 3])
        if rng.random() < 0.3:
            # very faint or very bright data (units of 1e-9 or 1e12 of the usual ones): a pure power-of-two scaling
            a, b = rng.choice([2.0 ** -30, 2.0 ** -40, 2.0 ** -60, 2.0 ** 40, 2.0 ** -100]), 0
        s_ = float(2 ** c.get('scale', 0))
        check('value:affine a=%s b=%s' % (a, b), arr * a + b, idx,
              minv=(c['minv'] / s_) * a + b, delta=(c.get('delta', 0) / s_) * a)
        # the same numbers in a narrow signed integer type, spread over most of its range (strictly increasing
        # map of the values; differences of two pixels do not fit the type)
        if rng.random() < 0.35 and not any(v is None for v in c['vals']):
            dt = rng.choice(['int8', 'int16', 'int16', 'int32'])
            info = np.iinfo(dt)
            vs = [v for v in c['vals']]
            mn, mx = min(vs), max(vs)
            if mx > mn and (mx - mn) <= (int(info.max) - int(info.min)):
                k = (int(info.max) - int(info.min)) // (mx - mn)
                off = int(info.min) - mn * k
                arr_i = np.array([v * k + off for v in vs], dtype=dt).reshape(shape)
                check('value:integer dtype %s a=%d b=%d' % (dt, k, off), arr_i, idx,
                      minv=int(c['minv'] * k + off) if c['minv'] * k + off >= int(info.min) else int(info.min) - 1,
                      delta=int(c.get('delta', 0) * k))
        # any strictly increasing map when no min_delta is in force
        if c.get('delta', 0) == 0:
            f = rng.choice([lambda x: x ** 3, lambda x: np.sign(x) * np.sqrt(np.abs(x)) * 64, lambda x: np.exp2(x / 8.0)])
            try:
                mapped = f(arr.astype(float))
                mv = float(f(np.array(float(c['minv']))))
                if np.all(np.isfinite(mapped[~np.isnan(arr)])) and len(np.unique(mapped[~np.isnan(mapped)])) == len(np.unique(arr[~np.isnan(arr)])):
                    check('value:monotone', mapped, idx, minv=mv)
            except Exception:
                pass
        # raising the threshold (distinct values, no pruning)
        if distinct and nopruning and kept_vals:
            t = rng.choice(sorted(kept_vals))
            try:
                d2 = run(arr, c, minv=float(t))
                want = [(tuple(p for p in own if c['vals'][p] > t), par) for own, par in h0]
                want = [(own, par) for own, par in want if own]
                # parents: a structure left empty is dropped; its children attach to ... (only regions and counts are compared)
                got_regions = sorted(tuple(sorted(oracles.flat_indices(shape, s.indices(subtree=False)))) for s in d2)
                if got_regions != sorted(own for own, _ in want):
                    ctx.oracle_failure({'case': c, 'transform': 'threshold:%s' % t},
                                       ['raising min_value to %s: own pixel sets %s, expected the old ones minus pixels <= %s: %s' % (t, got_regions, t, sorted(own for own, _ in want))])
                ctx.count('transform=threshold')
            except Exception as e:
                ctx.oracle_failure({'case': c, 'transform': 'threshold'}, ['compute raised %r' % (e,)])
    mism, errs = tie.run_compute_tie('c16_tie', cases, refs)
    ctx.errors.extend(errs)
    for i in mism[:5]:
        ctx.tie_mismatch('compute (base run)', cases[i], refs[i], tie.model_compute_view(cases[i], 'c16_dump'))
    narrow_threshold_stream(ctx)
    translation_edge_stream(ctx)
    default_threshold_scaling_stream(ctx)
    seeded_flip_stream(ctx)
    # the relabellings the theorems speak about are the ones numpy performs
    rc.run_relabel_tie(ctx, 'c16_relab', ['flip', 'pad', 'swap', 'unit', 'perm', 'perm'], 240 if ctx.quick else 2400)


def narrow_threshold_stream(ctx):
    """Raising min_value on single-precision data to decimal thresholds (not representable in float32), and arrays whose
    size sits exactly on a power of two with every pixel kept and the last pixel a peak; oracle only."""
    from fractions import Fraction
    rng = ctx.rng('c16-narrow')
    for it in range(60 if ctx.quick else 600):
        n = rng.randint(4, 12)
        ks = rng.sample(range(1, 40), n)
        arr = np.array([0.1 * k for k in ks], dtype=rng.choice(['float32', 'float32', 'float16']))
        exact = [Fraction(float(x)) for x in arr]
        if len(set(exact)) < n:
            continue
        t = 0.1 * rng.choice(ks)                      # a decimal next to (not equal to) a pixel value
        try:
            d0 = Dendrogram.compute(arr, min_value=0.0)
            d1 = Dendrogram.compute(arr, min_value=t)
        except Exception as e:
            ctx.oracle_failure({'stream': 'narrow thresholds', 'data': [float(x) for x in arr], 'dtype': str(arr.dtype), 'threshold': t}, ['compute raised %r' % (e,)])
            continue
        own0 = sorted(tuple(sorted(int(i[0]) for i in s._indices)) for s in d0)
        want = sorted(o for o in (tuple(p for p in own if exact[p] > Fraction(t)) for own in own0) if o)
        got = sorted(tuple(sorted(int(i[0]) for i in s._indices)) for s in d1)
        ctx.count('narrow_thresholds')
        ctx.case_done(None, ('narrow-thr', tuple(ks), t, str(arr.dtype)) if len(d0) >= 3 else None)
        if got != want:
            ctx.oracle_failure({'stream': 'narrow thresholds', 'data': [float(x) for x in arr], 'dtype': str(arr.dtype), 'threshold': t},
                               ['raising min_value to %r: own pixel sets %s, expected the old ones minus the pixels <= %r: %s' % (t, got, t, want)])
    shapes = [(8, 16), (128,), (4, 4, 8), (16, 16)] + ([] if ctx.quick else [(32768,), (128, 256)])
    for shape in shapes:
        npx = int(np.prod(shape))
        vals = list(range(1, npx))
        rng.shuffle(vals)
        arr = np.array(vals + [npx], dtype=float).reshape(shape)         # the last pixel is the brightest
        idx = np.arange(npx).reshape(shape)
        try:
            d0 = Dendrogram.compute(arr, min_value=0)
            ax = rng.randrange(len(shape))
            d1 = Dendrogram.compute(np.ascontiguousarray(np.flip(arr, ax)), min_value=0)
            pm = [int(x) for x in np.flip(idx, ax).ravel().tolist()]
            h0 = hierarchy_mapped(d0, shape, list(range(npx)))
            h1 = hierarchy_mapped(d1, shape, pm)
            fails = [] if h0 == h1 else ['hierarchy of a %s array (every pixel kept) differs from that of its flip along axis %d' % (shape, ax)]
        except Exception as e:
            fails = ['compute on a %s array with every pixel kept raised %r' % (shape, e)]
        ctx.count('power_of_two_sizes')
        ctx.case_done(None, ('pow2', shape))
        if fails:
            ctx.oracle_failure({'stream': 'power-of-two sizes', 'shape': list(shape), 'data': arr.ravel().tolist() if npx <= 256 else '(%d values)' % npx}, fails)


def seeded_flip_stream(ctx):
    """contains_seeds under flips and axis exchanges with the seed positions mapped along with the pixels (distinct
    values): the hierarchy is the same (the statement of C16_relabelled_hierarchy_with_seeds, evaluated on the
    implementation)."""
    from astrodendro import pruning
    rng = ctx.rng('c16-seeds')
    for it in range(120 if ctx.quick else 1200):
        shape = rng.choice([(3, 5), (4, 4), (2, 7), (3, 3, 2), (5, 3)])
        npx = int(np.prod(shape))
        vals = list(range(1, npx + 1))
        rng.shuffle(vals)
        arr = np.array(vals, dtype=float).reshape(shape)
        idx = np.arange(npx).reshape(shape)
        seeds = rng.sample(range(npx), rng.randint(1, 3))
        mv = rng.choice([0, npx // 4])

        def run_(a_, i_):
            flat = i_.ravel().tolist()
            pos = [flat.index(p_) for p_ in seeds]                       # where the seeded pixels are now
            coords = tuple(np.asarray(c_) for c_ in np.unravel_index(np.array(pos), a_.shape))
            d_ = Dendrogram.compute(np.ascontiguousarray(a_), min_value=mv, is_independent=pruning.contains_seeds(coords))
            return hierarchy_mapped(d_, a_.shape, flat)
        info = {'stream': 'seeded flips', 'shape': list(shape), 'data': vals, 'seed_pixels': seeds, 'min_value': mv}
        try:
            h0 = run_(arr, idx)
            fails = []
            for _ in range(3):
                perm = list(range(len(shape)))
                rng.shuffle(perm)
                sl = tuple(slice(None, None, -1) if rng.random() < 0.5 else slice(None) for _ in shape)
                a2, i2 = arr.transpose(perm)[sl], idx.transpose(perm)[sl]
                h = run_(a2, np.ascontiguousarray(i2))
                if h != h0:
                    fails.append('axes %s, flips %s: hierarchy %s, in the original orientation %s' % (perm, [s_.step == -1 for s_ in sl], h, h0))
                    break
        except Exception as e:
            fails = ['raised %r' % (e,)]
        ctx.count('seeded_flip_cases')
        ctx.case_done(None, ('seeded', tuple(vals), shape, tuple(seeds)) if len(h0) >= 2 else None)
        if fails:
            ctx.oracle_failure(info, fails)


def translation_edge_stream(ctx):
    """Translations v -> v + b with the parameters mapped along, where the arithmetic is delicate: (a) b = 2**52 or
    2**53 - 64 (every sum exact, spacing of doubles 1) with a half-integral min_delta; (b) integer data moved across
    zero with a fractional numpy-float threshold (-2.5 becomes 7.5).  The hierarchy must be the same.  Oracle only."""
    rng = ctx.rng('c16-translate')
    for it in range(150 if ctx.quick else 1500):
        shape = rng.choice([(rng.randint(6, 14),), (3, 4), (4, 4), (3, 5)])
        npx = int(np.prod(shape))
        vals = [rng.randint(1, 12) for _ in range(npx)]
        ident = list(range(npx))
        mode_ = rng.random()
        if mode_ < 0.15:
            # a strictly increasing map that saturates the brightest value (v -> v, max -> +inf), no pruning: islands
            # separated by pixels below the threshold, so that the brightest pixel may stand alone
            vals = [v if rng.random() < 0.7 else 0 for v in vals]
            if not any(vals):
                vals[0] = 3
            base = np.array(vals, dtype=float).reshape(shape)
            top = base.max()
            moved = np.where(base == top, np.inf, base)
            kw0 = dict(min_value=0.5)
            kw1 = dict(min_value=0.5)
            what = 'float64 data with the brightest value %r replaced by +inf' % float(top)
        elif mode_ < 0.3:
            # the same picture in units 2**-30 ... 2**-100 (or 2**40) of the original ones, min_delta scaled along
            a_ = rng.choice([2.0 ** -30, 2.0 ** -40, 2.0 ** -60, 2.0 ** -100, 2.0 ** 40])
            delta = float(rng.randint(1, 4))
            mv = rng.choice([0, 2])
            base = np.array(vals, dtype=float).reshape(shape)
            moved = base * a_                                            # exact
            kw0 = dict(min_value=float(mv), min_delta=delta)
            kw1 = dict(min_value=float(mv) * a_, min_delta=delta * a_)
            what = 'float64 data x %r, min_delta %r x %r' % (a_, delta, a_)
        elif mode_ < 0.65:
            b = rng.choice([2 ** 52, 2 ** 53 - 64, 2 ** 52 + 1])
            delta = rng.randint(0, 3) + 0.5
            mv = rng.choice([0, 2])
            base = np.array(vals, dtype=float).reshape(shape)
            moved = base + float(b)                                      # exact
            kw0 = dict(min_value=float(mv), min_delta=delta)
            kw1 = dict(min_value=float(mv + b), min_delta=delta)
            what = 'float64 data + %d, min_delta %r' % (b, delta)
        else:
            b = rng.choice([10, 7, 100])
            dt = rng.choice(['int8', 'int16', 'int32', 'int64'])
            t = rng.choice([-2.5, -0.5, -3.25, -1.75, -2.0, 0.0, 3.0, 1.0, -4.0])       # fractional, and integral floats that equal pixel values
            base = (np.array(vals, dtype=dt) - 6).reshape(shape)         # values -5 .. 6
            moved = base + np.array(b, dtype=dt)
            ftype = rng.choice([np.float64, np.float32])
            kw0 = dict(min_value=ftype(t))
            kw1 = dict(min_value=ftype(t + b))
            what = '%s data + %d, min_value %s(%r) -> %r' % (dt, b, ftype.__name__, t, t + b)
        info = {'stream': 'translations', 'shape': list(shape), 'data': [float(x) for x in base.ravel()], 'what': what}
        try:
            d0 = Dendrogram.compute(base, **kw0)
            d1 = Dendrogram.compute(moved, **kw1)
            h0, h1 = hierarchy_mapped(d0, shape, ident), hierarchy_mapped(d1, shape, ident)
            # the base run against the definition, so that a failure is attributed to the right run
            kept0 = sorted(p for p, v in enumerate(base.ravel().tolist()) if v > float(kw0['min_value']))
            got0 = sorted(p for p, l in enumerate(d0.index_map.ravel().tolist()) if l >= 0)
            fails = []
            if 'min_delta' not in kw0 and 'inf' not in what and got0 != kept0:
                fails.append('%s: assigned pixels %s, pixels above the threshold %s' % (what, got0, kept0))
            if h0 != h1:
                fails.append('%s: hierarchy %s, before the translation %s' % (what, h1, h0))
        except Exception as e:
            fails = ['compute raised %r' % (e,)]
            d0 = []
        ctx.count('translation_edges=%s' % ('saturation' if '+inf' in what else 'scaling' if ' x ' in what else ('large offset' if 'min_delta' in kw0 else 'integers across zero')))
        ctx.case_done(None, ('translate', tuple(vals), shape, what) if len(d0) >= 2 else None)
        if fails:
            ctx.oracle_failure(info, fails)


def default_threshold_scaling_stream(ctx):
    """The DEFAULT threshold (no min_value: every finite pixel is kept) under v -> a * v with a a power of two and the data
    on both sides of zero: at a = 2**55 ... 2**70 (float64) or 2**24 ... 2**30 (float32) the smallest value is a negative
    number of large magnitude, where "minimum - 1" is the minimum itself and the threshold has to be the next number
    BELOW it.  Every pixel must stay assigned and the hierarchy must be that of the unscaled picture.  Oracle only."""
    rng = ctx.rng('c16-default-scale')
    for it in range(60 if ctx.quick else 600):
        shape = rng.choice([(rng.randint(6, 14),), (3, 4), (4, 4), (3, 5)])
        npx = int(np.prod(shape))
        vals = [rng.randint(-9, 6) for _ in range(npx)]
        if min(vals) >= 0:
            vals[rng.randrange(npx)] = -rng.randint(1, 9)
        ident = list(range(npx))
        single = rng.random() < 0.4
        dt = np.float32 if single else np.float64
        e = rng.choice([24, 25, 27, 30]) if single else rng.choice([53, 55, 60, 70, 200])
        a_ = 2.0 ** e
        delta = float(rng.randint(0, 3))
        base = np.array(vals, dtype=dt).reshape(shape)
        moved = (base * dt(a_)).astype(dt)                               # exact (small integers times a power of two)
        what = '%s data on both sides of zero x 2**%d, default threshold, min_delta %r x 2**%d' % (dt.__name__, e, delta, e)
        info = {'stream': 'default threshold under scaling', 'shape': list(shape), 'data': [float(x) for x in base.ravel()], 'what': what}
        d0 = []
        try:
            d0 = Dendrogram.compute(base, min_delta=delta)
            d1 = Dendrogram.compute(moved, min_delta=delta * a_)
            h0, h1 = hierarchy_mapped(d0, shape, ident), hierarchy_mapped(d1, shape, ident)
            fails = []
            for nm, d in (('unscaled', d0), ('scaled', d1)):
                lost = sorted(p for p, l in enumerate(d.index_map.ravel().tolist()) if l < 0)
                if lost and delta == 0:
                    fails.append('%s (%s): default threshold, yet pixels %s are not assigned' % (what, nm, lost))
            if h0 != h1:
                fails.append('%s: hierarchy %s, before the scaling %s' % (what, h1, h0))
        except Exception as ex:
            fails = ['compute raised %r' % (ex,)]
        ctx.count('default_threshold_scaling=%s' % dt.__name__)
        ctx.case_done(None, ('default-scale', tuple(vals), shape, what) if len(d0) >= 2 else None)
        if fails:
            ctx.oracle_failure(info, fails)


def matches_known(k, case, fails, extra):
    return False


def replay(path):
    import json
    r = json.load(open(path))
    print(json.dumps(r, indent=1)[:4000])
    return 1
