"""Tie of the pixel relabellings of GridIso.v (flip / cyclic shift / padding / exchange of neighbouring axes /
length-one axis, along any axis) to numpy: the new flat position of every pixel."""
import numpy as np
from .. import common, tie
from ..common import cz, clist


def positions(idx2, n):
    """idx2: transformed array holding base flat indices (-1 = new cell) -> new flat position of each base pixel."""
    flat = idx2.ravel().tolist()
    pos = [None] * n
    for j, p in enumerate(flat):
        if p >= 0:
            pos[p] = j
    return pos


def rand_relab(rng, kinds):
    nd = rng.randint(1, 4)
    shape = [rng.randint(1, 4) for _ in range(nd)]
    while int(np.prod(shape)) > 60:
        shape[rng.randrange(nd)] = 1
    n = int(np.prod(shape))
    idx = np.arange(n).reshape(shape)
    kind = rng.choice(kinds)
    if kind == 'swap' and nd < 2:
        kind = 'flip'
    if kind == 'flip':
        a = rng.randrange(nd)
        return shape, 'RFlip %d' % a, np.flip(idx, a), {'kind': 'flip', 'axis': a}
    if kind == 'roll':
        a = rng.randrange(nd)
        k = rng.randint(0, 2 * shape[a] + 1)
        return shape, 'RRoll %d %d' % (a, k), np.roll(idx, k, axis=a), {'kind': 'roll', 'axis': a, 'k': k}
    if kind == 'pad':
        a = rng.randrange(nd)
        w, w2 = rng.randint(0, 2), rng.randint(0, 2)
        widths = [(0, 0)] * nd
        widths[a] = (w, w2)
        return shape, 'RPad %d %s %s' % (a, cz(w), cz(w2)), np.pad(idx, widths, constant_values=-1), {'kind': 'pad', 'axis': a, 'w': [w, w2]}
    if kind == 'swap':
        a = rng.randrange(nd - 1)
        return shape, 'RSwap %d' % a, np.ascontiguousarray(np.swapaxes(idx, a, a + 1)), {'kind': 'swap', 'axis': a}
    if kind == 'perm':
        # an arbitrary axis permutation (numpy transpose), decomposed into exchanges of neighbouring axes by a bubble sort
        perm = list(range(nd))
        rng.shuffle(perm)
        cur, ks = list(range(nd)), []
        for i in range(nd):                      # bring perm[i] to position i
            j = cur.index(perm[i])
            while j > i:
                cur[j - 1], cur[j] = cur[j], cur[j - 1]
                ks.append(j - 1)
                j -= 1
        assert cur == perm
        return shape, 'RSwaps [%s]' % '; '.join('%d%%nat' % k for k in ks), np.ascontiguousarray(np.transpose(idx, perm)), \
            {'kind': 'perm', 'axes': perm, 'exchanges': ks}
    a = rng.randint(0, nd)
    return shape, 'RUnit %d' % a, np.expand_dims(idx, a), {'kind': 'unit', 'axis': a}


def run_relabel_tie(ctx, name, kinds, n_cases):
    rng = ctx.rng('relabel')
    terms, meta = [], []
    for _ in range(n_cases):
        shape, rterm, idx2, info = rand_relab(rng, kinds)
        n = int(np.prod(shape))
        pos = positions(idx2, n)
        terms.append('(%s, %s, %s, %s)' % (clist(shape, cz), rterm, clist(list(idx2.shape), cz), clist(pos, cz)))
        info.update({'shape': shape, 'new_shape': list(idx2.shape), 'positions': pos})
        meta.append(info)
        ctx.count('relabel=' + info['kind'])
        ctx.case_done(None, ('relabel', tuple(shape), rterm) if n >= 4 else None)
    mism, errs = common.run_coq_shards(name, tie.HEADER, terms, 'mismatches relab_ok', shard=300, ctype='relab_case')
    ctx.errors.extend(errs)
    for i in mism[:5]:
        ctx.tie_mismatch('pixel relabelling (GridIso maps vs numpy)', meta[i], meta[i]['positions'], 'relab_ok = false')
