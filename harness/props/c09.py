"""C09 — save / load round-trips every dendrogram in both file formats."""
import os, shutil, tempfile, pathlib, itertools
import numpy as np
from .. import common, impl, gen, tie, oracles
from ..common import cz, clist, copt, cbool
from . import compute_common as cc
from . import dendro_common as dc
from .c01 import ASSUMPTIONS, TRUSTED
from astrodendro import Dendrogram
from astrodendro.structure import Structure
from astrodendro.io.util import parse_newick
from astrodendro import io as adio

RULE = ('(i) Newick: all tree shapes up to 6 (quick) / 8 (thorough) nodes with random multi-digit ids and negative / '
        'large heights, random forests, and every generated dendrogram: the text written by /repo must be the rendering '
        'of the model writer, parse back (reference parser, vm_compute) to the tree it came from, and parse_newick must '
        'give the same tree; (ii) real save_to/load_from in both formats, explicit and auto-detected, str and Path, '
        'with/without WCS, float/integer data, NaNs, negatives, computed and pruned dendrograms (id gaps), a dendrogram '
        'with thousands of structures, a deep chain; loaded vs original through data, label map, params, n_dim, WCS, ids, '
        'parents, child order, every accessor; model load (rebuild from label map + data) vs the loaded structures; '
        '(iii) format identification decision table on real files; non-trivial = at least three structures')
EXPLANATION = ('Theorems in props/C09.v (token-level Newick round trip for every forest, decimal ids, load(save d) up to '
               'pixel order, accessor equality for equivalent structures, format decision table) + ties (i)-(iii) + oracle')
HEADER = tie.HEADER.replace('From Coq Require Import ZArith List Bool.', 'From Coq Require Import ZArith List Bool String.') \
    .replace('Compute Corr.', 'Compute Newick IO Corr.')


def hstr(s):
    return '%.3f' % s.height


def coq_ntree(s):
    return '(NNode %s "%s"%%string %s)' % (cz(s.idx), hstr(s), clist(s.children, coq_ntree))


def shape_of_struct(s):
    return (int(s.idx), float(hstr(s)), [shape_of_struct(c) for c in s.children])


def shape_of_parsed(d):
    out = []
    for k, v in d.items():
        if isinstance(v, tuple):
            out.append((int(k), float(v[1]), shape_of_parsed(v[0])))
        else:
            out.append((int(k), float(v), []))
    return out


def all_shapes(n):
    """All ordered forests with n nodes, as nested lists."""
    if n == 0:
        yield []
        return
    for k in range(1, n + 1):          # size of the first tree
        for kids in all_shapes(k - 1):
            for rest in all_shapes(n - k):
                yield [kids] + rest


def build_struct(shape, ids, rng):
    idx = ids.pop()
    kids = [build_struct(k, ids, rng) for k in shape]
    v = rng.choice([rng.randint(-999, 999) / 8.0, rng.randint(0, 10 ** 6) / 4.0, 0.0, -0.0005, 1e7 + 0.5])
    if rng.random() < 0.06:
        v = rng.choice([float('inf'), float('-inf')])     # saturated / blanked-to-minus-infinity peaks: written as inf / -inf
    s = Structure((rng.randint(0, 50),), v, children=kids, idx=idx) if kids else Structure((rng.randint(0, 50),), v, idx=idx)
    return s


def synthetic_forests(rng, maxn, nrandom):
    for n in range(0, maxn + 1):
        for forest in all_shapes(n):
            yield forest
    for _ in range(nrandom):
        # random deeper / wider forests
        def rnd(depth):
            if depth == 0 or rng.random() < 0.3:
                return []
            return [rnd(depth - 1) for _ in range(rng.choice([2, 2, 3, 5]))]
        yield [rnd(rng.randint(1, 5)) for _ in range(rng.randint(1, 3))]


def count_nodes(forest):
    return sum(1 + count_nodes(k) for k in forest)


def newick_stream(ctx, terms, meta):
    rng = ctx.rng('newick')
    for forest in synthetic_forests(rng, 6 if ctx.quick else 8, 60 if ctx.quick else 600):
        n = count_nodes(forest)
        ids = rng.sample(range(0, max(n, 10 ** rng.choice([1, 2, 3, 5]))), n) if n else []
        while len(ids) < n:
            ids.append(len(ids) + 10 ** 6)
        d = Dendrogram()
        d.trunk = [build_struct(t, ids, rng) for t in forest]
        text = d.to_newick()
        want = [shape_of_struct(s) for s in d.trunk]
        ctx.count('newick_synthetic')
        ctx.case_done(None, ('nw', text) if n >= 3 else None, sample={'newick': text} if n >= 3 else None)
        try:
            got = shape_of_parsed(parse_newick(text))
        except Exception as e:
            got = 'parse_newick raised %r' % (e,)
        if got != want:
            ctx.oracle_failure({'newick': text, 'stream': 'newick'}, ['parse_newick gives %s, the tree written was %s' % (got, want)])
        terms.append('(%s, "%s"%%string)' % (clist(d.trunk, coq_ntree), text))
        meta.append({'newick': text})


WCS_CACHE = {}


def make_wcs(ndim, rng):
    from astropy.wcs import WCS
    w = WCS(naxis=ndim)
    w.wcs.crpix = [rng.randint(1, 5) for _ in range(ndim)]
    w.wcs.cdelt = [rng.choice([-0.5, 0.25, 1.0, 2.0]) for _ in range(ndim)]
    w.wcs.crval = [rng.randint(0, 90) for _ in range(ndim)]
    w.wcs.ctype = ['VELO-LSR'] if ndim == 1 else (['RA---TAN', 'DEC--TAN', 'VELO-LSR', 'STOKES'])[:ndim]
    return w


def fits_card_truncation(v):
    """What is left of a float written as a fixed-format FITS header value (at most 20 characters; the mantissa is
    cut, the exponent kept); None if the number fits or is not a float."""
    try:
        f = float(v)
    except Exception:
        return None
    if isinstance(v, (int, np.integer)) or f != f or f in (float('inf'), float('-inf')):
        return None
    s = repr(f).upper()
    if len(s) <= 20:
        return None
    i = s.find('E')
    s = s[:20] if i < 0 else s[:20 - (len(s) - i)] + s[i:]
    return float(s)


def compare_loaded(case, d, d2, fmt, had_wcs):
    """The C09 statement on one round trip; returns (failures, known-finding tags)."""
    fails, tags = [], []
    shape = tuple(case['shape'])
    a, b = np.asarray(d.data), np.asarray(d2.data)
    if a.shape != b.shape or not np.array_equal(a, b, equal_nan=True):
        fails.append('data differ after the round trip')
    if a.dtype.kind != b.dtype.kind:
        fails.append('data dtype kind %s became %s' % (a.dtype, b.dtype))
    if d.index_map.shape != d2.index_map.shape or not (np.asarray(d.index_map) == np.asarray(d2.index_map)).all():
        fails.append('label map differs after the round trip')
    for k in ('min_value', 'min_delta', 'min_npix'):
        if k not in d2.params or d2.params[k] != d.params[k]:
            if fmt == 'fits' and k in d2.params and fits_card_truncation(d.params[k]) == d2.params[k]:
                tags.append('K6')       # exactly what a 20-character FITS header value keeps of this number
            else:
                fails.append('parameter %s: %r -> %r' % (k, d.params.get(k), d2.params.get(k)))
    if d2.n_dim != d.n_dim:
        fails.append('n_dim %r -> %r' % (d.n_dim, d2.n_dim))
    if had_wcs:
        if d2.wcs is None or d2.wcs.to_header_string() != d.wcs.to_header_string():
            fails.append('WCS differs after the round trip')
    else:
        if d2.wcs is not None:
            if fmt == 'fits':
                tags.append('K3')
            else:
                fails.append('wcs None became %r' % (d2.wcs,))
    v1, v2 = impl.structs_view(d, shape), impl.structs_view(d2, shape)
    s1 = [(i, p, ch, sorted(own)) for i, p, ch, own in v1]
    s2 = [(i, p, ch, sorted(own)) for i, p, ch, own in v2]
    if s1 != s2:
        fails.append('structures differ: %s -> %s' % (s1, s2))
    if [s.idx for s in d.trunk] != [s.idx for s in d2.trunk]:
        fails.append('trunk order differs')
    if not fails:
        try:
            o1, o2 = tie.acc_obs(d, case), tie.acc_obs(d2, case)
            if o1 != o2:
                bad = [(x, y) for x, y in zip(o1, o2) if x != y][:2]
                fails.append('accessors differ after the round trip: %s' % (bad,))
            for s in d:
                t = d2[s.idx]
                for sub in (True, False):
                    if not (s.get_mask(subtree=sub) == t.get_mask(subtree=sub)).all():
                        fails.append('mask of %d differs' % s.idx)
                if s.level != t.level or s.ancestor.idx != t.ancestor.idx or \
                        sorted(x.idx for x in s.descendants) != sorted(x.idx for x in t.descendants):
                    fails.append('navigation of %d differs' % s.idx)
            if d.to_newick() != d2.to_newick():
                fails.append('Newick text differs after the round trip')
        except Exception as e:
            fails.append('accessor raised %r' % (e,))
        fails += oracles.oracle_c02(d2, computed=False)
        try:
            fails += oracles.oracle_c06(case, d2)
        except Exception as e:
            fails.append('accessor of the loaded dendrogram raised %r' % (e,))
    return fails, tags


def roundtrip(d, fmt, how, use_path, tmpdir):
    name = 'd' + {'hdf5': rng_choice_ext_hdf5(), 'fits': '.fits'}[fmt]
    path = os.path.join(tmpdir, name)
    p = pathlib.Path(path) if use_path else path
    if how == 'explicit':
        d.save_to(p, format=fmt)
        return Dendrogram.load_from(p, format=fmt)
    d.save_to(p)
    return Dendrogram.load_from(p)


_ext_toggle = [0]


def rng_choice_ext_hdf5():
    _ext_toggle[0] += 1
    return '.hdf5' if _ext_toggle[0] % 3 else '.h5'


TAG_TEXT = {'K3': 'FITS load turns wcs=None into a blank WCS object',
            'K6': 'FITS header keeps only 20 characters of a float parameter: min_value / min_delta come back truncated'}


def explore(ctx):
    rng = ctx.rng('c09')
    nterms, nmeta = [], []
    newick_stream(ctx, nterms, nmeta)
    lterms, lmeta = [], []
    tmpdir = tempfile.mkdtemp(prefix='verif-c09-', dir=dc.SCRATCH)
    try:
        n = 260 if ctx.quick else 2600
        for it in range(n):
            c = dc.tree_rich_case(rng)
            if rng.random() < 0.3:
                c = gen.rand_case(rng, maxpix=30, allow_user=False)       # incl. integer dtypes
                if c.get('minv') is not None and rng.random() < 0.7:
                    c['minv'] = None
            if rng.random() < 0.08:
                # integer data reaching an end of its dtype, default threshold (one below the minimum)
                dt = rng.choice(['uint8', 'uint16', 'int8', 'int16', 'int32', 'uint32', 'int64', 'int64', 'uint64'])
                info = np.iinfo(dt)
                span = rng.choice([6, 12, 40])
                base = rng.choice([info.min, info.min, info.max - span])
                c['vals'] = [int(base + (abs(int(v)) % (span + 1))) for v in (x if x is not None else 0 for x in c['vals'])]
                c['dtype'], c['scale'], c['minv'], c['delta'], c['npix'] = dt, 0, None, 0, [0, 1]
                c.pop('den', None)
                ctx.count('integer_bounds_stream')
            if c.get('dtype', 'float64') == 'float64' and not c.get('den') and rng.random() < 0.15:
                # the same integers on a very fine grid: parameters like 3 * 2**-40 need 17 significant digits
                c['scale'] = rng.choice([30, 40, 45])
                ctx.count('fine_grid_parameters')
            try:
                d = impl.run_compute(c)
            except Exception as e:
                ctx.oracle_failure(c, ['compute raised %r' % (e,)])
                continue
            history = ['compute']
            if rng.random() < 0.4:
                if rng.random() < 0.5:
                    d.to_newick()
                    [s.level for s in d]
                for k in range(rng.randint(1, 2)):
                    step = dc.rand_prune_step(rng, c)
                    d.prune(**dc.prune_kwargs(c, step))
                    history.append(step)
            had_wcs = False
            if rng.random() < 0.4 and len(c['shape']) <= 4:
                d.wcs = make_wcs(len(c['shape']), rng)
                had_wcs = True
            fmt = rng.choice(['hdf5', 'fits'])
            how = rng.choice(['explicit', 'auto'])
            use_path = rng.random() < 0.4
            info = {'case': c, 'history': history, 'format': fmt, 'how': how, 'path': use_path, 'wcs': had_wcs}
            ctx.count('roundtrip=%s/%s' % (fmt, how))
            try:
                d2 = roundtrip(d, fmt, how, use_path, tmpdir)
            except Exception as e:
                extra = {'exc': type(e).__name__}
                mv = d.params.get('min_value')
                if fmt == 'hdf5' and isinstance(e, TypeError) and 'no native HDF5 equivalent' in str(e) and \
                        isinstance(mv, int) and not (-2 ** 63 <= mv < 2 ** 64):
                    extra['tag'] = 'K7'
                ctx.oracle_failure(info, ['save/load raised %r' % (e,)], extra)
                continue
            fails, tags = compare_loaded(c, d, d2, fmt, had_wcs)
            if not fails and np.dtype(c.get('dtype', 'float64')).kind in 'iu' and len(d) >= 2:
                # "identical answers": the loaded copy must also behave like the original under the next operation -
                # prune both with a min_delta that does not fit a narrow integer type
                try:
                    import copy as _copy
                    span = int(np.max(d.data)) - int(np.min(d.data))
                    md = rng.choice([max(1, span // 2), span, max(1, span - 1)])
                    da, db = _copy.deepcopy(d), d2
                    ha0 = impl.impl_hierarchy(da, tuple(c['shape']))
                    da.prune(min_delta=md)
                    db.prune(min_delta=md)
                    ha, hb = impl.impl_hierarchy(da, tuple(c['shape'])), impl.impl_hierarchy(db, tuple(c['shape']))
                    if ha != hb:
                        fails.append('prune(min_delta=%d) of the loaded copy gives %s, of the original %s' % (md, hb, ha))
                    d2 = dc.save_load(d, fmt)          # a fresh loaded copy for the comparisons below
                except Exception as e:
                    fails.append('pruning the loaded copy raised %r' % (e,))
            key = (fmt, how, tuple(c['vals']), tuple(c['shape']), str(history)) if len(d) >= 3 else None
            ctx.case_done(c, key, sample=info if key else None)
            for tg in sorted(set(tags)):
                ctx.oracle_failure(info, [TAG_TEXT[tg]], {'tag': tg})
            if fails:
                ctx.oracle_failure(info, fails, {})
                continue
            # the Newick text of this dendrogram, and the model's load on the file contents
            text = d.to_newick()
            nterms.append('(%s, "%s"%%string)' % (clist(list(d.trunk), coq_ntree), text))
            nmeta.append({'case': c, 'history': history, 'newick': text})
            labels = [int(x) for x in d.index_map.ravel().tolist()]
            lterms.append('(%s, %s, %s, %s)' % (clist(c['vals'], copt), clist(labels), clist(list(d.trunk), coq_ntree),
                                                tie.coq_structs(impl.structs_view(d2, tuple(c['shape'])))))
            lmeta.append(info)
        special_files(ctx, tmpdir)
        listed_findings(ctx, tmpdir)
        big_cases(ctx, tmpdir)
        byte_order_and_big_integers(ctx, tmpdir)
        format_table(ctx, tmpdir)
    finally:
        shutil.rmtree(tmpdir, ignore_errors=True)
    for name, terms, meta, ev, ct, proj in (('c09_nw', nterms, nmeta, 'mismatches newick_ok', 'newick_case', 'Newick text: render / reference parser'),
                                            ('c09_ld', lterms, lmeta, 'mismatches load_ok', 'load_case', 'load: structures rebuilt from label map and data')):
        mism, errs = common.run_coq_shards(name, HEADER, terms, ev, shard=200, ctype=ct)
        ctx.errors.extend(errs)
        for i in mism[:5]:
            ctx.tie_mismatch(proj, meta[i], None, None)


def special_files(ctx, tmpdir):
    """Round trips outside the integer model (oracle only): gzip-compressed FITS written and read by name alone, and
    data containing +inf / -inf (heights are then written as inf)."""
    rng = ctx.rng('c09-special')
    for it in range(24 if ctx.quick else 240):
        c = dc.tree_rich_case(rng, maxpix=24)
        c['dtype'], c['scale'] = 'float64', 0
        c.pop('den', None)
        kind = rng.choice(['gz', 'gz', 'inf', 'inf', '-inf', 'inf-param'])
        arr = impl.case_array(dict(c, layout='C')).astype(float)
        if kind in ('inf', '-inf'):
            flat = arr.ravel()
            for j in rng.sample(range(flat.size), min(flat.size, rng.randint(1, 2))):
                if np.isfinite(np.delete(flat, j)).any():          # keep at least one number (as for all-NaN input)
                    flat[j] = np.inf if kind == 'inf' else -np.inf
        info = {'stream': 'special files', 'kind': kind, 'shape': list(arr.shape), 'data': arr.tolist()}
        try:
            kw = impl.compute_kwargs(c)
            kw.pop('is_independent', None)
            if kind == '-inf' and kw.get('min_value', 'min') == 'min':
                kw['min_value'] = float(np.min(arr[np.isfinite(arr)])) - 1.0
            if kind == 'inf-param':
                # legal, if unusual, parameters: keep every pixel (min_value=-inf); no leaf is ever independent (min_delta=inf)
                if rng.random() < 0.7:
                    kw['min_value'] = -np.inf
                else:
                    kw['min_delta'] = np.inf
                info['params'] = {k_: repr(v_) for k_, v_ in kw.items() if k_ in ('min_value', 'min_delta', 'min_npix')}
            d = Dendrogram.compute(arr, **kw)
        except Exception as e:
            ctx.oracle_failure(info, ['compute raised %r' % (e,)], {})
            continue
        for fmt, name in ((('fits', 'd.fits.gz'),) if kind == 'gz' else (('fits', 'd.fits'), ('hdf5', 'd.hdf5'))):
            path = os.path.join(tmpdir, name)
            ctx.count('special=%s/%s' % (kind, fmt))
            try:
                d.save_to(path)
                d2 = Dendrogram.load_from(path)
            except Exception as e:
                ctx.oracle_failure(dict(info, file=name), ['save_to / load_from by name alone raised %r' % (e,)], {'exc': type(e).__name__})
                continue
            finally:
                if os.path.exists(path):
                    os.remove(path)
            fails = []
            a, b = np.asarray(d.data), np.asarray(d2.data)
            if a.shape != b.shape or not np.array_equal(a, b, equal_nan=True):
                fails.append('data differ after the round trip')
            if not (np.asarray(d.index_map) == np.asarray(d2.index_map)).all():
                fails.append('label map differs after the round trip')
            if kind == 'inf-param' and any(float(d.params[k_]) != float(d2.params[k_]) for k_ in ('min_value', 'min_delta', 'min_npix')):
                fails.append('parameters %s come back as %s' % (dict(d.params), dict(d2.params)))
            v1, v2 = impl.structs_view(d, tuple(arr.shape)), impl.structs_view(d2, tuple(arr.shape))
            if [(i, p_, ch, sorted(own)) for i, p_, ch, own in v1] != [(i, p_, ch, sorted(own)) for i, p_, ch, own in v2]:
                fails.append('structures differ after the round trip')
            for s in d:
                t = d2[s.idx]
                if (s.vmin, s.vmax, s.height) != (t.vmin, t.vmax, t.height) and not (s.height != s.height and t.height != t.height):
                    fails.append('vmin/vmax/height of %d: %r -> %r' % (s.idx, (s.vmin, s.vmax, s.height), (t.vmin, t.vmax, t.height)))
                    break
            ctx.case_done(None, ('special', kind, fmt, it) if len(d) >= 2 else None)
            if fails:
                ctx.oracle_failure(dict(info, file=name), fails, {})


def listed_findings(ctx, tmpdir):
    """The minimal inputs of the known findings K3, K6, K7 (known_findings.json) run first, on every run, so that each
    listed finding is reported while it exists (and silently stops being reported once it is repaired)."""
    arr = np.array([[1., 5., 2.], [3., 1., 4.]])
    # K3: FITS, wcs=None comes back as a blank WCS; K6: a parameter longer than 20 characters in a FITS card
    for tag, kw in (('K3', {}), ('K6', {'min_value': 1.2345678901234568e-05})):
        try:
            d = Dendrogram.compute(arr.copy(), **kw)
            d2 = roundtrip(d, 'fits', 'explicit', False, tmpdir)
            c = {'shape': [2, 3], 'vals': [1, 5, 2, 3, 1, 4], 'scale': 0}
            fails, tags = compare_loaded(c, d, d2, 'fits', False)
            if tag in tags:
                ctx.oracle_failure({'stream': 'listed findings', 'finding': tag, 'data': arr.tolist(), 'parameters': {k_: repr(v_) for k_, v_ in kw.items()}, 'format': 'fits'},
                                   [TAG_TEXT[tag]], {'tag': tag})
        except Exception as e:
            ctx.oracle_failure({'stream': 'listed findings', 'finding': tag}, ['raised %r' % (e,)], {})
        ctx.case_done(None, ('listed', tag))
    # K7: HDF5 cannot store the default threshold of int64 data that contains the smallest int64
    vals = [-2 ** 63, -2 ** 63 + 5, -2 ** 63 + 2, -2 ** 63 + 7]
    try:
        d = Dendrogram.compute(np.array(vals, dtype=np.int64))
        try:
            roundtrip(d, 'hdf5', 'explicit', False, tmpdir)
        except TypeError as e:
            mv = d.params.get('min_value')
            if 'no native HDF5 equivalent' in str(e) and isinstance(mv, int) and not (-2 ** 63 <= mv < 2 ** 64):
                ctx.oracle_failure({'stream': 'listed findings', 'finding': 'K7', 'data': vals, 'dtype': 'int64', 'min_value': 'default', 'format': 'hdf5'},
                                   ['save/load raised %r' % (e,)], {'tag': 'K7', 'exc': 'TypeError'})
            else:
                ctx.oracle_failure({'stream': 'listed findings', 'finding': 'K7'}, ['save/load raised %r' % (e,)], {})
    except Exception as e:
        ctx.oracle_failure({'stream': 'listed findings', 'finding': 'K7'}, ['raised %r' % (e,)], {})
    ctx.case_done(None, ('listed', 'K7'))


def byte_order_and_big_integers(ctx, tmpdir):
    """Arrays as other programs hand them over: big-endian data (what astropy.io.fits returns; also a dendrogram loaded from
    FITS and saved again as HDF5), and 64-bit integers far beyond 2**53 with their (integer) default threshold.  Data,
    label map, parameters and structure values must come back exactly.  Oracle only."""
    rng = ctx.rng('c09-byteorder')
    for it in range(24 if ctx.quick else 240):
        n = rng.randint(4, 10)
        kind = rng.choice(['big-endian', 'big-endian', 'via-fits', 'big-integers', 'big-integers'])
        if kind == 'big-integers':
            base = rng.choice([2 ** 53, 2 ** 60, 2 ** 62, -2 ** 60]) + rng.randint(1, 999)
            vals = [base + rng.randint(1, 60) for _ in range(n)]
            arr = np.array(vals, dtype=rng.choice(['int64', 'int64', 'uint64']) if base > 0 else 'int64')
            kw = {} if rng.random() < 0.6 else {'min_value': base + rng.randint(0, 5), 'min_delta': rng.choice([0, 2 ** 54 + 1])}
        else:
            vals = [rng.randint(1, 40) for _ in range(n)]
            arr = np.array(vals, dtype=rng.choice(['>f8', '>f4', '>i4', '>i2', '>i8']))
            kw = {'min_value': 0}
        info = {'stream': 'byte order / big integers', 'kind': kind, 'dtype': arr.dtype.str, 'data': vals, 'parameters': {k_: repr(v_) for k_, v_ in kw.items()}}
        try:
            d = Dendrogram.compute(arr, **kw)
            if kind == 'via-fits':
                p0 = os.path.join(tmpdir, 'first.fits')
                d.save_to(p0)
                d = Dendrogram.load_from(p0)
                os.remove(p0)
        except Exception as e:
            ctx.oracle_failure(info, ['building the dendrogram raised %r' % (e,)], {})
            continue
        for fmt, name in (('hdf5', 'd.hdf5'), ('fits', 'd.fits')):
            path = os.path.join(tmpdir, name)
            ctx.count('byteorder=%s/%s' % (kind, fmt))
            try:
                d.save_to(path)
                d2 = Dendrogram.load_from(path)
            except Exception as e:
                ctx.oracle_failure(dict(info, file=name), ['save_to / load_from raised %r' % (e,)], {'exc': type(e).__name__})
                continue
            finally:
                if os.path.exists(path):
                    os.remove(path)
            fails = []
            a, b = np.asarray(d.data), np.asarray(d2.data)
            if a.shape != b.shape or [x.item() for x in a.ravel()] != [x.item() for x in b.ravel()]:
                fails.append('data differ after the round trip: %s -> %s' % ([x.item() for x in a.ravel()][:4], [x.item() for x in b.ravel()][:4]))
            if not (np.asarray(d.index_map) == np.asarray(d2.index_map)).all():
                fails.append('label map differs after the round trip')
            for k_ in ('min_value', 'min_delta', 'min_npix'):
                v1, v2 = d.params[k_], d2.params[k_]
                v1 = v1.item() if hasattr(v1, 'item') else v1
                v2 = v2.item() if hasattr(v2, 'item') else v2
                if v1 != v2 and not (fmt == 'fits' and isinstance(v1, float)):      # (floats in a FITS card: K6)
                    fails.append('parameter %s: %r -> %r' % (k_, v1, v2))
            for s in d:
                t = d2[s.idx] if s.idx in d2._structures_dict else None
                if t is None or (s.vmin, s.vmax, s.height) != (t.vmin, t.vmax, t.height):
                    fails.append('vmin/vmax/height of %d: %r -> %r' % (s.idx, (s.vmin, s.vmax, s.height), None if t is None else (t.vmin, t.vmax, t.height)))
                    break
            ctx.case_done(None, ('byteorder', kind, fmt, it) if len(d) >= 2 else None)
            if fails:
                ctx.oracle_failure(dict(info, file=name), fails[:3], {})


def big_cases(ctx, tmpdir):
    """Thousands of structures; a deep chain (depth beyond the recursion limit)."""
    rng = ctx.rng('big')
    n = 4000 if ctx.quick else 12000
    vals = [(i % 2) * 10 ** 6 + rng.randint(1, 10 ** 5) * 2 + (i % 2) for i in range(n)]
    arr = np.array(vals, dtype=float)
    d = Dendrogram.compute(arr)
    ctx.notes['big: structures'] = len(d)
    case = {'shape': [n], 'vals': vals, 'scale': 0}
    for fmt in ('hdf5', 'fits'):
        info = {'stream': 'thousands of structures', 'n_pixels': n, 'structures': len(d), 'format': fmt}
        try:
            d2 = roundtrip(d, fmt, 'auto', False, tmpdir)
            fails, _ = compare_loaded(case, d, d2, fmt, False)
            fails = [f for f in fails]
        except Exception as e:
            ctx.oracle_failure(info, ['save/load raised %r' % (e,)], {'exc': type(e).__name__, 'depth': max(s.level for s in d)})
            continue
        ctx.case_done(None, ('big', fmt))
        if fails:
            ctx.oracle_failure(info, fails[:3], {})
    # pruned down to a few structures that keep their (large, no longer consecutive) identifiers
    for fmt in ('hdf5', 'fits'):
        dp = Dendrogram.compute(arr)
        dp.prune(min_npix=rng.choice([40, 120, 400]))
        info = {'stream': 'pruned to few structures with large identifiers', 'n_pixels': n, 'structures': len(dp),
                'largest_id': max([int(s.idx) for s in dp] or [0]), 'format': fmt}
        try:
            d2 = roundtrip(dp, fmt, 'auto', False, tmpdir)
            fails, _ = compare_loaded(case, dp, d2, fmt, False)
        except Exception as e:
            ctx.oracle_failure(info, ['save/load raised %r' % (e,)], {'exc': type(e).__name__})
            continue
        ctx.notes['big pruned (%s)' % fmt] = {'structures': len(dp), 'largest_id': info['largest_id']}
        ctx.case_done(None, ('big-pruned', fmt))
        if fails:
            ctx.oracle_failure(info, fails[:3], {})
    # more than 2**15 structures, pruned to three that keep identifiers beyond 2**15
    n2 = 33200
    vals2 = [(i % 2) * 1000 + rng.randint(1, 400) * 2 + (i % 2) for i in range(n2)]
    vals2[-40], vals2[-20] = 10 ** 6, 2 * 10 ** 6
    arr2 = np.array(vals2, dtype=float)
    case2 = {'shape': [n2], 'vals': vals2, 'scale': 0}
    for fmt in ('hdf5', 'fits'):
        dp = Dendrogram.compute(arr2)
        n_before = len(dp)
        dp.prune(min_delta=5 * 10 ** 5)
        info = {'stream': 'more than 2**15 structures pruned to few with identifiers beyond 2**15', 'n_pixels': n2, 'structures_before': n_before,
                'structures': len(dp), 'largest_id': max([int(s.idx) for s in dp] or [0]), 'format': fmt}
        try:
            d2 = roundtrip(dp, fmt, 'auto', False, tmpdir)
            fails, _ = compare_loaded(case2, dp, d2, fmt, False)
        except Exception as e:
            ctx.oracle_failure(info, ['save/load raised %r' % (e,)], {'exc': type(e).__name__})
            continue
        ctx.notes['2**15 pruned (%s)' % fmt] = {'structures_before': n_before, 'structures': len(dp), 'largest_id': info['largest_id']}
        ctx.case_done(None, ('2**15-pruned', fmt))
        if fails:
            ctx.oracle_failure(info, fails[:3], {})
    # deep chain: a staircase with a small bump on every step nests one branch per step
    depth = 1300
    vals = []
    for k in range(depth):
        vals += [3 * (depth - k) + 2, 3 * (depth - k), 3 * (depth - k) + 1]
    arr = np.array(vals[::-1] if False else vals, dtype=float)
    d = Dendrogram.compute(arr)
    maxlevel = max(s.level for s in d)
    ctx.notes['deep chain: max level'] = maxlevel
    for fmt in ('hdf5', 'fits'):
        info = {'stream': 'deep chain', 'depth': maxlevel, 'format': fmt}
        try:
            d2 = roundtrip(d, fmt, 'explicit', False, tmpdir)
            fails, _ = compare_loaded({'shape': [len(vals)], 'vals': vals, 'scale': 0}, d, d2, fmt, False)
        except Exception as e:
            ctx.oracle_failure(info, ['save/load raised %r' % (e,)], {'exc': type(e).__name__, 'depth': maxlevel})
            continue
        ctx.case_done(None, ('deep', fmt))
        if fails:
            ctx.oracle_failure(info, fails[:3], {})


def format_table(ctx, tmpdir):
    """identify / auto-detection on real files: extension x content x read/write."""
    d = Dendrogram.compute(np.array([[1., 5., 2.], [3., 1., 4.]]))
    src = {}
    for fmt, ext in (('fits', '.fits'), ('hdf5', '.hdf5')):
        p = os.path.join(tmpdir, 'src' + ext)
        d.save_to(p, format=fmt)
        src[fmt] = open(p, 'rb').read()
    contents = {'NoFile': None, 'SigFits': src['fits'], 'SigHdf5': src['hdf5'], 'SigOther': b'this is not a dendrogram file\n' * 4}
    # (only the END of the name counts: cube.fits.hdf5 is an HDF5 name, notes.hdf5.txt no dendrogram name at all)
    exts = {'ExtFits': ['.fits', '.fit', '.FITS', '.hdf5.fits', '.h5.fit'], 'ExtHdf5': ['.hdf5', '.h5', '.HDF5', '.fits.hdf5', '.fit.h5', '.fits.gz.h5'],
            'ExtOther': ['.dat', '', '.txt', '.fits.txt', '.hdf5.dat', '.fitsx']}
    terms, meta = [], []
    k = 0
    for ecls, elist in exts.items():
        for ext in elist:
            for ccls, blob in contents.items():
                for reading in (True, False):
                    k += 1
                    path = os.path.join(tmpdir, 'f%d%s' % (k, ext))
                    if blob is not None:
                        open(path, 'wb').write(blob)
                    # which handler does auto-detection pick?
                    picked = None
                    for name, h in adio.IO_FORMATS.items():
                        if h.identify(path, mode='r' if reading else 'w'):
                            picked = name
                            break
                    # the public entry points
                    outcome = None
                    try:
                        if reading:
                            if blob is not None:
                                Dendrogram.load_from(path)
                                outcome = 'ok'
                        else:
                            d.save_to(path)
                            outcome = 'ok'
                    except IOError as e:
                        outcome = 'IOError' if 'identify' in str(e) else 'other:%r' % (e,)
                    except Exception as e:
                        outcome = 'other:%s' % type(e).__name__
                    exp = {'fits': '(Some FITS)', 'hdf5': '(Some HDF5)', None: 'None'}[picked]
                    terms.append('(None, %s, %s, %s, %s)' % (ecls, ccls, cbool(reading), exp))
                    meta.append({'ext': ext, 'content': ccls, 'reading': reading, 'picked': picked, 'outcome': outcome})
                    ctx.count('format_table')
                    ctx.case_done(None, ('fmt', ext, ccls, reading))
                    # property-level expectations on the public entry points
                    fails = []
                    if not reading:
                        want = 'ok' if ecls != 'ExtOther' else 'IOError'
                        if outcome != want:
                            fails.append('save_to(%r) on %s target: %s, expected %s' % (ext, ccls, outcome, want))
                        elif outcome == 'ok':
                            sig = open(path, 'rb').read(8)
                            isfits = sig.startswith(b'SIMPLE')
                            if (ecls == 'ExtFits') != isfits:
                                fails.append('save_to wrote %s content under extension %r' % ('FITS' if isfits else 'HDF5', ext))
                    elif blob is not None:
                        want = 'ok' if ccls in ('SigFits', 'SigHdf5') else 'IOError'
                        if outcome != want:
                            fails.append('load_from(%r) with %s content: %s, expected %s' % (ext, ccls, outcome, want))
                    if fails:
                        ctx.oracle_failure({'stream': 'format', 'ext': ext, 'content': ccls, 'reading': reading}, fails, {})
                    try:
                        os.remove(path)
                    except OSError:
                        pass
    mism, errs = common.run_coq_shards('c09_fmt', HEADER, terms, 'mismatches choose_ok', shard=400, ctype='choose_case')
    ctx.errors.extend(errs)
    for i in mism[:5]:
        ctx.tie_mismatch('format choice (IO.choose)', meta[i], None, None)


def matches_known(k, case, fails, extra):
    extra = extra or {}
    if k['id'] in ('K3', 'K6', 'K7'):
        return extra.get('tag') == k['id']
    return False


def replay(path):
    import json
    r = json.load(open(path))
    print(json.dumps(r, indent=1)[:4000])
    return 1
