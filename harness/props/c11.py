"""C11 — PP / PPV statistics follow their stated definitions and axis conventions."""
import math, warnings
from fractions import Fraction
import numpy as np
from astropy import units as u
from astropy.wcs import WCS
from . import wcs_common as wc
from .. import common, impl, gen, tie, oracles
from ..common import cz, clist, copt, cbool
from .c01 import TRUSTED
from .c10 import cq, close, exact_moments
from astrodendro.analysis import ScalarStatistic, PPStatistic, PPVStatistic, MissingMetadataWarning

RULE = ('random pixel sets in 2-D (PP) and 3-D (PPV): integer positions, dyadic positive weights, elongated structures at an '
        'angle, asymmetric weights; vaxis in {0,1,2} with the data transposed accordingly; with / without spatial_scale '
        '(non-unit, several angular units), velocity_scale, linear WCS with offsets and scales; every statistic: value vs '
        'the exact model (squares of the sigmas are dx^2 times the roots of x^2 - tr x + det), unit, linear scaling; '
        'Metadata descriptor (missing / strict / default / wrong type); non-trivial = at least four points with non-zero '
        'off-diagonal sky covariance')
EXPLANATION = ('Theorems in props/C11.v (sigma^2 are the roots of the characteristic polynomial of the sky covariance, sum / '
               'product, non-negativity, velocity-axis invariance, units, metadata table) + tie of the exact quantities + oracle')
ASSUMPTIONS = ['floats vs exact rationals at relative tolerance 1e-8', 'astropy units / WCS are libraries',
               'position angle is compared modulo 180 degrees (eigenvector sign)']
HEADER = """From Coq Require Import ZArith List Bool QArith.
From Dendro Require Import Base Tree Plot Moments Stats Corr.
Import ListNotations.
Open Scope Q_scope.
"""


def make_pts(rng, nd):
    n = rng.randint(2, 10)
    pts = []
    ang = rng.random() < 0.6
    for k in range(n):
        if ang:
            t = rng.randint(0, 6)
            pos = [rng.randint(0, 3)] * (nd - 2) + [t + rng.randint(0, 1), 2 * t % 7 + rng.randint(0, 1)]
            if nd == 3:
                pos[0] = rng.randint(0, 5)
        else:
            pos = [rng.randint(0, 6) for _ in range(nd)]
        pts.append((pos, Fraction(rng.randint(1, 24), 8)))
    return pts


def stat_of(pts, nd):
    vals = np.array([float(w) for _, w in pts])
    idx = tuple(np.array([p[i] for p, _ in pts]) for i in range(nd))
    return ScalarStatistic(vals, idx)


def roots(tr, det):
    disc = max(0.0, tr * tr - 4 * det)
    return (tr + math.sqrt(disc)) / 2, (tr - math.sqrt(disc)) / 2


def check_sky(name, obs, dx, l1, l2, fails, floor=0.0):
    """sigmas against dx*sqrt(eigenvalue); a square root amplifies rounding near 0, so the minor axis
    and the products are compared with an absolute tolerance relative to the major axis."""
    major, minor = dx * math.sqrt(max(l1, 0)), dx * math.sqrt(max(l2, 0))
    atol = 1e-6 * max(major, floor, 1e-12)
    for k, w in (('major_sigma', major), ('minor_sigma', minor)):
        g = obs[k]
        if not (g == g) or abs(g - w) > atol + 1e-7 * abs(w):
            fails.append('%s %s = %r, expected %r' % (name, k, g, w))
    prod = major * minor
    if not (obs['radius'] == obs['radius']) or abs(obs['radius'] ** 2 - prod) > 1e-5 * major * major + 1e-7 * prod:
        fails.append('%s radius = %r, expected the geometric mean %r' % (name, obs['radius'], math.sqrt(prod)))
    wa = math.pi * prod * (2.3548 * 0.5) ** 2
    if not (obs['area_ellipse'] == obs['area_ellipse']) or abs(obs['area_ellipse'] - wa) > 1e-5 * math.pi * major * major * (2.3548 * 0.5) ** 2 + 1e-7 * wa:
        fails.append('%s area_ellipse = %r, expected %r' % (name, obs['area_ellipse'], wa))
    if not (obs['major_sigma'] >= obs['minor_sigma'] - atol and obs['minor_sigma'] >= 0):
        fails.append('%s sigmas not ordered / non-negative: %r %r' % (name, obs['major_sigma'], obs['minor_sigma']))


def pa_ok(pa_deg, M, l1, l2):
    """The position angle points along the major axis: (sin, cos) in (y, x) order is an eigenvector for l1."""
    if abs(l1 - l2) < 1e-9 * max(1.0, abs(l1)):
        return True
    th = math.radians(pa_deg)
    uvec = np.array([math.sin(th), math.cos(th)])
    return np.allclose(M @ uvec, l1 * uvec, atol=1e-6 * max(1.0, abs(l1)))


def values(st, fields):
    out, units = {}, {}
    for f in fields:
        v = getattr(st, f)
        q = 1 * v
        out[f] = float(q.value) if hasattr(q, 'value') else float(q)
        units[f] = str(q.unit) if hasattr(q, 'unit') else ''
    return out, units


def mixed_sign_stream(ctx):
    """Noise pixels below zero: the weighted covariance can then have a negative eigenvalue (there is no real width along
    that axis: 0).  Sigmas stay real, non-negative and ordered, and equal scale x sqrt(max(eigenvalue, 0)).  Oracle only."""
    rng = ctx.rng('c11-mixed-sign')
    for it in range(100 if ctx.quick else 1000):
        nd = rng.choice([2, 3])
        n = rng.randint(3, 8)
        pts = [([rng.randint(0, 4) for _ in range(nd)], Fraction(rng.choice([-8, -4, -2, 4, 8, 16, 24, 32]), 8)) for _ in range(n)]
        if sum(w for _, w in pts) <= 0:
            pts.append(([2] * nd, Fraction(12)))
        dx = rng.choice([1.0, 2.0])
        md = {'data_unit': u.Jy, 'spatial_scale': dx * u.arcsec}
        info = {'stream': 'mixed-sign pixels', 'nd': nd, 'points': [[p, str(w)] for p, w in pts]}
        fails = []
        try:
            m0, m1, m2 = exact_moments(pts, nd)
            with warnings.catch_warnings():
                warnings.simplefilter('ignore')
                st = (PPStatistic if nd == 2 else PPVStatistic)(stat_of(pts, nd), dict(md, **({'vaxis': 0} if nd == 3 else {})))
                obs, _ = values(st, ['major_sigma', 'minor_sigma', 'radius', 'area_ellipse'] + (['v_rms'] if nd == 3 else []))
            o = nd - 2
            a, b, c = float(m2[o][o]), float(m2[o][o + 1]), float(m2[o + 1][o + 1])
            l1, l2 = roots(a + c, a * c - b * b)
            # (with both eigenvalues <= 0 the widths are 0 up to the square root of a rounding error of the covariance)
            check_sky('mixed-sign', obs, dx, l1, l2, fails, floor=max(dx, dx * math.sqrt(max(abs(a), abs(b), abs(c), 1e-30))))
            if nd == 3:
                wv = math.sqrt(max(float(m2[0][0]), 0.0))
                if not (obs['v_rms'] == obs['v_rms']) or abs(obs['v_rms'] - wv) > 1e-6 * max(wv, 1.0):
                    fails.append('v_rms %r, expected sqrt(max(variance, 0)) = %r' % (obs['v_rms'], wv))
            ctx.count('mixed_sign_indefinite' if l2 < 0 else 'mixed_sign_definite')
        except Exception as e:
            fails.append('raised %r' % (e,))
        ctx.case_done(None, ('mixed-sign', it))
        if fails:
            ctx.oracle_failure(info, fails[:3])


def symmetric_block_stream(ctx):
    """Pixel sets whose sky covariance has two equal eigenvalues (square blocks of constant value, sets invariant under a
    quarter turn): the widths are real, equal up to rounding, and equal to scale x sqrt(eigenvalue).  Oracle only."""
    rng = ctx.rng('c11-symmetric')
    for it in range(80 if ctx.quick else 800):
        nd = rng.choice([2, 3])
        k = rng.randint(2, 7)
        wgt = Fraction(rng.choice([3, 25, 10, 1, 7, 33, 70]), 10)
        cells = set()
        if rng.random() < 0.5:
            cells = {(i, j) for i in range(k) for j in range(k)}
        else:
            # a random set closed under rotation by 90 degrees about the centre of a k x k square
            for _ in range(rng.randint(1, 4)):
                i, j = rng.randrange(k), rng.randrange(k)
                for _r in range(4):
                    cells.add((i, j))
                    i, j = j, k - 1 - i
        oy, ox = rng.randint(0, 5), rng.randint(0, 5)
        pts = [(([rng.randint(0, 2)] if nd == 3 else []) + [oy + i, ox + j], wgt) for i, j in sorted(cells)]
        if nd == 3:
            pts = [([1] + p[1:], w) for p, w in pts]
        dx = rng.choice([1.0, 2.0])
        md = {'data_unit': u.Jy, 'spatial_scale': dx * u.arcsec}
        info = {'stream': 'symmetric pixel sets', 'nd': nd, 'points': [[p, str(w)] for p, w in pts]}
        fails = []
        try:
            m0, m1, m2 = exact_moments(pts, nd)
            with warnings.catch_warnings():
                warnings.simplefilter('ignore')
                st = (PPStatistic if nd == 2 else PPVStatistic)(stat_of(pts, nd), dict(md, **({'vaxis': 0} if nd == 3 else {})))
                obs, _ = values(st, ['major_sigma', 'minor_sigma', 'radius', 'area_ellipse'])
            o = nd - 2
            a, b, c = float(m2[o][o]), float(m2[o][o + 1]), float(m2[o + 1][o + 1])
            l1, l2 = roots(a + c, a * c - b * b)
            check_sky('symmetric set', obs, dx, l1, l2, fails, floor=dx)          # (absolute tolerance: a millionth of a pixel)
        except Exception as e:
            fails.append('raised %r' % (e,))
        ctx.count('symmetric_sets')
        ctx.case_done(None, ('symmetric', it))
        if fails:
            ctx.oracle_failure(info, fails[:3])


def explore(ctx):
    mixed_sign_stream(ctx)
    symmetric_block_stream(ctx)
    rng = ctx.rng('c11')
    terms, expect = [], []
    warnings.simplefilter('ignore')
    n = 300 if ctx.quick else 3000
    for it in range(n):
        nd = rng.choice([2, 3, 3])
        pts = make_pts(rng, nd)
        fails = []
        info = {'nd': nd, 'points': [[p, str(w)] for p, w in pts]}
        scale_opts = [None, 2 * u.arcsec, 0.5 * u.deg, 3 * u.arcmin]
        ss = rng.choice(scale_opts)
        vs = rng.choice([None, 2 * u.km / u.s, 500 * u.m / u.s])
        md = {}
        if ss is not None:
            md['spatial_scale'] = ss
        if vs is not None and nd == 3:
            md['velocity_scale'] = vs
        dx = 1.0 if ss is None else float(ss.value)
        dv = 1.0 if vs is None else float(vs.value)
        try:
            m0, m1, m2 = exact_moments(pts, nd)
            # the same structure far from the origin of the array (a small cloud in a large mosaic / long cube): sizes,
            # areas and the velocity width do not move, the centroid moves along
            off = [rng.choice([10 ** 4, 3 * 10 ** 5, 2 ** 22, 10 ** 7]) for _ in range(nd)]
            names_t = ['major_sigma', 'minor_sigma', 'radius', 'area_exact'] + (['v_rms'] if nd == 3 else [])
            cls_t = PPStatistic if nd == 2 else PPVStatistic
            o_near, _ = values(cls_t(stat_of(pts, nd), md), names_t + ['x_cen'])
            o_far, _ = values(cls_t(stat_of([([a_ + b_ for a_, b_ in zip(p_, off)], w_) for p_, w_ in pts], nd), md), names_t + ['x_cen'])
            scale_t = max(abs(o_near['major_sigma']), 1e-300)
            for k_ in names_t:
                # variances (squares of the widths) are what the arithmetic produces: a width that is exactly zero
                # near the origin may be 1e-4 far away (square root of a rounding error), its square may not move
                sq = (lambda x: x) if k_ == 'area_exact' else (lambda x: x * x)
                if abs(sq(o_far[k_]) - sq(o_near[k_])) > 1e-6 * scale_t ** 2 + 1e-6 * abs(sq(o_near[k_])):
                    fails.append('%s of the same pixels translated by %s is %r, near the origin %r' % (k_, off, o_far[k_], o_near[k_]))
            if abs((o_far['x_cen'] - off[-1]) - o_near['x_cen']) > 1e-6:
                fails.append('x_cen does not follow a translation by %s: %r vs %r' % (off, o_far['x_cen'], o_near['x_cen']))
            ctx.count('far_from_origin')
            if nd == 2:
                st = PPStatistic(stat_of(pts, 2), md)
                obs, units = values(st, ['major_sigma', 'minor_sigma', 'radius', 'area_ellipse', 'area_exact', 'position_angle', 'x_cen', 'y_cen'])
                a, b, c = float(m2[0][0]), float(m2[0][1]), float(m2[1][1])
                l1, l2 = roots(a + c, a * c - b * b)
                check_sky('PP', obs, dx, l1, l2, fails)
                if not close(obs['area_exact'], len(pts) * dx * dx, 1e-9):
                    fails.append('PP area_exact %r, expected %r' % (obs['area_exact'], len(pts) * dx * dx))
                if not pa_ok(obs['position_angle'], np.array([[a, b], [b, c]]), l1, l2):
                    fails.append('PP position_angle %r is not the direction of the major axis' % obs['position_angle'])
                if not (close(obs['x_cen'], m1[1]) and close(obs['y_cen'], m1[0])):
                    fails.append('PP centroid (%r, %r), weighted mean (x=%s, y=%s)' % (obs['x_cen'], obs['y_cen'], float(m1[1]), float(m1[0])))
                want_units = {'major_sigma': 'pix' if ss is None else str(ss.unit), 'minor_sigma': 'pix' if ss is None else str(ss.unit),
                              'radius': 'pix' if ss is None else str(ss.unit), 'area_exact': 'pix2' if ss is None else str((ss ** 2).unit),
                              'area_ellipse': 'pix2' if ss is None else str((ss ** 2).unit), 'position_angle': 'deg', 'x_cen': 'pix', 'y_cen': 'pix'}
                for k, w in want_units.items():
                    if units[k] != w:
                        fails.append('PP %s carries unit %r, expected %r' % (k, units[k], w))
                # linear scaling with the spatial scale
                if ss is not None:
                    st2 = PPStatistic(stat_of(pts, 2), dict(md, spatial_scale=3 * ss))
                    o2, _ = values(st2, ['major_sigma', 'area_exact', 'area_ellipse'])
                    if not (close(o2['major_sigma'], 3 * obs['major_sigma'], 1e-9) and close(o2['area_exact'], 9 * obs['area_exact'], 1e-9)
                            and close(o2['area_ellipse'], 9 * obs['area_ellipse'], 1e-9)):
                        fails.append('PP quantities do not scale linearly with spatial_scale')
                ps = '[' + '; '.join('{| px := %s; pw := Some %s |}' % (clist(p, cq), cq(w)) for p, w in pts) + ']'
                terms.append('pp_view %s' % ps)
                expect.append(('pp', info, obs, dx, dv))
                # WCS: centroid through a linear WCS
                w = WCS(naxis=2)
                w.wcs.crpix = [rng.randint(1, 4), rng.randint(1, 4)]
                w.wcs.cdelt = [rng.choice([0.5, 2.0, -1.0]), rng.choice([0.25, 1.0])]
                w.wcs.crval = [rng.randint(0, 30), rng.randint(0, 30)]
                stw = PPStatistic(stat_of(pts, 2), dict(md, wcs=w))
                ex = (float(m1[1]) + 1 - w.wcs.crpix[0]) * w.wcs.cdelt[0] + w.wcs.crval[0]
                ey = (float(m1[0]) + 1 - w.wcs.crpix[1]) * w.wcs.cdelt[1] + w.wcs.crval[1]
                if not (close(float(stw.x_cen), ex, 1e-8) and close(float(stw.y_cen), ey, 1e-8)):
                    fails.append('PP centroid through the WCS (%r, %r), expected (%r, %r)' % (float(stw.x_cen), float(stw.y_cen), ex, ey))
                # ... and through rotated, projected and distorted ones
                for w2, expect2, desc in (wc.rotated_linear(rng), wc.celestial(rng, False), wc.celestial(rng, True)):
                    stw = PPStatistic(stat_of(pts, 2), dict(md, wcs=w2))
                    e2 = expect2([float(m1[1]), float(m1[0])])
                    g2 = [float(u.Quantity(stw.x_cen).value), float(u.Quantity(stw.y_cen).value)]
                    ctx.count('wcs=' + desc.split(' rotated')[0])
                    if not (close(g2[0], e2[0], 1e-9) and close(g2[1], e2[1], 1e-9)):
                        fails.append('PP centroid through a WCS with %s: (%r, %r), the transformed mean pixel position is (%r, %r)' % (desc, g2[0], g2[1], float(e2[0]), float(e2[1])))
                    # a WCS changes the centroids only: sizes, areas and the position angle (the direction of the major
                    # axis in the pixel grid) are those without it, in the units of the metadata
                    ow, uw = values(stw, ['major_sigma', 'minor_sigma', 'radius', 'area_ellipse', 'area_exact', 'position_angle'])
                    for k_ in ow:
                        same = (abs((ow[k_] - obs[k_] + 90) % 180 - 90) < 1e-6) if k_ == 'position_angle' else close(ow[k_], obs[k_], 1e-9)
                        if (not same and not (ow[k_] != ow[k_] and obs[k_] != obs[k_])) or uw[k_] != units[k_]:
                            fails.append('%s with a WCS (%s) is %r %s, without it %r %s' % (k_, desc, ow[k_], uw[k_], obs[k_], units[k_]))
                            break
            else:
                base = None
                for vaxis in (0, 1, 2):
                    # the same cube with its velocity axis moved to array position vaxis
                    def mv(p):
                        v, y, x = p
                        return [v, y, x] if vaxis == 0 else ([y, v, x] if vaxis == 1 else [y, x, v])
                    pts_v = [(mv(p), w) for p, w in pts]
                    # the axis number as users hold it: a Python int, or a numpy integer (read from a header, np.argmax ...)
                    vax_given = [int, np.int64, np.int32, np.intp, np.uint8][(it + vaxis) % 5](vaxis)
                    st = PPVStatistic(stat_of(pts_v, 3), dict(md, vaxis=vax_given))
                    obs, units = values(st, ['major_sigma', 'minor_sigma', 'radius', 'area_ellipse', 'area_exact', 'position_angle',
                                             'x_cen', 'y_cen', 'v_cen', 'v_rms'])
                    a, b, c = float(m2[1][1]), float(m2[1][2]), float(m2[2][2])
                    l1, l2 = roots(a + c, a * c - b * b)
                    check_sky('PPV vaxis=%d' % vaxis, obs, dx, l1, l2, fails)
                    nsky = len(set((p[1], p[2]) for p, _ in pts))
                    if not close(obs['area_exact'], nsky * dx * dx, 1e-9):
                        fails.append('PPV vaxis=%d area_exact %r, expected %r' % (vaxis, obs['area_exact'], nsky * dx * dx))
                    if not close(obs['v_rms'], dv * math.sqrt(max(float(m2[0][0]), 0)), 1e-7):
                        fails.append('PPV vaxis=%d v_rms %r, expected %r' % (vaxis, obs['v_rms'], dv * math.sqrt(float(m2[0][0]))))
                    if not (close(obs['x_cen'], m1[2]) and close(obs['y_cen'], m1[1]) and close(obs['v_cen'], m1[0])):
                        fails.append('PPV vaxis=%d centroids (%r, %r, %r), weighted means (x=%s, y=%s, v=%s)' % (
                            vaxis, obs['x_cen'], obs['y_cen'], obs['v_cen'], float(m1[2]), float(m1[1]), float(m1[0])))
                    if not pa_ok(obs['position_angle'], np.array([[a, b], [b, c]]), l1, l2):
                        fails.append('PPV vaxis=%d position_angle %r is not the direction of the major axis' % (vaxis, obs['position_angle']))
                    wu = {'major_sigma': 'pix' if ss is None else str(ss.unit), 'v_rms': 'pix' if vs is None else str(vs.unit),
                          'area_exact': 'pix2' if ss is None else str((ss ** 2).unit), 'position_angle': 'deg'}
                    for k, w_ in wu.items():
                        if units[k] != w_:
                            fails.append('PPV %s carries unit %r, expected %r' % (k, units[k], w_))
                    if base is None:
                        base = obs
                    else:
                        for k in obs:
                            tol = 1e-7
                            if k == 'position_angle':
                                dpa = abs((obs[k] - base[k] + 90) % 180 - 90)
                                if dpa > 1e-5 and abs(l1 - l2) > 1e-9:
                                    fails.append('position_angle depends on the declared velocity axis: %r vs %r' % (obs[k], base[k]))
                            elif not close(obs[k], base[k], tol):
                                fails.append('%s depends on the declared velocity axis (vaxis=%d: %r, vaxis=0: %r)' % (k, vaxis, obs[k], base[k]))
                    ps = '[' + '; '.join('{| px := %s; pw := Some %s |}' % (clist(p, cq), cq(w)) for p, w in pts_v) + ']'
                    terms.append('ppv_view %s %d%%nat' % (ps, vaxis))
                    expect.append(('ppv', dict(info, vaxis=vaxis), obs, dx, dv))
                # one ScalarStatistic object wrapped by several statistics that declare different velocity axes:
                # each must answer like a statistic built on a fresh object
                shared = stat_of(pts, 3)
                names = ['major_sigma', 'minor_sigma', 'radius', 'area_ellipse', 'area_exact', 'position_angle',
                         'x_cen', 'y_cen', 'v_cen', 'v_rms']
                for vx in [rng.randrange(3) for _ in range(3)]:
                    oa, _ = values(PPVStatistic(shared, dict(md, vaxis=vx)), names)
                    ob, _ = values(PPVStatistic(stat_of(pts, 3), dict(md, vaxis=vx)), names)
                    for k in names:
                        same = (abs((oa[k] - ob[k] + 90) % 180 - 90) < 1e-6) if k == 'position_angle' else close(oa[k], ob[k], 1e-9)
                        if not same and not (oa[k] != oa[k] and ob[k] != ob[k]):
                            fails.append('%s with vaxis=%d on a ScalarStatistic already used with another vaxis is %r, on a fresh one %r'
                                         % (k, vx, oa[k], ob[k]))
                            break
                # a cube WCS with rotated sky axes (and possibly a velocity gradient), velocity axis first in the array
                w3, expect3, desc = wc.rotated_linear(rng, 3)
                st3 = PPVStatistic(stat_of(pts, 3), dict(md, wcs=w3, vaxis=0))
                e3 = expect3([float(m1[2]), float(m1[1]), float(m1[0])])
                g3 = [float(u.Quantity(q).value) for q in (st3.x_cen, st3.y_cen, st3.v_cen)]
                ctx.count('wcs=cube ' + desc.split(' rotated')[0])
                if not all(close(a_, b_, 1e-9) for a_, b_ in zip(g3, e3)):
                    fails.append('PPV centroid through a cube WCS with %s: %r, the transformed mean pixel position is %r' % (desc, g3, [float(x) for x in e3]))
                # one statistic object whose metadata dictionary is edited in place (another velocity axis, another
                # pixel scale): every later answer is that of a statistic built with the edited metadata
                mdl = dict(md, vaxis=rng.randrange(3))
                live = PPVStatistic(stat_of(pts, 3), mdl)
                values(live, names)
                for _ in range(2):
                    if rng.random() < 0.7:
                        mdl['vaxis'] = rng.randrange(3)
                    else:
                        mdl['spatial_scale'] = rng.choice([2.0, 0.5, 7.0]) * u.arcsec
                    oa, ua = values(live, names)
                    ob, ub = values(PPVStatistic(stat_of(pts, 3), dict(mdl)), names)
                    for k in names:
                        same = (abs((oa[k] - ob[k] + 90) % 180 - 90) < 1e-6) if k == 'position_angle' else close(oa[k], ob[k], 1e-9)
                        if (not same and not (oa[k] != oa[k] and ob[k] != ob[k])) or ua[k] != ub[k]:
                            fails.append('%s after the metadata of a live statistic was changed in place to %s is %r %s, a statistic built with that metadata gives %r %s'
                                         % (k, {k2: str(v2) for k2, v2 in mdl.items()}, oa[k], ua[k], ob[k], ub[k]))
                            break
                ctx.count('metadata_edited_in_place')
                if vs is not None:
                    st2 = PPVStatistic(stat_of(pts, 3), dict(md, velocity_scale=4 * vs))
                    if not close(float((1 * st2.v_rms).value), 4 * base['v_rms'], 1e-9):
                        fails.append('v_rms does not scale linearly with velocity_scale')
        except Exception as e:
            fails.append('statistic raised %r' % (e,))
        offd = len(pts) >= 4 and float(m2[nd - 2][nd - 1]) != 0
        ctx.count('nd=%d' % nd)
        ctx.case_done(info, str(info) if offd else None, sample=info if offd else None)
        if fails:
            ctx.oracle_failure(dict(info, metadata=str(md)), fails)
    metadata_checks(ctx)
    vals = [None] * len(terms)
    for kind in ('pp', 'ppv'):
        sel = [i for i, e in enumerate(expect) if e[0] == kind]
        vs_, errs = common.coq_dump_many('c11_' + kind, HEADER, [terms[i] for i in sel], batch=40)
        ctx.errors.extend(errs)
        for i, v in zip(sel, vs_):
            vals[i] = v
    fr = lambda n_, d_: float(Fraction(int(n_), int(d_)))
    for (kind, info, obs, dx, dv), out in zip(expect, vals):
        if out is None:
            continue
        try:
            if kind == 'pp':
                tn, td, (dn, dd, (yn, yd, (xn, xd, cnt))) = out
                l1, l2 = roots(fr(tn, td), fr(dn, dd))
                ok = close(obs['major_sigma'], dx * math.sqrt(max(l1, 0)), 1e-7) and abs(obs['minor_sigma'] - dx * math.sqrt(max(l2, 0))) <= 1e-6 * max(1e-12, dx * math.sqrt(max(l1, 0))) + 1e-7 * obs['minor_sigma'] \
                    and close(obs['x_cen'], fr(xn, xd)) and close(obs['y_cen'], fr(yn, yd)) and close(obs['area_exact'], cnt * dx * dx)
            else:
                tn, td, (dn, dd, (vn, vd, (cvn, cvd, (cyn, cyd, (cxn, cxd, cnt))))) = out
                l1, l2 = roots(fr(tn, td), fr(dn, dd))
                ok = close(obs['major_sigma'], dx * math.sqrt(max(l1, 0)), 1e-7) and abs(obs['minor_sigma'] - dx * math.sqrt(max(l2, 0))) <= 1e-6 * max(1e-12, dx * math.sqrt(max(l1, 0))) + 1e-7 * obs['minor_sigma'] \
                    and close(obs['v_rms'], dv * math.sqrt(max(fr(vn, vd), 0)), 1e-7) \
                    and close(obs['x_cen'], fr(cxn, cxd)) and close(obs['y_cen'], fr(cyn, cyd)) and close(obs['v_cen'], fr(cvn, cvd)) \
                    and close(obs['area_exact'], cnt * dx * dx)
        except Exception as e:
            ok = False
        if not ok:
            ctx.tie_mismatch('PP/PPV statistics (Stats.pp_view / ppv_view)', info, obs, str(out)[:500])


def metadata_checks(ctx):
    """The Metadata descriptor decision table on the real classes."""
    st = stat_of([([0, 0], Fraction(1)), ([1, 2], Fraction(2)), ([2, 1], Fraction(1))], 2)
    fails = []
    try:
        PPStatistic(st, {}).flux
        fails.append('missing strict data_unit did not raise')
    except KeyError:
        pass
    except Exception as e:
        fails.append('missing strict data_unit raised %r instead of KeyError' % (e,))
    try:
        PPStatistic(st, {'spatial_scale': 2.0}).major_sigma
        fails.append('spatial_scale of the wrong type did not raise')
    except TypeError:
        pass
    except Exception as e:
        fails.append('wrong-type spatial_scale raised %r instead of TypeError' % (e,))
    try:
        if PPStatistic(st, {}).spatial_scale is not None:
            fails.append('missing non-strict metadata without default is not None')
        s3 = stat_of([([0, 0, 0], Fraction(1)), ([1, 2, 1], Fraction(2))], 3)
        if PPVStatistic(s3, {}).vaxis != 0:
            fails.append('vaxis default is not 0')
        if PPVStatistic(s3, {'vaxis': 2}).vaxis != 2:
            fails.append('given vaxis not returned')
    except Exception as e:
        fails.append('metadata access raised %r' % (e,))
    for dims, cls in ((3, PPStatistic), (2, PPVStatistic)):
        try:
            cls(stat_of([([0] * dims, Fraction(1))], dims), {})
            fails.append('%s accepted %d-d data' % (cls.__name__, dims))
        except ValueError:
            pass
    ctx.count('metadata_checks')
    ctx.case_done(None, ('metadata',))
    if fails:
        ctx.oracle_failure({'stream': 'metadata descriptor'}, fails)


def matches_known(k, case, fails, extra):
    return False


def replay(path):
    import json
    r = json.load(open(path))
    print(json.dumps(r, indent=1)[:4000])
    return 1
