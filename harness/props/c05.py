"""C05 — leaves are exactly the independent local maxima."""
from .. import common, impl, gen, tie, oracles
from . import compute_common as cc
from .c01 import matches_known, ASSUMPTIONS, TRUSTED

RULE = ('structured random compute cases as for C01 (parameters exactly at, just below and just above each comparison; '
        'fractional min_npix; plateau-rich arrays), all orderings / small-alphabet arrays on small grids; '
        'non-trivial = at least two structures')
EXPLANATION = ('Theorems C05_leaf_with_parent / C05_parentless_leaf (+ criteria lemmas) on the Coq model + correspondence '
               'with /repo + recomputation of brightest outside neighbour and regional maxima on the implementation. '
               'The regional-maxima bijection is checked by the oracle only (no theorem yet): C05_regional_maxima is open.')


def oracle(case, d):
    return oracles.oracle_c05(case, d)


def explore(ctx):
    cc.explore_compute(ctx, oracle, n_random_quick=3000, n_random_thorough=30000,
                       exhaustive=(5, 6) if ctx.quick else (7, 8))
    cc.decimal_stream(ctx, 1500 if ctx.quick else 15000)
    cc.decimal_stream(ctx, 1500 if ctx.quick else 15000, sum_negative=True)
    # an adjacency object used for several arrays must give each the leaves it would get alone
    from . import grid_common
    grid_common.reused_adjacency_stream(ctx, 100 if ctx.quick else 1000)


def shrink(case, fails, extra):
    def pred(c):
        d, _ = impl.compute_obs(c)
        return bool(oracle(c, d))
    return cc.shrink_compute(case, pred)


def replay(path):
    import json
    r = json.load(open(path))
    case = r.get('case')
    if case and 'vals' in case:
        d, obs = impl.compute_obs(case)
        fails = oracle(case, d)
        print('implementation:', obs)
        print('model:', tie.model_compute_view(case, 'c05_replay'))
        print('oracle failures:', fails)
        return 1 if fails else 0
    print(json.dumps(r, indent=1)[:3000])
    return 1
