"""C05 — leaves are exactly the independent local maxima."""
from .. import common, impl, gen, tie, oracles
from . import compute_common as cc
from .c01 import matches_known, ASSUMPTIONS, TRUSTED

RULE = ('structured random compute cases as for C01 (parameters exactly at, just below and just above each comparison; '
        'fractional min_npix; plateau-rich arrays), all orderings / small-alphabet arrays on small grids; '
        'non-trivial = at least two structures')
EXPLANATION = ('Theorems C05_leaf_with_parent / C05_parentless_leaf (+ criteria lemmas) on the Coq model + correspondence '
               'with /repo + recomputation of brightest outside neighbour and regional maxima on the implementation. '
               'The regional-maxima bijection is checked by the oracle only (no theorem yet): C05_regional_maxima is open.')


def oracle(case, d):
    return oracles.oracle_c05(case, d)


def explore(ctx):
    cc.explore_compute(ctx, oracle, n_random_quick=3000, n_random_thorough=30000,
                       exhaustive=(5, 6) if ctx.quick else (7, 8))
    cc.decimal_stream(ctx, 1500 if ctx.quick else 15000)
    cc.decimal_stream(ctx, 1500 if ctx.quick else 15000, sum_negative=True)
    narrow_parameter_stream(ctx)
    cc.infinity_tie_stream(ctx, 200 if ctx.quick else 2000, 'c05_inf_tie')
    # an adjacency object used for several arrays must give each the leaves it would get alone
    from . import grid_common
    grid_common.reused_adjacency_stream(ctx, 100 if ctx.quick else 1000)


def shrink(case, fails, extra):
    def pred(c):
        d, _ = impl.compute_obs(c)
        return bool(oracle(c, d))
    return cc.shrink_compute(case, pred)


def replay(path):
    import json
    r = json.load(open(path))
    case = r.get('case')
    if case and 'vals' in case:
        d, obs = impl.compute_obs(case)
        fails = oracle(case, d)
        print('implementation:', obs)
        print('model:', tie.model_compute_view(case, 'c05_replay'))
        print('oracle failures:', fails)
        return 1 if fails else 0
    print(json.dumps(r, indent=1)[:3000])
    return 1


def narrow_parameter_stream(ctx):
    """Criteria thresholds given as numpy scalars of single / half precision (e.g. 3 * image.std() of a float32 image) mean
    the number they hold: the dendrogram must be the one obtained with the same number as a Python float.  Data on a
    very fine grid (differences far below single precision).  Differential, oracle only."""
    import numpy as np
    from astrodendro import Dendrogram, pruning
    rng = ctx.rng('c05-narrow-params')
    for it in range(120 if ctx.quick else 1200):
        n = rng.randint(4, 9)
        fine = [rng.randint(0, 8) * 2.0 ** -rng.choice([29, 30, 31, 40]) for _ in range(n)]
        coarse = [rng.choice([0.0, 0.0, 1.0, 2.0, 3.0, 0.5]) for _ in range(n)]
        vals = [c + f for c, f in zip(coarse, fine)]
        dt = rng.choice(['float64', 'float32'])
        arr = np.array(vals, dtype=dt)
        thr = rng.choice([1.0, 0.5, 2.0, 3.0])
        kind = rng.choice(['min_delta', 'min_delta', 'min_peak', 'min_sum'])
        narrow = rng.choice([np.float32, np.float32, np.float16])(thr)
        if rng.random() < 0.4:
            # a decimal threshold: np.float32(0.3) holds 0.300000011920929, and that is the number it means (not 0.3):
            # rises a hair below, at and above that number
            narrow = np.float32(rng.choice([0.3, 0.1, 0.7, 1.1]))
            thr = float(narrow)
            kind = rng.choice(['min_delta', 'min_delta', 'min_peak'])
            dt = 'float64'
            vals = [rng.choice([0.0, 1.0, 2.0]) + rng.choice([0.0, 0.0, thr - 2.0 ** -30, thr, thr + 2.0 ** -30]) for _ in range(n)]
            arr = np.array(vals, dtype=dt)

        def run(t):
            if kind == 'min_delta':
                return Dendrogram.compute(arr, min_value=-1.0, min_delta=t)
            crit = pruning.min_peak(t) if kind == 'min_peak' else pruning.min_sum(t)
            return Dendrogram.compute(arr, min_value=-1.0, is_independent=crit)
        try:
            a, b = run(float(thr)), run(narrow)
        except Exception as e:
            ctx.oracle_failure({'stream': 'narrow parameters', 'data': vals, 'dtype': dt, 'criterion': kind, 'threshold': thr}, ['compute raised %r' % (e,)])
            continue
        ha, hb = impl.impl_hierarchy(a, (n,)), impl.impl_hierarchy(b, (n,))
        ctx.count('narrow_parameter/%s' % kind)
        ctx.case_done(None, ('narrow-param', tuple(vals), dt, kind, thr) if len(a) >= 2 else None)
        if ha != hb:
            ctx.oracle_failure({'stream': 'narrow parameters', 'data': vals, 'dtype': dt, 'criterion': kind, 'threshold': thr},
                               ['%s=%r as a Python float gives %s, as %s gives %s' % (kind, thr, ha, type(narrow).__name__, hb)])
