"""C14 — no answer depends on what was asked before (no stale derived state)."""
import copy, os, tempfile, shutil
import numpy as np
from .. import common, impl, gen, tie, oracles
from ..common import cz, clist, copt, cbool
from . import compute_common as cc
from . import dendro_common as dc
from .c01 import ASSUMPTIONS, TRUSTED
from astrodendro import Dendrogram
from astrodendro.io.util import parse_dendrogram

RULE = ('random histories (up to 12 operations) over: level / ancestor / descendants / get_npix / get_peak / get_mask / '
        'newick of random structures, to_newick, prune with arbitrary parameters (also user criteria), save+load in either '
        'format, plotter construction (also kept across a prune and rebuilt); after EVERY operation all public observables '
        'of the live dendrogram are compared with a dendrogram freshly constructed (independently of any cache or memo) '
        'from the current parent/child links, label map and data, and a file saved at that point must load back to it; '
        'the cached-query/prune part of every history is also run through the Coq cache model; non-trivial = history with '
        'a prune that removes a structure after at least one query')
EXPLANATION = ('Theorems in props/C14.v (every history of cached queries and prunes reports what fresh dendrograms report; '
               'the legacy prune refuted) + tie of histories with the Coq cache model + fresh-reconstruction oracle after every step')
HEADER = tie.HEADER.replace('Compute Corr.', 'Compute Prune Cache Corr.')


def newick_from_links(d):
    """Newick text built by the harness from the parent/child links alone."""
    def one(s):
        if s.children:
            return '(%s)%d:%.3f' % (','.join(one(c) for c in s.children), s.idx, s.height)
        return '%d:%.3f' % (s.idx, s.height)
    return '(%s);' % ','.join(one(s) for s in d.trunk)


def fresh_copy(d):
    return parse_dendrogram(newick_from_links(d), np.array(d.data, copy=True), np.array(d.index_map, copy=True), dict(d.params))


def full_obs(d, shape):
    out = {}
    for s in d:
        po, ps = s.get_peak(subtree=False), s.get_peak(subtree=True)
        out[int(s.idx)] = {
            'level': int(s.level), 'ancestor': int(s.ancestor.idx),
            'descendants': [int(x.idx) for x in s.descendants],          # in the order reported (generation by generation)
            'npix': (int(s.get_npix(subtree=False)), int(s.get_npix(subtree=True))),
            'peak': ((impl.ravel(shape, po[0]), float(po[1])), (impl.ravel(shape, ps[0]), float(ps[1]))),
            'mask': (s.get_mask(subtree=True).tobytes(), s.get_mask(subtree=False).tobytes()),
            'newick': s.newick, 'vmin': float(s.vmin), 'vmax': float(s.vmax), 'height': float(s.height),
            'parent': None if s.parent is None else int(s.parent.idx), 'children': [int(c.idx) for c in s.children],
        }
    out['to_newick'] = d.to_newick()
    out['order'] = [int(s.idx) for s in d]
    out['leaves'] = sorted(int(s.idx) for s in d.leaves)
    out['len'] = len(d)
    p = d.plotter()
    out['positions'] = sorted((int(s.idx), round(float(x), 9)) for s, x in p._cached_positions.items())
    return out


def compare_fresh(d, shape):
    fr = fresh_copy(d)
    a, b = full_obs(d, shape), full_obs(fr, shape)
    diff = [k for k in a if a[k] != b.get(k)]
    # the label map is derived state too: after whatever happened it names existing structures only (the fresh copy is
    # built FROM it, so this is checked on its own), and every pixel can be looked up
    ids = set(int(s.idx) for s in d)
    stale = sorted(set(int(l) for l in d.index_map.ravel().tolist() if l >= 0) - ids)
    if stale:
        diff.append('label map (still holds the identifiers %s of structures that no longer exist)' % stale)
    else:
        try:
            for p in np.ndindex(*shape):
                d.structure_at(p)
        except Exception as e:
            diff.append('structure_at (raised %r)' % (e,))
    return diff


def junction_with_parent_stream(ctx):
    """Corpus (from a reviewer's change that reset the caches only after a two-sibling merge): a junction pixel where
    three arms meet - a branch B with three children - which itself has a parent P; everything is queried, then a prune
    removes ONE arm (B keeps two children, nothing is re-parented).  What P and B report afterwards must be what a fresh
    dendrogram reports.  All eight orientations, values rescaled, the removed arm varied by the threshold."""
    from astrodendro import Dendrogram
    base = np.array([[0, 0, 9, 0, 0], [0, 0, 8, 0, 0], [7, 6, 3, 5, 7.5], [0, 0, 1, 0, 0], [0, 0, 6.5, 0, 0]])
    for tr in (False, True):
        for fy in (1, -1):
            for fx in (1, -1):
                for a_, b_ in ((1, 0), (2, 0), (4, 8)):
                    for delta in (2.2, 2.6):
                        arr = np.ascontiguousarray((base.T if tr else base)[::fy, ::fx]) * a_
                        arr = np.where(arr > 0, arr + b_, 0.0)
                        shape = arr.shape
                        info = {'stream': 'junction with a parent', 'shape': list(shape), 'data': arr.ravel().tolist(),
                                'history': ['compute(min_value=%r)' % (0.5 * a_ + b_ if b_ == 0 else b_ + 0.5,), 'all queries', 'prune(min_delta=%r)' % (delta * a_,)]}
                        try:
                            d = Dendrogram.compute(arr, min_value=(0.5 * a_) if b_ == 0 else (b_ + 0.5))
                            n0 = len(d)
                            full_obs(d, shape)                                # every query once
                            d.prune(min_delta=delta * a_)
                            diff = compare_fresh(d, shape)
                            removed = n0 - len(d)
                        except Exception as e:
                            ctx.oracle_failure(info, ['raised %r' % (e,)])
                            continue
                        ctx.count('junction_with_parent_histories')
                        ctx.case_done(None, ('junction', tuple(arr.ravel().tolist()), delta) if removed > 0 else None)
                        if n0 != 6:
                            ctx.oracle_failure(info, ['the corpus image no longer gives six structures (%d): generator out of date' % n0])
                        if diff:
                            ctx.oracle_failure(info, ['after compute, every query and prune(min_delta=%r) the live dendrogram differs from a freshly constructed one in: %s' % (delta * a_, diff[:5])])


def tied_trunk_stream(ctx):
    """Several parentless structures with equal peaks (their creation order is not their identifier order): a layout
    asked for before a prune that removes nothing must still be the layout of a fresh dendrogram afterwards."""
    from astrodendro import Dendrogram
    rng = ctx.rng('c14-ties')
    for it in range(80 if ctx.quick else 800):
        k = rng.randint(2, 5)
        peak = rng.randint(3, 9)
        row = [0]
        for _ in range(k):
            w = rng.randint(1, 3)
            isl = [rng.randint(1, peak - 1) for _ in range(w)]
            isl[rng.randrange(w)] = peak if rng.random() < 0.8 else rng.randint(1, peak)
            row += isl + [0]
        arr = np.array(row, dtype=float)
        if rng.random() < 0.4:
            arr = np.vstack([arr, np.zeros_like(arr)])
        if rng.random() < 0.6:
            # vertical strips separated by empty columns, the (equal) peaks at different heights: the strip whose peak
            # comes first in the flattened array is not the one with the smallest pixel index
            nrow = rng.randint(2, 4)
            arr = np.zeros((nrow, 2 * k + 1))
            for j in range(k):
                col = [rng.randint(1, peak - 1) for _ in range(nrow)]
                col[rng.randrange(nrow)] = peak
                arr[:, 2 * j + 1] = col
        shape = tuple(arr.shape)
        history = []
        try:
            d = Dendrogram.compute(arr, min_value=0)
            for _ in range(rng.randint(1, 3)):
                op = rng.choice(['plotter', 'prune-noop', 'newick', 'prune-noop'])
                history.append(op)
                if op == 'plotter':
                    d.plotter()
                elif op == 'newick':
                    d.to_newick()
                else:
                    d.prune(min_npix=rng.choice([0, 1]))
            diff = compare_fresh(d, shape)
        except Exception as e:
            ctx.oracle_failure({'stream': 'tied trunk peaks', 'data': arr.tolist(), 'history': history}, ['raised %r' % (e,)])
            continue
        ctx.count('tied_trunk_histories')
        ctx.case_done(None, ('tied', tuple(arr.ravel().tolist()), str(history)))
        if diff:
            ctx.oracle_failure({'stream': 'tied trunk peaks', 'data': arr.tolist(), 'history': history},
                               ['after %s the live dendrogram differs from a freshly constructed one in: %s' % (history, diff[:5])])


def tied_peaks_stream(ctx):
    """Images with few distinct values: several pixels share a subtree's maximum, so which one get_peak reports
    depends on the current children.  Peaks read before a prune must not survive it; a file written before a prune
    by a user criterion alone (the recorded parameters do not move) must not be what the next save writes."""
    from astrodendro import Dendrogram
    rng = ctx.rng('c14-tied-peaks')
    for it in range(700 if ctx.quick else 7000):
        shape = rng.choice([(3, 3), (3, 4), (4, 4), (3, 5), (2, 6), (1, 12), (5, 5), (5, 5), (5, 6)])
        top = rng.choice([3, 4, 6]) if shape[0] < 5 else 6
        vals = [rng.randint(1, top) for _ in range(shape[0] * shape[1])]
        arr = np.array(vals, dtype=float).reshape(shape)
        if rng.random() < 0.5:
            # a junction pixel with three or four arms of one or two pixels whose peaks tie: removing a one-pixel
            # arm changes which of the tied pixels is the peak of the branch
            shape = (5, 5)
            arr = np.zeros(shape)
            arr[2, 2] = 5
            arms = [[(1, 2), (0, 2)], [(2, 1), (2, 0)], [(2, 3), (2, 4)], [(3, 2), (4, 2)]]
            rng.shuffle(arms)
            for arm in arms[:rng.randint(3, 4)]:
                pk = rng.choice([9, 9, 8])
                if rng.random() < 0.5:
                    arr[arm[0]] = pk
                else:
                    arr[arm[0]], arr[arm[1]] = rng.choice([6, 7]), pk
            vals = [int(x) for x in arr.ravel()]
        if it % 12 == 0:
            # corpus: a branch with three children that absorbs one of them and is then moved up within the same prune
            # (found by a reviewer's change that kept cached levels); all orientations, values rescaled
            base_ = np.array([[6, 3, 5, 5, 1], [6, 3, 3, 5, 4], [6, 3, 3, 6, 3], [1, 2, 5, 3, 6], [6, 2, 6, 2, 2]], dtype=float)
            if rng.random() < 0.5:
                base_ = base_.T
            base_ = base_[::rng.choice([1, -1]), ::rng.choice([1, -1])]
            arr = np.ascontiguousarray(base_) * rng.choice([1, 2, 3]) + rng.choice([0, 1, 5])
            shape = (5, 5)
            vals = [int(x) for x in arr.ravel()]
        history = []
        info = {'stream': 'tied peaks', 'shape': list(shape), 'data': vals}
        try:
            d = Dendrogram.compute(arr, min_value=0)
            n0 = len(d)
            for k in range(rng.randint(1, 3)):
                pre = rng.choice(['peaks', 'peaks', 'saveload', 'newick', 'nothing'])
                if pre == 'peaks':
                    for s in d:
                        s.get_peak(subtree=True)
                elif pre == 'saveload':
                    dc.save_load(d, rng.choice(['hdf5', 'fits']))
                elif pre == 'newick':
                    d.to_newick()
                history.append(pre)
                kind = rng.choice(['delta', 'npix', 'user']) if shape[0] < 5 else rng.choice(['npix', 'npix', 'delta'])
                if it % 12 == 0 and k == 0:
                    kind = 'npix'
                if kind == 'delta':
                    kw = {'min_delta': rng.randint(1, 2)}
                elif kind == 'npix':
                    kw = {'min_npix': rng.randint(2, 3) if not (it % 12 == 0 and k == 0) else 2}
                else:
                    t = rng.randint(2, top)
                    kw = {'is_independent': lambda structure, index=None, value=None, t=t: structure.vmax >= t}
                d.prune(**kw)
                history.append('prune(%s)' % (', '.join('%s=%s' % (a, b if a != 'is_independent' else 'vmax >= %d' % t) for a, b in kw.items())))
                if rng.random() < 0.5:
                    d2 = dc.save_load(d, rng.choice(['hdf5', 'fits']))
                    a, b = full_obs(d, shape), full_obs(d2, shape)
                    diff = [k2 for k2 in a if a[k2] != b.get(k2)]
                    history.append('saveload')
                    if diff:
                        ctx.oracle_failure(dict(info, history=history), ['a file saved at this point loads back to a dendrogram that differs in %s' % diff[:4]])
                        break
            diff = compare_fresh(d, shape)
        except Exception as e:
            ctx.oracle_failure(dict(info, history=history), ['raised %r' % (e,)])
            continue
        ctx.count('tied_peak_histories')
        ctx.case_done(None, ('tiedpeaks', tuple(vals), shape, str(history)) if len(d) < n0 else None)
        if diff:
            ctx.oracle_failure(dict(info, history=history),
                               ['after %s the live dendrogram differs from a freshly constructed one in: %s' % (history, diff[:5])])


def same_file_stream(ctx):
    """One file name used again: d is saved, the file is loaded (e), d is pruned and saved to the same name.  e is a
    dendrogram of its own - what it reports must not move - and the file now loads back to the pruned d.  Also a prune
    refused under warnings-as-errors (a less strict parameter) in the middle: whatever it raises, the dendrogram it
    leaves behind equals a freshly constructed one."""
    import warnings
    from astrodendro import Dendrogram
    rng = ctx.rng('c14-same-file')
    tmp = tempfile.mkdtemp(prefix='verif-c14-same-', dir=dc.SCRATCH)
    try:
        for it in range(40 if ctx.quick else 400):
            shape = rng.choice([(3, 4), (4, 4), (2, 6), (12,)])
            vals = [rng.randint(1, 9) for _ in range(int(np.prod(shape)))]
            arr = np.array(vals, dtype=float).reshape(shape)
            fmt = rng.choice(['fits', 'hdf5'])
            path = os.path.join(tmp, 'shared.' + fmt)
            info = {'stream': 'one file name used again', 'shape': list(shape), 'data': vals, 'format': fmt}
            fails = []
            try:
                d = Dendrogram.compute(arr, min_value=0, min_delta=rng.choice([0, 1]))
                d.save_to(path)
                e = Dendrogram.load_from(path)
                def seen(x):
                    o_ = full_obs(x, shape)
                    o_['index_map'] = np.array(x.index_map).tolist()
                    o_['data'] = np.array(x.data).tolist()
                    o_['structure_at'] = [getattr(x.structure_at(np.unravel_index(p_, shape)), 'idx', None) for p_ in range(int(np.prod(shape)))]
                    return o_
                e_before = seen(e)
                if rng.random() < 0.5 and float(d.params['min_delta']) > 0:
                    with warnings.catch_warnings():
                        warnings.simplefilter('error')
                        try:
                            d.prune(min_delta=float(d.params['min_delta']) / 2, min_npix=2)
                        except Exception:
                            pass
                    diff = compare_fresh(d, shape)
                    if diff:
                        fails.append('after a prune that was refused under warnings-as-errors the dendrogram differs from a freshly constructed one in %s' % diff[:4])
                d.prune(min_npix=rng.randint(2, 3))
                d.save_to(path)
                if seen(e) != e_before:
                    a_, b_ = e_before, seen(e)
                    fails.append('the dendrogram loaded from the file earlier changed when the file was written again: %s' % [k for k in a_ if a_[k] != b_.get(k)][:4])
                d2 = Dendrogram.load_from(path)
                a_, b_ = full_obs(d, shape), full_obs(d2, shape)
                if a_ != b_:
                    fails.append('the file written the second time loads back to a dendrogram that differs in %s' % [k for k in a_ if a_[k] != b_.get(k)][:4])
            except Exception as ex:
                fails.append('raised %r' % (ex,))
            finally:
                if os.path.exists(path):
                    os.remove(path)
            ctx.count('same_file_histories')
            ctx.case_done(None, ('same-file', it))
            if fails:
                ctx.oracle_failure(info, fails[:3])
    finally:
        shutil.rmtree(tmp, ignore_errors=True)


def explore(ctx):
    junction_with_parent_stream(ctx)
    tied_trunk_stream(ctx)
    tied_peaks_stream(ctx)
    same_file_stream(ctx)
    rng = ctx.rng('c14')
    terms, meta = [], []
    tmpdir = tempfile.mkdtemp(prefix='verif-c14-', dir=dc.SCRATCH)
    try:
        n = 700 if ctx.quick else 7000
        for it in range(n):
            c = dc.tree_rich_case(rng)
            c['crit'] = []
            try:
                d = impl.run_compute(c)
            except Exception as e:
                ctx.oracle_failure(c, ['compute raised %r' % (e,)])
                continue
            shape = tuple(c['shape'])
            forest0 = tie.coq_forest(d, c)
            history, coq_ops, coq_obs = [], [], []
            queried, pruned_after_query = False, False
            plotter = None
            bad = None
            nsteps = rng.randint(3, 12)
            for k in range(nsteps):
                structs = list(d._structures_dict.values())
                trunk_before, newick_before, iter_before = [int(s.idx) for s in d.trunk], d.to_newick(), [int(s.idx) for s in d]
                op = rng.choice(['level', 'descendants', 'npix', 'peak', 'ancestor', 'mask', 'newick', 'to_newick',
                                 'prune', 'prune', 'saveload', 'plotter', 'plotter_reuse', 'lines'])
                try:
                    if op in ('level', 'descendants', 'npix', 'peak', 'ancestor', 'mask', 'newick') and structs:
                        s = rng.choice(structs)
                        queried = True
                        if op == 'level':
                            v = int(s.level)
                            coq_ops.append('QLevel %s' % cz(s.idx)); coq_obs.append('EZ %s' % cz(v))
                        elif op == 'descendants':
                            v = [int(x.idx) for x in s.descendants]
                            coq_ops.append('QDesc %s' % cz(s.idx)); coq_obs.append('EL %s' % clist(v))
                        elif op == 'npix':
                            v = int(s.get_npix(subtree=True))
                            coq_ops.append('QNpix %s' % cz(s.idx)); coq_obs.append('EZ %s' % cz(v))
                        elif op == 'peak':
                            po, ps = s.get_peak(subtree=False), s.get_peak(subtree=True)
                            coq_ops.append('QPeak %s' % cz(s.idx))
                            coq_obs.append('EP ((%s, %s), (%s, %s))' % (cz(impl.ravel(shape, po[0])), cz(tie.to_scaled(po[1], c)),
                                                                       cz(impl.ravel(shape, ps[0])), cz(tie.to_scaled(ps[1], c))))
                        elif op == 'ancestor':
                            s.ancestor
                        elif op == 'mask':
                            s.get_mask(subtree=rng.random() < 0.5)
                        else:
                            s.newick
                        history.append([op, int(s.idx)])
                    elif op == 'to_newick':
                        d.to_newick()
                        history.append([op])
                    elif op == 'prune':
                        step = dc.rand_prune_step(rng, c)
                        nb = len(d)
                        # the criteria list this call will use, for the Coq model
                        pb = tie.params_scaled(d, c)
                        kw = dc.prune_kwargs(c, step)
                        peek = rng.random() < 0.3
                        if peek:
                            # a user criterion that accepts everything but looks at cached quantities while the
                            # tree is being rewritten
                            def peeking(structure, index=None, value=None):
                                structure.level, structure.descendants, structure.get_npix(), structure.ancestor
                                if structure.parent is not None:
                                    structure.parent.level, structure.parent.descendants
                                return True
                            cur = kw.get('is_independent')
                            kw['is_independent'] = ([] if cur is None else (list(cur) if isinstance(cur, (list, tuple)) else [cur])) + [peeking]
                        d.prune(**kw)
                        if queried and len(d) < nb:
                            pruned_after_query = True
                        eff_d = step.get('delta', 0) or pb[0]
                        eff_n = step.get('npix', [0, 1]) if step.get('npix', [0, 1])[0] != 0 else list(pb[1])
                        cs = ['MinDelta %s' % cz(eff_d), 'MinNpix %s %s' % (cz(eff_n[0]), cz(eff_n[1]))] + [tie.coq_one_crit(x) for x in step.get('crit', [])]
                        coq_ops.append('OPrune [%s]' % '; '.join(cs))
                        coq_obs.append('EF %s' % tie.coq_structs(impl.structs_view(d, shape)))
                        history.append(['prune', step] + (['with a criterion that reads level/descendants/npix'] if peek else []))
                    elif op == 'saveload':
                        fmt = rng.choice(['hdf5', 'fits'])
                        d2 = dc.save_load(d, fmt)
                        a, b = full_obs(d, shape), full_obs(d2, shape)
                        diff = [k2 for k2 in a if a[k2] != b.get(k2)]
                        history.append(['saveload', fmt])
                        if diff:
                            bad = ['a file saved at this point loads back to a dendrogram that differs in %s' % diff[:4]]
                    elif op == 'plotter':
                        plotter = d.plotter()
                        if rng.random() < 0.5:
                            # what a script does with its plotter (another order, hand-made positions) is that plotter's
                            # business: the next d.plotter() is a new one in the default layout
                            if rng.random() < 0.5:
                                plotter.sort(reverse=True)
                            else:
                                plotter.sort(sort_key=lambda s_: float(s_.vmin))
                            history.append([op, 're-sorted by the caller'])
                            plotter = None
                        else:
                            history.append([op])
                    elif op == 'lines' and structs:
                        # drawing a structure with its subtree must not disturb what the structures report
                        s = rng.choice(structs)
                        pl = d.plotter()
                        pl.get_lines(structures=rng.choice([s, [s], s.idx, [int(s.idx)]]), subtree=True)
                        history.append([op, int(s.idx)])
                    elif op == 'plotter_reuse' and plotter is not None:
                        plotter.sort()
                        pos = sorted((int(s.idx), round(float(x), 9)) for s, x in plotter._cached_positions.items())
                        if pos != full_obs(fresh_copy(d), shape)['positions']:
                            bad = ['re-sorted plotter layout differs from the layout of a fresh dendrogram']
                        history.append([op])
                except Exception as e:
                    bad = ['operation %s raised %r' % (op, e)]
                if bad is None and op != 'prune':
                    # a query (attribute, Newick text, file, plotter, line collection) leaves the dendrogram as it was
                    now = ([int(s.idx) for s in d.trunk], d.to_newick(), [int(s.idx) for s in d])
                    if now != (trunk_before, newick_before, iter_before):
                        bad = ['operation %s changed the trunk order / Newick text / iteration order: %s -> %s' % (op, (trunk_before, newick_before), now[:2])]
                # observing warms every cache of the live dendrogram, so the complete comparison is
                # made at the end of the history and only occasionally in between
                if bad is None and (k == nsteps - 1 or rng.random() < 0.12):
                    try:
                        diff = compare_fresh(d, shape)
                        if diff:
                            bad = ['after %s the live dendrogram differs from a freshly constructed one in: %s' % (history[-1] if history else op, diff[:5])]
                    except Exception as e:
                        bad = ['observing the dendrogram raised %r' % (e,)]
                if bad:
                    break
            ctx.count('histories')
            key = (tuple(c['vals']), shape, str(history)) if pruned_after_query else None
            ctx.case_done(c, key, sample={'case': c, 'history': history} if key else None)
            if bad:
                ctx.oracle_failure({'case': c, 'history': history}, bad)
                continue
            if coq_ops:
                terms.append('(%s, [%s], [%s])' % (forest0, '; '.join(coq_ops), '; '.join(coq_obs)))
                meta.append({'case': c, 'history': history})
    finally:
        shutil.rmtree(tmpdir, ignore_errors=True)
    mism, errs = common.run_coq_shards('c14_cache', HEADER, terms, 'mismatches cache_ok', shard=120, ctype='cache_case')
    ctx.errors.extend(errs)
    for i in mism[:5]:
        ctx.tie_mismatch('history of cached queries and prunes (Cache.run_ops)', meta[i], None, None)


def matches_known(k, case, fails, extra):
    return False


def replay(path):
    import json
    r = json.load(open(path))
    print(json.dumps(r, indent=1)[:4000])
    return 1
