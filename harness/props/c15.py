"""C15 — compute is a pure, deterministic function of values and parameters."""
import copy, io, contextlib, os, tempfile, shutil
import numpy as np
from .. import common, impl, gen, tie, oracles
from . import compute_common as cc
from . import dendro_common as dc
from .c01 import ASSUMPTIONS, TRUSTED
from astrodendro import Dendrogram, pruning
from astrodendro.structure import Structure

RULE = ('cases with small integer values (ties frequent); reference = float64 C-ordered compute, tied to the Coq model; '
        'variants: int8..int64, uint8..uint32, float32/64, big-endian dtypes, C / Fortran / transposed / strided / '
        'read-only layouts, copies, repeated calls, verbose on, a criteria list object reused across calls, interleaved '
        'operations on other dendrograms (compute with stricter parameters, prune, newick, save/load, plotter); every '
        'variant must give identical ids, parents, child order, label map and Newick text, and leave the input bytes '
        'unchanged; non-trivial = at least two structures and a tie among kept values')
EXPLANATION = ('Theorems in props/C15.v (order determined by the values incl. tie-break; exactness of fixed-width values; '
               'legacy overflow refutation) + compute tie of the reference run + differential oracle over dtypes, layouts '
               'and histories')

DTYPES = ['int8', 'int16', 'int32', 'int64', 'uint8', 'uint16', 'uint32', 'float32', 'float64', '>f8', '>f4', '>i4', '<i2']


def observe(d, shape):
    return (impl.structs_view(d, shape), [int(x) for x in d.index_map.ravel().tolist()], d.to_newick(),
            [s.idx for s in d.trunk])


def make_array(vals, shape, dt, layout):
    arr = np.array(vals, dtype=np.dtype(dt)).reshape(shape)
    if layout == 'F':
        arr = np.asfortranarray(arr)
    elif layout == 'T' and len(shape) >= 2:
        arr = np.ascontiguousarray(arr.T).T
    elif layout == 'strided':
        big = np.zeros(tuple(2 * s for s in shape), dtype=arr.dtype)
        sl = tuple(slice(1, None, 2) for _ in shape)
        big[sl] = arr
        arr = big[sl]
    elif layout == 'readonly':
        arr.setflags(write=False)
    return arr


def other_operations(rng, tmpdir):
    """Things done to OTHER dendrograms before the call under test."""
    a = np.array([[3, 1, 4, 1], [5, 9, 2, 6], [5, 3, 5, 8]], dtype=float)
    crit = [pruning.min_peak(2)]
    d = Dendrogram.compute(a, min_delta=rng.choice([0, 1, 3]), min_npix=rng.choice([0, 2]), is_independent=crit)
    ops = rng.sample(['prune', 'newick', 'save', 'plot', 'levels'], rng.randint(1, 4))
    for op in ops:
        if op == 'prune':
            d.prune(min_delta=2, min_npix=2)
        elif op == 'newick':
            d.to_newick()
        elif op == 'levels':
            [(s.level, s.descendants, s.get_peak(), s.get_npix()) for s in d]
        elif op == 'save':
            p = os.path.join(tmpdir, 'other.hdf5')
            d.save_to(p)
            Dendrogram.load_from(p)
        elif op == 'plot':
            d.plotter()
    return ops


def narrow_arithmetic_stream(ctx):
    """The same values held in a narrow and in a wide type, where differences of two pixels do not fit the narrow type
    (int8 / int16 spread over their whole range) or are not exact in it (float32 values next to a decimal min_delta):
    the dendrograms must be identical (differential, no model)."""
    rng = ctx.rng('c15-narrow')
    for it in range(160 if ctx.quick else 1600):
        n = rng.randint(3, 10)
        mode = rng.choice(['int8', 'int16', 'float32', 'float32', 'fractional threshold', 'decimal threshold', 'decimal threshold'])
        if mode == 'decimal threshold':
            # single / half precision pixels (native or big-endian, as FITS files deliver them) that sit right at a decimal
            # threshold: np.float32(0.1) is above 0.1, np.float32(0.7) below 0.7 - the float64 copy of the same numbers is
            # the reference
            dt = rng.choice(['float32', '>f4', '>f4', '>f4', '<f4', 'float16', '>f2', '>f2'])
            ks = [rng.randint(0, 12) for _ in range(n)]
            vals = [float(np.dtype(dt).type(k * 0.1)) for k in ks]
            kw = {'min_value': 0.1 * rng.choice(ks), 'min_delta': rng.choice([0, 0.1, 0.3])}
            narrow, wide = np.array(vals, dtype=dt), [np.array(vals, dtype='float64')]
            mode = 'decimal threshold/' + dt
        elif mode == 'fractional threshold':
            # signed integers around zero with a fractional threshold (a float, as 0.5 * sigma would be): the float copy
            # of the same numbers is the reference
            dt = rng.choice(['int8', 'int16', 'int32', 'int64'])
            vals = [rng.randint(-5, 6) for _ in range(n)]
            kw = {'min_value': rng.choice([np.float64, np.float32, float])(rng.choice([-2.5, -0.5, -3.25, 0.5, -1.75, 2.5])), 'min_delta': rng.choice([0, 1, 2])}
            narrow, wide = np.array(vals, dtype=dt), [np.array(vals, dtype='float64')]
        elif mode in ('int8', 'int16'):
            info = np.iinfo(mode)
            vals = [rng.randint(int(info.min) + 1, int(info.max)) for _ in range(n)]
            kw = {'min_value': int(info.min), 'min_delta': rng.choice([0, 1, rng.randint(1, int(info.max)), rng.randint(int(info.max), 2 * int(info.max))])}
            narrow, wide = np.array(vals, dtype=mode), [np.array(vals, dtype='int64'), np.array(vals, dtype='float64')]
        else:
            dl = rng.choice([0.7, 0.3, 0.1, 1.1, 0.2, 0.6])
            vals = [float(np.float32(rng.randint(0, 20) * 0.1)) for _ in range(n)]
            kw = {'min_value': -1.0, 'min_delta': dl}
            narrow, wide = np.array(vals, dtype='float32'), [np.array(vals, dtype='float64')]
        shape = (n,)
        try:
            ref = observe(Dendrogram.compute(wide[0], **kw), shape)
            got = [observe(Dendrogram.compute(a, **kw), shape) for a in [narrow] + wide[1:]]
        except Exception as e:
            ctx.oracle_failure({'stream': 'narrow arithmetic', 'dtype': mode, 'vals': vals, 'kw': str(kw)}, ['compute raised %r' % (e,)])
            continue
        ctx.count('narrow_arithmetic/%s' % mode)
        ctx.case_done(None, ('narrow', mode, tuple(vals), str(kw)) if len(ref[0]) >= 2 else None)
        if any(g != ref for g in got):
            ctx.oracle_failure({'stream': 'narrow arithmetic', 'dtype': mode, 'vals': vals, 'kw': str(kw)},
                               ['the same values as %s and as %s give different dendrograms: %s vs %s' % (mode, wide[0].dtype, got[0][0], ref[0])])


def foreign_stdout_case(ctx):
    """verbose=True in a process whose standard output, at the time astrodendro was imported, was a stream that has been
    closed since (an import under output capture): the result is that of verbose=False.  One subprocess."""
    import subprocess, sys, json
    code = r'''
import io, contextlib, sys, json
buf = io.StringIO()
with contextlib.redirect_stdout(buf):
    import astrodendro
    from astrodendro import Dendrogram
buf.close()
import numpy as np
a = np.array([[1., 5., 2., 7., 1.], [2., 1., 6., 1., 3.]])
out = {}
for verbose in (False, True):
    try:
        d = Dendrogram.compute(a, min_value=0.5, verbose=verbose)
        out[str(verbose)] = [d.index_map.tolist(), d.to_newick()]
    except Exception as e:
        out[str(verbose)] = 'raised %r' % (e,)
sys.stderr.write('RESULT ' + json.dumps(out) + '\n')
'''
    env = dict(os.environ, PYTHONPATH=common.REPO, MPLBACKEND='Agg')
    p = subprocess.run([sys.executable, '-c', code], capture_output=True, text=True, env=env, timeout=300)
    line = [l for l in p.stderr.splitlines() if l.startswith('RESULT ')]
    ctx.count('foreign_stdout_case')
    ctx.case_done(None, ('foreign-stdout',))
    if not line:
        ctx.oracle_failure({'stream': 'stdout closed after import'}, ['the subprocess gave no result: %s' % p.stderr[-500:]])
        return
    out = json.loads(line[0][7:])
    if out['True'] != out['False']:
        ctx.oracle_failure({'stream': 'stdout closed after import', 'data': [[1, 5, 2, 7, 1], [2, 1, 6, 1, 3]]},
                           ['compute(verbose=True) gives %s, compute(verbose=False) %s' % (out['True'], out['False'])])
    # a terminal (or log file) that only takes ASCII / Latin-1
    code2 = r'''
import sys, json
import numpy as np
from astrodendro import Dendrogram
a = np.array([[1., 5., 2., 7., 1.], [2., 1., 6., 1., 3.]])
out = {}
for verbose in (False, True):
    try:
        d = Dendrogram.compute(a, min_value=0.5, verbose=verbose)
        out[str(verbose)] = [d.index_map.tolist(), d.to_newick()]
    except Exception as e:
        out[str(verbose)] = 'raised %r' % (e,)
sys.stderr.write('RESULT ' + json.dumps(out) + '\n')
'''
    for enc in ('ascii', 'latin-1'):
        p = subprocess.run([sys.executable, '-c', code2], capture_output=True, text=True, env=dict(env, PYTHONIOENCODING=enc), timeout=300)
        line = [l for l in p.stderr.splitlines() if l.startswith('RESULT ')]
        ctx.count('foreign_stdout_case')
        ctx.case_done(None, ('stdout-encoding', enc))
        if not line:
            ctx.oracle_failure({'stream': 'stdout encoding ' + enc}, ['the subprocess gave no result: %s' % p.stderr[-500:]])
            continue
        out = json.loads(line[0][7:])
        if out['True'] != out['False']:
            ctx.oracle_failure({'stream': 'stdout encoding ' + enc, 'data': [[1, 5, 2, 7, 1], [2, 1, 6, 1, 3]]},
                               ['compute(verbose=True) gives %s, compute(verbose=False) %s' % (out['True'], out['False'])])


def verbose_sizes_stream(ctx):
    """verbose=True shows progress in steps of 100 pixels: arrays with exactly 1, 99, 100, 101, 199, 200, 201, 300 pixels
    above the threshold give the dendrogram verbose=False gives."""
    rng = ctx.rng('c15-verbose-sizes')
    for nkeep in [1, 2, 99, 100, 101, 199, 200, 201, 300] + ([] if ctx.quick else [400, 500, 1000]):
        n = nkeep + rng.randint(0, 7)
        vals = [rng.randint(1, 50) for _ in range(nkeep)] + [0] * (n - nkeep)
        rng.shuffle(vals)
        arr = np.array(vals, dtype=float)
        try:
            a = Dendrogram.compute(arr, min_value=0.5, verbose=False)
            with contextlib.redirect_stdout(io.StringIO()):
                b = Dendrogram.compute(arr, min_value=0.5, verbose=True)
            same = observe(a, (n,)) == observe(b, (n,))
            fails = [] if same else ['%d pixels above the threshold: verbose=True gives another dendrogram (%d vs %d structures)' % (nkeep, len(b), len(a))]
        except Exception as e:
            fails = ['raised %r' % (e,)]
        ctx.count('verbose_sizes')
        ctx.case_done(None, ('verbose-size', nkeep))
        if fails:
            ctx.oracle_failure({'stream': 'verbose sizes', 'pixels_above_threshold': nkeep, 'data': vals if n <= 120 else '(%d values)' % n}, fails)


def explore(ctx):
    narrow_arithmetic_stream(ctx)
    foreign_stdout_case(ctx)
    verbose_sizes_stream(ctx)
    from . import grid_common
    grid_common.reused_adjacency_stream(ctx, 100 if ctx.quick else 1000)
    rng = ctx.rng('c15')
    cases, refs = [], []
    tmpdir = tempfile.mkdtemp(prefix='verif-c15-', dir=dc.SCRATCH)
    try:
        n = 800 if ctx.quick else 8000
        for it in range(n):
            c = gen.rand_case(rng, maxpix=30, dtype='float64', allow_user=True, scale=0)
            # small non-negative integers so that every dtype can hold them
            lo = min(v for v in c['vals'] if v is not None)
            c['vals'] = [rng.randint(0, 6) if v is None else min(100, v - lo) for v in c['vals']]
            if c.get('minv') is not None:
                c['minv'] = max(-1, min(100, c['minv'] - lo))
            c['delta'] = min(c.get('delta', 0), 90)
            big = rng.random() < 0.15
            if big:
                # the same picture far from zero: multiples of 4 from 2**25 on are exact in float32 (spacing 4) and in
                # every 32/64-bit integer type, but 1 is absorbed there in single precision
                c['vals'] = [2 ** 25 + 4 * v for v in c['vals']]
                if c.get('minv') is not None:
                    c['minv'] = 2 ** 25 + 4 * c['minv']
                c['delta'] = 4 * c['delta']
                c['crit'] = [x for x in c.get('crit', []) if x[0] not in ('sum', 'peak')]
                ctx.count('large_magnitude_cases')
            shape = tuple(c['shape'])
            try:
                d0, obs0 = impl.compute_obs(c)
            except Exception as e:
                ctx.oracle_failure(c, ['reference compute raised %r' % (e,)])
                continue
            ref = observe(d0, shape)
            cases.append(c)
            refs.append(obs0)
            kept = [v for v in c['vals'] if c.get('minv') is None or v > c['minv']]
            key = (tuple(c['vals']), shape, c.get('minv'), c.get('delta'), str(c.get('crit'))) if (len(d0) >= 2 and len(set(kept)) < len(kept)) else None
            ctx.case_done(c, key, sample={'case': c, 'structures': len(d0)} if key else None)
            variants = []
            pool = [dt for dt in DTYPES if not big or np.dtype(dt).newbyteorder('=').name in ('float32', 'float64', 'int32', 'int64', 'uint32', 'uint64')]
            for dt in rng.sample(pool, min(5, len(pool))):
                variants.append((dt, rng.choice(['C', 'F', 'T', 'strided', 'readonly']), False, False))
            variants.append(('float64', 'C', True, False))       # verbose
            variants.append(('float64', 'C', False, True))       # after other operations
            variants.append((rng.choice(pool), rng.choice(['F', 'T', 'strided']), rng.random() < 0.3, True))
            shared_crit = None
            for dt, layout, verbose, history in variants:
                tag = {'dtype': dt, 'layout': layout, 'verbose': verbose, 'history': history}
                cv = dict(c)
                cv['dtype'] = np.dtype(dt).newbyteorder('=').name
                try:
                    arr = make_array(c['vals'], shape, dt, layout)
                    before = arr.tobytes()
                    flags = (arr.flags['C_CONTIGUOUS'], arr.flags['F_CONTIGUOUS'], arr.flags['WRITEABLE'], arr.dtype.str)
                    kw = impl.compute_kwargs(cv)
                    if isinstance(kw.get('min_value'), float) and np.dtype(dt).kind in 'iu':
                        kw['min_value'] = int(kw['min_value'])
                    if verbose:
                        kw['verbose'] = True
                    ops = None
                    if history:
                        ops = other_operations(rng, tmpdir)
                        # a criteria list object that has already been used by another compute / prune
                        if 'is_independent' in kw and isinstance(kw['is_independent'], list):
                            lst = kw['is_independent']
                            n0 = len(lst)
                            oarr = np.array(c['vals'][::-1], dtype=float).reshape(shape) + 1.0
                            other = Dendrogram.compute(oarr, min_delta=3, min_npix=2, is_independent=lst)
                            other.prune(min_delta=4, is_independent=lst)
                            if len(lst) != n0:
                                ctx.oracle_failure({'case': c, 'variant': tag}, ['compute/prune modified the caller\'s criteria list (%d -> %d entries)' % (n0, len(lst))])
                    with contextlib.redirect_stdout(io.StringIO()):
                        d = Dendrogram.compute(arr, **kw)
                        d_again = Dendrogram.compute(arr, **kw)
                    got = observe(d, shape)
                    fails = []
                    if got != ref:
                        which = [nm for nm, x, y in zip(['structures', 'label map', 'newick', 'trunk'], got, ref) if x != y]
                        fails.append('result differs from the float64 C-order reference in %s' % which)
                    if observe(d_again, shape) != got:
                        fails.append('repeating the call gives a different result')
                    if arr.tobytes() != before or flags != (arr.flags['C_CONTIGUOUS'], arr.flags['F_CONTIGUOUS'], arr.flags['WRITEABLE'], arr.dtype.str):
                        fails.append('compute modified the input array')
                    if Structure.__init__.__defaults__[0] != []:
                        fails.append('the shared default children list of Structure was mutated: %r' % (Structure.__init__.__defaults__[0],))
                    ctx.count('variant dtype=%s' % dt)
                    ctx.count('variant layout=%s' % layout)
                    if fails:
                        ctx.oracle_failure({'case': c, 'variant': tag, 'other_ops': ops}, fails)
                except Exception as e:
                    ctx.oracle_failure({'case': c, 'variant': tag}, ['compute raised %r' % (e,)])
    finally:
        shutil.rmtree(tmpdir, ignore_errors=True)
    mism, errs = tie.run_compute_tie('c15_tie', cases, refs)
    ctx.errors.extend(errs)
    for i in mism[:5]:
        ctx.tie_mismatch('compute (reference run)', cases[i], refs[i], tie.model_compute_view(cases[i], 'c15_dump'))


def matches_known(k, case, fails, extra):
    return False


def replay(path):
    import json
    r = json.load(open(path))
    print(json.dumps(r, indent=1)[:4000])
    return 1
