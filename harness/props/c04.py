"""C04 — the hierarchy equals the documented brightest-to-faintest construction."""
from .. import common, impl, gen, tie, oracles, pymodel
from . import compute_common as cc
from .c01 import ASSUMPTIONS, TRUSTED

RULE = ('all value orderings on every grid shape with up to 6 (quick) / 8 (thorough) cells, all 3-letter arrays on grids '
        'up to 7 / 9 cells with boundary parameters, structured random cases with all built-in criteria and adjacencies, '
        'decimal-fraction stream; every case: implementation vs Coq model (order, label map, ids, parents, child order, '
        'own pixels in insertion order) and vs an independent Python rendering of the construction on the recorded order; '
        'non-trivial = at least two structures')
EXPLANATION = ('Compute.v is the documented construction; props/C04.v states its case rules in closed form, sortedness of '
               'the order and uniqueness for distinct values; the correspondence check compares it with /repo on every case')


def oracle(case, d):
    """(own pixel sets, parent relation) equal the documented construction run on the
    recorded order; the recorded order is a non-increasing arrangement of the kept pixels."""
    fails = []
    shape = tuple(case['shape'])
    order = [impl.ravel(shape, c) for c in d._verif_order]
    vals = case['vals']
    kept = oracles.kept_pixels(case)
    if sorted(order) != sorted(kept):
        fails.append('processed pixels %s are not the kept pixels %s' % (sorted(order), sorted(kept)))
        return fails
    for a, b in zip(order, order[1:]):
        if vals[a] < vals[b]:
            fails.append('pixel %d (value %s) processed before brighter pixel %d (%s)' % (a, vals[a], b, vals[b]))
            return fails
    adj = oracles.ref_adjacency(case)
    trunk = pymodel.compute(case, adj, [(p, vals[p]) for p in order])
    want = pymodel.hierarchy(trunk)
    got = impl.impl_hierarchy(d, shape)
    if want != got:
        fails.append('hierarchy %s differs from the documented construction %s on the same order' % (got, want))
    # with distinct kept values the order is forced
    kv = [vals[p] for p in kept]
    if len(set(kv)) == len(kv):
        if order != sorted(kept, key=lambda p: -vals[p]):
            fails.append('distinct values but order %s is not strictly decreasing' % order)
    return fails


def explore(ctx):
    cc.explore_compute(ctx, oracle, n_random_quick=4000, n_random_thorough=40000,
                       exhaustive=(6, 7) if ctx.quick else (8, 9))
    cc.reused_criteria_stream(ctx, 150 if ctx.quick else 1500)
    from . import grid_common
    grid_common.reused_adjacency_stream(ctx, 80 if ctx.quick else 800)
    cc.infinity_tie_stream(ctx, 300 if ctx.quick else 3000, 'c04_inf_tie')
    cc.decimal_stream(ctx, 1000 if ctx.quick else 10000)
    cc.decimal_stream(ctx, 800 if ctx.quick else 8000, sum_negative=True)


def matches_known(k, case, fails, extra):
    return False


def shrink(case, fails, extra):
    if 'den' in case:
        return case

    def pred(c):
        d, _ = impl.compute_obs(c)
        return bool(oracle(c, d))
    return cc.shrink_compute(case, pred)


def replay(path):
    import json
    r = json.load(open(path))
    case = r.get('case')
    if case and 'vals' in case:
        d, obs = impl.compute_obs(case)
        fails = oracle(case, d)
        print('implementation:', obs)
        if 'den' not in case:
            print('model:', tie.model_compute_view(case, 'c04_replay'))
        print('oracle failures:', fails)
        return 1 if fails else 0
    print(json.dumps(r, indent=1)[:3000])
    return 1
